--------------------------- MODULE Actor ---------------------------
(* C12 - actor objectives of rl_blox, transcribed from their DOCUMENTED form   *)
(* on exact rationals (device D2, Exact.tla), together with their derivatives *)
(* w.r.t. the per-sample quantity the actor controls (log pi(a_i|o_i) for     *)
(* stochastic policies, the action pi(o_i) for deterministic ones) and with   *)
(* differentiable-dependency sets (stop_gradient / "computed before the       *)
(* differentiated function is entered" empties the set).                      *)
(*                                                                            *)
(* A "behaviour" is the staged choice of one test vector:                     *)
(*   ChooseKind (objective, batch size) -> ChooseParams -> ChooseRow x n      *)
(*   -> Finish (emit).                                                        *)
(* The numbers chosen are NETWORK OUTPUTS (log-probabilities, probability     *)
(* ratios, values, Q-values and their slope in the action, entropies); the    *)
(* driver realises them with table-lookup stub modules that have ONE          *)
(* parameter per sample, so the per-sample gradient coefficient is observable.*)
(*                                                                            *)
(* One operator per code section:                                             *)
(*   Weight      weights of the policy-gradient family (reinforce_gradient,   *)
(*               actor_critic_policy_gradient, a2c_policy_gradient)           *)
(*   PGLoss      stochastic_policy_gradient_pseudo_loss                       *)
(*   Surr, PolLoss, ValLoss, PPOLoss     ppo_loss                             *)
(*   PPORow      first epoch of update_ppo (old log-probs = own log-probs);   *)
(*               the use of the objective over SEVERAL epochs (reference      *)
(*               fixed at entry) is the state machine of ActorEpochs.tla      *)
(*   QVal, DPGLoss   deterministic_policy_gradient_loss (DDPG), .._sale (TD7: *)
(*               mean of the two critics), mrq_policy_loss (min + activation  *)
(*               regularisation)                                              *)
(*   SACLoss     sac_actor_loss                                               *)
(*   TempLoss    sac_exploration_loss, alpha = exp(log_alpha)                 *)
(*   ExpArg, DAlpha, EvalTempLa   the same loss as a function of its          *)
(*               PARAMETER log_alpha = a + k ln 2 over the whole meaningful   *)
(*               float32 range (kind "templa"): value and gradient are the    *)
(*               linear form  c * Exp(log_alpha)  (device D3), c exact        *)
(*   Deps / Wrt / Moved   which parameter groups an update can move           *)
(*                                                                            *)
(* kinds: pg a2c reinforce ac | ppo ppoupd | dpg td7 mrq | sac temp templa    *)
EXTENDS Exact, FiniteSets, TLC, Json

CONSTANTS EMIT,    \* TRUE: print one EMIT record per finished vector
          Kinds,   \* set of objective kinds explored
          NSet,    \* set of batch sizes
          LAT,     \* "full" | "small": value lattice
          DEV      \* "" or the name of a deviation (canaries):
                   \*   "pgsign" "nosg" "wrtall" "maxclip" "broadcast" "tempsign" "mindpg"
                   \*   "tempclip": alpha = exp(clip(log_alpha, -20, 2)) ("numerically safe" parametrisation)

VARIABLES stage,   \* "kind" | "par" | "rows" | "done"
          kind, n, par,
          rows     \* sequence of per-sample records

vars == <<stage, kind, n, par, rows>>

PGKinds  == {"pg", "a2c", "reinforce", "ac"}
PPOKinds == {"ppo", "ppoupd"}
DetKinds == {"dpg", "td7", "mrq"}
AllKinds == PGKinds \cup PPOKinds \cup DetKinds \cup {"sac", "temp", "templa"}
Full == LAT = "full"

----------------------------------------------------------------------------
(* value lattices (dyadic) *)
(* full lattice: also EXTREME parameter / input values (huge weights and advantages, a saturated policy with log pi = -64, huge *)
(* Q-values, a large temperature, a saturated tanh activation); powers of two, so float32 arithmetic stays exact          *)
WV     == IF Full THEN {I(-4096), I(-2), Q(-1, 2), Zero, One, I(3), I(4096)} ELSE {I(-2), Zero, One}      \* weights / advantages of both signs and 0
LPV    == IF Full THEN {I(-64), I(-3), I(-1), Q(-1, 2), Zero, Half} ELSE {I(-1), Q(-1, 2)}     \* log pi(a|o)
RetV   == IF Full THEN {I(-1), Zero, I(2), I(3)} ELSE {I(-1), I(2)}                    \* returns / rewards
BV     == IF Full THEN {I(-2), Zero, Half, I(3)} ELSE {Half, I(3)}                     \* baseline / value predictions
GDV    == IF Full THEN {One, Half, Q(1, 4), Zero} ELSE {One, Q(1, 4)}                  \* gamma^t
GV     == IF Full THEN {Zero, Q(1, 4), Half, One} ELSE {Half, One}                     \* gamma
RatioV == {Q(1, 4), Q(3, 4), One, Q(5, 4), I(2)}                                       \* pi / pi_old
AdvV   == IF Full THEN {I(-2), Q(-1, 2), Zero, One, I(3)} ELSE {I(-2), Zero, Half}          \* (PPO: 32-bit rationals with the 1/100 entropy coefficient leave no room for huge advantages)
EpsV   == {Q(1, 4), Half}                                                              \* clip range
ValC   == {<<I(2), Half, Zero>>, <<I(-1), I(3), Zero>>, <<Zero, Zero, One>>}           \* curated (return, value, entropy)
EntV   == {Zero, One, I(-2)}
QV     == IF Full THEN {I(-2), Zero, Half, I(3)} ELSE {I(-2), Half, I(3)}              \* Q(o, pi(o))
QHuge  == IF Full THEN {I(-4096), I(4096)} ELSE {}                                      \* huge Q-values (dpg, sac)
SV     == {I(-2), Zero, Half, One}                                                     \* dQ/da (powers of two or 0)
ActV   == {Zero, Half, I(-1)}                                                          \* pre-tanh activation (MR.Q)
ActSat == {I(-20), I(20)}                                                              \* saturated: tanh' = 0 in float32 and float64
AwV    == IF Full THEN {Zero, Q(1, 4), One} ELSE {Zero, Q(1, 4)}                       \* activation weight
AlphaV == {Zero, Half, One}                                                            \* entropy coefficient (SAC actor)
AlphaHuge == {I(1024)}
CV     == {Zero, Half, I(-1)}                                                          \* d log pi / d action of the stub policy
TAlphaV == {Half, One, I(2)}                                                           \* alpha = exp(log_alpha)
TgtV   == {I(-2), I(-1), Zero, One}                                                    \* target entropy
TLpV   == {I(-3), I(-1), Zero, Half, I(2)}
DefaultClip == Q(1, 5)

(* the temperature PARAMETER: log_alpha = a + k ln 2, a rational, k integer (device D3: ln 2 is the named constant, so that     *)
(* alpha = exp(log_alpha) = 2^k exactly when a = 0).  The lattice spans the float32 range in which alpha and the loss are      *)
(* normal numbers: the default initialisation 0, moderate values, and large positive / large negative values.                 *)
La(a, k) == [a |-> a, k |-> k]
LaDyS == {Zero, Q(5, 2), I(4), I(10), I(50), I(-12), I(-21), I(-30), I(-60)}
LaKS  == {3, 72, -30, -86}
LaDyF == LaDyS \cup {Half, Q(-1, 2), Q(3, 2), I(2), I(-3), I(-20), I(80), I(-80)}
LaKF  == LaKS \cup {1, -1, 14, -17, -29, -43, 115, -115}
LaSmall == {La(a, 0) : a \in LaDyS} \cup {La(Zero, k) : k \in LaKS}
LaFull  == {La(a, 0) : a \in LaDyF} \cup {La(Zero, k) : k \in LaKF} \cup {La(Half, 10), La(Q(-1, 4), -40)}
LaV == IF Full THEN LaFull ELSE LaSmall

ParSet(k) ==
  CASE k \in {"pg", "a2c"} -> {[none |-> TRUE]}
    [] k = "reinforce" -> [base : BOOLEAN, disc : BOOLEAN]           \* with / without baseline, with / without gamma^t
    [] k = "ac"        -> [gamma : GV]
    [] k = "ppo"       -> [eps : EpsV]
    [] k = "ppoupd"    -> {[eps |-> DefaultClip]}
    [] k = "dpg"       -> [s1 : SV]
    [] k = "td7"       -> IF Full THEN [s1 : SV, s2 : SV]
                          ELSE {[s1 |-> I(-2), s2 |-> One], [s1 |-> Zero, s2 |-> Zero], [s1 |-> Half, s2 |-> One]}
    [] k = "mrq"       -> IF Full THEN [s1 : SV, s2 : SV, aw : AwV, scale : {One, I(2)}]
                          ELSE {[s1 |-> I(-2), s2 |-> One, aw |-> Zero, scale |-> One],
                                [s1 |-> Half, s2 |-> Zero, aw |-> Q(1, 4), scale |-> I(2)],
                                [s1 |-> Zero, s2 |-> Zero, aw |-> One, scale |-> One],
                                [s1 |-> One, s2 |-> I(-2), aw |-> Q(1, 4), scale |-> I(2)]}
    [] k = "sac"       -> IF Full THEN [alpha : AlphaV \cup AlphaHuge, s1 : SV, s2 : SV, c : CV]
                          ELSE {[alpha |-> a, s1 |-> s[1], s2 |-> s[2], c |-> c] :
                                  a \in AlphaV, s \in {<<I(-2), One>>, <<One, Zero>>}, c \in {Zero, Half}}
    [] k = "temp"      -> [alpha : TAlphaV, tgt : TgtV]
    [] k = "templa"    -> [la : LaV, tgt : IF Full THEN TgtV ELSE {I(-2), Zero, One}]

RowSet(k) ==
  CASE k \in {"pg", "a2c"} -> [w : WV, lp : LPV]
    [] k = "reinforce" -> [ret : RetV, b : BV, gd : GDV, lp : LPV]
    [] k = "ac"        -> [r : RetV, v : IF Full THEN BV ELSE {Half}, vn : IF Full THEN BV ELSE {I(-2), Half}, gd : GDV, lp : LPV]
    [] k = "ppo"       -> IF Full THEN [ratio : RatioV, adv : AdvV, ret : RetV, v : BV, ent : EntV]
                          ELSE {[ratio |-> r, adv |-> a, ret |-> c[1], v |-> c[2], ent |-> c[3]] : r \in RatioV, a \in AdvV, c \in ValC}
    [] k = "ppoupd"    -> [r : RetV, v : BV, ent : {Zero, One}]
    [] k = "dpg"       -> [q : QV \cup QHuge]
    [] k = "td7"       -> [q1 : QV, q2 : QV]
    [] k = "mrq"       -> [q1 : IF Full THEN QV ELSE {Half, I(3)}, q2 : IF Full THEN QV ELSE {Half, I(-2)}, act : IF Full THEN ActV \cup ActSat ELSE ActV]
    [] k = "sac"       -> [lp : IF Full THEN LPV ELSE {I(-1), I(2)}, q1 : IF Full THEN QV \cup QHuge ELSE {Half, I(3)}, q2 : IF Full THEN QV \cup QHuge ELSE {Half, I(-2)}]
    [] k = "temp"      -> [lp : TLpV]
    [] k = "templa"    -> [lp : IF Full THEN TLpV ELSE {I(-3), Zero, I(2)}]

----------------------------------------------------------------------------
Idx(rws) == 1..Len(rws)
(* TLC evaluates [i \in S |-> e] lazily on every application; SubSeq forces it into a tuple once *)
Force(f, len) == SubSeq(f, 1, len)
MeanOver(rws, f(_)) == QMean([i \in Idx(rws) |-> f(i)])
Rng(a, b) == <<QMin(a, b), QMax(a, b)>>            \* closed interval of admissible derivative values (a kink / a tie)
Pt(a) == <<a, a>>
QMaxAbs(s) == QMaxSeq([i \in 1..Len(s) |-> QAbs(s[i])])

----------------------------------------------------------------------------
(* policy-gradient family *)
(* the weights; they are computed BEFORE the differentiated pseudo-loss is entered *)
Weight(k, p, rw) ==
  CASE k \in {"pg", "a2c"} -> rw.w
    [] k = "reinforce" -> LET b == IF p.base THEN rw.b ELSE Zero            \* R_t - v(o_t)
                              d == IF p.disc THEN rw.gd ELSE One            \* gamma^t
                          IN QMul(QSub(rw.ret, b), d)
    [] k = "ac"        -> QMul(rw.gd, QSub(QAdd(rw.r, QMul(p.gamma, rw.vn)), rw.v))   \* gamma^t (r + gamma v(o') - v(o))

(* stochastic_policy_gradient_pseudo_loss: -mean_i w_i log pi(a_i|o_i) *)
PGLoss(ws, lps) ==
  LET m == QMean([i \in 1..Len(ws) |-> QMul(ws[i], lps[i])])
  IN IF DEV = "pgsign" THEN m ELSE QNeg(m)
(* d PGLoss / d log pi(a_i|o_i): the weight is a constant *)
PGCoef(ws, i) == QNeg(QDiv(ws[i], I(Len(ws))))

EvalPG(k, p, rws) ==
  LET N   == Len(rws)
      ws  == Force([i \in Idx(rws) |-> Weight(k, p, rws[i])], N)
      lps == Force([i \in Idx(rws) |-> rws[i].lp], N)
  IN [loss |-> PGLoss(ws, lps),
      w    |-> ws,
      g    |-> [i \in Idx(rws) |-> Pt(PGCoef(ws, i))],
      mag  |-> QMaxAbs([i \in Idx(rws) |-> QMul(ws[i], lps[i])]),
      inexact |-> 0]

----------------------------------------------------------------------------
(* PPO *)
Lo(p) == QSub(One, p.eps)
Hi(p) == QAdd(One, p.eps)
S1(rw)    == QMul(rw.ratio, rw.adv)                                   \* unclipped surrogate
S2(p, rw) == QMul(QClip(rw.ratio, Lo(p), Hi(p)), rw.adv)              \* clipped surrogate
Surr(p, rw) == IF DEV = "maxclip" THEN QMax(S1(rw), S2(p, rw)) ELSE QMin(S1(rw), S2(p, rw))
(* branch selector *)
Active(p, rw) == IF QEq(S1(rw), S2(p, rw)) THEN "both"
                 ELSE IF QEq(Surr(p, rw), S1(rw)) THEN "unclipped" ELSE "clipped"
Inside(p, r)  == QLt(Lo(p), r) /\ QLt(r, Hi(p))
OnEdge(p, r)  == QEq(r, Lo(p)) \/ QEq(r, Hi(p))
Kink(p, rw)   == rw.adv # Zero /\ OnEdge(p, rw.ratio)
(* d Surr / d ratio away from kinks; at a kink any value between the one-sided derivatives *)
DSurr(p, rw) ==
  IF Kink(p, rw) THEN Rng(Zero, rw.adv)
  ELSE CASE Active(p, rw) = "unclipped" -> Pt(rw.adv)
         [] Active(p, rw) = "clipped"   -> Pt(IF Inside(p, rw.ratio) THEN rw.adv ELSE Zero)
         [] OTHER                       -> Pt(rw.adv)                 \* both branches coincide: adv = 0 or ratio strictly inside
PolLoss(p, rws) == QNeg(MeanOver(rws, LAMBDA i : Surr(p, rws[i])))
(* value term: PER-SAMPLE squared error between returns and predicted values *)
ValLossPS(rws) == MeanOver(rws, LAMBDA i : QSq(QSub(rws[i].ret, rws[i].v)))
(* deviation: returns of shape (N,) against values of shape (N,1): every return against every value *)
ValLossBC(rws) == LET N == Len(rws)
                  IN QMean([m \in 1..(N * N) |-> LET i == ((m - 1) \div N) + 1  j == ((m - 1) % N) + 1
                                                 IN QSq(QSub(rws[j].ret, rws[i].v))])
ValLoss(rws) == IF DEV = "broadcast" THEN ValLossBC(rws) ELSE ValLossPS(rws)
EntMean(rws) == MeanOver(rws, LAMBDA i : rws[i].ent)
EntCoef == Q(1, 100)
Compose(pol, val, ent) == QSub(QAdd(pol, QMul(Half, val)), QMul(EntCoef, ent))
PPOLoss(p, rws) == Compose(PolLoss(p, rws), ValLoss(rws), EntMean(rws))

(* first epoch of update_ppo: old log-probabilities are the actor's own ones (ratio == 1); all rows terminated, so *)
(* GAE gives advantage r - v and return (r - v) + v                                                               *)
PPORow(rw) == [ratio |-> One, adv |-> QSub(rw.r, rw.v), ret |-> QAdd(QSub(rw.r, rw.v), rw.v), v |-> rw.v, ent |-> rw.ent]
PPORows(k, rws) == IF k = "ppoupd" THEN Force([i \in Idx(rws) |-> PPORow(rws[i])], Len(rws)) ELSE rws

ScaleRng(r, c) == Rng(QMul(r[1], c), QMul(r[2], c))
EvalPPO(k, p, rws0) ==
  LET N   == Len(rws0)
      rws == PPORows(k, rws0)
      pol == PolLoss(p, rws)
      ent == EntMean(rws)
      meanret == MeanOver(rws, LAMBDA i : rws[i].ret)
  IN [loss |-> PPOLoss(p, rws), pol |-> pol, val |-> ValLoss(rws), ent |-> ent,
      loss_bc |-> Compose(pol, ValLossBC(rws), ent), val_bc |-> ValLossBC(rws),      \* classification of the named deviation only
      ratio |-> [i \in Idx(rws) |-> rws[i].ratio], adv |-> [i \in Idx(rws) |-> rws[i].adv],
      ret |-> [i \in Idx(rws) |-> rws[i].ret],
      active |-> [i \in Idx(rws) |-> Active(p, rws[i])],
      kink |-> [i \in Idx(rws) |-> Kink(p, rws[i])],
      \* d loss / d log pi(a_i|o_i) = ratio_i * d loss / d ratio_i
      g  |-> [i \in Idx(rws) |-> ScaleRng(DSurr(p, rws[i]), QNeg(QDiv(rws[i].ratio, I(N))))],
      \* d loss / d v(o_i)  (1/2 * mean (ret - v)^2)
      gv |-> [i \in Idx(rws) |-> QNeg(QDiv(QSub(rws[i].ret, rws[i].v), I(N)))],
      gv_bc |-> [i \in Idx(rws) |-> QNeg(QDiv(QSub(meanret, rws[i].v), I(N)))],
      \* d loss / d entropy(o_i)
      ge |-> QNeg(QDiv(EntCoef, I(N))),
      mag |-> QMaxAbs([i \in Idx(rws) |-> QAdd(QAdd(QAbs(S1(rws[i])), QAbs(S2(p, rws[i]))),
                                               QAdd(QSq(QSub(rws[i].ret, rws[i].v)), QAbs(rws[i].ent)))]),
      inexact |-> Cardinality({i \in Idx(rws) : rws[i].ratio # One}) + (IF ent = Zero THEN 0 ELSE 1)]

----------------------------------------------------------------------------
(* deterministic policy gradients and SAC: the critic's value at the policy's action and its slope in the action *)
QVal(k, rw) ==
  CASE k = "dpg" -> rw.q
    [] k = "td7" -> IF DEV = "mindpg" THEN QMin(rw.q1, rw.q2) ELSE QMul(Half, QAdd(rw.q1, rw.q2))   \* mean of the two critics
    [] k \in {"mrq", "sac"} -> QMin(rw.q1, rw.q2)                                                 \* clipped double Q
(* dQ/da at the policy's action (interval when the two critics tie) *)
QSlope(k, p, rw) ==
  CASE k = "dpg" -> Pt(p.s1)
    [] k = "td7" -> Pt(QMul(Half, QAdd(p.s1, p.s2)))
    [] k \in {"mrq", "sac"} -> IF QLt(rw.q1, rw.q2) THEN Pt(p.s1) ELSE IF QLt(rw.q2, rw.q1) THEN Pt(p.s2) ELSE Rng(p.s1, p.s2)
DPGLoss(k, rws) == QNeg(MeanOver(rws, LAMBDA i : QVal(k, rws[i])))

EvalDet(k, p, rws) ==
  LET N == Len(rws)
      dpg == DPGLoss(k, rws)
      reg == IF k = "mrq" THEN MeanOver(rws, LAMBDA i : QSq(rws[i].act)) ELSE Zero     \* mean activation^2
      aw  == IF k = "mrq" THEN p.aw ELSE Zero
      sc  == IF k = "mrq" THEN p.scale ELSE One
  IN [loss |-> QAdd(dpg, QMul(aw, reg)), dpg |-> dpg, reg |-> reg,
      qval |-> [i \in Idx(rws) |-> QVal(k, rws[i])],
      \* d loss / d action_i   (dpg, td7);   for mrq: d loss / d activation_i = g1_i * tanh'(activation_i) + g0_i
      g  |-> [i \in Idx(rws) |-> ScaleRng(QSlope(k, p, rws[i]), QNeg(QDiv(sc, I(N))))],
      g0 |-> [i \in Idx(rws) |-> IF k = "mrq" THEN QDiv(QMul(QMul(I(2), aw), rws[i].act), I(N)) ELSE Zero],
      mag |-> QAdd(QMaxAbs([i \in Idx(rws) |-> IF k = "dpg" THEN QAbs(rws[i].q) ELSE QAdd(QAbs(rws[i].q1), QAbs(rws[i].q2))]), QMul(aw, reg)),
      inexact |-> IF k = "mrq" THEN Cardinality({i \in Idx(rws) : rws[i].act # Zero}) ELSE 0]

(* sac_actor_loss: mean(alpha * log pi(a|o) - min(Q1, Q2)(o, a)), a ~ pi (reparametrised) *)
SACLoss(p, rws) == MeanOver(rws, LAMBDA i : QSub(QMul(p.alpha, rws[i].lp), QVal("sac", rws[i])))
EvalSAC(p, rws) ==
  LET N == Len(rws)
  IN [loss |-> SACLoss(p, rws),
      g  |-> [i \in Idx(rws) |-> Pt(QDiv(p.alpha, I(N)))],                              \* d loss / d log pi(a_i|o_i)
      \* d loss / d a_i = (alpha * d log pi / d a - dQ/da) / N
      ga |-> [i \in Idx(rws) |-> LET s == QSlope("sac", p, rws[i])
                                 IN Rng(QDiv(QSub(QMul(p.alpha, p.c), s[1]), I(N)), QDiv(QSub(QMul(p.alpha, p.c), s[2]), I(N)))],
      mag |-> QMaxAbs([i \in Idx(rws) |-> QAdd(QAbs(QMul(p.alpha, rws[i].lp)), QAdd(QAbs(rws[i].q1), QAbs(rws[i].q2)))]),
      inexact |-> 0]

(* sac_exploration_loss: mean(-alpha * (log pi(a|o) + target entropy)), alpha = exp(log_alpha) *)
TempLoss(p, rws) ==
  LET m == MeanOver(rws, LAMBDA i : QMul(p.alpha, QAdd(rws[i].lp, p.tgt)))
  IN IF DEV = "tempsign" THEN m ELSE QNeg(m)
TempLossAt(a, p, rws) == TempLoss([p EXCEPT !.alpha = a], rws)
EntropyEstimate(rws) == QNeg(MeanOver(rws, LAMBDA i : rws[i].lp))      \* sampled estimate of the policy's entropy
(* d loss / d log_alpha = alpha * d loss / d alpha; the loss is linear in alpha *)
TempGrad(p, rws) == QMul(p.alpha, QSub(TempLossAt(QAdd(p.alpha, One), p, rws), TempLoss(p, rws)))
Dir(g) == IF QSign(g) < 0 THEN "up" ELSE IF QSign(g) > 0 THEN "down" ELSE "stay"     \* gradient DESCENT on log_alpha
EvalTemp(p, rws) ==
  LET g == TempGrad(p, rws)
  IN [loss |-> TempLoss(p, rws), galpha |-> g, dir |-> Dir(g),
      est |-> EntropyEstimate(rws),
      cmp |-> QSign(QSub(p.tgt, EntropyEstimate(rws))),                \* 1: estimate below target
      mag |-> QMaxAbs([i \in Idx(rws) |-> QMul(p.alpha, QAdd(QAbs(rws[i].lp), QAbs(p.tgt)))]),
      inexact |-> IF p.alpha = One THEN 0 ELSE 1]

----------------------------------------------------------------------------
(* the temperature loss as a function of its PARAMETER log_alpha (EntropyCoefficient: alpha = exp(log_alpha)), at every value  *)
(* of the parameter.  Order of parameter values is decided with a rational bracket of ln 2 (fixed point, unit 1/U).            *)
U     == 65536
Ln2Dn == 45426                                       \* 45426 / 65536 < ln 2 < 45427 / 65536
Ln2Up == 45427
FlQ(q) == (q[1] * U) \div q[2]                       \* floor(q * U)   (\div floors)
ClQ(q) == 0 - ((0 - q[1] * U) \div q[2])             \* ceiling(q * U)
LaDn(la) == FlQ(la.a) + (IF la.k >= 0 THEN la.k * Ln2Dn ELSE la.k * Ln2Up)
LaUp(la) == ClQ(la.a) + (IF la.k >= 0 THEN la.k * Ln2Up ELSE la.k * Ln2Dn)
LaLt(x, y) == LaUp(x) < LaDn(y)                      \* x < y as real numbers (decided)
IMin2(a, b) == IF a < b THEN a ELSE b
IMax2(a, b) == IF a < b THEN b ELSE a
(* the "numerically safe" range of the named deviation *)
ClipLo == I(-20)
ClipHi == I(2)
Outside(la) == LaLt(La(ClipHi, 0), la) \/ LaLt(la, La(ClipLo, 0))
(* the lattice is decidable: any two parameter values are equal or ordered, and each one is a clip bound or on a known side of it *)
ASSUME /\ LaSmall \subseteq LaFull
       /\ \A x, y \in LaFull : x = y \/ LaLt(x, y) \/ LaLt(y, x)
       /\ \A x \in LaFull : \A b \in {ClipLo, ClipHi} : x = La(b, 0) \/ LaLt(x, La(b, 0)) \/ LaLt(La(b, 0), x)
       /\ FlQ(Q(-7, 2)) = 0 - 229376 /\ ClQ(Q(-7, 2)) = 0 - 229376 /\ (0 - 7) \div 2 = 0 - 4
(* alpha = Exp(ExpArg(log_alpha)): the documented parametrisation is the identity; bracket <<lower, upper>> in units of 1/U *)
ExpArg(la) == IF DEV = "tempclip" THEN <<IMax2(FlQ(ClipLo), IMin2(LaDn(la), ClQ(ClipHi))), IMax2(FlQ(ClipLo), IMin2(LaUp(la), ClQ(ClipHi)))>>
              ELSE <<LaDn(la), LaUp(la)>>
(* d ExpArg / d log_alpha *)
DAlpha(la) == IF DEV = "tempclip" /\ Outside(la) THEN Zero ELSE One
(* Exp is strictly increasing: alpha(x) < alpha(y) iff the arguments of Exp are ordered *)
AlphaLt(x, y) == ExpArg(x)[2] < ExpArg(y)[1]
(* float32 ordinals (device D4): 2^e (1 + m / 2^23) has ordinal (e + 127) 2^23 + m; ordinal + 1 is the next float32 *)
TwoP23 == 8388608
OrdOf(e, m) == (e + 127) * TwoP23 + m
(* log_alpha = k ln 2: alpha = 2^k.  The float32 parameter is k ln 2 rounded (half an ulp of a number < |k|: relative error of alpha *)
(* < |k| 2^-24, i.e. < |k| float32 steps of the finer binade below 2^k), the float32 exponential adds at most ExpUlp steps           *)
ExpUlp == 2
AlphaOrd(la) == IF la.a = Zero /\ la.k >= 0 - 126 /\ la.k <= 126
                THEN <<OrdOf(la.k, 0) - (Abs(la.k) + ExpUlp), OrdOf(la.k, 0) + (Abs(la.k) + ExpUlp)>> ELSE <<>>
(* a step size 2^LrExp that makes the step of log_alpha visible at every parameter value: 1 <= 2^LrExp * alpha < 2 (up to the bracket) *)
LrExp(la) == 0 - (LaDn(la) \div Ln2Dn)
(* sac_exploration_loss = mean(-alpha (log pi + target)) = c * Exp(ExpArg(log_alpha)) with the exact coefficient c; its derivative  *)
(* w.r.t. log_alpha is the SAME linear form times d ExpArg / d log_alpha (Exp' = Exp)                                             *)
EvalTempLa(p, rws) ==
  LET s  == MeanOver(rws, LAMBDA i : QAdd(rws[i].lp, p.tgt))
      c  == IF DEV = "tempsign" THEN s ELSE QNeg(s)
      gc == QMul(c, DAlpha(p.la))
  IN [loss |-> c,                                                      \* COEFFICIENT of Exp(ExpArg(log_alpha)) in the loss
      galpha |-> gc,                                                   \* COEFFICIENT of Exp(ExpArg(log_alpha)) in d loss / d log_alpha
      dir |-> Dir(gc),
      est |-> EntropyEstimate(rws),
      cmp |-> QSign(QSub(p.tgt, EntropyEstimate(rws))),
      rank |-> Cardinality({x \in LaFull : LaLt(x, p.la)}),            \* position of the parameter value in the ordered lattice
      arank |-> Cardinality({x \in LaFull : AlphaLt(x, p.la)}),        \* position of alpha: the same (AlphaMonotone)
      aord |-> AlphaOrd(p.la), expulp |-> ExpUlp, lrexp |-> LrExp(p.la),
      mag |-> QMaxAbs([i \in Idx(rws) |-> QAdd(QAbs(rws[i].lp), QAbs(p.tgt))]),     \* times alpha
      inexact |-> 1]

Eval(k, p, rws) ==
  CASE k \in PGKinds  -> EvalPG(k, p, rws)
    [] k \in PPOKinds -> EvalPPO(k, p, rws)
    [] k \in DetKinds -> EvalDet(k, p, rws)
    [] k = "sac"      -> EvalSAC(p, rws)
    [] k = "temp"     -> EvalTemp(p, rws)
    [] k = "templa"   -> EvalTempLa(p, rws)

----------------------------------------------------------------------------
(* differentiable dependencies: parameter groups; "computed before the differentiated function is entered" and *)
(* stop_gradient empty the set                                                                                *)
SG(s) == IF DEV = "nosg" THEN s ELSE {}
Groups(k) ==
  CASE k \in {"pg", "a2c"} -> {"actor"}
    [] k \in {"reinforce", "ac"} -> {"actor", "value_function"}
    [] k \in PPOKinds -> {"actor", "critic"}
    [] k = "dpg" -> {"actor", "critic"}
    [] k = "td7" -> {"actor", "critic", "embedding"}
    [] k = "mrq" -> {"actor", "critic", "encoder"}
    [] k = "sac" -> {"actor", "critic"}
    [] k \in {"temp", "templa"} -> {"alpha", "actor"}
(* what weights / advantages / returns / old log-probabilities are computed from *)
ConstDeps(k) ==
  CASE k \in {"reinforce", "ac"} -> {"value_function"}
    [] k = "ppoupd" -> {"actor", "critic"}
    [] OTHER -> {}
(* what the objective itself reads differentiably *)
ObjDeps(k) == IF k \in PGKinds THEN {"actor"} ELSE Groups(k)
Deps(k) == ObjDeps(k) \cup SG(ConstDeps(k))
(* the groups the update differentiates with respect to, and moves *)
Wrt(k) == IF DEV = "wrtall" THEN Groups(k)
          ELSE CASE k \in PPOKinds -> {"actor", "critic"} [] k \in {"temp", "templa"} -> {"alpha"} [] OTHER -> {"actor"}
Moved(k) == Deps(k) \cap Wrt(k)
Intended(k) == CASE k \in PPOKinds -> {"actor", "critic"} [] k \in {"temp", "templa"} -> {"alpha"} [] OTHER -> {"actor"}
ZeroGroups(k) == Groups(k) \ Deps(k)        \* exactly zero gradient of the objective (function level)
Untouched(k)  == Groups(k) \ Moved(k)       \* parameters an update step leaves bit-identical

----------------------------------------------------------------------------
Emit(e) ==
  EMIT => PrintT(<<"EMIT", ToJson([kind |-> kind, n |-> n, par |-> par, rows |-> rows, exp |-> e,
                                    zero |-> ZeroGroups(kind), untouched |-> Untouched(kind), moved |-> Moved(kind)])>>)

Init == stage = "kind" /\ kind = "" /\ n = 0 /\ par = <<>> /\ rows = <<>>

ChooseKind(k, nn) == /\ stage = "kind"
                     /\ kind' = k /\ n' = nn /\ stage' = "par"
                     /\ UNCHANGED <<par, rows>>
ChooseParams(p) == /\ stage = "par"
                   /\ par' = p /\ stage' = "rows"
                   /\ UNCHANGED <<kind, n, rows>>
ChooseRow(x) == /\ stage = "rows" /\ Len(rows) < n
                /\ rows' = Append(rows, x)
                /\ UNCHANGED <<stage, kind, n, par>>
Finish == /\ stage = "rows" /\ Len(rows) = n
          /\ stage' = "done"
          /\ UNCHANGED <<kind, n, par, rows>>
          /\ Emit(Eval(kind, par, rows))

Next == \/ \E k \in Kinds, nn \in NSet : ChooseKind(k, nn)
        \/ (stage = "par" /\ \E p \in ParSet(kind) : ChooseParams(p))
        \/ (stage = "rows" /\ Len(rows) < n /\ \E x \in RowSet(kind) : ChooseRow(x))
        \/ Finish

Spec == Init /\ [][Next]_vars

----------------------------------------------------------------------------
(* Properties (C12), evaluated on finished vectors *)
Done == stage = "done"
TypeOK == /\ stage \in {"kind", "par", "rows", "done"}
          /\ Len(rows) <= n
          /\ (stage # "kind" => kind \in AllKinds)

H == Q(1, 8)                                         \* probe step: smaller than every gap of the lattice (32-bit rationals: keep it coarse)
E(k, rws) == Eval(k, par, rws)
InRng(x, r) == QLe(r[1], x) /\ QLe(x, r[2])

(* the weights are constants of the differentiated function *)
WeightsConstant == stage = "kind" \/ SG(ConstDeps(kind)) = {}
(* an update moves nothing but the parameters it is meant to train *)
GradSupport == stage = "kind" \/ Moved(kind) \subseteq Intended(kind)

(* policy-gradient family: the pseudo-loss is linear in the log-probabilities with coefficient -w_i/N, and raising *)
(* the log-probability of a positively weighted sample lowers it                                                  *)
PGLinear ==
  (Done /\ kind \in PGKinds) =>
    LET e == E(kind, rows)
    IN /\ e.loss = QSum([i \in Idx(rows) |-> QMul(e.g[i][1], rows[i].lp)])
       /\ \A i \in Idx(rows) : /\ e.g[i][1] = e.g[i][2]
                               /\ e.g[i][1] = QNeg(QDiv(e.w[i], I(n)))
PGAscent ==
  (Done /\ kind \in PGKinds) =>
    LET e == E(kind, rows)
    IN \A i \in Idx(rows) :
         LET up == E(kind, [rows EXCEPT ![i].lp = QAdd(rows[i].lp, H)]).loss
         IN /\ (QSign(e.w[i]) > 0 => QLt(up, e.loss))
            /\ (QSign(e.w[i]) < 0 => QLt(e.loss, up))
            /\ (QSign(e.w[i]) = 0 => up = e.loss)
            /\ QSub(up, e.loss) = QMul(H, e.g[i][1])                     \* the coefficient IS the derivative

(* PPO *)
AllOne == \A i \in Idx(rows) : PPORows(kind, rows)[i].ratio = One
(* at unchanged policy parameters the gradient is that of the unclipped surrogate *)
PPOUnclippedAtOne ==
  (Done /\ kind \in PPOKinds /\ AllOne) =>
    LET e == E(kind, rows)
    IN /\ \A i \in Idx(rows) : e.g[i] = Pt(QNeg(QDiv(e.adv[i], I(n))))
       /\ e.pol = QNeg(QMean(e.adv))
(* a sample whose ratio is clipped on the side its advantage favours gives no policy gradient *)
Favoured(p, rw) == \/ (QLt(Hi(p), rw.ratio) /\ QSign(rw.adv) > 0)
                   \/ (QLt(rw.ratio, Lo(p)) /\ QSign(rw.adv) < 0)
PPOClippedZero ==
  (Done /\ kind \in PPOKinds) =>
    LET e == E(kind, rows)  rws == PPORows(kind, rows)
    IN \A i \in Idx(rows) :
         /\ (Favoured(par, rws[i]) => (e.active[i] = "clipped" /\ e.g[i] = Pt(Zero)))
         /\ (e.active[i] = "clipped" => e.g[i] = Pt(Zero))
         \* on the other side (ratio outside the range, advantage against it) the sample keeps its full gradient
         /\ ((~Favoured(par, rws[i]) /\ ~Inside(par, rws[i].ratio) /\ ~OnEdge(par, rws[i].ratio) /\ rws[i].adv # Zero)
               => (e.active[i] = "unclipped" /\ e.g[i] = Pt(QNeg(QDiv(QMul(rws[i].ratio, rws[i].adv), I(n))))))
(* the clipped objective is a pessimistic bound of the unclipped one *)
PPOPessimistic ==
  (Done /\ kind \in PPOKinds) =>
    LET rws == PPORows(kind, rows)
    IN QLe(QNeg(MeanOver(rws, LAMBDA i : S1(rws[i]))), PolLoss(par, rws))
(* the per-sample derivative is the derivative of the objective (central differences are exact on piecewise *)
(* linear / quadratic functions away from kinks)                                                            *)
CentralDiff(up, dn) == QDiv(QSub(up, dn), QMul(I(2), H))
PPODerivative ==
  (Done /\ kind = "ppo") =>
    LET e == E(kind, rows)
    IN \A i \in Idx(rows) :
         /\ (~(e.kink[i] \/ (rows[i].adv # Zero /\ OnEdge(par, rows[i].ratio))) =>
               LET d == CentralDiff(E(kind, [rows EXCEPT ![i].ratio = QAdd(rows[i].ratio, H)]).loss,
                                    E(kind, [rows EXCEPT ![i].ratio = QSub(rows[i].ratio, H)]).loss)
               IN e.g[i] = Pt(QMul(rows[i].ratio, d)))
         /\ e.gv[i] = CentralDiff(E(kind, [rows EXCEPT ![i].v = QAdd(rows[i].v, H)]).loss,
                                  E(kind, [rows EXCEPT ![i].v = QSub(rows[i].v, H)]).loss)
         /\ e.ge = CentralDiff(E(kind, [rows EXCEPT ![i].ent = QAdd(rows[i].ent, H)]).loss,
                               E(kind, [rows EXCEPT ![i].ent = QSub(rows[i].ent, H)]).loss)

(* every objective is a mean of per-sample terms (no cross terms between rows) *)
PerSample ==
  Done => LET e == E(kind, rows)
              s == Force([i \in Idx(rows) |-> E(kind, <<rows[i]>>)], n)
          IN /\ e.loss = QMean([i \in Idx(rows) |-> s[i].loss])
             /\ (kind \in PPOKinds => e.val = QMean([i \in Idx(rows) |-> s[i].val]))
             /\ (kind \in PPOKinds => \A i \in Idx(rows) : QMul(I(n), e.gv[i]) = s[i].gv[1])

(* order of the batch is irrelevant; per-sample coefficients move with their rows *)
Swap(s) == [i \in 1..Len(s) |-> IF i = 1 THEN s[2] ELSE IF i = 2 THEN s[1] ELSE s[i]]
PermutationInvariant ==
  (Done /\ n >= 2) =>
    LET e == E(kind, rows)  a == E(kind, Swap(rows))
    IN /\ a.loss = e.loss
       /\ (kind \notin {"temp", "templa"} => Swap(a.g) = e.g)

(* deterministic policy gradient / SAC: the loss falls when the value of the policy's action rises, sample by sample, *)
(* at the rate 1/N; TD7 uses the MEAN of the two critics, MR.Q and SAC the smaller one                               *)
BumpQ(k, rws, i, h) ==
  IF k = "dpg" THEN [rws EXCEPT ![i].q = QAdd(rws[i].q, h)]
  ELSE [rws EXCEPT ![i].q1 = QAdd(rws[i].q1, h), ![i].q2 = QAdd(rws[i].q2, h)]
DPGAscent ==
  (Done /\ kind \in DetKinds \cup {"sac"}) =>
    LET e == E(kind, rows)
    IN \A i \in Idx(rows) :
         /\ QSub(E(kind, BumpQ(kind, rows, i, H)).loss, e.loss) = QNeg(QDiv(H, I(n)))
         \* raising only the LARGER critic: TD7 (mean) gains half, the clipped double Q nothing
         /\ (kind # "dpg" /\ QLt(rows[i].q1, rows[i].q2) =>
               QSub(E(kind, [rows EXCEPT ![i].q2 = QAdd(rows[i].q2, H)]).loss, e.loss)
                 = IF kind = "td7" THEN QNeg(QDiv(H, I(2 * n))) ELSE Zero)
SlopeActive ==
  (Done /\ kind \in {"mrq", "sac"}) =>
    \A i \in Idx(rows) :
      LET s == QSlope(kind, par, rows[i])
      IN /\ (QLt(rows[i].q1, rows[i].q2) => s = Pt(par.s1))
         /\ (QLt(rows[i].q2, rows[i].q1) => s = Pt(par.s2))
         /\ (InRng(par.s1, s) \/ InRng(par.s2, s))
(* SAC actor: coefficient of the log-probability is alpha/N; MR.Q: regulariser is quadratic in the activation *)
SACDerivative ==
  (Done /\ kind = "sac") =>
    LET e == E(kind, rows)
    IN \A i \in Idx(rows) :
         e.g[i] = Pt(CentralDiff(E(kind, [rows EXCEPT ![i].lp = QAdd(rows[i].lp, H)]).loss,
                                 E(kind, [rows EXCEPT ![i].lp = QSub(rows[i].lp, H)]).loss))
MRQDerivative ==
  (Done /\ kind = "mrq") =>
    LET e == E(kind, rows)
    IN \A i \in Idx(rows) :
         \* in the model the Q-values are inputs: moving the activation alone moves the regulariser only
         /\ e.g0[i] = CentralDiff(E(kind, [rows EXCEPT ![i].act = QAdd(rows[i].act, H)]).loss,
                                  E(kind, [rows EXCEPT ![i].act = QSub(rows[i].act, H)]).loss)
         /\ e.loss = QAdd(e.dpg, QMul(par.aw, e.reg))

(* temperature: gradient descent on log_alpha raises alpha exactly when the sampled entropy estimate is below target *)
TempDirection ==
  (Done /\ kind = "temp") =>
    LET e == E(kind, rows)
    IN /\ (QSign(e.galpha) < 0 <=> QLt(EntropyEstimate(rows), par.tgt))
       /\ (QSign(e.galpha) = 0 <=> EntropyEstimate(rows) = par.tgt)
       /\ (e.dir = "up" <=> e.cmp = 1) /\ (e.dir = "down" <=> e.cmp = -1) /\ (e.dir = "stay" <=> e.cmp = 0)
       \* the derivative w.r.t. log_alpha is alpha times the derivative w.r.t. alpha (central difference in alpha)
       /\ e.galpha = QMul(par.alpha, CentralDiff(TempLossAt(QAdd(par.alpha, H), par, rows), TempLossAt(QSub(par.alpha, H), par, rows)))

(* the same clause at EVERY value of the parameter log_alpha: the gradient w.r.t. log_alpha is non-zero with the sign of           *)
(* (estimate - target) whenever the two differ, it is the same linear form as the loss (Exp' = Exp), and neither depends on where *)
(* in the float range the parameter lies                                                                                          *)
TempLaDirection ==
  (Done /\ kind = "templa") =>
    LET e == E(kind, rows)
    IN /\ (QSign(e.galpha) < 0 <=> QLt(EntropyEstimate(rows), par.tgt))
       /\ (QSign(e.galpha) = 0 <=> EntropyEstimate(rows) = par.tgt)
       /\ (e.dir = "up" <=> e.cmp = 1) /\ (e.dir = "down" <=> e.cmp = -1) /\ (e.dir = "stay" <=> e.cmp = 0)
       /\ e.galpha = e.loss
       /\ e.loss = QNeg(QAdd(QNeg(e.est), par.tgt))                            \* = estimate - target
       /\ \A x \in LaV : LET f == Eval(kind, [par EXCEPT !.la = x], rows)
                          IN f.dir = e.dir /\ f.galpha = e.galpha /\ f.loss = e.loss
(* alpha is strictly increasing in log_alpha (order predicate; the binding states it on float32 ordinals) *)
AlphaMonotone == stage = "kind" => \A x, y \in LaV : LaLt(x, y) => AlphaLt(x, y)
=============================================================================
