-------------------------- MODULE OptimisersCem --------------------------
(* One iteration of the cross-entropy method of                               *)
(* rl_blox.blox.cross_entropy_method: cem_sample followed by cem_update, on a  *)
(* lattice of dyadic rationals (device D2, spec/Exact.tla) on which float32    *)
(* arithmetic is exact.  The truncated-normal draw t in (-2, 2) is an INPUT    *)
(* (the harness interposes on jax.random.truncated_normal); fitness values are *)
(* rank classes with ties and +-infinity (larger is better).  The test vector  *)
(* is chosen in stages so that TLC's workers share the work.                   *)
(*                                                                            *)
(*   cem_sample:  x = mean + t * sqrt(min(var, (lbd/2)^2, (ubd/2)^2))          *)
(*   cem_update:  elites = n_elite best; mean' = a*mean + (1-a)*avg(elites)    *)
(*                                       var'  = a*var  + (1-a)*var(elites)    *)
EXTENDS Exact, FiniteSets, TLC, Json

CONSTANTS NPops,     \* population sizes explored
          Alphas,    \* set of <<num, den>>
          Lattice,   \* "full" | "small" | "tiny": size of the (box, mean, sd) lattice; "edge": the boxes of EdgeBoxes
          Fits,      \* fitness classes
          NPats,     \* number of noise patterns used
          STOP,      \* "sampled": stop after cem_sample; "updated": whole iteration
          EMIT

INF == 7
CFitInf    == {-INF, 0, 1, INF}
CFitTies   == {0, 1}
CFitThree  == {0, 1, 2}
AlphasAll  == {Q(0, 1), Q(1, 4), Q(1, 2), Q(1, 1)}
AlphasSome == {Q(1, 4), Q(1, 1)}
AlphaDefault == {Q(1, 4)}

D == 2   \* dimension 1 varies over the lattice, dimension 2 is a fixed different box
         \* (a broadcast mix-up of the two dimensions changes every number)

VARIABLES stage,    \* "config" | "dist" | "noise" | "sampled" | "fitness" | "updated"
          conf,     \* [n, ne, alpha]
          dist,     \* [lb, ub, mean, sd]: sequences over the D dimensions
          tmat,     \* tmat[i][j]: truncated-normal draw of candidate i, dimension j
          samples,  \* samples[i][j]
          fitv      \* fitness class of candidate i
vars == <<stage, conf, dist, tmat, samples, fitv>>

----------------------------------------------------------------------------
(* lattices *)
Lbs   == IF Lattice = "full" THEN {Q(-2, 1), Q(-1, 2)} ELSE {Q(-1, 1)}
Ubs   == IF Lattice = "full" THEN {Q(1, 2), Q(1, 1), Q(3, 1)} ELSE {Q(1, 1)}
Sds   == IF Lattice = "full" THEN {Q(1, 4), Q(1, 2), Q(1, 1), Q(2, 1)}
         ELSE IF Lattice = "small" THEN {Q(1, 4), Q(1, 1)} ELSE {Q(1, 1)}
Means(lb, ub) ==                      \* inside the box, including both faces
  IF Lattice = "full"
    THEN {lb, QAdd(lb, Q(1, 4)), QMul(Half, QAdd(lb, ub)), QSub(ub, Q(1, 2)), ub}
    ELSE {lb, QAdd(lb, Q(1, 2)), ub}
Dim2 == [lb |-> Q(-2, 1), ub |-> Q(3, 1), mean |-> Q(1, 2), sd |-> Q(1, 2)]
TPats == << <<Q(3, 2), Q(-1, 1), Q(0, 1), Q(1, 2), Q(-7, 4), Q(5, 4)>>,
            <<Q(-7, 4), Q(7, 4), Q(-1, 2), Q(1, 1), Q(1, 4), Q(-3, 2)>>,
            <<Q(1, 4), Q(1, 2), Q(-1, 4), Q(-3, 4), Q(3, 4), Q(0, 1)>> >>

(* Lattice "edge": legal but unusual boxes.  A bound may be infinite (a parameter bounded on *)
(* one side only, or not at all): PInf / NInf, pairs with denominator 0 that only the        *)
(* extended operators below may touch.  A box may be many orders of magnitude (2^20 .. 2^23  *)
(* times) wider than the distance of the mean to its nearer face - on the small-magnitude    *)
(* side every candidate is a float32 number (compared exactly), on the large-magnitude side  *)
(* (mean one / three float32 steps below 4096) the exact candidate is emitted and the        *)
(* implementation's single rounding of the final addition is allowed for (exact = FALSE).    *)
(* upd: the box takes part in the whole iteration (cem_update compared exactly), with its     *)
(* quarter-grained means.                                                                    *)
PInf == <<1, 0>>
NInf == <<-1, 0>>
IsInf(x) == x[2] = 0
Wide == 1048576     \* 2^20
EdgeBoxes == {
  [lb |-> Zero,      ub |-> PInf,    means |-> {Zero, Q(1, 4), One},              upd |-> TRUE,  exact |-> TRUE],
  [lb |-> NInf,      ub |-> Half,    means |-> {Half, Q(1, 4), Q(-1, 2)},         upd |-> TRUE,  exact |-> TRUE],
  [lb |-> NInf,      ub |-> PInf,    means |-> {Half},                            upd |-> TRUE,  exact |-> TRUE],
  [lb |-> Zero,      ub |-> I(Wide), means |-> {Zero, Q(1, 64), Q(3, 64), Q(1, 4)}, upd |-> TRUE,  exact |-> TRUE],
  [lb |-> I(-Wide),  ub |-> Zero,    means |-> {Q(-3, 64), Q(-1, 4)},             upd |-> TRUE,  exact |-> TRUE],
  [lb |-> I(-1),     ub |-> I(Wide), means |-> {Q(-61, 64)},                      upd |-> TRUE,  exact |-> TRUE],
  [lb |-> Zero,      ub |-> I(4096), means |-> {Q(8388607, 2048), Q(8388605, 2048)}, upd |-> FALSE, exact |-> FALSE],
  [lb |-> I(-4096),  ub |-> Zero,    means |-> {Q(-8388607, 2048)},               upd |-> FALSE, exact |-> FALSE] }
EdgeSds == {Q(1, 4), One}       \* with sd = 1 the distance to the nearer face is the active limit in every wide box

----------------------------------------------------------------------------
(* arithmetic of the sampling path: every value is dyadic, so denominators divide one another *)
(* and are aligned to the larger one (Exact.tla cross-multiplies them, which overflows TLC's   *)
(* 32-bit integers for 2^-11-grained values next to 2^20); <= falls back to Exact's where      *)
(* they do not (new means with n_elite = 3, 5, 6)                                             *)
DCommon(a, b) == IF a[2] >= b[2] THEN a[2] ELSE b[2]
DNum(a, c)    == a[1] * (c \div a[2])
DAdd(a, b) == LET c == DCommon(a, b) IN Norm(DNum(a, c) + DNum(b, c), c)
DSub(a, b) == LET c == DCommon(a, b) IN Norm(DNum(a, c) - DNum(b, c), c)
FLe(a, b)  == IF a[2] % b[2] = 0 \/ b[2] % a[2] = 0
              THEN LET c == DCommon(a, b) IN DNum(a, c) <= DNum(b, c)
              ELSE QLe(a, b)
(* extended: -inf <= everything <= +inf *)
XLe(a, b)  == IF a = NInf \/ b = PInf THEN TRUE
              ELSE IF a = PInf \/ b = NInf THEN FALSE ELSE FLe(a, b)
XMin(a, b) == IF XLe(a, b) THEN a ELSE b
XHalf(a)   == IF IsInf(a) THEN a ELSE QMul(Half, a)

(* cem_sample *)
LbDist(j) == IF IsInf(dist.lb[j]) THEN PInf ELSE DSub(dist.mean[j], dist.lb[j])     \* mean - (-inf) = +inf
UbDist(j) == IF IsInf(dist.ub[j]) THEN PInf ELSE DSub(dist.ub[j], dist.mean[j])     \* (+inf) - mean = +inf
Var(j)    == QSq(dist.sd[j])
(* sqrt(min((lbd/2)^2, (ubd/2)^2, var)): the minimum of squares of non-negative numbers is the  *)
(* square of their minimum, and its root that minimum - always finite, the variance is          *)
ConstrainedSd(j)  == XMin(XMin(XHalf(LbDist(j)), XHalf(UbDist(j))), dist.sd[j])
ConstrainedVar(j) == QSq(ConstrainedSd(j))
UnconstrainedVar(j) == Var(j)
SqrtOf(v, j) == CHOOSE s \in {dist.sd[j], ConstrainedSd(j)} : QEq(QSq(s), v)
SampleOf(i, j, constrained) ==
  LET cv == IF constrained THEN ConstrainedVar(j) ELSE UnconstrainedVar(j)
  IN DAdd(QMul(tmat[i][j], SqrtOf(cv, j)), dist.mean[j])

(* cem_update *)
N     == conf.n
Cands == 1..N
KeyMax(v) == v                                  \* larger is better; classes are totally ordered
Admissible ==                                   \* ArgTopSet: every n_elite-subset no outsider beats
  {E \in SUBSET Cands : /\ Cardinality(E) = conf.ne
                        /\ \A i \in E : \A o \in Cands \ E : KeyMax(fitv[i]) >= KeyMax(fitv[o])}
SumOver(E, j)   == QSum([i \in Cands |-> IF i \in E THEN samples[i][j] ELSE Zero])
EliteMean(E, j) == QDiv(SumOver(E, j), I(conf.ne))
EliteVar(E, j)  == QDiv(QSum([i \in Cands |-> IF i \in E THEN QSq(QSub(samples[i][j], EliteMean(E, j))) ELSE Zero]), I(conf.ne))
Blend(old, new) == QAdd(QMul(conf.alpha, old), QMul(QSub(One, conf.alpha), new))
NewMean(E, j)   == Blend(dist.mean[j], EliteMean(E, j))
NewVar(E, j)    == Blend(Var(j), EliteVar(E, j))
Extrapolated(E, j) == QAdd(dist.mean[j], QMul(QSub(One, conf.alpha), EliteMean(E, j)))   \* canary
(* lax.top_k breaks ties by the lower index *)
StableTop == {i \in Cands : Cardinality({o \in Cands : fitv[o] > fitv[i] \/ (fitv[o] = fitv[i] /\ o < i)}) < conf.ne}

SetToSeq(S) == [r \in 1..Cardinality(S) |-> CHOOSE i \in S : Cardinality({o \in S : o < i}) = r - 1]
Outcome(E) == [elite |-> SetToSeq(E),
               mean |-> [j \in 1..D |-> NewMean(E, j)],
               var  |-> [j \in 1..D |-> NewVar(E, j)]]
InBox(x, j) == XLe(dist.lb[j], x) /\ XLe(x, dist.ub[j])
(* inbox: the order predicate lb <= candidate <= ub per candidate and dimension, decided here *)
VectorOf(smp) ==
          [n |-> N, ne |-> conf.ne, alpha |-> conf.alpha,
           lb |-> dist.lb, ub |-> dist.ub, mean |-> dist.mean, var |-> [j \in 1..D |-> Var(j)],
           t |-> tmat, samples |-> smp, exact |-> dist.exact,
           inbox |-> [i \in 1..Len(smp) |-> [j \in 1..D |-> InBox(smp[i][j], j)]]]
Vector == VectorOf(samples)
EmitVec(rec) == EMIT => PrintT(<<"EMIT", ToJson(rec)>>)

----------------------------------------------------------------------------
Init == /\ stage = "config" /\ conf = <<>> /\ dist = <<>> /\ tmat = <<>> /\ samples = <<>> /\ fitv = <<>>

ChooseConfig == /\ stage = "config"
                /\ \E n \in NPops : \E ne \in (IF STOP = "sampled" THEN {1} ELSE 1..n) : \E a \in Alphas :
                     conf' = [n |-> n, ne |-> ne, alpha |-> a]
                /\ stage' = "dist"
                /\ UNCHANGED <<dist, tmat, samples, fitv>>

ChooseDist == /\ stage = "dist"
              /\ IF Lattice = "edge"
                 THEN \E bx \in EdgeBoxes : \E m \in bx.means : \E sd \in EdgeSds :
                        /\ STOP = "updated" => (bx.upd /\ m[2] <= 4)   \* quarter-grained means: the elite variance stays in 32 bits
                        /\ XLe(bx.lb, m) /\ XLe(m, bx.ub)
                        /\ dist' = [lb |-> <<bx.lb, Dim2.lb>>, ub |-> <<bx.ub, Dim2.ub>>,
                                    mean |-> <<m, Dim2.mean>>, sd |-> <<sd, Dim2.sd>>, exact |-> bx.exact]
                 ELSE \E lb \in Lbs : \E ub \in Ubs : \E m \in Means(lb, ub) : \E sd \in Sds :
                        /\ QLe(lb, m) /\ QLe(m, ub)
                        /\ dist' = [lb |-> <<lb, Dim2.lb>>, ub |-> <<ub, Dim2.ub>>,
                                    mean |-> <<m, Dim2.mean>>, sd |-> <<sd, Dim2.sd>>, exact |-> TRUE]
              /\ stage' = "noise"
              /\ UNCHANGED <<conf, tmat, samples, fitv>>

ChooseNoise == /\ stage = "noise"
               /\ \E p \in 1..NPats :
                    tmat' = [i \in 1..conf.n |-> <<TPats[p][i], TPats[p][conf.n + 1 - i]>>]
               /\ stage' = "sampling"
               /\ UNCHANGED <<conf, dist, samples, fitv>>

SampleWith(constrained) ==
  /\ stage = "sampling"
  /\ samples' = [i \in 1..conf.n |-> [j \in 1..D |-> SampleOf(i, j, constrained)]]
  /\ stage' = "sampled"
  /\ UNCHANGED <<conf, dist, tmat, fitv>>
  /\ (STOP = "sampled") => EmitVec(VectorOf(samples'))
CemSample == SampleWith(TRUE)

ChooseFitness == /\ stage = "sampled" /\ STOP = "updated"
                 /\ \E f \in [1..conf.n -> Fits] : fitv' = f
                 /\ stage' = "fitness"
                 /\ UNCHANGED <<conf, dist, tmat, samples>>

CemUpdate == /\ stage = "fitness"
             /\ stage' = "updated"
             /\ UNCHANGED <<conf, dist, tmat, samples, fitv>>
             /\ EmitVec([vec |-> Vector, fit |-> fitv,
                         adm |-> {Outcome(E) : E \in Admissible},
                         stable |-> SetToSeq(StableTop)])

Next == ChooseConfig \/ ChooseDist \/ ChooseNoise \/ CemSample \/ ChooseFitness \/ CemUpdate
NextBadSample == ChooseConfig \/ ChooseDist \/ ChooseNoise \/ SampleWith(FALSE) \/ ChooseFitness \/ CemUpdate
Spec == Init /\ [][Next]_vars

----------------------------------------------------------------------------
(* Properties (C16) *)
Sampled == stage \in {"sampled", "fitness", "updated"}
(* cem_sample only proposes candidates inside the box *)
SamplesWithinBounds == Sampled => \A i \in 1..conf.n : \A j \in 1..D : InBox(samples[i][j], j)
(* the constrained spread: two standard deviations reach at most the nearer face *)
SpreadReachesNoFace ==
  stage \notin {"config", "dist"} =>
    \A j \in 1..D : LET s == SqrtOf(ConstrainedVar(j), j)
                    IN /\ XLe(QMul(I(2), s), LbDist(j)) /\ XLe(QMul(I(2), s), UbDist(j))
                       /\ XLe(s, dist.sd[j]) /\ ~IsInf(s) /\ XLe(Zero, s)
Updated == stage \in {"fitness", "updated"}
(* there always is an elite set; the implementation's tie-break is one of them *)
ElitesExist == Updated => Admissible # {} /\ StableTop \in Admissible
(* elites are exactly n_elite candidates none of which is worse than an outsider *)
ElitesAreTheBest ==
  Updated => \A E \in Admissible :
    /\ Cardinality(E) = conf.ne
    /\ \A o \in Cands \ E : \A i \in E : fitv[o] <= fitv[i]
(* whatever admissible elite set is used, the new mean stays inside the box *)
MeanWithinBounds == Updated => \A E \in Admissible : \A j \in 1..D : InBox(NewMean(E, j), j)
VarNonNegative   == Updated => \A E \in Admissible : \A j \in 1..D : QLe(Zero, NewVar(E, j))
(* deviation canary: forgetting the weight of the old mean *)
ExtrapolatedWithinBounds == Updated => \A E \in Admissible : \A j \in 1..D : InBox(Extrapolated(E, j), j)
=============================================================================
