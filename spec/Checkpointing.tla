--------------------------- MODULE Checkpointing ---------------------------
(* Deferred training and checkpoint assessment of TD7                         *)
(* (rl_blox.blox.checkpointing.CheckpointState /                              *)
(*  assess_performance_and_checkpoint and the release loop of                 *)
(*  rl_blox.algorithm.td7.train_td7).                                         *)
(*                                                                            *)
(* While an actor is assessed no training happens; every episode end calls    *)
(* the assessment function (action EpisodeEnd), which decides whether the     *)
(* window is closed, how many deferred training iterations are released and   *)
(* whether the evaluation checkpoint is replaced; the caller then runs the    *)
(* released iterations (action Release: one epoch per iteration).             *)
(*                                                                            *)
(* Returns are kept in HALF units (value 2*r stands for the return r) so that *)
(* a reset weight of 1/2 stays integral: RW2 = 2 * reset_weight.  The         *)
(* sentinels +-1e8 of CheckpointState are +-Big.                              *)
EXTENDS Integers, Sequences, FiniteSets, TLC, Json

CONSTANTS Lens,      \* episode lengths explored
          Rets,      \* episode returns explored (integers)
          MaxEpsSet, \* values of max_episodes_when_checkpointing
          ThreshSet, \* values of steps_before_checkpointing
          RW2Set,    \* values of 2 * reset_weight
          Epoch0Set, \* epoch at which the routine starts (max(0, global_step - learning_starts))
          MaxHist,   \* bound on the number of episodes in a history
          EMIT       \* TRUE: print one EMIT record per transition

VARIABLES cfg,       \* configuration chosen by Configure
          pc,        \* "config" -> "collect" <-> "release"
          eps,       \* episodes_since_udpate
          ts,        \* timesteps_since_upate
          maxEps,    \* max_episodes_before_update
          minRet,    \* min_return        (half units)
          bestMin,   \* best_min_return   (half units)
          epoch,     \* training-iteration counter of the caller
          out,       \* value returned by the last call: [upd, train]
          collected, \* ghost: environment steps handed to the function so far
          released,  \* ghost: training iterations executed so far
          window,    \* ghost: returns (half units) of the episodes of the current window
          switches,  \* ghost: number of calls that took the "switch to full checkpointing" branch
          n          \* ghost: number of episodes so far

vars == <<cfg, pc, eps, ts, maxEps, minRet, bestMin, epoch, out, collected, released, window, switches, n>>

Big == 200000000                 \* 1e8 in half units
H(r) == 2 * r                    \* a return in half units
Min(a, b) == IF a < b THEN a ELSE b
NoOut == [upd |-> FALSE, train |-> 0]
NoCfg == [maxEps |-> 0, thresh |-> 0, rw2 |-> 0, epoch0 |-> 0]

(* what the implementation can observe: the five fields, the caller's epoch,  *)
(* the configuration and the pending return value                             *)
EView == [cfg |-> cfg, pc |-> pc, eps |-> eps, ts |-> ts, maxEps |-> maxEps,
          minRet |-> minRet, bestMin |-> bestMin, epoch |-> epoch, out |-> out]

Emit(op, args, exp) ==
  EMIT => PrintT(<<"EMIT", ToJson([pre |-> EView, op |-> op, args |-> args, exp |-> exp, post |-> EView'])>>)

(* CheckpointState() as constructed by train_td7 *)
Init == /\ cfg = NoCfg /\ pc = "config"
        /\ eps = 0 /\ ts = 0 /\ maxEps = 1 /\ minRet = Big /\ bestMin = -Big
        /\ epoch = 0 /\ out = NoOut
        /\ collected = 0 /\ released = 0 /\ window = <<>> /\ switches = 0 /\ n = 0

(* the keyword arguments of train_td7 that reach the assessment function *)
Configure(m, t, w, e) ==
  /\ pc = "config"
  /\ cfg' = [maxEps |-> m, thresh |-> t, rw2 |-> w, epoch0 |-> e]
  /\ pc' = "collect"
  /\ epoch' = e
  /\ UNCHANGED <<eps, ts, maxEps, minRet, bestMin, out, collected, released, window, switches, n>>
  /\ Emit("Configure", cfg', <<>>)

(* assess_performance_and_checkpoint(state, len, ret, epoch, reset_weight,    *)
(*   max_episodes_when_checkpointing, steps_before_checkpointing), branch by  *)
(* branch.  v selects the faithful transcription ("ok") or a named deviation  *)
(* used as canary.                                                            *)
EpisodeEndV(len, ret, v) ==
  /\ pc = "collect" /\ n < MaxHist
  /\ LET eps1 == eps + 1                               \* episodes_since_udpate += 1
         ts1  == ts + len                              \* timesteps_since_upate += steps_per_episode
         min1 == Min(minRet, H(ret))                   \* min_return = min(min_return, episode_return)
         \* if min_return < best_min_return: end the assessment early
         cut  == IF v = "leq" THEN min1 <= bestMin ELSE min1 < bestMin
         \* elif episodes_since_udpate == max_episodes_before_update: new checkpoint
         full == ~cut /\ eps1 = maxEps
         best1 == IF full THEN min1 ELSE bestMin       \* best_min_return = min_return
         train == IF cut \/ full THEN ts1 ELSE 0       \* training_steps = timesteps_since_upate
         \* if training_steps > 0 and epoch < steps_before_checkpointing <= epoch + timesteps_since_upate
         sw   == /\ train > 0
                 /\ IF v = "origswitch"
                      THEN epoch <= cfg.thresh /\ cfg.thresh < epoch + ts1
                      ELSE epoch < cfg.thresh /\ cfg.thresh <= epoch + ts1
         best2 == IF sw THEN (best1 * cfg.rw2) \div 2 ELSE best1    \* best_min_return *= reset_weight
         reset == train > 0 /\ v # "noreset"
     IN /\ bestMin' = best2
        /\ maxEps' = IF sw THEN cfg.maxEps ELSE maxEps  \* max_episodes_before_update = max_episodes_when_checkpointing
        /\ eps' = IF reset THEN 0 ELSE eps1             \* reset checkpoint monitoring
        /\ ts' = IF reset THEN 0 ELSE ts1
        /\ minRet' = IF reset THEN Big ELSE min1
        /\ out' = [upd |-> full, train |-> train]      \* return update_checkpoint, training_steps
        /\ switches' = IF sw THEN switches + 1 ELSE switches
  /\ pc' = "release"
  /\ collected' = collected + len
  /\ window' = Append(window, H(ret))
  /\ n' = n + 1
  /\ UNCHANGED <<cfg, epoch, released>>
  /\ Emit("EpisodeEnd", [len |-> len, ret |-> ret, epoch |-> epoch],
          [upd |-> out'.upd, train |-> out'.train,
           branch |-> IF out'.upd THEN "update" ELSE IF out'.train > 0 THEN "cut_short" ELSE "continue",
           switch |-> switches' # switches])

EpisodeEnd(len, ret) == EpisodeEndV(len, ret, "ok")

(* train_td7: `if update_checkpoint: hard_target_net_update(policy,           *)
(* checkpoint)` then `for _ in range(training_steps): epoch += 1; train`      *)
Release ==
  /\ pc = "release"
  /\ epoch' = epoch + out.train
  /\ released' = released + out.train
  /\ window' = IF out.train > 0 THEN <<>> ELSE window
  /\ out' = NoOut
  /\ pc' = "collect"
  /\ UNCHANGED <<cfg, eps, ts, maxEps, minRet, bestMin, collected, switches, n>>
  /\ Emit("Release", [iterations |-> out.train, copy |-> out.upd], <<>>)

Next == \/ \E m \in MaxEpsSet, t \in ThreshSet, w \in RW2Set, e \in Epoch0Set : Configure(m, t, w, e)
        \/ \E l \in Lens, r \in Rets : EpisodeEnd(l, r)
        \/ Release

Spec == Init /\ [][Next]_vars

----------------------------------------------------------------------------
(* Properties (C15) *)
RetsQuick == {-2, 0, 1, 3}
RetsWide == {-3, -2, 0, 1, 2, 3}

IsEpisodeEnd == pc = "collect" /\ pc' = "release"
LastLen == collected' - collected           \* length of the episode that just ended
WMin(w) == CHOOSE x \in {w[i] : i \in DOMAIN w} : \A j \in DOMAIN w : x <= w[j]

TypeOK == /\ pc \in {"config", "collect", "release"}
          /\ eps \in 0..MaxHist /\ ts \in Nat /\ maxEps \in Nat \ {0}
          /\ minRet \in Int /\ bestMin \in Int /\ epoch \in Nat
          /\ out \in [upd : BOOLEAN, train : Nat]
          /\ collected \in Nat /\ released \in Nat /\ switches \in Nat /\ n \in 0..MaxHist

(* none lost, none duplicated: every collected step is either still waiting   *)
(* in the window, waiting in the pending return value, or was trained once;   *)
(* the caller's epoch counts exactly the executed iterations                  *)
Conservation == /\ released + ts + (IF pc = "release" THEN out.train ELSE 0) = collected
                /\ pc # "config" => epoch = cfg.epoch0 + released

(* the function releases everything that is waiting or nothing *)
TrainAllOrNothing == [][IsEpisodeEnd => out'.train \in {0, ts + LastLen}]_vars

(* all window counters are reset when (and only when) something is released *)
ResetAfterRelease ==
  [][IsEpisodeEnd =>
       IF out'.train > 0
         THEN eps' = 0 /\ ts' = 0 /\ minRet' = Big
         ELSE eps' = eps + 1 /\ ts' = ts + LastLen /\ minRet' = WMin(window')]_vars

(* the counters describe the ghost window *)
WindowConsistent == pc = "collect" => /\ eps = Len(window)
                                      /\ eps < maxEps
                                      /\ minRet = IF window = <<>> THEN Big ELSE WMin(window)
                                      /\ (window = <<>>) = (ts = 0)

(* the checkpoint is replaced only after a complete window in which every     *)
(* return reached the best minimum recorded so far - and always then          *)
UpdateOnlyIfBetter ==
  [][IsEpisodeEnd /\ out'.upd =>
       /\ Len(window') = maxEps
       /\ \A i \in DOMAIN window' : window'[i] >= bestMin]_vars
UpdateWheneverBetter ==
  [][IsEpisodeEnd /\ Len(window') = maxEps /\ (\A i \in DOMAIN window' : window'[i] >= bestMin)
       => out'.upd /\ out'.train > 0]_vars

(* an assessment is cut short exactly when a return falls below the best minimum *)
CutShortExactly ==
  [][IsEpisodeEnd =>
       ((out'.train > 0 /\ ~out'.upd) <=> (\E i \in DOMAIN window' : window'[i] < bestMin))]_vars

(* the recorded best minimum is the minimum of the window that produced the   *)
(* checkpoint, never decreases outside the one documented rescaling, and      *)
(* changes only together with the checkpoint                                  *)
BestMinIsWindowMin ==
  [][IsEpisodeEnd =>
       LET sw == switches' # switches
           b  == IF out'.upd THEN WMin(window') ELSE bestMin
       IN /\ bestMin' = IF sw THEN (b * cfg.rw2) \div 2 ELSE b
          /\ (~sw => bestMin' >= bestMin)]_vars

(* the switch to the long window happens at most once, has happened exactly   *)
(* when the iteration count crossed the threshold, and is the only event      *)
(* that changes the window size                                               *)
SwitchOnce == /\ switches <= 1
              /\ pc = "collect" => (switches = 1 <=> (cfg.epoch0 < cfg.thresh /\ cfg.thresh <= epoch))
              /\ pc # "config" => maxEps = IF switches = 1 THEN cfg.maxEps ELSE 1
SwitchInCrossingCall ==
  [][(IsEpisodeEnd /\ out'.train > 0 /\ epoch < cfg.thresh /\ cfg.thresh <= epoch + out'.train)
       <=> switches' = switches + 1]_vars

----------------------------------------------------------------------------
(* deviation canaries (must be refuted) *)
NextWith(v) == \/ \E m \in MaxEpsSet, t \in ThreshSet, w \in RW2Set, e \in Epoch0Set : Configure(m, t, w, e)
               \/ \E l \in Lens, r \in Rets : EpisodeEndV(l, r, v)
               \/ Release
NextNoReset == NextWith("noreset")        \* counters not reset after a release  -> Conservation
NextLeq == NextWith("leq")                \* `<=` instead of `<` in the cut-short test -> CutShortExactly
NextOrigSwitch == NextWith("origswitch")  \* switch test shifted by one iteration -> SwitchOnce
=============================================================================
