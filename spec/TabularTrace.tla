--------------------------- MODULE TabularTrace ---------------------------
(* C14, code -> spec: validation of the update calls recorded while the real  *)
(* train_* routines ran on a scripted stochastic environment.  The recorded   *)
(* events (JSON file named by the environment variable TRACE_FILE) are        *)
(* processed one per step with the operators of TabularOps.tla; for every     *)
(* event the admissible results are printed and compared by the driver.       *)
(*                                                                            *)
(* Event kinds (field k):                                                     *)
(*   "QL" "SARSA" "DQL" "DYNA"  one recorded update call: tables before the   *)
(*        call and its arguments -> admissible tables after it                *)
(*   "PLAN"   one update inside dynaq.planning: additionally the pair must be *)
(*        an observed one, the successor a most likely one under the model    *)
(*        row the routine was given (trank = order ranks of that row), the    *)
(*        reward that model's reward                                          *)
(*   "MCRESET" / "MC"   start of a run (q0, n0) / one episode -> folded table *)
(*   "MRESET" / "OBS"   start of a run / one observed transition -> folded    *)
(*        Counter and ForwardModel                                            *)
EXTENDS TabularOps, TLC, Json, IOUtils

Trace == JsonDeserialize(IOEnv.TRACE_FILE).events

VARIABLES i,    \* index of the next event
          st    \* folded model state: [q, n] (Monte-Carlo), [cnt, model] (Dyna-Q)
vars == <<i, st>>

Out(rec) == PrintT(<<"EMIT", ToJson(rec)>>)

ZeroCnt(ns, na) == [count |-> [s \in 1..ns |-> [a \in 1..na |-> [x \in 1..ns |-> 0]]],
                    rh    |-> [s \in 1..ns |-> [a \in 1..na |-> [x \in 1..ns |-> <<>>]]]]
ZeroModel(ns, na) == [T |-> [s \in 1..ns |-> [a \in 1..na |-> [x \in 1..ns |-> Zero]]],
                      R |-> [s \in 1..ns |-> [a \in 1..na |-> [x \in 1..ns |-> Zero]]]]

Init == /\ i = 1
        /\ st = [q |-> <<>>, n |-> <<>>, cnt |-> <<>>, model |-> <<>>]

Ranks(trank) == [x \in 1..Len(trank) |-> I(trank[x])]

Step ==
  /\ i <= Len(Trace)
  /\ i' = i + 1
  /\ LET e == Trace[i] IN
     CASE e.k = "QL" ->
            /\ st' = st
            /\ Out([i |-> i, k |-> e.k,
                    adm |-> QLSet(e.q, e.s, e.a, e.r, e.s2, e.gamma, e.term, e.lr),
                    a2ok |-> e.a2 \in GreedySet(e.q, e.s2),
                    given |-> UpdatePolicy(e.q, e.s, e.a, e.r, e.s2, e.a2, e.gamma, e.term, e.lr)])
       [] e.k = "SARSA" ->
            /\ st' = st
            /\ Out([i |-> i, k |-> e.k,
                    adm |-> {UpdatePolicy(e.q, e.s, e.a, e.r, e.s2, e.a2, e.gamma, e.term, e.lr)}])
       [] e.k = "DQL" ->
            /\ st' = st
            /\ Out([i |-> i, k |-> e.k,
                    adm |-> DQLSet(e.q, e.qB, e.s, e.a, e.r, e.s2, e.gamma, e.term, e.lr),
                    dev |-> DQLGreedyAtCurrent(e.q, e.qB, e.s, e.a, e.r, e.s2, e.gamma, e.term, e.lr)])
       [] e.k = "DYNA" ->
            /\ st' = st
            /\ Out([i |-> i, k |-> e.k,
                    adm |-> {DynaQ(e.q, e.s, e.a, e.r, e.s2, e.gamma, e.lr)}])
       [] e.k = "PLAN" ->
            /\ st' = st
            /\ Out([i |-> i, k |-> e.k,
                    pairok |-> \E j \in 1..Len(e.buf) : e.buf[j] = <<e.s, e.a>>,
                    succok |-> e.s2 \in PlanSuccessors(Ranks(e.trank)),
                    rewok  |-> e.r = e.rrow[e.s2 + 1],
                    adm |-> {DynaQ(e.q, e.s, e.a, e.r, e.s2, e.gamma, e.lr)}])
       [] e.k = "MCRESET" ->
            /\ st' = [st EXCEPT !.q = e.q, !.n = e.n]
            /\ Out([i |-> i, k |-> e.k])
       [] e.k = "MC" ->
            LET res == MCEpisode(st.q, st.n, e.ep, e.gamma)
            IN /\ st' = [st EXCEPT !.q = res[1], !.n = res[2]]
               /\ Out([i |-> i, k |-> e.k, q |-> res[1], n |-> res[2]])
       [] e.k = "MRESET" ->
            /\ st' = [st EXCEPT !.cnt = ZeroCnt(e.ns, e.na), !.model = ZeroModel(e.ns, e.na)]
            /\ Out([i |-> i, k |-> e.k])
       [] e.k = "OBS" ->
            LET c2 == CounterUpdate(st.cnt, e.s, e.a, e.r, e.s2)
                m2 == ModelUpdate(st.model, c2, e.s, e.a, e.s2)
            IN /\ st' = [st EXCEPT !.cnt = c2, !.model = m2]
               /\ Out([i |-> i, k |-> e.k, count |-> c2.count, rh |-> c2.rh, T |-> m2.T, R |-> m2.R])

Next == Step
Spec == Init /\ [][Next]_vars

(* all events are consumed (checked by the driver through the number of records) *)
Consumed == i <= Len(Trace) + 1
=============================================================================
