------------------------- MODULE ReturnsA2CRollout -------------------------
(* C07 - the estimates of an A2C rollout, judged against what the vector      *)
(* environment EMITTED:                                                       *)
(*   rl_blox.algorithm.a2c.train_a2c                                          *)
(*     -> collect_trajectories (one call per block of steps_per_update vector *)
(*        steps, continued through last_observation; every step is written to *)
(*        a rollout buffer with the columns obs / rewards / terminations /    *)
(*        truncations)                                              CollectStep *)
(*     -> prepare_a2c_batch (reads the buffer: per-environment GAE, flattened *)
(*        time-major)                                          PrepareA2CBatch *)
(*     -> train_policy_a2c(advantages), train_value_function(returns).        *)
(*                                                                            *)
(* Writer and reader meet only through the buffer.  The defining recurrence   *)
(*   delta_t = r_t + gamma V(o_{t+1}) (1 - terminated_t) - V(o_t)             *)
(*   A_t     = delta_t + gamma lambda (1 - terminated_t) A_{t+1}              *)
(* is stated for the reward / value / TERMINATION sequences of the            *)
(* environment, so the estimates are compared with the recurrence evaluated   *)
(* on the environment's own log `emitted` (a history variable the routine     *)
(* cannot touch), not on a column of the buffer.  A step that is merely       *)
(* truncated (terminated_t = 0) cuts neither the bootstrap nor the            *)
(* accumulation (TruncationIsNoCut).                                          *)
(*                                                                            *)
(* Environment model = harness/drivers/c07.ScriptedVecEnv: N sub-environments *)
(* stepped together; the observation of sub-environment e after k vector      *)
(* steps is the tag k N + (e-1) (device D1), so o_{t+1} of a step is exactly  *)
(* what this step of this environment returned; the flags (terminated,        *)
(* truncated) of every step of every sub-environment are chosen by TLC - ALL  *)
(* patterns over FlagCodes on the T x N lattice; rewards and the stub value   *)
(* table are dense pseudo-random dyadic fills derived from Seed.              *)
EXTENDS ReturnsOps, FiniteSets, TLC, Json

CONSTANTS EMIT,       \* TRUE: print one EMIT record per completed rollout
          N,          \* number of sub-environments
          T,          \* vector steps
          BlockSizes, \* divisors bs of T: train_a2c(total_timesteps = T N, steps_per_update = bs)
          FlagCodes,  \* what a step may emit, coded terminated + 2 truncated (subset of 0..3)
          NGL,        \* the first NGL pairs of GLSeq are estimated
          Seed,       \* seed of the reward / value fills
          Variant     \* "spec" | deviations "done_as_termination" (writer: terminated OR truncated is stored under
                      \* 'terminations'), "reader_cuts_at_truncations" (reader: GAE is cut where either column is set)

VARIABLES st, blocking,
          emitted,    \* history: what the environment emitted, one function Envs -> step record per vector step
          buf,        \* the rollout buffer of the collection call in progress (one row of columns per vector step)
          batches     \* what prepare_a2c_batch returned for every finished block
vars == <<st, blocking, emitted, buf, batches>>

Envs == 1..N
Emit(rec) == EMIT => PrintT(<<"EMIT", ToJson(rec)>>)
Max2(a, b) == IF a < b THEN b ELSE a

(* <<gamma, lambda>> *)
GLSeq == << <<Half, Half>>, <<One, One>>, <<Half, One>>, <<One, Q(1, 4)>> >>
GLs == 1..NGL

----------------------------------------------------------------------------
(* 1. The scripted vector environment and the stub value function           *)

Mix(x) == ((x % 65536) * 25173 + 13849) % 65536
Rnd(a, b, n) ==
  LET x0 == (Seed % 32768) * 7919 + a * 104729 + b * 1299709
  IN (Mix(Mix(Mix((x0 % 65536) + (x0 \div 65536)))) \div 16) % n
RewLat == <<I(-1), Zero, I(2), Q(1, 4), I(3), Q(-3, 2)>>
ValLat == <<Zero, One, Q(-1, 2), I(2), Q(3, 4), I(-2)>>

Tag(k, e) == k * N + (e - 1)                      \* observation of sub-environment e after k vector steps
Rew(k, e) == RewLat[Rnd(Tag(k, e), 1, Len(RewLat)) + 1]
(* injective on the tags of a rollout ((T+1) N <= 16 tags): a multiple of 1/4 plus tag / 64 *)
V(tag) == QAdd(ValLat[Rnd(tag, 2, Len(ValLat)) + 1], Q(tag, 64))

(* vector step k (1-based) of sub-environment e emitting the flags coded c *)
EnvStep(k, e, c) == [obs |-> Tag(k - 1, e), next |-> Tag(k, e), rew |-> Rew(k, e), term |-> c % 2, trunc |-> c \div 2]

----------------------------------------------------------------------------
(* 2. collect_trajectories: rollout_buffer.add_sample(...) per vector step   *)

WriteRow(x) ==
  [obs |-> x.obs, rewards |-> x.rew, truncations |-> x.trunc,
   terminations |-> IF Variant = "done_as_termination" THEN Max2(x.term, x.trunc) ELSE x.term]

(* 3. prepare_a2c_batch on a buffer of bs rows and the last observations:    *)
(*    values of the stored observations, next value of step t = value of the *)
(*    observation stored at t+1 (the last step: of last_observation), GAE    *)
(*    per environment with the 'terminations' column as the cut             *)
A2CNext(v, boot) == [t \in 1..Len(v) |-> IF t < Len(v) THEN v[t + 1] ELSE boot]
CutColumn(row) == IF Variant = "reader_cuts_at_truncations" THEN Max2(row.terminations, row.truncations) ELSE row.terminations
PrepareEnv(rows, lastobs, e, g, l) ==
  LET bs == Len(rows)
      r  == [t \in 1..bs |-> rows[t][e].rewards]
      v  == [t \in 1..bs |-> V(rows[t][e].obs)]
      d  == [t \in 1..bs |-> CutColumn(rows[t][e])]
  IN GAE(r, v, A2CNext(v, V(lastobs[e])), d, g, l)
Prepare(rows, lastobs) ==
  [j \in GLs |-> [e \in Envs |-> PrepareEnv(rows, lastobs, e, GLSeq[j][1], GLSeq[j][2])]]

----------------------------------------------------------------------------
(* 4. The rollout as a state machine                                        *)

Init == st = "init" /\ blocking = <<>> /\ emitted = <<>> /\ buf = <<>> /\ batches = <<>>

ChooseBlocking ==
  /\ st = "init"
  /\ blocking' \in {[b \in 1..(T \div bs) |-> bs] : bs \in {x \in BlockSizes : T % x = 0}}
  /\ st' = "run"
  /\ UNCHANGED <<emitted, buf, batches>>

CurBs == blocking[Len(batches) + 1]
LastObs == [e \in Envs |-> IF emitted = <<>> THEN Tag(0, e) ELSE emitted[Len(emitted)][e].next]

(* envs.step(action) followed by rollout_buffer.add_sample(...) *)
CollectStep ==
  /\ st = "run" /\ Len(batches) < Len(blocking) /\ Len(buf) < CurBs
  /\ \E codes \in [Envs -> FlagCodes] :
       LET xs == [e \in Envs |-> EnvStep(Len(emitted) + 1, e, codes[e])]
       IN /\ emitted' = Append(emitted, xs)
          /\ buf' = Append(buf, [e \in Envs |-> WriteRow(xs[e])])
  /\ UNCHANGED <<st, blocking, batches>>

(* the collection call returns (buffer, last observation); prepare_a2c_batch reads them *)
PrepareA2CBatch ==
  /\ st = "run" /\ Len(batches) < Len(blocking) /\ Len(buf) = CurBs
  /\ batches' = Append(batches, [bs |-> CurBs, start |-> Len(emitted) - CurBs, est |-> Prepare(buf, LastObs), last |-> LastObs])
  /\ buf' = <<>>
  /\ UNCHANGED <<st, blocking, emitted>>

----------------------------------------------------------------------------
(* 5. What the environment's own log says                                   *)

Col(b, e, f(_)) == [t \in 1..batches[b].bs |-> f(emitted[batches[b].start + t][e])]
FRew(x) == x.rew
FVal(x) == V(x.obs)
FNext(x) == V(x.next)                      \* the value of the observation THIS step returned
FTerm(x) == x.term
FDone(x) == Max2(x.term, x.trunc)
FNoTrunc(x) == [x EXCEPT !.trunc = 0]

(* the recurrence on the emitted sequences of block b, sub-environment e *)
EmittedEst(b, e, g, l) == GAE(Col(b, e, FRew), Col(b, e, FVal), Col(b, e, FNext), Col(b, e, FTerm), g, l)
(* ... as it comes out when a truncated step is treated like a terminated one (for diagnosis) *)
DoneEst(b, e, g, l) == GAE(Col(b, e, FRew), Col(b, e, FVal), Col(b, e, FNext), Col(b, e, FDone), g, l)

(* the class of a vector step: per sub-environment the flag code, and whether a collection call ends there *)
RECURSIVE SumTo(_, _)
SumTo(s, k) == IF k = 0 THEN 0 ELSE s[k] + SumTo(s, k - 1)
StepClass(k) == <<[e \in Envs |-> emitted[k][e].term + 2 * emitted[k][e].trunc],
                  IF \E b \in 1..Len(blocking) : SumTo(blocking, b) = k THEN 1 ELSE 0>>

(* prepare_a2c_batch flattens time-major: i = (t-1) N + e *)
Block(b) ==
  LET bs   == batches[b].bs
      own  == [e \in Envs |-> [j \in GLs |-> EmittedEst(b, e, GLSeq[j][1], GLSeq[j][2])]]
      done == [e \in Envs |-> [j \in GLs |-> DoneEst(b, e, GLSeq[j][1], GLSeq[j][2])]]
  IN [bs |-> bs,
      flat |-> [i \in 1..(N * bs) |->
                  LET e == ((i - 1) % N) + 1  t == ((i - 1) \div N) + 1
                      x == emitted[batches[b].start + t][e]
                  IN [env |-> e - 1, t |-> t, obs |-> x.obs, rew |-> x.rew, term |-> x.term, trunc |-> x.trunc,
                      v |-> V(x.obs),
                      est |-> [j \in GLs |-> [adv |-> own[e][j][t].adv, ret |-> own[e][j][t].ret,
                                              devadv |-> done[e][j][t].adv]]]],
      last |-> batches[b].last]

Finish ==
  /\ st = "run" /\ Len(batches) = Len(blocking)
  /\ st' = "done"
  /\ UNCHANGED <<blocking, emitted, buf, batches>>
  /\ Emit([kind |-> "a2croll", n |-> N, steps |-> T, blocking |-> blocking,
           gls |-> [j \in GLs |-> GLSeq[j]],
           script |-> [k \in 1..T |-> [e \in Envs |-> [rew |-> emitted[k][e].rew, term |-> emitted[k][e].term, trunc |-> emitted[k][e].trunc]]],
           vtab |-> [i \in 1..((T + 1) * N) |-> V(i - 1)],
           blocks |-> [b \in 1..Len(blocking) |-> Block(b)],
           classes |-> {StepClass(k) : k \in 1..T}])

Next == ChooseBlocking \/ CollectStep \/ PrepareA2CBatch \/ Finish
Spec == Init /\ [][Next]_vars

----------------------------------------------------------------------------
(* 6. Properties (C07)                                                      *)

TypeOK == /\ st \in {"init", "run", "done"} /\ Len(emitted) <= T
          /\ Len(batches) <= Len(blocking)
          /\ (Len(batches) < Len(blocking) => Len(buf) <= CurBs)

Blocks == 1..Len(batches)
(* `batches` changes only in PrepareA2CBatch: the states right after it carry every value of `batches` *)
Fresh == st = "run" /\ buf = <<>>

(* the advantages / returns handed on obey the GAE recurrence of the reward, value and   *)
(* TERMINATION sequences the environment emitted (= the independently written closed     *)
(* form: discounted sum of TD residuals up to the first TERMINATED step of the block)    *)
EstimatesObeyEmittedRecurrence ==
  Fresh => \A b \in Blocks : \A j \in GLs : \A e \in Envs :
    /\ batches[b].est[j][e] = EmittedEst(b, e, GLSeq[j][1], GLSeq[j][2])
    /\ \A t \in 1..batches[b].bs :
         batches[b].est[j][e][t].adv =
           AdvClosed(Col(b, e, FRew), Col(b, e, FVal), Col(b, e, FNext), Col(b, e, FTerm), GLSeq[j][1], GLSeq[j][2], t)

(* non-interference: a merely truncated step cuts nothing - the estimates equal those of *)
(* the twin rollout in which no step is truncated (same rewards, values, terminations)   *)
TruncationIsNoCut ==
  Fresh => \A b \in Blocks :
    LET twin == [t \in 1..batches[b].bs |-> [e \in Envs |-> WriteRow(FNoTrunc(emitted[batches[b].start + t][e]))]]
    IN batches[b].est = Prepare(twin, batches[b].last)

(* the buffer columns keep what was emitted (lemma; the verdict on the implementation is *)
(* on the estimates only)                                                                *)
BufferKeepsEmittedFlags ==
  \A t \in 1..Len(buf) : \A e \in Envs :
    LET x == emitted[Len(emitted) - Len(buf) + t][e]
    IN buf[t][e].terminations = x.term /\ buf[t][e].truncations = x.trunc /\ buf[t][e].rewards = x.rew /\ buf[t][e].obs = x.obs

(* the stub value function tells apart all observations of the rollout *)
ValueSeparates == st = "init" => \A a \in 0..((T + 1) * N - 1), c \in 0..((T + 1) * N - 1) : a # c => V(a) # V(c)
=============================================================================
