--------------------------- MODULE PerDynaTrace ---------------------------
(* code -> spec: validates event streams recorded from the real               *)
(* train_ddqn_per and train_dynaq (harness/extras/x09_record.py) against the  *)
(* value operators of PerDyna.tla (BetaAt, LearnDue, MaxEver, Window,         *)
(* PairsOf, Row, Support, ModeSuccessor, MeanReward, Dyadic).  Every event    *)
(* is judged clause by clause; failing clauses are collected in `viol` and    *)
(* the model state follows the logged state, so the rest of the trace is      *)
(* still checked.  One TLC run validates a batch of traces (tid).             *)
EXTENDS PerDyna, IOUtils

Traces == JsonDeserialize(IOEnv.TRACE_FILE)

VARIABLES tid, l, ts, viol
tvars == <<vars, tid, l, ts, viol>>

TR == Traces[tid]
C == TR.cfg
E == TR.events[l]
Per == C.routine = "per"

TTriples == (0..C.ns - 1) \X (0..C.na - 1) \X (0..C.ns - 1)

TS0(c) == [step |-> c.start - 1, phase |-> IF c.routine = "per" THEN "idle" ELSE "act", learned |-> FALSE, steps |-> 0, learns |-> 0, plans |-> 0,
           \* PER
           sidx |-> <<>>, rser |-> 0, bser |-> 0, isr |-> <<>>, tdser |-> 0, td |-> 0, p |-> <<>>, pser |-> 0, maxever |-> c.one, th |-> <<>>,
           \* Dyna-Q
           cnt |-> [x \in (0..c.ns - 1) \X (0..c.na - 1) \X (0..c.ns - 1) |-> 0], rsum |-> [x \in (0..c.ns - 1) \X (0..c.na - 1) \X (0..c.ns - 1) |-> 0],
           pairs |-> <<>>, window |-> <<>>, k |-> 0, cur |-> <<0, 0, 0, 0>>, tlast |-> "", mdig |-> ""]

TInit == /\ tid \in 1..Len(Traces) /\ l = 1
         /\ Init
         /\ ts = TS0(Traces[tid].cfg) /\ viol = {}

Fail(clauses) == viol' = viol \cup {<<l, c>> : c \in clauses}
If(b, c) == IF b THEN {c} ELSE {}
Ord(x) == x[1]
Exact32(x) == x[2]
Rat(x) == <<x[1], x[2]>>
Fits(x) == x[3]
Ords(s) == [j \in 1..Len(s) |-> Ord(s[j])]
AllExact(s) == \A j \in 1..Len(s) : Exact32(s[j])
SeqMax(s, m) == MaxEver(m, {s[j] : j \in 1..Len(s)})
Busy == ts.phase # "idle"

----------------------------------------------------------------------------
(* PER *)
CloseStep == If(ts.step >= C.start /\ ts.learned # LearnDue(C, ts.step), "LearnExactlyWhenDue")

(* env.step + add_sample: one per loop pass; the new transition receives the maximum priority EVER written
   (ResetCadenceNone: the routine never recomputes the maximum) *)
EvAdd ==
  /\ Per /\ E.ev = "add"
  /\ ts' = [ts EXCEPT !.step = @ + 1, !.learned = FALSE, !.steps = @ + 1, !.phase = "idle"]
  /\ Fail(CloseStep
          \cup If(Busy, "NoBufferCallBetweenSampleAndWrite")
          \cup If(Ord(E.p) # ts.maxever \/ Ord(E.maxp) # ts.maxever \/ ~Exact32(E.p) \/ ~Exact32(E.maxp), "NewTransitionGetsMaxEver"))

(* replay_buffer.sample_batch(batch_size, rng, beta[step]) *)
EvSample ==
  /\ Per /\ E.ev = "sample"
  /\ ts' = [ts EXCEPT !.phase = "sampled", !.sidx = E.idx, !.rser = E.rser, !.bser = E.bser, !.isr = E.isr]
  /\ Fail(If(Busy, "NoBufferCallBetweenSampleAndWrite")
          \cup If(ts.learned, "OneLearningStepPerStep")
          \cup If(~Fits(E.beta) \/ ~QEq(Rat(E.beta), BetaAt(C, ts.step)), "BetaIsScheduleOfStep")
          \cup If(E.n # C.bs \/ Len(E.idx) # C.bs, "SampleSizeIsBatchSize"))

(* the jitted train step (train_step_with_loss(ddqn_per_loss, optimizer, q, q_target, batch, gamma, is_ratio)) *)
EvTrain ==
  /\ Per /\ E.ev = "train"
  /\ ts' = [ts EXCEPT !.phase = "trained", !.tdser = E.tdser, !.td = Ord(E.td)]
  /\ Fail(If(ts.phase # "sampled", "IterationOrder")
          \cup If(E.rser # ts.rser \/ E.isr # ts.isr, "RatiosHandedToLoss")
          \cup If(E.bser # ts.bser, "BatchHandedToLoss")
          \cup If(~Fits(E.gamma) \/ ~QEq(Rat(E.gamma), C.gamma), "GammaHandedToLoss")
          \cup If(E.tdn # 1 \/ ~Exact32(E.td), "ErrorIsBatchMean"))

(* per_priority(abs_td_error, alpha=per_alpha, epsion=1e-6) *)
EvPrioFn ==
  /\ Per /\ E.ev = "prio_fn"
  /\ ts' = [ts EXCEPT !.phase = "prio", !.p = Ords(E.p), !.pser = E.pser]
  /\ Fail(If(ts.phase # "trained", "IterationOrder")
          \cup If(E.tdser # ts.tdser \/ Ord(E.td) # ts.td, "PriorityFromThisStepsError")
          \cup If(~Fits(E.alpha) \/ ~QEq(Rat(E.alpha), C.alpha) \/ E.eps # C.eps, "AlphaEpsilonConfigured")
          \cup If(Len(E.p) # 1, "PriorityFromBatchMean")
          \cup If(~AllExact(E.p) \/ \E j \in 1..Len(E.p) : Ord(E.p[j]) <= 0, "PriorityPositive"))

(* replay_buffer.update_priority(priority) *)
EvUpdate ==
  /\ Per /\ E.ev = "update_priority"
  /\ LET m == SeqMax(Ords(E.p), ts.maxever)
     IN /\ ts' = [ts EXCEPT !.phase = "idle", !.learned = TRUE, !.learns = @ + 1, !.maxever = m,
                            !.th = IF Len(E.p) = 1 THEN Append(@, <<ts.td, Ord(E.p[1])>>) ELSE @]
        /\ Fail(If(ts.phase # "prio", "IterationOrder")
                \cup If(E.pser # ts.pser \/ Ords(E.p) # ts.p, "WriteBackIsPriorityOfThisStep")
                \cup If(E.idx # ts.sidx, "WriteBackToSampledBatch")
                \cup If(Ord(E.maxp) # m \/ ~Exact32(E.maxp), "MaxIsMaxEver"))

EvReset ==
  /\ Per /\ E.ev = "reset_max_priority"
  /\ UNCHANGED ts
  /\ Fail({"ResetCadenceNone"} \cup If(Busy, "NoBufferCallBetweenSampleAndWrite"))

EvBufcall ==
  /\ Per /\ E.ev = "bufcall"
  /\ UNCHANGED ts
  /\ Fail(If(Busy, "NoBufferCallBetweenSampleAndWrite"))

(* equal errors give equal priorities, a larger error never a smaller priority *)
OrderClauses == If(\E i, j \in 1..Len(ts.th) : \/ (ts.th[i][1] = ts.th[j][1] /\ ts.th[i][2] # ts.th[j][2])
                                               \/ (ts.th[i][1] > ts.th[j][1] /\ ts.th[i][2] < ts.th[j][2]), "PriorityOrderFollowsError")
EvEndPer ==
  /\ Per /\ E.ev = "end"
  /\ UNCHANGED ts
  /\ Fail(CloseStep \cup If(Busy, "IterationOrder") \cup OrderClauses
          \cup If(ts.step # C.T - 1, "StepsEqualBudget"))

----------------------------------------------------------------------------
(* Dyna-Q *)
Tri(e) == <<e.obs, e.act, e.next>>
Params(e) == If(~Fits(e.gamma) \/ ~QEq(Rat(e.gamma), C.gamma) \/ ~Fits(e.lr) \/ ~QEq(Rat(e.lr), C.lr), "GammaAndLearningRateHanded")
Chain(e) == If(ts.tlast # "" /\ e.tin # ts.tlast, "UpdatesChainOnLiveTable")

(* direct RL on the real transition; the pair has been appended to the window before *)
EvDirect ==
  /\ ~Per /\ E.ev = "direct"
  /\ ts' = [ts EXCEPT !.phase = "direct", !.cur = <<E.obs, E.act, E.r4, E.next>>, !.pairs = Append(@, <<E.obs, E.act>>), !.tlast = E.tout,
                      !.step = @ + 1, !.k = 0]
  /\ Fail(If(ts.phase # "act", "DirectPrecedesPlanning") \cup Params(E) \cup Chain(E) \cup If(~E.r4x, "RewardRepresentable"))

EvCount ==
  /\ ~Per /\ E.ev = "count"
  /\ ts' = [ts EXCEPT !.phase = "count", !.cnt = [@ EXCEPT ![Tri(E)] = @ + 1], !.rsum = [@ EXCEPT ![Tri(E)] = @ + E.r4]]
  /\ Fail(If(ts.phase # "direct", "PhaseOrder") \cup If(<<E.obs, E.act, E.r4, E.next>> # ts.cur, "CountIsRealTransition"))

EvModel ==
  /\ ~Per /\ E.ev = "model"
  /\ ts' = [ts EXCEPT !.phase = "model", !.mdig = E.mdig]
  /\ Fail(If(ts.phase # "count", "PhaseOrder") \cup If(<<E.obs, E.act, E.next>> # <<ts.cur[1], ts.cur[2], ts.cur[4]>>, "ModelUpdateForRealPair"))

Zip(a, b) == [j \in 1..Min(Len(a), Len(b)) |-> <<a[j], b[j]>>]
EvPlanStart ==
  /\ ~Per /\ E.ev = "plan_start"
  /\ ts' = [ts EXCEPT !.phase = "plan", !.k = 0, !.window = Zip(E.obsbuf, E.actbuf)]
  /\ Fail(If(ts.phase # "model", "DirectPrecedesPlanning")
          \cup If(E.n # C.nplan, "PlanCountConfigured")
          \cup If(Len(E.obsbuf) # Len(E.actbuf) \/ Zip(E.obsbuf, E.actbuf) # Window(ts.pairs, C.cap), "WindowIsLastPairs")
          \cup If(E.mdig # ts.mdig, "PlanningSeesCurrentModel")
          \cup Chain(E))

EvPlan ==
  /\ ~Per /\ E.ev = "plan"
  /\ ts' = [ts EXCEPT !.k = @ + 1, !.plans = @ + 1, !.tlast = E.tout]
  /\ LET inr == E.obs \in 0..C.ns - 1 /\ E.act \in 0..C.na - 1 /\ E.next \in 0..C.ns - 1
         n == IF inr THEN ts.cnt[Tri(E)] ELSE 0
     IN Fail(If(ts.phase # "plan", "PhaseOrder")
             \cup If(~inr \/ <<E.obs, E.act>> \notin PairsOf(ts.window), "PlannedPairObserved")
             \cup If(inr /\ E.next \notin Support(ts.cnt, E.obs, E.act, C.ns), "SuccessorInSupport")
             \cup If(inr /\ E.next # ModeSuccessor(Row(ts.cnt, E.obs, E.act, C.ns), C.ns), "SuccessorIsMode")
             \cup If(~Fits(E.r) \/ ~Fits(E.mr) \/ Rat(E.r) # Rat(E.mr), "RewardIsModelReward")
             \cup If(inr /\ Dyadic(n) /\ Fits(E.r) /\ ~QEq(Rat(E.r), MeanReward(ts.rsum[Tri(E)], n)), "RewardIsMeanObserved")
             \cup Params(E) \cup Chain(E))

EvPlanEnd ==
  /\ ~Per /\ E.ev = "plan_end"
  /\ ts' = [ts EXCEPT !.phase = "act", !.steps = @ + 1]
  /\ Fail(If(ts.phase # "plan", "PhaseOrder")
          \cup If(ts.k # C.nplan, "ExactlyNPlanPerStep")
          \cup If(E.mdig # ts.mdig, "PlanningKeepsModel")
          \cup If(E.tout # ts.tlast, "ReturnedTableIsLast"))

EvEndDyna ==
  /\ ~Per /\ E.ev = "end"
  /\ UNCHANGED ts
  /\ Fail(If(ts.phase # "act", "PhaseOrder") \cup If(E.tout # ts.tlast, "ReturnedTableIsLast") \cup If(ts.steps # C.T, "StepsEqualBudget"))

Known == {"add", "sample", "train", "prio_fn", "update_priority", "reset_max_priority", "bufcall", "end",
          "direct", "count", "model", "plan_start", "plan", "plan_end"}
EvOther ==
  /\ E.ev \notin Known
  /\ UNCHANGED ts /\ Fail({})

TNext == /\ l <= Len(TR.events)
         /\ (EvAdd \/ EvSample \/ EvTrain \/ EvPrioFn \/ EvUpdate \/ EvReset \/ EvBufcall \/ EvEndPer
             \/ EvDirect \/ EvCount \/ EvModel \/ EvPlanStart \/ EvPlan \/ EvPlanEnd \/ EvEndDyna \/ EvOther)
         /\ l' = l + 1 /\ UNCHANGED <<tid, vars>>

Verdict == (l = Len(TR.events) + 1) =>
             PrintT(<<"VERDICT", ToJson([id |-> TR.id, steps |-> ts.steps, learns |-> ts.learns, plans |-> ts.plans, viol |-> viol])>>)
=============================================================================
