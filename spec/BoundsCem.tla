--------------------------- MODULE BoundsCem ---------------------------
(* C10, the cross-entropy planner (rl_blox.blox.cross_entropy_method, used  *)
(* by PETS through _init_mpc_optimizer_cem): every candidate lies inside the *)
(* box and the mean of the search distribution stays inside.                 *)
(*                                                                           *)
(*   cem_sample   SampleCandidates: x = mean + z * sqrt(min(var, (lbd/2)^2, (ubd/2)^2)), z in [-2, 2] *)
(*   cem_update   UpdateMean: mean' = alpha*mean + (1-alpha)*average(n_elite best candidates)        *)
(*                                                                           *)
(* Staged choice of one test vector.  The truncated-normal draw z is a       *)
(* lattice value (including the limits -2 and 2, which the real generator    *)
(* only approaches) or a row of REAL draws of jax.random.truncated_normal    *)
(* recorded by the harness (file named by C10_NOISE).  cem_update takes its  *)
(* candidates as an argument: its vectors use a population of four lattice   *)
(* candidates produced by SampleCandidates.                                  *)
EXTENDS BoundsOps, FiniteSets, TLC, Json, IOUtils

CONSTANTS Boxes,     \* set of box-configuration names
          NoiseSrc,  \* "lattice" | "file"
          Variant,   \* "code" | "unconstrained" | "full_dist"
          Flow,      \* "sample" | "update"
          URows,     \* flow "update": first lattice rows of the populations explored (subset of 0..6)
          EMIT

VARIABLES stage,  \* "start" | "box" | "dist" | "sampled" | "updated"
          bx,     \* name of the box configuration
          ds,     \* [mpat, spat]: where the mean sits, how wide the distribution is
          zr,     \* [id, z]: draw (flow "sample") / first of four lattice rows (flow "update")
          up      \* [ne, alpha, fp]: n_elite, alpha, fitness pattern
vars == <<stage, bx, ds, zr, up>>

----------------------------------------------------------------------------
BoxDefs == [
  sym1  |-> << Dim(Q(-1, 1), Q(1, 1), 0) >>,
  asym1 |-> << Dim(Q(-1, 1), Q(2, 1), 0) >>,
  pos1  |-> << Dim(Q(1, 2), Q(1, 1), 0) >>,
  tiny1 |-> << Dim(Q(-1, 1), Q(1, 1), -20) >>,
  hugeasym1 |-> << Dim(Q(1, 2), Q(2, 1), 20) >>,
  mix2  |-> << Dim(Q(-1, 1), Q(1, 1), 0), Dim(Q(1, 2), Q(1, 1), 0) >>,
  mix3  |-> << Dim(Q(-2, 1), Q(-1, 2), 0), Dim(Q(-1, 1), Q(1, 1), -20), Dim(Q(0, 1), Q(2, 1), 20) >>
]
Box  == BoxDefs[bx]
Dims == 1..Len(Box)

Fracs == << Q(0, 1), Q(1, 4), Q(1, 2), Q(3, 4), Q(1, 1) >>   \* mean position: both faces included
(* standard deviation at unit scale: tiny, moderate, far wider than the box *)
SdSeq == IF NoiseSrc = "file" THEN << Q(1, 4), Q(1, 1), Q(1024, 1) >>
                              ELSE << Q(1, 1024), Q(1, 4), Q(1, 1), Q(1024, 1) >>
Pick(seq, p, j) == seq[((p + 2 * (j - 1)) % Len(seq)) + 1]
Mean(j) == DAdd(Box[j].lo, QMul(Pick(Fracs, ds.mpat, j), Range(Box[j])))
Sd(j)   == Pick(SdSeq, ds.spat, j)

ZLat == << Q(-2, 1), Q(1, 2), Q(2, 1), Q(-1, 1), Q(0, 1), Q(3, 2), Q(-1, 2) >>
ZRow(r, dim) == [j \in 1..dim |-> ZLat[((r + 3 * (j - 1)) % 7) + 1]]
ZFile == JsonDeserialize(IOEnv.C10_NOISE)
ZRows(dim) ==
  IF NoiseSrc = "lattice"
    THEN {[id |-> r, z |-> ZRow(r, dim)] : r \in 0..6}
    ELSE {[id |-> ZFile[k].id, z |-> [j \in 1..dim |-> <<ZFile[k].n[j][1], ZFile[k].n[j][2]>>]] :
             k \in {k \in 1..Len(ZFile) : ZFile[k].dim = dim}}

(* the composition under test *)
XCandidate(j, z) ==
  CASE Variant = "code"          -> Candidate(Box[j], Mean(j), Sd(j), z)
    [] Variant = "unconstrained" -> CandidateUnconstrained(Box[j], Mean(j), Sd(j), z)
    [] Variant = "full_dist"     -> CandidateFullDist(Box[j], Mean(j), Sd(j), z)
Vec(f(_)) == [j \in Dims |-> f(j)]
Cand(j)   == XCandidate(j, zr.z[j])
CSd(j)    == ConstrainedSd(Box[j], Mean(j), Sd(j))
OnFace(j) == DEq(Mean(j), Box[j].lo) \/ DEq(Mean(j), Box[j].hi)

(* flow "update": population of N = 4 candidates from four consecutive lattice rows *)
N == 4
Pop(i, j) == XCandidate(j, ZRow(zr.id + i - 1, Len(Box))[j])
Fit(i) == ((3 * i) + up.fp) % N                       \* distinct fitness values, larger is better
Elites == {i \in 1..N : Cardinality({o \in 1..N : Fit(o) > Fit(i)}) < up.ne}
EliteMean(j) == QDiv(QSum([i \in 1..N |-> IF i \in Elites THEN Pop(i, j) ELSE Zero]), I(up.ne))
NewMean(j) == Blend(up.alpha, Mean(j), EliteMean(j))
Alphas == {Q(0, 1), Q(1, 4), Q(1, 2), Q(1, 1)}

EmitSample ==
  EMIT => PrintT(<<"EMIT", ToJson([op |-> "sample", box |-> bx, dims |-> Box, mpat |-> ds.mpat, spat |-> ds.spat,
     mean |-> Vec(Mean), sd |-> Vec(Sd), noise |-> zr.id, z |-> zr.z,
     csd |-> Vec(CSd), cand |-> Vec(Cand), onface |-> Vec(OnFace)])>>)
EmitUpdate ==
  EMIT => PrintT(<<"EMIT", ToJson([op |-> "update", box |-> bx, dims |-> Box, mpat |-> ds.mpat, spat |-> ds.spat,
     mean |-> Vec(Mean), sd |-> Vec(Sd), row |-> zr.id,
     pop |-> [i \in 1..N |-> [j \in Dims |-> Pop(i, j)]], fit |-> [i \in 1..N |-> Fit(i)],
     ne |-> up.ne, alpha |-> up.alpha, elites |-> Elites, newmean |-> Vec(NewMean)])>>)

----------------------------------------------------------------------------
Init == stage = "start" /\ bx = "-" /\ ds = <<>> /\ zr = <<>> /\ up = <<>>

ChooseBox(b) ==
  /\ stage = "start" /\ stage' = "box" /\ bx' = b
  /\ UNCHANGED <<ds, zr, up>>

ChooseDist(m, s) ==
  /\ stage = "box" /\ stage' = "dist" /\ ds' = [mpat |-> m, spat |-> s]
  /\ UNCHANGED <<bx, zr, up>>

(* cem_sample: one candidate (one row of the population) *)
SampleCandidates(r) ==
  /\ stage = "dist" /\ Flow = "sample" /\ stage' = "sampled" /\ zr' = r
  /\ UNCHANGED <<bx, ds, up>>

(* cem_sample x 4 followed by cem_update *)
UpdateMean(r, ne, a, fp) ==
  /\ stage = "dist" /\ Flow = "update" /\ stage' = "updated"
  /\ zr' = [id |-> r, z |-> ZRow(r, Len(Box))]
  /\ up' = [ne |-> ne, alpha |-> a, fp |-> fp]
  /\ UNCHANGED <<bx, ds>>

PickDraw == stage = "dist" /\ \E r \in ZRows(Len(Box)) : SampleCandidates(r)
Next == \/ \E b \in Boxes : ChooseBox(b)
        \/ \E m \in 0..4 : \E s \in 0..(Len(SdSeq) - 1) : ChooseDist(m, s)
        \/ PickDraw
        \/ \E r \in URows : \E ne \in {1, 2, 4} : \E a \in Alphas : \E fp \in 0..1 : UpdateMean(r, ne, a, fp)
        \/ (stage = "sampled" /\ EmitSample /\ UNCHANGED vars)
        \/ (stage = "updated" /\ EmitUpdate /\ UNCHANGED vars)
Spec == Init /\ [][Next]_vars

----------------------------------------------------------------------------
(* Properties (C10) *)
Sampled == stage = "sampled"
Updated == stage = "updated"
(* every candidate lies inside the box *)
CandidateInBox == /\ Sampled => \A j \in Dims : InBox(Box[j], Cand(j))
                  /\ Updated => \A i \in 1..N : \A j \in Dims : InBox(Box[j], Pop(i, j))
(* because the standard deviation is at most half the distance to the nearer face and |z| <= 2 *)
SdHalvesDistance ==
  Sampled => \A j \in Dims : /\ DLe(Zero, CSd(j))
                             /\ DLe(QMul(I(2), CSd(j)), LbDist(Box[j], Mean(j)))
                             /\ DLe(QMul(I(2), CSd(j)), UbDist(Box[j], Mean(j)))
                             /\ DLe(CSd(j), Sd(j))
(* a mean on a face of the box only proposes itself *)
FaceMeanIsFixed == Sampled => \A j \in Dims : OnFace(j) => DEq(Cand(j), Mean(j))
(* the mean stays inside *)
NewMeanInBox == Updated => \A j \in Dims : InBox(Box[j], NewMean(j))
NumberOfElites == Updated => Cardinality(Elites) = up.ne
TypeOK == stage \in {"start", "box", "dist", "sampled", "updated"}
=============================================================================
