--------------------------- MODULE Exact ---------------------------
(* Device D2: exact rational arithmetic for TLC.  A rational is a pair         *)
(* <<num, den>> with den > 0 in lowest terms.  On dyadic inputs float32        *)
(* arithmetic in the implementation is exact too, so values are compared      *)
(* with equality.  TLC integers are 32-bit: lattices are kept small and an    *)
(* overflow is a TLC error, never silent.                                     *)
EXTENDS Integers, Sequences

Abs(x) == IF x < 0 THEN -x ELSE x
RECURSIVE GCD(_, _)
GCD(a, b) == IF b = 0 THEN a ELSE GCD(b, a % b)

Norm(n, d) == LET s == IF d < 0 THEN -1 ELSE 1
                  g == GCD(Abs(n), Abs(d))
              IN IF n = 0 THEN <<0, 1>> ELSE <<(s * n) \div g, (s * d) \div g>>

Q(n, d)  == Norm(n, d)          \* the rational n/d
I(n)     == <<n, 1>>            \* the integer n
Zero     == <<0, 1>>
One      == <<1, 1>>
Half     == <<1, 2>>

QAdd(a, b) == Norm(a[1] * b[2] + b[1] * a[2], a[2] * b[2])
QSub(a, b) == Norm(a[1] * b[2] - b[1] * a[2], a[2] * b[2])
QMul(a, b) == Norm(a[1] * b[1], a[2] * b[2])
QDiv(a, b) == Norm(a[1] * b[2], a[2] * b[1])    \* b # 0
QNeg(a)    == <<-a[1], a[2]>>
QAbs(a)    == <<Abs(a[1]), a[2]>>
QLt(a, b)  == a[1] * b[2] < b[1] * a[2]
QLe(a, b)  == a[1] * b[2] <= b[1] * a[2]
QEq(a, b)  == a[1] * b[2] = b[1] * a[2]
QMin(a, b) == IF QLe(a, b) THEN a ELSE b
QMax(a, b) == IF QLe(a, b) THEN b ELSE a
QClip(x, lo, hi) == QMax(lo, QMin(x, hi))
QSq(a)     == QMul(a, a)
QSign(a)   == IF a[1] > 0 THEN 1 ELSE IF a[1] < 0 THEN -1 ELSE 0

(* folds over sequences of rationals *)
RECURSIVE QSumTo(_, _)
QSumTo(s, k) == IF k = 0 THEN Zero ELSE QAdd(QSumTo(s, k - 1), s[k])
QSum(s)  == QSumTo(s, Len(s))
QMean(s) == QDiv(QSum(s), I(Len(s)))
RECURSIVE QMaxTo(_, _)
QMaxTo(s, k) == IF k = 1 THEN s[1] ELSE QMax(QMaxTo(s, k - 1), s[k])
QMaxSeq(s) == QMaxTo(s, Len(s))
RECURSIVE QMinTo(_, _)
QMinTo(s, k) == IF k = 1 THEN s[1] ELSE QMin(QMinTo(s, k - 1), s[k])
QMinSeq(s) == QMinTo(s, Len(s))
(* indices (1-based) at which a sequence of rationals attains its maximum *)
ArgMaxSet(s) == {i \in 1..Len(s) : QEq(s[i], QMaxSeq(s))}
(* first maximiser, as numpy / jax argmax break ties *)
ArgMaxFirst(s) == CHOOSE i \in ArgMaxSet(s) : \A j \in ArgMaxSet(s) : i <= j
=============================================================================
