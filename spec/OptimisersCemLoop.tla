------------------------ MODULE OptimisersCemLoop ------------------------
(* optimize_cem as a user of cem_sample / cem_update: trace validation (code -> *)
(* spec).  The harness interposes on cem_sample, cem_update and the fitness     *)
(* function.  Arrays are abstracted to version ids (device D5): the search      *)
(* distribution after t updates is version t, the population of iteration t is  *)
(* population t.  Comparisons with epsilon are decided here on float32 ordinals *)
(* (device D4).  A trace is accepted iff every event is consumed.               *)
EXTENDS Integers, Sequences, TLC, Json, IOUtils

Traces == JsonDeserialize(IOEnv.TRACE_FILE)

VARIABLES tr, i,
          t,      \* completed iterations = version of (mean, var)
          st      \* "top" | "sampled" | "evaluated" | "done"
vars == <<tr, i, t, st>>

Ev  == Traces[tr][i + 1]
Cfg == Traces[tr][1]          \* first event: op = "Call", the arguments of optimize_cem

Init == tr \in 1..Len(Traces) /\ i = 0 /\ t = 0 /\ st = "call"
Consume(op) == i < Len(Traces[tr]) /\ Ev.op = op /\ i' = i + 1

Call == /\ Consume("Call") /\ st = "call"
        /\ st' = IF Ev.ne > Ev.n THEN "reject" ELSE "top"
        /\ UNCHANGED <<tr, t>>

(* n_elite > n_population is refused before anything is sampled *)
Reject == /\ Consume("ValueError") /\ st = "reject" /\ st' = "done" /\ UNCHANGED <<tr, t>>

(* the loop continues iff iterations remain and max(var) > epsilon *)
Continue(ordMaxVar) == t < Cfg.iters /\ ordMaxVar > Cfg.ordEps

Sample == /\ Consume("Sample") /\ st = "top"
          /\ Continue(Ev.ordMaxVar)
          /\ Ev.dist = t                   \* samples from the current distribution ...
          /\ Ev.n = Cfg.n /\ Ev.boxIsCallers
          /\ Ev.keyFresh                   \* ... with a key not used before
          /\ st' = "sampled" /\ UNCHANGED <<tr, t>>

Fitness == /\ Consume("Fitness") /\ st = "sampled"
           /\ Ev.population = t            \* evaluates exactly the population just sampled
           /\ st' = "evaluated" /\ UNCHANGED <<tr, t>>

Update == /\ Consume("Update") /\ st = "evaluated"
          /\ Ev.population = t /\ Ev.fitness = t /\ Ev.dist = t
          /\ Ev.ne = Cfg.ne /\ Ev.alphaIsCallers
          /\ t' = t + 1 /\ st' = "top" /\ UNCHANGED tr

Return == /\ Consume("Return") /\ st = "top"
          /\ ~Continue(Ev.ordMaxVar)
          /\ Ev.dist = t                   \* the current mean is returned
          /\ Ev.pathLen = t /\ Ev.pathIsMeans /\ Ev.samplesArePopulations
          /\ st' = "done" /\ UNCHANGED <<tr, t>>

Next == Call \/ Reject \/ Sample \/ Fitness \/ Update \/ Return
Spec == Init /\ [][Next]_vars

Accepted == (i < Len(Traces[tr]) \/ st # "done") => ENABLED Next
IterationsBounded == t <= Cfg.iters
=============================================================================
