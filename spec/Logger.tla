--------------------------- MODULE Logger ---------------------------
(* Loggers of rl_blox.logging: MemoryLogger, StandardLogger, StdoutLogger       *)
(* (logger.py), OrbaxCheckpointer (checkpointer.py) and LoggerList.              *)
(*                                                                            *)
(* The state is a LIST of member loggers (Kinds = <<"memory">> is one plain     *)
(* MemoryLogger, a longer sequence is a LoggerList of these members).  Every    *)
(* public call is one action that is delivered to every member (fan-out);     *)
(* what a member does with it is the per-class operator  <Call>M.  The ghost   *)
(* variable g is the caller's own book-keeping of what it asked the loggers to  *)
(* record - the properties compare the members with g.                         *)
(*                                                                            *)
(*   start_new_episode            -> StartEpisode                              *)
(*   stop_episode(n)              -> StopEpisode(n)                            *)
(*   record_stat(key,v,ep?,step?) -> RecordStat(key, v, ep, step)              *)
(*   define_experiment(env,algo,hp) -> DefineExperiment  (names the run only)  *)
(*   define_checkpoint_frequency  -> DefineFrequency(key, I)                   *)
(*   record_epoch(key,module,ep?,step?) -> RecordEpoch(key, ep, step)          *)
(* An omitted optional argument is NONE (-1).  The module passed to record_epoch *)
(* is abstracted to its version  ver = index of the call  (device D5: the       *)
(* driver writes ver into the parameter of a tiny nnx module).                  *)
EXTENDS Integers, Sequences, FiniteSets, TLC, Json

CONSTANTS Kinds,       \* sequence over {"memory","standard","orbax","stdout"}
          Keys,        \* statistic / function-approximator names
          Values,      \* recorded values
          EpVals,      \* explicit episode arguments
          StepVals,    \* explicit step arguments of record_stat
          EpochSteps,  \* explicit step arguments of record_epoch
          StopVals,    \* episode lengths passed to stop_episode
          Intervals,   \* checkpoint intervals
          Ops,         \* names of the public calls explored in this configuration
          MaxCalls,    \* bound on the number of calls (depth)
          TrackLoc,    \* TRUE: the StandardLogger's epoch_loc list is part of the state
          EMIT         \* TRUE: print one EMIT record per transition

VARIABLES m,   \* m[i] = state of member i
          g    \* ghost: the caller's view (never shown to the implementation)

vars == <<m, g>>

(* what is shown of a member: the attributes its class has (the other fields of the *)
(* uniform member record never change for that class - invariant InertFields)       *)
Shown(r) ==
  CASE r.kind = "memory"   -> [kind |-> r.kind, nEp |-> r.nEp, nSteps |-> r.nSteps, stats |-> r.stats]
    [] r.kind = "standard" -> [kind |-> r.kind, nEp |-> r.nEp, nSteps |-> r.nSteps, stats |-> r.stats,
                               epochs |-> r.epochs, freq |-> r.freq, ck |-> r.ck, eloc |-> r.eloc]
    [] r.kind = "orbax"    -> [kind |-> r.kind, nEp |-> r.nEp, nSteps |-> r.nSteps,
                               epochs |-> r.epochs, freq |-> r.freq, ck |-> r.ck, last |-> r.last]
    [] OTHER               -> [kind |-> r.kind, nEp |-> r.nEp, nSteps |-> r.nSteps]
View == [m |-> [i \in DOMAIN m |-> Shown(m[i])]]

(* member lists used by the configurations (cfg files cannot hold tuples): Kinds <- K_... *)
K_memory   == <<"memory">>
K_standard == <<"standard">>
K_orbax    == <<"orbax">>
K_stdout   == <<"stdout">>
K_ms       == <<"memory", "standard">>
K_so       == <<"standard", "orbax">>
K_all      == <<"memory", "standard", "orbax", "stdout">>

NONE == -1
Dflt(x, cur) == IF x = NONE THEN cur ELSE x
StatKeys == Keys \cup {"episode_length"}
Members == DOMAIN Kinds

RecordsStats(kind) == kind \in {"memory", "standard"}
Checkpoints(kind)  == kind \in {"standard", "orbax"}

Emit(op, args, exp) ==
  EMIT => PrintT(<<"EMIT", ToJson([pre |-> View, op |-> op, args |-> args, exp |-> exp, post |-> View'])>>)

----------------------------------------------------------------------------
(* The two cadence tests *)

(* specification: the step passed at least one multiple of I since the previous record *)
Crossing(last, step, I) == (step \div I) > (last \div I)

(* checkpointer.py:188-193, literally: remainder wrapped around OR gap >= interval *)
ImplWrapOrGap(last, step, I) == ((last % I) > (step % I)) \/ ((step - last) >= I)

(* the literal statement of the property: some multiple q*I lies in (last, step] *)
PassedMultiple(last, step, I) == \E q \in 1..(step \div I) : last < q * I /\ q * I <= step

----------------------------------------------------------------------------
(* Per-class behaviour of one member r *)

InitMember(kind) ==
  [kind   |-> kind, nEp |-> 0, nSteps |-> 0,
   stats  |-> [k \in StatKeys |-> <<>>],   \* stats[k][j] = <<value, episode, step>>
   epochs |-> [k \in Keys |-> 0],          \* epoch[key]  (record_epoch calls)
   freq   |-> [k \in Keys |-> 0],          \* checkpoint_frequencies[key], 0 = not defined
   last   |-> [k \in Keys |-> 0],          \* OrbaxCheckpointer.last_step[key]
   ck     |-> [k \in Keys |-> <<>>],       \* checkpoint_path[key]: standard <<epoch, ver>>, orbax <<step, epoch, ver>>
   eloc   |-> [k \in Keys |-> <<>>]]       \* StandardLogger.epoch_loc[key][j] = <<episode, step>>

AppendStat(r, key, v, ep, step) == [r EXCEPT !.stats[key] = Append(@, <<v, ep, step>>)]

StartEpisodeM(r) == [r EXCEPT !.nEp = @ + 1]

(* all classes add to n_steps; only the classes that store statistics record 'episode_length' *)
StopEpisodeM(r, n) ==
  LET r1 == [r EXCEPT !.nSteps = @ + n]
  IN IF RecordsStats(r.kind) THEN AppendStat(r1, "episode_length", n, r1.nEp, r1.nSteps) ELSE r1

RecordStatM(r, key, v, ep, step) ==
  IF RecordsStats(r.kind) THEN AppendStat(r, key, v, Dflt(ep, r.nEp), Dflt(step, r.nSteps)) ELSE r

(* (re)defining a frequency starts the cadence of that key anew *)
DefineFrequencyM(r, key, I) ==
  IF Checkpoints(r.kind)
  THEN [r EXCEPT !.freq[key] = I, !.ck[key] = <<>>, !.last[key] = 0]
  ELSE r

RecordEpochStandardM(r, key, ver, ep, step) ==
  LET e  == r.epochs[key] + 1
      r1 == [r EXCEPT !.epochs[key] = e,
                      !.eloc[key] = IF TrackLoc THEN Append(@, <<Dflt(ep, r.nEp), Dflt(step, r.nSteps)>>) ELSE @]
  IN IF r.freq[key] > 0 /\ e % r.freq[key] = 0
     THEN [r1 EXCEPT !.ck[key] = Append(@, <<e, ver>>)]
     ELSE r1

RecordEpochOrbaxM(r, key, ver, step, Test(_, _, _)) ==
  LET e  == r.epochs[key] + 1
      s  == Dflt(step, r.nSteps)
      r1 == [r EXCEPT !.epochs[key] = e, !.last[key] = s]
  IN IF r.freq[key] > 0 /\ Test(r.last[key], s, r.freq[key])
     THEN [r1 EXCEPT !.ck[key] = Append(@, <<s, e, ver>>)]
     ELSE r1

RecordEpochM(r, key, ver, ep, step) ==
  CASE r.kind = "standard" -> RecordEpochStandardM(r, key, ver, ep, step)
    [] r.kind = "orbax"    -> RecordEpochOrbaxM(r, key, ver, step, Crossing)
    [] OTHER               -> r

----------------------------------------------------------------------------
(* The public calls (fan-out to every member) *)

Init == /\ m = [i \in Members |-> InitMember(Kinds[i])]
        /\ g = [calls |-> 0, nEp |-> 0, nSteps |-> 0,
                log  |-> <<>>,                      \* every statistic the caller asked to record, in order
                hist |-> [k \in Keys |-> <<>>]]     \* record_epoch calls per key since its frequency was defined

Can(op) == op \in Ops /\ g.calls < MaxCalls
HLast(k) == IF g.hist[k] = <<>> THEN 0 ELSE g.hist[k][Len(g.hist[k])].step

StartEpisode ==
  /\ Can("StartEpisode")
  /\ m' = [i \in Members |-> StartEpisodeM(m[i])]
  /\ g' = [g EXCEPT !.calls = @ + 1, !.nEp = @ + 1]
  /\ Emit("StartEpisode", <<>>, <<>>)

StopEpisode(n) ==
  /\ Can("StopEpisode")
  /\ m' = [i \in Members |-> StopEpisodeM(m[i], n)]
  /\ g' = [g EXCEPT !.calls = @ + 1, !.nSteps = @ + n,
                    !.log = Append(@, [key |-> "episode_length", v |-> n, ep |-> g.nEp, step |-> g.nSteps + n])]
  /\ Emit("StopEpisode", [n |-> n], <<>>)

RecordStat(key, v, ep, step) ==
  /\ Can("RecordStat")
  /\ m' = [i \in Members |-> RecordStatM(m[i], key, v, ep, step)]
  /\ g' = [g EXCEPT !.calls = @ + 1,
                    !.log = Append(@, [key |-> key, v |-> v, ep |-> Dflt(ep, g.nEp), step |-> Dflt(step, g.nSteps)])]
  /\ Emit("RecordStat", [key |-> key, v |-> v, ep |-> ep, step |-> step],
          [ep |-> Dflt(ep, g.nEp), step |-> Dflt(step, g.nSteps)])

(* define_experiment names the run and restarts the wall clock (both outside the *)
(* abstraction); nothing that was recorded or counted may change                  *)
DefineExperiment ==
  /\ Can("DefineExperiment")
  /\ UNCHANGED m
  /\ g' = [g EXCEPT !.calls = @ + 1]
  /\ Emit("DefineExperiment", <<>>, <<>>)

DefineFrequency(key, I) ==
  /\ Can("DefineFrequency")
  /\ m' = [i \in Members |-> DefineFrequencyM(m[i], key, I)]
  /\ g' = [g EXCEPT !.calls = @ + 1, !.hist[key] = <<>>]
  /\ Emit("DefineFrequency", [key |-> key, I |-> I], <<>>)

(* the property quantifies over NON-DECREASING step sequences per key *)
RecordEpochWith(key, ep, step, MemberOp(_, _, _, _, _)) ==
  LET s == Dflt(step, g.nSteps)
      ver == g.calls + 1
  IN /\ Can("RecordEpoch")
     /\ s >= HLast(key)
     /\ m' = [i \in Members |-> MemberOp(m[i], key, ver, ep, step)]
     /\ g' = [g EXCEPT !.calls = @ + 1, !.hist[key] = Append(@, [step |-> s, ver |-> ver])]
     /\ Emit("RecordEpoch", [key |-> key, ver |-> ver, ep |-> ep, step |-> step], [step |-> s])

RecordEpoch(key, ep, step) == RecordEpochWith(key, ep, step, RecordEpochM)

OptEp == EpVals \cup {NONE}
Next ==
  \/ StartEpisode
  \/ DefineExperiment
  \/ \E n \in StopVals : StopEpisode(n)
  \/ \E k \in Keys, v \in Values, ep \in OptEp, s \in StepVals \cup {NONE} : RecordStat(k, v, ep, s)
  \/ \E k \in Keys, I \in Intervals : DefineFrequency(k, I)
  \/ \E k \in Keys, ep \in OptEp, s \in EpochSteps \cup {NONE} : RecordEpoch(k, ep, s)

Spec == Init /\ [][Next]_vars

----------------------------------------------------------------------------
(* Properties (C20) *)

Triple(e) == <<e.v, e.ep, e.step>>
LogOf(k) == LET sel == SelectSeq(g.log, LAMBDA e : e.key = k)
            IN [j \in 1..Len(sel) |-> Triple(sel[j])]

TypeOK ==
  /\ g.calls \in 0..MaxCalls
  /\ \A i \in Members :
       /\ m[i].kind = Kinds[i] /\ m[i].nEp \in Nat /\ m[i].nSteps \in Nat
       /\ \A k \in Keys : m[i].freq[k] \in {0} \cup Intervals /\ m[i].epochs[k] \in 0..MaxCalls

(* every recorded statistic is retrievable in recording order with its value and the *)
(* location it was recorded under (explicit, or the caller's counters at that moment) *)
StatsFaithful ==
  \A i \in Members, k \in StatKeys :
    m[i].stats[k] = IF RecordsStats(m[i].kind) THEN LogOf(k) ELSE <<>>

(* counters advance exactly with start / stop *)
CountersExact == \A i \in Members : m[i].nEp = g.nEp /\ m[i].nSteps = g.nSteps

(* a logger list delivers identical records to every member *)
FanOutEqual ==
  \A i, j \in Members :
    /\ m[i].nEp = m[j].nEp /\ m[i].nSteps = m[j].nSteps
    /\ (RecordsStats(m[i].kind) /\ RecordsStats(m[j].kind)) => m[i].stats = m[j].stats
    /\ (Checkpoints(m[i].kind) /\ Checkpoints(m[j].kind)) => (m[i].epochs = m[j].epochs /\ m[i].freq = m[j].freq)
    /\ m[i].kind = m[j].kind => m[i] = m[j]

(* history of record_epoch(key) since define_checkpoint_frequency(key) *)
H(k) == g.hist[k]
Prev(k, j) == IF j = 1 THEN 0 ELSE H(k)[j - 1].step
EpochAt(r, k, j) == r.epochs[k] - Len(H(k)) + j          \* epoch number of the j-th of these records
Pick(k, Keep(_)) == SelectSeq([j \in 1..Len(H(k)) |-> j], Keep)

(* StandardLogger: a checkpoint on exactly every I-th recorded epoch *)
StandardCadence ==
  \A i \in Members, k \in Keys :
    m[i].kind = "standard" =>
      LET r == m[i]
          I == r.freq[k]
          sel == IF I = 0 THEN <<>> ELSE Pick(k, LAMBDA j : EpochAt(r, k, j) % I = 0)
      IN r.ck[k] = [n \in 1..Len(sel) |-> <<EpochAt(r, k, sel[n]), H(k)[sel[n]].ver>>]

(* OrbaxCheckpointer: exactly one checkpoint on each record whose step has passed one *)
(* or more multiples of the interval since the previous record, none otherwise; the   *)
(* checkpoint is named after that record's step / epoch and holds that record's module *)
OrbaxCadence ==
  \A i \in Members, k \in Keys :
    m[i].kind = "orbax" =>
      LET r == m[i]
          I == r.freq[k]
          sel == IF I = 0 THEN <<>> ELSE Pick(k, LAMBDA j : PassedMultiple(Prev(k, j), H(k)[j].step, I))
      IN /\ r.ck[k] = [n \in 1..Len(sel) |-> <<H(k)[sel[n]].step, EpochAt(r, k, sel[n]), H(k)[sel[n]].ver>>]
         /\ r.last[k] = HLast(k)

(* consequence: no multiple of the interval is skipped, and there are never more *)
(* checkpoints than multiples passed                                            *)
OrbaxCoversMultiples ==
  \A i \in Members, k \in Keys :
    (m[i].kind = "orbax" /\ m[i].freq[k] > 0) =>
      LET I == m[i].freq[k]
          c == m[i].ck[k]
      IN /\ Len(c) <= HLast(k) \div I
         /\ \A q \in 1..(HLast(k) \div I) :
              \E n \in 1..Len(c) :
                /\ c[n][1] >= q * I
                /\ \A j \in 1..Len(H(k)) : H(k)[j].step >= q * I => H(k)[j].step >= c[n][1]

(* the implementation's test decides like the specification's on every state reached, *)
(* for every next step that does not decrease                                         *)
ImplEquivReachable ==
  \A i \in Members, k \in Keys :
    (m[i].kind = "orbax" /\ m[i].freq[k] > 0) =>
      LET I == m[i].freq[k]
          l == m[i].last[k]
      IN \A s \in l..(l + 3 * I) :
           /\ ImplWrapOrGap(l, s, I) <=> Crossing(l, s, I)
           /\ Crossing(l, s, I) <=> PassedMultiple(l, s, I)

(* ... and on a whole bounded domain (evaluated on the initial state only) *)
DomI == 1..12
DomS == 0..60
EquivOn(Test(_, _, _)) ==
  \A I \in DomI, l \in DomS, s \in DomS :
    s >= l => (Test(l, s, I) <=> Crossing(l, s, I))
ImplEquivDomain == g.calls >= 0 /\ EquivOn(ImplWrapOrGap) /\ EquivOn(PassedMultiple)   \* (state-level on purpose)

(* checkpoint directory names contain key and epoch; epochs of one key strictly increase, *)
(* so two checkpoints of one logger can never share a directory                          *)
EpochOf(kind, entry) == IF kind = "orbax" THEN entry[2] ELSE entry[1]
NamesDistinct ==
  \A i \in Members, k \in Keys :
    \A n \in 1..(Len(m[i].ck[k]) - 1) :
      EpochOf(m[i].kind, m[i].ck[k][n]) < EpochOf(m[i].kind, m[i].ck[k][n + 1])

(* members that do not store / checkpoint keep nothing (justifies Shown) *)
InertFields ==
  \A i \in Members :
    /\ ~RecordsStats(m[i].kind) => \A k \in StatKeys : m[i].stats[k] = <<>>
    /\ ~Checkpoints(m[i].kind) =>
         \A k \in Keys : m[i].ck[k] = <<>> /\ m[i].epochs[k] = 0 /\ m[i].freq[k] = 0
    /\ m[i].kind # "orbax" => \A k \in Keys : m[i].last[k] = 0
    /\ m[i].kind # "standard" => \A k \in Keys : m[i].eloc[k] = <<>>

Stop == FALSE /\ UNCHANGED vars      \* NEXT for runs that evaluate invariants on Init only

----------------------------------------------------------------------------
(* Deviations (canaries: TLC must refute each of them) *)

(* the naive cadence the code comment warns about: step % I = 0 misses delayed updates *)
ModuloOnly(last, step, I) == step % I = 0
RecordEpochBadM(r, key, ver, ep, step) ==
  IF r.kind = "orbax" THEN RecordEpochOrbaxM(r, key, ver, step, ModuloOnly) ELSE RecordEpochM(r, key, ver, ep, step)
NextBadModulo ==
  \/ \E n \in StopVals : StopEpisode(n)
  \/ \E k \in Keys, I \in Intervals : DefineFrequency(k, I)
  \/ \E k \in Keys, s \in EpochSteps \cup {NONE} : RecordEpochWith(k, NONE, s, RecordEpochBadM)

(* gap test with > instead of >= : must not be equivalent *)
ImplGapStrict(last, step, I) == ((last % I) > (step % I)) \/ ((step - last) > I)
ImplEquivDomainBad == g.calls >= 0 /\ EquivOn(ImplGapStrict)

(* stop_episode recording 'episode_length' before adding the steps *)
StopEpisodeBad(n) ==
  /\ Can("StopEpisode")
  /\ m' = [i \in Members |->
             IF RecordsStats(m[i].kind)
             THEN [AppendStat(m[i], "episode_length", n, m[i].nEp, m[i].nSteps) EXCEPT !.nSteps = @ + n]
             ELSE StopEpisodeM(m[i], n)]
  /\ g' = [g EXCEPT !.calls = @ + 1, !.nSteps = @ + n,
                    !.log = Append(@, [key |-> "episode_length", v |-> n, ep |-> g.nEp, step |-> g.nSteps + n])]
NextBadStop == StartEpisode \/ \E n \in StopVals : StopEpisodeBad(n)

(* a list that forwards record_stat to its first member only *)
RecordStatFirstOnly(key, v, ep, step) ==
  /\ Can("RecordStat")
  /\ m' = [i \in Members |-> IF i = 1 THEN RecordStatM(m[i], key, v, ep, step) ELSE m[i]]
  /\ g' = [g EXCEPT !.calls = @ + 1,
                    !.log = Append(@, [key |-> key, v |-> v, ep |-> Dflt(ep, g.nEp), step |-> Dflt(step, g.nSteps)])]
NextBadFanOut ==
  \/ StartEpisode
  \/ \E k \in Keys, v \in Values, ep \in OptEp, s \in StepVals \cup {NONE} : RecordStatFirstOnly(k, v, ep, s)
=============================================================================
