------------------------- MODULE ReturnsMRQTrace -------------------------
(* C07, code -> spec: every batch the real rl_blox.algorithm.mrq.train_mrq    *)
(* hands to its critic update (update_critic_and_policy -> mrq_loss) and to   *)
(* its encoder update (update_model_based_encoder), recorded from runs on the *)
(* scripted environment, is judged row by row with the clauses of ReturnsMRQ  *)
(* against the ENVIRONMENT's own log of the run; TLC prints for every critic  *)
(* row the n-step return, residual discount and critic target that follow     *)
(* from the log of the episode the row starts in (exact rationals) - the      *)
(* driver only compares them with what the real loss computed.                *)
(*                                                                            *)
(* Trace file: a sequence of runs                                             *)
(*   [eh, qh, g: <<n, d>>, eps: << <<length, ending>>, ... >>, rows: <<...>>] *)
(* critic row  [kind |-> "critic", obs: <<ep, t>>, rew4: 4 * rewards, term,   *)
(*              nobs: <<ep, t>>]                                              *)
(* encoder row [kind |-> "encoder", obss, rew4, term, nobss]                  *)
EXTENDS ReturnsMRQ, IOUtils

VARIABLES tid,   \* index of the run
          l      \* next row
tvars == <<vars, tid, l>>

Traces == JsonDeserialize(IOEnv.TRACE_FILE)
Run == Traces[tid]
Row == Run.rows[l]

Rews(r) == [k \in 1..Len(r.rew4) |-> Q(r.rew4[k], 4)]
Tags(s) == [k \in 1..Len(s) |-> <<s[k][1], s[k][2]>>]

Verdict(r) ==
  IF r.kind = "critic"
  THEN LET ep == r.obs[1]  t0 == r.obs[2]  h == Len(r.rew4)
           g == Q(Run.g[1], Run.g[2])
           known == StepExists(Run.eps, ep, t0 + 1)
       IN [run |-> tid, row |-> l, kind |-> "critic",
           bad |-> CriticClauses(Run.eps, <<ep, t0>>, Rews(r), r.term, <<r.nobs[1], r.nobs[2]>>),
           own |-> IF known THEN OwnLen(Run.eps, ep, t0, h) ELSE 0,
           ret |-> IF known THEN OwnRet(Run.eps, ep, t0, h, g) ELSE Zero,
           disc |-> IF known THEN OwnDisc(Run.eps, ep, t0, h, g) ELSE Zero,
           tgt |-> IF known THEN OwnTarget(Run.eps, ep, t0, h, g) ELSE Zero]
  ELSE [run |-> tid, row |-> l, kind |-> "encoder",
        bad |-> EncoderClauses(Run.eps, Tags(r.obss), Rews(r), r.term, Tags(r.nobss))]

TInit == /\ Init
         /\ tid \in 1..Len(Traces)
         /\ l = 1

TJudge ==
  /\ l <= Len(Run.rows)
  /\ PrintT(<<"EMIT", ToJson(Verdict(Row))>>)
  /\ l' = l + 1
  /\ UNCHANGED <<vars, tid>>

TNext == TJudge
=============================================================================
