--------------------------- MODULE KeyDiscipline ---------------------------
(* X06 - the pseudo-random-key discipline of the training routines of rl_blox. *)
(* No listed property states this.                                            *)
(*                                                                            *)
(* JAX PRNG keys are VALUES: the same key handed to the same sampler gives    *)
(* the same numbers.  The documented JAX contract is that a key is used at     *)
(* most once - it is either split (and only its children are used from then    *)
(* on) or consumed by ONE sampler; every routine of rl_blox documents `seed`   *)
(* as the single source of its randomness.  The `train_*` loops are eager      *)
(* Python (only the update functions are jitted), so every key operation of a  *)
(* loop happens on a concrete key and can be observed.                         *)
(*                                                                            *)
(* The module has two halves that share one abstract state (the LEDGER: the    *)
(* tree of keys derived so far and what was done with each key) and one set    *)
(* of clause operators:                                                        *)
(*                                                                            *)
(*  OBSERVER  Observe(cfg, s, e): what an observer of the key operations       *)
(*            (root / split / fold / consume, each with its call site) may     *)
(*            conclude: the new ledger and the set of clauses the operation    *)
(*            violates, each as <<clause, site of the earlier use, site of     *)
(*            this use>>.  Re-used verbatim by KeyDisciplineTrace.tla on the    *)
(*            recorded key operations of real runs.                            *)
(*  PROGRAM   a model of the loops of the training routines in which keys are  *)
(*            what they are in JAX: values determined by their derivation      *)
(*            (Root(seed) = <<seed>>, the i-th child of k = k \o <<i>>,         *)
(*            fold_in(k, d) = k \o <<100 + d>>).  Deriving the same key twice   *)
(*            therefore gives the same value, exactly the situation the        *)
(*            discipline forbids.  Actions: Root, Split, FoldIn, Consume (one   *)
(*            per call) and Prologue / Iteration / NextCall / Finish (the       *)
(*            sections of a routine).                                          *)
(*                                                                            *)
(* Model checking: for every behaviour within the bounds the program never     *)
(* violates NoReuse, SingleRoot, ThreadedLoop; the named deviations (DEV) are   *)
(* the realistic wrong variants - several of them are what the unchanged code  *)
(* does at one site (see harness/extras/x06_cfg.py ODDITIES) - and each must   *)
(* be refuted by the invariant named for it.                                   *)
EXTENDS Integers, Sequences, FiniteSets, TLC, Json, IOUtils

CONSTANTS MaxIter,      \* iterations of the loop per call of the routine
          MaxCalls,     \* a multi-task scheduler calls the single-task routine up to MaxCalls times
          Seeds,        \* seeds a run may be given
          DEV           \* "none" or the name of a deviation

SetOf(q) == {q[i] : i \in 1..Len(q)}
Put(f, k, v) == [x \in DOMAIN f \cup {k} |-> IF x = k THEN v ELSE f[x]]

----------------------------------------------------------------------------
(*                                 LEDGER                                     *)
(* uses   key -> sequence of [op, data, site]: what was done with the key      *)
(* par    derived key -> the key it was derived from                           *)
(* roots  key -> [seed, site] for keys made by jax.random.key / PRNGKey        *)
(* last   site -> [k, ch]: the latest split at that site                       *)

Ledger0 == [uses |-> <<>>, par |-> <<>>, roots |-> <<>>, last |-> <<>>, nroot |-> 0, nsplit |-> 0, nfold |-> 0, ncons |-> 0]

Known(s) == DOMAIN s.uses
Use(op, data, site) == [op |-> op, data |-> data, site |-> site]

RECURSIVE Anc(_, _)
Anc(s, k) == IF k \in DOMAIN s.par THEN {s.par[k]} \cup Anc(s, s.par[k]) ELSE {}
RECURSIVE RootOf(_, _)
RootOf(s, k) == IF k \in DOMAIN s.par THEN RootOf(s, s.par[k]) ELSE k

(* an event as the observer sees it; keys are any values (paths in the program model, small naturals in recorded traces) *)
Ev(op, k, ch, data, site, seed, kind) == [op |-> op, k |-> k, ch |-> ch, data |-> data, site |-> site, seed |-> seed, kind |-> kind]

(* cfg: seed, span (root seeds seed..seed+span are derived from `seed`: span 0 except for schedulers, which document
   seed + global_step for their inner calls), loops (sites of the carried key of a training loop), allow (named deviations) *)
SeedAllowed(cfg, sd) == sd >= cfg.seed /\ sd <= cfg.seed + cfg.span
IsLoop(cfg, site) == \E i \in 1..Len(cfg.loops) : cfg.loops[i] = site

----------------------------------------------------------------------------
(*                                OBSERVER                                    *)

(* the clause two uses of one key violate ("" none): fold_in with different data is the one legitimate repeated use *)
PairClause(u, op, data) ==
  CASE u.op = "fold" /\ op = "fold" -> (IF u.data = data THEN "FoldTwice" ELSE "")
    [] u.op = "fold" \/ op = "fold" -> "FoldAndUse"
    [] u.op = "split" /\ op = "split" -> "SplitTwice"
    [] u.op = "consume" /\ op = "consume" -> "ConsumeTwice"
    [] OTHER -> "SplitAndConsume"

Reuse(s, k, op, data, site) ==
  IF k \notin Known(s) THEN {}
  ELSE LET us == s.uses[k]
       IN {<<PairClause(us[i], op, data), us[i].site, site>> : i \in {j \in 1..Len(us) : PairClause(us[j], op, data) # ""}}

FreshRoot(s, k) == k \in DOMAIN s.roots /\ s.uses[k] = <<>>

(* threading of a loop: consecutive splits at one site never see the same key again (LoopKeyRepeated) nor one the carried
   key descends from (LoopKeyRewound); at the site of a training loop's carried key the key must be a child of the key the
   previous iteration split, or the fresh root of a new call (LoopKeyNotThreaded) *)
Thread(cfg, s, e) ==
  IF e.site \notin DOMAIN s.last THEN {}
  ELSE LET l == s.last[e.site]
       IN IF e.k = l.k THEN {<<"LoopKeyRepeated", e.site, e.site>>}
          ELSE IF e.k \in Anc(s, l.k) THEN {<<"LoopKeyRewound", e.site, e.site>>}
          ELSE IF IsLoop(cfg, e.site) /\ e.k \notin SetOf(l.ch) /\ ~FreshRoot(s, e.k) THEN {<<"LoopKeyNotThreaded", e.site, e.site>>}
          ELSE {}

(* jax.random.key(seed) / PRNGKey(seed) (kind key / PRNGKey: e.k is the key), np.random.default_rng(seed), nnx.Rngs(seed) *)
ObsRoot(cfg, s, e) ==
  LET keyed == e.kind \in {"key", "PRNGKey"}
      bad == (IF ~SeedAllowed(cfg, e.seed) THEN {<<"RootSeed", e.site, e.site>>} ELSE {})
             \cup (IF keyed /\ e.k \in DOMAIN s.roots THEN {<<"RootTwice", s.roots[e.k].site, e.site>>} ELSE {})
  IN [bad |-> bad,
      s |-> IF keyed
            THEN [s EXCEPT !.roots = Put(@, e.k, [seed |-> e.seed, site |-> e.site]),
                           !.uses = IF e.k \in DOMAIN @ THEN @ ELSE Put(@, e.k, <<>>),
                           !.nroot = @ + 1]
            ELSE [s EXCEPT !.nroot = @ + 1]]

(* split(k, n) -> e.ch; fold_in(k, data) -> e.ch[1]; a sampler / a jitted function consumes k *)
ObsUse(cfg, s, e) ==
  LET unk == e.k \notin Known(s)
      s0 == IF unk THEN [s EXCEPT !.uses = Put(@, e.k, <<>>)] ELSE s
      bad == (IF unk THEN {<<"UnknownKey", e.site, e.site>>} ELSE {})
             \cup Reuse(s0, e.k, e.op, e.data, e.site)
             \cup (IF e.op = "split" THEN Thread(cfg, s0, e) ELSE {})
      new == SetOf(e.ch) \ Known(s0)
      u1 == [x \in Known(s0) \cup new |-> IF x = e.k THEN Append(s0.uses[x], Use(e.op, e.data, e.site))
                                           ELSE IF x \in new THEN <<>> ELSE s0.uses[x]]
      p1 == [x \in DOMAIN s0.par \cup new |-> IF x \in new THEN e.k ELSE s0.par[x]]
  IN [bad |-> bad,
      s |-> [s0 EXCEPT !.uses = u1, !.par = p1,
                       !.last = IF e.op = "split" THEN Put(@, e.site, [k |-> e.k, ch |-> e.ch]) ELSE @,
                       !.nsplit = IF e.op = "split" THEN @ + 1 ELSE @,
                       !.nfold = IF e.op = "fold" THEN @ + 1 ELSE @,
                       !.ncons = IF e.op = "consume" THEN @ + 1 ELSE @]]

Observe(cfg, s, e) == IF e.op = "root" THEN ObsRoot(cfg, s, e) ELSE ObsUse(cfg, s, e)

ReuseClauses == {"SplitTwice", "ConsumeTwice", "SplitAndConsume", "FoldTwice", "FoldAndUse", "RootTwice"}
RootClauses == {"RootSeed", "UnknownKey"}
ThreadClauses == {"LoopKeyRepeated", "LoopKeyRewound", "LoopKeyNotThreaded"}
ClausesIn(v) == {x[1] : x \in v}

(* structural statements about a ledger, independent of the clause bookkeeping *)
NoKeyReused(s) ==
  \A k \in Known(s) : \A i, j \in 1..Len(s.uses[k]) :
     i < j => (s.uses[k][i].op = "fold" /\ s.uses[k][j].op = "fold" /\ s.uses[k][i].data # s.uses[k][j].data)
UsedKeysFromSeed(cfg, s) ==
  \A k \in Known(s) : s.uses[k] # <<>> => (RootOf(s, k) \in DOMAIN s.roots /\ SeedAllowed(cfg, s.roots[RootOf(s, k)].seed))

----------------------------------------------------------------------------
(*                                 PROGRAM                                    *)

VARIABLES led,     \* the ledger (observer state)
          viol,    \* clauses violated so far: <<clause, site, site>>
          todo,    \* key operations of the current section that are still to be issued
          pc,      \* "start" | "loop" | "done"
          p        \* the routine's own variables
vars == <<led, viol, todo, pc, p>>

Child(k, i) == k \o <<i>>
FoldChild(k, d) == k \o <<100 + d>>
Children(k, n) == [i \in 1..n |-> Child(k, i)]

ERoot(kind, sd, site) == Ev("root", IF kind \in {"key", "PRNGKey"} THEN <<sd>> ELSE <<>>, <<>>, -1, site, sd, kind)
ESplit(k, n, site) == Ev("split", k, Children(k, n), -1, site, -1, "")
EFold(k, d, site) == Ev("fold", k, <<FoldChild(k, d)>>, d, site, -1, "")
ECons(k, site) == Ev("consume", k, <<>>, -1, site, -1, "")

Cfg == [seed |-> p.seed, span |-> MaxIter * MaxCalls, loops |-> <<"train:split">>, allow |-> <<>>]

P0 == [seed |-> 0, key |-> <<>>, pkey |-> <<>>, skey |-> <<>>, style |-> "split", chains |-> 1, it |-> 0, calls |-> 0, gs |-> 0,
       warm |-> TRUE, chain |-> <<>>]

Init == led = Ledger0 /\ viol = {} /\ todo = <<>> /\ pc = "start" /\ p = P0

(* the head of a training routine: rng = np.random.default_rng(seed); key = jax.random.key(seed); a routine with a second
   consumer chain (a planner with its own state) derives that chain's key by a split *)
Prologue(sd, style, chains) ==
  /\ pc = "start"
  /\ (DEV \in {"TwoRootsSameSeed", "WarmupConsumesRoot"} => chains = 2)
  /\ (DEV = "FoldSameData" => style = "fold")
  /\ (chains = 2 => style = "split")
  /\ (DEV = "SchedulerRootCollision" => style = "split" /\ chains = 1)
  /\ LET ksd == IF DEV = "HardCodedRoot" THEN 0 ELSE sd
         root == <<ksd>>
         strict2 == chains = 2 /\ DEV \notin {"TwoRootsSameSeed", "WarmupConsumesRoot"}
         sched == DEV = "SchedulerRootCollision"
     IN /\ todo' = (IF sched THEN <<ERoot("key", sd, "sched:key"), ESplit(root, 2, "sched:split"), ECons(Child(root, 2), "sched:choice")>> ELSE <<>>)  \* train_uts
                   \o <<ERoot("numpy", sd, "train:default_rng"), ERoot("key", ksd, "train:key")>>
                   \o (IF strict2 THEN <<ESplit(root, 2, "train:split_planner")>> ELSE <<>>)
                   \o (IF chains = 2 /\ ~strict2 THEN <<ERoot("key", ksd, "train:key")>> ELSE <<>>)      \* train_pets: key(seed) a second time
                   \o (IF DEV = "WarmupConsumesRoot" THEN <<ECons(root, "train:jit:optimize")>> ELSE <<>>)  \* train_pets: compile call on the planner's key
        /\ p' = [P0 EXCEPT !.seed = sd, !.style = style, !.chains = chains, !.calls = 1,
                           !.key = IF strict2 THEN Child(root, 1) ELSE root,
                           !.pkey = IF chains = 1 THEN <<>> ELSE IF strict2 THEN Child(root, 2) ELSE root,
                           !.skey = IF sched THEN Child(root, 1) ELSE <<>>]
  /\ pc' = "loop"
  /\ UNCHANGED <<led, viol>>

(* the key operations of the helper that receives the sub-key `sub` and splits it locally (epsilon_greedy_policy) *)
HelperOps(sub) ==
  <<ESplit(sub, 2, "helper:split"), ECons(Child(sub, 2), "helper:uniform")>>
  \o (IF DEV = "ConsumeTwice" THEN <<ECons(Child(sub, 2), "helper:choice")>> ELSE <<>>)   \* value_policy.epsilon_greedy_policy

(* a callee with an inner loop of `ep` rounds that carries its own key (train_ensemble epochs, CEM iterations) *)
RECURSIVE InnerOps(_, _)
InnerOps(ik, ep) ==
  IF ep = 0 THEN <<>>
  ELSE LET nk == Child(ik, 1)
       IN <<ESplit(ik, 2, "inner:split")>>
          \o <<ECons(IF DEV = "CarriedKeyConsumed" THEN nk ELSE Child(ik, 2), "inner:permutation")>>   \* train_ensemble: permutation(key, ..)
          \o InnerOps(IF DEV = "InnerLoopKeyNotThreaded" THEN ik ELSE nk, ep - 1)                       \* pets._pets_optimize: same key every round

(* one pass of the loop body.  kind: warmup (random environment action, no key operation), act (one split, the sub-key goes
   to a jitted sampler), act_learn (two splits: acting and target smoothing), multi (split into n), helper, inner, fold *)
Iteration(kind, n, ep) ==
  /\ pc = "loop" /\ todo = <<>> /\ p.it < MaxIter
  /\ (kind = "warmup" => p.warm)                                  \* random actions only before learning starts
  /\ (p.style = "fold" => kind \in {"fold", "warmup"})              \* a fold_in stream keeps its base key: never mixed with splits
  /\ (kind = "fold" => p.style = "fold")
  /\ LET k == p.key
         k1 == Child(k, 1)
         same == DEV = "SameKeyEveryIteration"
         adv(x) == IF same THEN k ELSE x
         plan == IF p.chains = 2 /\ kind # "warmup"
                 THEN <<ESplit(p.pkey, 2, "plan:split"), ECons(Child(p.pkey, 2), "plan:jit:optimize")>> ELSE <<>>
         ops == CASE kind = "warmup" -> <<>>
                  [] kind = "act" -> <<ESplit(k, 2, "train:split")>>
                                     \o (IF DEV = "ReuseParentAfterSplit" THEN <<ECons(k, "train:jit:sample_actions")>>
                                         ELSE <<ECons(Child(k, 2), "train:jit:sample_actions")>>)
                  [] kind = "act_learn" -> <<ESplit(k, 2, "train:split"), ECons(Child(k, 2), "train:jit:sample_actions"),
                                             ESplit(adv(k1), 2, "train:split"), ECons(Child(adv(k1), 2), "train:jit:sample_target_actions")>>
                  [] kind = "multi" -> <<ESplit(k, n, "train:split")>> \o [i \in 1..(n - 1) |-> ECons(Child(k, i + 1), "train:uniform")]
                  [] kind = "helper" -> <<ESplit(k, 2, "train:split")>> \o HelperOps(Child(k, 2))
                  [] kind = "inner" -> <<ESplit(k, 2, "train:split"), ESplit(Child(k, 2), 2, "inner:split_bootstrap"), ECons(Child(Child(k, 2), 2), "inner:choice")>>
                                       \o InnerOps(Child(Child(k, 2), 1), ep)
                  [] kind = "fold" -> <<EFold(k, IF DEV = "FoldSameData" THEN 0 ELSE p.gs, "train:fold_in"),
                                        ECons(FoldChild(k, IF DEV = "FoldSameData" THEN 0 ELSE p.gs), "train:normal")>>
         nk == CASE kind \in {"warmup", "fold"} -> k
                 [] kind = "act_learn" -> adv(Child(adv(k1), 1))
                 [] OTHER -> adv(k1)
         loopsplits == CASE kind \in {"warmup", "fold"} -> <<>>
                         [] kind = "act_learn" -> <<k, adv(k1)>>
                         [] OTHER -> <<k>>
     IN /\ todo' = ops \o plan
        /\ p' = [p EXCEPT !.key = nk, !.pkey = IF Len(plan) > 0 THEN Child(@, 1) ELSE @, !.it = @ + 1, !.gs = @ + 1,
                          !.warm = kind = "warmup", !.chain = @ \o loopsplits]
  /\ UNCHANGED <<led, viol, pc>>

(* a scheduler (train_active_mt, train_smt, train_uts) calls the routine again with seed + global_step; train_uts carries a
   key of its own (task choice) that is rooted at key(seed) as well: the first inner call (global_step = 0) repeats that root *)
NextCall ==
  /\ pc = "loop" /\ todo = <<>> /\ p.it = MaxIter /\ p.calls < MaxCalls
  /\ p.chains = 1
  /\ LET sd == p.seed + p.gs
         sched == IF p.skey # <<>> THEN <<ESplit(p.skey, 2, "sched:split"), ECons(Child(p.skey, 2), "sched:choice")>> ELSE <<>>
     IN /\ todo' = sched \o <<ERoot("numpy", sd, "train:default_rng"), ERoot("key", sd, "train:key")>>
        /\ p' = [p EXCEPT !.key = <<sd>>, !.skey = IF p.skey # <<>> THEN Child(@, 1) ELSE @, !.it = 0, !.calls = @ + 1, !.warm = TRUE, !.chain = <<>>]
  /\ UNCHANGED <<led, viol, pc>>

Finish == /\ pc = "loop" /\ todo = <<>> /\ p.it = MaxIter /\ (p.calls >= MaxCalls \/ p.chains = 2)
          /\ pc' = "done" /\ UNCHANGED <<led, viol, todo, p>>

(* ---- the calls themselves: the head of the pending operations is issued and observed *)
Pending(op) == Len(todo) > 0 /\ Head(todo).op = op
Issue == /\ LET o == Observe(Cfg, led, Head(todo)) IN led' = o.s /\ viol' = viol \cup o.bad
         /\ todo' = Tail(todo)
         /\ UNCHANGED <<pc, p>>

Root == Pending("root") /\ Issue          \* jax.random.key(seed) | PRNGKey(seed) | np.random.default_rng(seed) | nnx.Rngs(seed)
Split == Pending("split") /\ Issue        \* jax.random.split(k, n): children fresh, the parent is spent
FoldIn == Pending("fold") /\ Issue        \* jax.random.fold_in(k, data)
Consume == Pending("consume") /\ Issue    \* a sampler or a jitted function draws from k

Kinds == {"warmup", "act", "act_learn", "multi", "helper", "inner", "fold"}
Next == \/ \E sd \in Seeds, style \in {"split", "fold"}, chains \in 1..2 : Prologue(sd, style, chains)
        \/ \E kind \in Kinds, n \in 2..3, ep \in 1..2 : (kind # "multi" => n = 2) /\ (kind # "inner" => ep = 1) /\ Iteration(kind, n, ep)
        \/ NextCall \/ Finish
        \/ Root \/ Split \/ FoldIn \/ Consume

----------------------------------------------------------------------------
(*                                INVARIANTS                                  *)

(* no key is split twice, consumed twice, or both split and consumed (fold_in: never twice with the same data, never mixed) *)
NoReuse == NoKeyReused(led) /\ ClausesIn(viol) \cap ReuseClauses = {}

(* every key a run uses descends from a key created from `seed` (schedulers: seed + global_step), every generator is seeded
   with it *)
SingleRoot == UsedKeysFromSeed(Cfg, led) /\ ClausesIn(viol) \cap RootClauses = {}

(* the loop's carried key is replaced by a child of itself in every iteration: no iteration sees the key of the one before *)
ThreadedLoop ==
  /\ ClausesIn(viol) \cap ThreadClauses = {}
  /\ todo = <<>> => \A i \in 2..Len(p.chain) : p.chain[i] # p.chain[i - 1] /\ p.chain[i] \in DOMAIN led.par /\ led.par[p.chain[i]] = p.chain[i - 1]

(* the same as a property of steps: an iteration that splits leaves the routine with a carried key that is a proper
   descendant of the one it started with *)
ThreadedLoopStep ==
  [][(pc = "loop" /\ p'.it = p.it + 1 /\ p'.chain # p.chain) => (p'.key # p.key /\ Len(p'.key) > Len(p.key) /\ SubSeq(p'.key, 1, Len(p.key)) = p.key)]_vars

(* the clause bookkeeping of the observer says "reused" exactly when the ledger holds a key with two conflicting uses *)
ObserverAgrees == NoKeyReused(led) <=> (ClausesIn(viol) \cap (ReuseClauses \ {"RootTwice"}) = {})

(* ---- witnesses: situations the model must reach (TLC must report them "violated"; vacuity guard) *)
WitnessFoldStream == ~(pc = "done" /\ led.nfold >= 2)                         \* a fold_in stream with distinct data is accepted
WitnessTwoChains == ~(pc = "done" /\ p.chains = 2 /\ led.nsplit >= 5)          \* two consumer chains from one root
WitnessSecondCall == ~(pc = "done" /\ p.calls = 2 /\ led.nroot >= 4)           \* a scheduler's second call roots a new chain
WitnessInnerLoop == ~(pc = "done" /\ "inner:split" \in DOMAIN led.last /\ led.ncons >= 3)
=============================================================================
