--------------------------- MODULE Returns ---------------------------
(* C07 - return and advantage estimates obey their recurrences and are causal.  *)
(*                                                                              *)
(* Exact-rational model (device D2, spec/Exact.tla) of                          *)
(*   rl_blox.algorithm.reinforce.discounted_reward_to_go / EpisodeDataset       *)
(*     .prepare_policy_gradient_dataset                    -> RewardToGo        *)
(*   rl_blox.blox.return_estimates.discounted_n_step_return -> NStepReturn      *)
(*   rl_blox.blox.gae.compute_gae                           -> ComputeGAE       *)
(*   rl_blox.algorithm.a2c.prepare_a2c_batch (time-major)   -> PrepareA2CBatch  *)
(*   rl_blox.algorithm.ppo.collect_trajectories/update_ppo  -> PPOAdvantages    *)
(*   rl_blox.algorithm.mrq.mrq_loss (critic target)         -> MRQCriticTarget  *)
(*   rl_blox.blox.embedding.model_based_encoder                                 *)
(*     .model_based_encoder_loss                            -> EncoderLoss      *)
(*                                                                              *)
(* Histories of live objects / training routines are separate modules over the  *)
(* same operators (ReturnsOps.tla): ReturnsRollout (PPO rollouts of a vector    *)
(* environment), ReturnsA2CRollout (A2C: emitted (terminated, truncated) flags  *)
(* -> rollout buffer -> prepare_a2c_batch, judged against what was emitted),    *)
(* ReturnsMRQ / ReturnsMRQTrace (train_mrq's own buffer: horizon construction + *)
(* sampling horizons -> windows of one episode -> critic target), and           *)
(* ReturnsDataset (one EpisodeDataset object).                                  *)
(*                                                                              *)
(* The "state machine" is a staged choice of one test vector                    *)
(*   init -> shape (operation, rows B, steps H, discount parameters)            *)
(*        -> flags (termination pattern, exhaustive)                            *)
(*        -> ready (data: exhaustive for <= ExhCells cells, otherwise K dense   *)
(*                  pseudo-random fills derived from Seed)                      *)
(*        -> done  (the operation's action, which emits inputs and the exact    *)
(*                  expected result).                                           *)
(* A batch is a matrix M[b][h]: row b = one trajectory / environment / episode  *)
(* / subtrajectory, h = time step (1-based).  Fields: R rewards, V values (or   *)
(* the stub predictor's profile for the encoder), W next values, D terminated   *)
(* flags, X per-row bootstrap (A2C: value of the last observation, MR.Q: target *)
(* Q of the window's last next-observation).                                    *)
EXTENDS ReturnsOps, FiniteSets, TLC, Json

CONSTANTS EMIT,      \* TRUE: print one EMIT record per completed vector
          DEPS,      \* TRUE: additionally emit the dependency structure per termination pattern
          Kinds,     \* operations explored, subset of AllKinds
          Shapes,    \* set of shapes, coded 10*B + H
          K,         \* pseudo-random data fills per (shape, parameters, termination pattern)
          ExhCells,  \* B*H <= ExhCells: data lattice enumerated exhaustively (kinds in ExhKinds; others: one cell)
          ExhKinds,
          Seed,      \* seed of the pseudo-random fills
          Quarter,   \* TRUE: 1/4 joins the gamma / lambda lattice (H <= 3 only)
          Reprs      \* representations of the reward sequence explored besides "float" (see section 3a)

VARIABLES st, kd, p, D, R, V, W, X
vars == <<st, kd, p, D, R, V, W, X>>

AllKinds == {"rtg", "nstep", "gae", "a2c", "ppo", "mrq", "enc", "ppoflat"}

Emit(rec) == EMIT => PrintT(<<"EMIT", ToJson(rec)>>)

----------------------------------------------------------------------------
(* 1. One trajectory: the recurrences and closed forms are in ReturnsOps.tla  *)

----------------------------------------------------------------------------
(* 2. Batches                                                               *)

(* A2C: the next value of step t is the value of the observation stored at t+1, *)
(* the last step bootstraps from the value of the last observation              *)
A2CNext(v, boot) == [t \in 1..Len(v) |-> IF t < Len(v) THEN v[t + 1] ELSE boot]
(* concatenation of the rows (environment-major flattening of a (T,N) rollout) *)
Cat(M, B, H) == [i \in 1..(B * H) |-> M[((i - 1) \div H) + 1][((i - 1) % H) + 1]]

(* MR.Q critic target of one subtrajectory *)
MRQTarget(r, d, qn, g, rs, trs) ==
  QDiv(QAdd(NStepRet(r, d, g, 1), QMul(QMul(NStepDisc(d, g, 1), qn), trs)), rs)
MRQTargetClosed(r, d, qn, g, rs, trs) ==
  QDiv(QAdd(NStepRetClosed(r, d, g), QMul(QMul(NStepDiscClosed(d, g), qn), trs)), rs)

(* model-based encoder loss with a table predictor.  Each cell (row, step) has a *)
(* profile: predicted done flag pd, predicted / target latent state pz / tz      *)
(* (2 features), and reward logits that are 0 on the support S of bin indices    *)
(* and -BIG elsewhere, so that the cross entropy against any two-hot target      *)
(* inside S is log2|S| * LN2 and the decoded reward is the mean of the bins in S *)
Bins == <<I(-2), I(-1), Zero, One, I(2)>>
Prof == << [pd |-> Zero, pz |-> <<Zero, One>>,     tz |-> <<Zero, Zero>>,  S |-> {3, 4}],
           [pd |-> One,  pz |-> <<I(2), Half>>,    tz |-> <<One, Half>>,   S |-> {1, 2, 3, 4}],
           [pd |-> Half, pz |-> <<I(-1), Zero>>,   tz |-> <<One, I(-2)>>,  S |-> {2, 3, 4, 5}] >>
Log2Card(S) == CASE Cardinality(S) = 1 -> 0 [] Cardinality(S) = 2 -> 1 [] Cardinality(S) = 4 -> 2
PredReward(S) == QDiv(QSum([i \in 1..Len(Bins) |-> IF i \in S THEN Bins[i] ELSE Zero]), I(Cardinality(S)))
SeDyn(c) == QAdd(QSq(QSub(c.pz[1], c.tz[1])), QSq(QSub(c.pz[2], c.tz[2])))
(* prev_not_done: 1 until (and including) the first terminated step of the row *)
EncMask(d, t) == IF \E s \in 1..(t - 1) : d[s] = 1 THEN Zero ELSE One
EncSteps(vc, N, H, f(_, _), den) ==
  QSum([t \in 1..H |-> QDiv(QSum([b \in 1..N |-> QMul(EncMask(vc.D[b], t), f(b, t))]), I(den))])
EncoderLoss(par, vc) ==
  LET N == par.B  H == par.Hs[1]
      c(b, t)   == Prof[vc.V[b][t]]
      dyn(b, t) == SeDyn(c(b, t))
      ce(b, t)  == I(Log2Card(c(b, t).S))
      dn(b, t)  == QSq(QSub(c(b, t).pd, I(vc.D[b][t])))
      rm(b, t)  == QSq(QSub(PredReward(c(b, t).S), vc.R[b][t]))
      dynL  == EncSteps(vc, N, H, dyn, 2 * N)
      rewL  == EncSteps(vc, N, H, ce, N)            \* in units of LN2
      doneL == IF par.et THEN EncSteps(vc, N, H, dn, N) ELSE Zero
      rmse  == EncSteps(vc, N, H, rm, N)
  IN [dyn |-> dynL, rew |-> rewL, done |-> doneL, rmse |-> rmse,
      totc |-> QAdd(QMul(par.wd, dynL), QMul(par.wdn, doneL)), totln2 |-> QMul(par.wr, rewL)]
(* deviation: a (N,) error times a (N,1) mask broadcasts to (N,N): mean(error) * mean(mask) *)
EncBroadcast(vc, N, H, f(_, _)) ==
  QSum([t \in 1..H |-> QMul(QDiv(QSum([b \in 1..N |-> f(b, t)]), I(N)),
                            QDiv(QSum([b \in 1..N |-> EncMask(vc.D[b], t)]), I(N)))])
EncDoneBroadcast(par, vc) ==
  LET dn(b, t) == QSq(QSub(Prof[vc.V[b][t]].pd, I(vc.D[b][t])))
  IN IF par.et THEN EncBroadcast(vc, par.B, par.Hs[1], dn) ELSE Zero
EncRmseBroadcast(par, vc) ==
  LET rm(b, t) == QSq(QSub(PredReward(Prof[vc.V[b][t]].S), vc.R[b][t]))
  IN EncBroadcast(vc, par.B, par.Hs[1], rm)

----------------------------------------------------------------------------
(* 3. Lattices and the staged choice of a vector                            *)

Rs == {I(-1), Zero, I(2)}
Vs == {Zero, One, Q(-1, 2)}
Ws == {Zero, Half, I(-2)}
Xs == {Zero, One, Q(-1, 2)}
EncRs == {Zero, Half, One}
RsSeq == <<I(-1), Zero, I(2)>>
VsSeq == <<Zero, One, Q(-1, 2)>>
WsSeq == <<Zero, Half, I(-2)>>
XsSeq == <<Zero, One, Q(-1, 2)>>
EncRsSeq == <<Zero, Half, One>>
Gs(H) == IF Quarter /\ H <= 3 THEN {Zero, Q(1, 4), Half, One} ELSE {Zero, Half, One}
Scales  == {<<One, One>>, <<I(2), Half>>, <<Half, Zero>>, <<I(4), I(2)>>}        \* <<reward_scale, target_reward_scale>>
Weights == {<<One, One, One>>, <<One, Half, Zero>>, <<Half, Zero, I(2)>>}        \* <<dynamics, reward, done>>

UsesL(k) == k \in {"gae", "a2c", "ppo", "ppoflat"}
UsesD(k) == k # "rtg"
Fields(k) == CASE k = "rtg" -> {"R"}
               [] k = "nstep" -> {"R", "D"}
               [] k \in {"gae", "ppo", "ppoflat"} -> {"R", "V", "W", "D"}
               [] k = "a2c" -> {"R", "V", "D"}
               [] k = "mrq" -> {"R", "D"}
               [] k = "enc" -> {"R", "V", "D"}
UsesX(k) == k \in {"a2c", "mrq"}
(* lattice of one cell *)
Lat(k, f) == CASE f = "D" -> {0, 1}
               [] f = "R" -> IF k = "enc" THEN EncRs ELSE Rs
               [] f = "V" -> IF k = "enc" THEN {1, 2, 3} ELSE Vs
               [] f = "W" -> Ws
               [] f = "X" -> Xs
LatSeq(k, f) == CASE f = "R" -> IF k = "enc" THEN EncRsSeq ELSE RsSeq
                  [] f = "V" -> IF k = "enc" THEN <<1, 2, 3>> ELSE VsSeq
                  [] f = "W" -> WsSeq
                  [] f = "X" -> XsSeq
Blank(k, f) == IF k = "enc" /\ f = "V" THEN 1 ELSE Zero

----------------------------------------------------------------------------
(* 3a. The REPRESENTATION of the reward sequence handed to an estimator.  The *)
(* estimators are specified on numbers: the estimate of a reward sequence is  *)
(* the same real-valued recurrence whatever container / element type carries  *)
(* the rewards (grid worlds emit Python / numpy integers, vector environments *)
(* float64 arrays, replay buffers float32 arrays).  The representation is a   *)
(* component of the vector, chosen by TLC; the expected values do not depend  *)
(* on it (ReprIrrelevant by construction: no operator below reads p.repr).    *)
(*   discounted_reward_to_go / EpisodeDataset.add_sample (one episode = list) *)
RtgReprs == {"float",          \* list of Python floats
             "int",            \* list of Python ints
             "npint64",        \* list of numpy int64 scalars (what Discrete-reward environments return)
             "int64array", "int32array", "float32array", "float64array",   \* numpy arrays of that dtype
             "mixed"}          \* list of Python ints and floats, alternating (cell (b, h) is an int iff b + h is odd)
(*   discounted_n_step_return / compute_gae (arrays)                          *)
ArrReprs == {"float",          \* jax float32 array
             "int32",          \* jax int32 array
             "npint64",        \* numpy int64 array
             "npfloat64"}      \* numpy float64 array
ReprsOf(k) == (CASE k = "rtg" -> RtgReprs [] k \in {"nstep", "gae"} -> ArrReprs [] OTHER -> {"float"})
              \cap (Reprs \cup {"float"})
IntegerRepr(r) == r \in {"int", "npint64", "int64array", "int32array", "int32"}
(* cell (b, h) of the reward matrix is handed over as a value of an integer type *)
TypedInt(r, b, h) == IntegerRepr(r) \/ (r = "mixed" /\ (b + h) % 2 = 1)
IsInt(q) == q[2] = 1
(* a representation is admissible for a vector iff every cell typed as an integer holds one *)
ReprFits(par, rew) == \A b \in 1..par.B : \A h \in 1..par.Hs[b] : TypedInt(par.repr, b, h) => IsInt(rew[b][h])
AsInt(par) == [b \in 1..par.B |-> [h \in 1..par.Hs[b] |-> TypedInt(par.repr, b, h)]]
(* deviation: the result is stored with the element type of the rewards - an integer-typed *)
(* sequence truncates every discounted value towards zero                                  *)
Trunc(q) == I(IF q[1] >= 0 THEN q[1] \div q[2] ELSE -((-q[1]) \div q[2]))
RTGStoredAs(r, g, asint) == [t \in 1..Len(r) |-> IF asint THEN Trunc(RTGAt(r, g, t)) ELSE RTGAt(r, g, t)]

Mat(par, x) == [b \in 1..par.B |-> [h \in 1..par.Hs[b] |-> x]]
MatSet(par, S) == {m \in [1..par.B -> [1..par.Hs[1] -> S]] : TRUE}

Init == /\ st = "init" /\ kd = "none" /\ p = <<>>
        /\ D = <<>> /\ R = <<>> /\ V = <<>> /\ W = <<>> /\ X = <<>>

ChooseShape ==
  /\ st = "init"
  /\ \E k \in Kinds, s \in {<<c \div 10, c % 10>> : c \in Shapes} :
       /\ k = "gae" => s[1] = 1
       /\ k \in {"ppoflat"} => s[1] >= 2
       /\ k = "enc" => s[1] \in {1, 2, 4}
       /\ s[1] = 4 => k = "enc"              \* batch of four rows: encoder loss only
       /\ kd' = k
       /\ \E hs \in [1..s[1] -> 1..s[2]], g \in Gs(s[2]), l \in Gs(s[2]), sc \in Scales, wt \in Weights, et \in BOOLEAN, rp \in ReprsOf(k) :
            /\ k # "rtg" => \A b \in 1..s[1] : hs[b] = s[2]
            /\ k = "rtg" => \E b \in 1..s[1] : hs[b] = s[2]
            /\ ~UsesL(k) => l = Zero
            /\ k = "enc" => g = Zero
            /\ (k = "ppo" /\ EMIT) => (g = Half /\ l = Half)   \* the emitted forms do not depend on them
            /\ k # "mrq" => sc = <<One, One>>
            /\ k # "enc" => (wt = <<One, One, One>> /\ et = TRUE)
            /\ p' = [B |-> s[1], Hs |-> hs, g |-> g, l |-> l, rs |-> sc[1], trs |-> sc[2],
                     wd |-> wt[1], wr |-> wt[2], wdn |-> wt[3], et |-> et, repr |-> rp]
  /\ st' = "shape"
  /\ UNCHANGED <<D, R, V, W, X>>

ChooseFlags ==
  /\ st = "shape"
  /\ IF UsesD(kd) THEN D' \in MatSet(p, {0, 1}) ELSE D' = Mat(p, 0)
  /\ st' = "flags"
  /\ UNCHANGED <<kd, p, R, V, W, X>>

(* pseudo-random dense fill: a pure function of (Seed, k, structure, cell) *)
Mix(x) == ((x % 65536) * 25173 + 13849) % 65536
KindNo(k) == CASE k = "rtg" -> 1 [] k = "nstep" -> 2 [] k = "gae" -> 3 [] k = "a2c" -> 4
               [] k = "ppo" -> 5 [] k = "mrq" -> 6 [] k = "enc" -> 7 [] k = "ppoflat" -> 5
RECURSIVE FlagCode(_, _, _)
FlagCode(d, b, h) == IF b = 0 THEN 0
                     ELSE IF h = 0 THEN FlagCode(d, b - 1, IF b > 1 THEN Len(d[b - 1]) ELSE 0)
                     ELSE (2 * FlagCode(d, b, h - 1) + d[b][h]) % 4096
Salt == KindNo(kd) * 4096 + FlagCode(D, p.B, Len(D[p.B])) + 17 * p.Hs[1] + 131 * p.B
Rnd(k, f, b, h, n) ==
  LET c  == f * 64 + b * 8 + h
      x0 == (Seed % 32768) * 7919 + k * 104729 + c * 1299709 + (Salt % 65536) * 613
  IN (Mix(Mix(Mix((x0 % 65536) + (x0 \div 65536)))) \div 16) % n
Fill(k, f, fno) ==
  IF f \in Fields(kd)
  THEN [b \in 1..p.B |-> [h \in 1..p.Hs[b] |-> LatSeq(kd, f)[Rnd(k, fno, b, h, Len(LatSeq(kd, f))) + 1]]]
  ELSE Mat(p, Blank(kd, f))
ChooseData(k) ==
  /\ st = "flags"
  /\ R' = Fill(k, "R", 1) /\ V' = Fill(k, "V", 2) /\ W' = Fill(k, "W", 3)
  /\ X' = IF UsesX(kd) THEN [b \in 1..p.B |-> XsSeq[Rnd(k, 5, b, 0, 3) + 1]] ELSE [b \in 1..p.B |-> Zero]
  /\ st' = "ready"
  /\ UNCHANGED <<kd, p, D>>

(* small scope: every assignment of the data lattice *)
FieldSet(f) == IF f \in Fields(kd) THEN MatSet(p, Lat(kd, f)) ELSE {Mat(p, Blank(kd, f))}
ChooseDataAll ==
  /\ st = "flags"
  /\ kd # "rtg" \/ \A b \in 1..p.B : p.Hs[b] = p.Hs[1]
  /\ p.B * p.Hs[1] <= (IF kd \in ExhKinds THEN ExhCells ELSE 1)
  /\ R' \in FieldSet("R") /\ V' \in FieldSet("V") /\ W' \in FieldSet("W")
  /\ X' \in IF UsesX(kd) THEN [1..p.B -> Xs] ELSE {[b \in 1..p.B |-> Zero]}
  /\ st' = "ready"
  /\ UNCHANGED <<kd, p, D>>

vec == [R |-> R, V |-> V, W |-> W, D |-> D, X |-> X]
Finish(k) == /\ st = "ready" /\ kd = k /\ st' = "done" /\ UNCHANGED <<kd, p, D, R, V, W, X>>
H1 == p.Hs[1]

----------------------------------------------------------------------------
(* 4. The operations (one action each; expected values are computed here)   *)

(* reinforce.EpisodeDataset.prepare_policy_gradient_dataset: per-episode reward to go, *)
(* stacked in episode order, and gamma^t *)
RECURSIVE Stack(_, _)
Stack(rows, n) == IF n = 0 THEN <<>> ELSE Stack(rows, n - 1) \o rows[n]
RewardToGo ==
  /\ Finish("rtg")
  /\ ReprFits(p, R)
  /\ Emit([kind |-> "rtg", g |-> p.g, R |-> R, repr |-> p.repr, asint |-> AsInt(p),
           rtg |-> Stack([b \in 1..p.B |-> RTG(R[b], p.g)], p.B),
           disc |-> Stack([b \in 1..p.B |-> [t \in 1..p.Hs[b] |-> Pow(p.g, t - 1)]], p.B)])

(* return_estimates.discounted_n_step_return on a (B, H) batch *)
NStepReturn ==
  /\ Finish("nstep")
  /\ ReprFits(p, R)
  /\ Emit([kind |-> "nstep", g |-> p.g, R |-> R, D |-> D, repr |-> p.repr,
           ret  |-> [b \in 1..p.B |-> NStepRet(R[b], D[b], p.g, 1)],
           disc |-> [b \in 1..p.B |-> NStepDisc(D[b], p.g, 1)]])

(* gae.compute_gae on one trajectory *)
ComputeGAE ==
  /\ Finish("gae")
  /\ ReprFits(p, R)
  /\ Emit([kind |-> "gae", g |-> p.g, l |-> p.l, R |-> R[1], V |-> V[1], W |-> W[1], D |-> D[1], repr |-> p.repr,
           out |-> GAE(R[1], V[1], W[1], D[1], p.g, p.l)])

(* a2c.prepare_a2c_batch: per-environment GAE, flattened time-major: i = (t-1) N + n *)
A2CEnv(par, vc, n) == GAE(vc.R[n], vc.V[n], A2CNext(vc.V[n], vc.X[n]), vc.D[n], par.g, par.l)
PrepareA2CBatch ==
  /\ Finish("a2c")
  /\ Emit([kind |-> "a2c", g |-> p.g, l |-> p.l, R |-> R, V |-> V, D |-> D, X |-> X,
           flat |-> [i \in 1..(p.B * H1) |->
                       LET n == ((i - 1) % p.B) + 1  t == ((i - 1) \div p.B) + 1
                           o == A2CEnv(p, vec, n)[t]
                       IN [env |-> n, t |-> t, adv |-> o.adv, ret |-> o.ret]]])

(* ppo.collect_trajectories flattens environment-major, i = (n-1) T + t; update_ppo's *)
(* advantages are the per-environment GAE of that layout.  Emitted as forms in G, C;  *)
(* dev = the form of ONE scan over the concatenation (deviation PPOFlatScan)           *)
PPOAdvantages ==
  /\ Finish("ppo")
  /\ Emit([kind |-> "ppo", R |-> R, V |-> V, W |-> W, D |-> D,
           flat |-> [i \in 1..(p.B * H1) |->
                       LET n == ((i - 1) \div H1) + 1  t == ((i - 1) % H1) + 1
                       IN [env |-> n, t |-> t, obs |-> (t - 1) * p.B + (n - 1),
                           rew |-> R[n][t], term |-> D[n][t], nv |-> W[n][t], v |-> V[n][t],
                           form |-> AdvForm(R[n], V[n], W[n], D[n], t),
                           dev  |-> AdvForm(Cat(R, p.B, H1), Cat(V, p.B, H1), Cat(W, p.B, H1), Cat(D, p.B, H1), i)]]])

(* mrq.mrq_loss: critic target per subtrajectory *)
MRQCriticTarget ==
  /\ Finish("mrq")
  /\ Emit([kind |-> "mrq", g |-> p.g, rs |-> p.rs, trs |-> p.trs, R |-> R, D |-> D, X |-> X,
           target |-> [b \in 1..p.B |-> MRQTarget(R[b], D[b], X[b], p.g, p.rs, p.trs)]])

(* model_based_encoder.model_based_encoder_loss *)
EncoderLossAction ==
  /\ Finish("enc")
  /\ Emit([kind |-> "enc", wd |-> p.wd, wr |-> p.wr, wdn |-> p.wdn, et |-> p.et, bins |-> Bins,
           R |-> R, D |-> D,
           cells |-> [b \in 1..p.B |-> [t \in 1..H1 |-> Prof[V[b][t]]]],
           mask  |-> [b \in 1..p.B |-> [t \in 1..H1 |-> EncMask(D[b], t)]],
           exp |-> EncoderLoss(p, vec),
           devdone |-> EncDoneBroadcast(p, vec), devrmse |-> EncRmseBroadcast(p, vec)])

FinishFlat == Finish("ppoflat")

----------------------------------------------------------------------------
(* 5. Causality                                                             *)

(* outputs: <<row, step>>; n-step: <<row, 1>> return, <<row, 2>> residual discount; *)
(* mrq: <<row, 0>>; encoder: <<0, 0>> (all loss components)                          *)
MaxHs(par) == CHOOSE m \in {par.Hs[b] : b \in 1..par.B} : \A b \in 1..par.B : par.Hs[b] <= m
OutIds(par) == CASE kd \in {"rtg", "gae", "a2c", "ppo", "ppoflat"} -> {o \in (1..par.B) \X (1..MaxHs(par)) : o[2] <= par.Hs[o[1]]}
                 [] kd = "nstep" -> (1..par.B) \X {1, 2}
                 [] kd = "mrq" -> (1..par.B) \X {0}
                 [] kd = "enc" -> {<<0, 0>>}

OutVal(par, vc, o) ==
  LET b == o[1] IN
  CASE kd = "rtg"   -> RTGAt(vc.R[b], par.g, o[2])
    [] kd = "nstep" -> IF o[2] = 1 THEN NStepRet(vc.R[b], vc.D[b], par.g, 1) ELSE NStepDisc(vc.D[b], par.g, 1)
    [] kd \in {"gae", "ppo"} -> GAEAt(vc.R[b], vc.V[b], vc.W[b], vc.D[b], par.g, par.l, o[2])
    [] kd = "a2c"   -> A2CEnv(par, vc, b)[o[2]]
    [] kd = "mrq"   -> MRQTarget(vc.R[b], vc.D[b], vc.X[b], par.g, par.rs, par.trs)
    [] kd = "enc"   -> EncoderLoss(par, vc)
    [] kd = "ppoflat" ->   \* deviation PPOFlatScan: one scan over the concatenated environments
         LET H == par.Hs[1]
         IN GAEAt(Cat(vc.R, par.B, H), Cat(vc.V, par.B, H), Cat(vc.W, par.B, H), Cat(vc.D, par.B, H),
                  par.g, par.l, (b - 1) * H + o[2])

Cells(par) == {<<f, b, h>> \in Fields(kd) \X (1..par.B) \X (1..MaxHs(par)) : h <= par.Hs[b]}
              \cup (IF UsesX(kd) THEN {<<"X", b, 0>> : b \in 1..par.B} ELSE {})
CellLat(c) == Lat(kd, c[1])
GetCell(vc, c) == IF c[1] = "X" THEN vc.X[c[2]] ELSE vc[c[1]][c[2]][c[3]]
SetCell(vc, c, x) == IF c[1] = "X" THEN [vc EXCEPT !.X[c[2]] = x] ELSE [vc EXCEPT ![c[1]][c[2]][c[3]] = x]

(* what output o may depend on: own row, from its step up to the first termination *)
Dep(par, d, o) ==
  LET b == o[1]
      H == IF b = 0 THEN 0 ELSE par.Hs[b]
      win(t) == t..FirstTerm(d[b], t)
      on(fs, S) == {<<f, b, j>> : f \in fs, j \in S}
  IN CASE kd = "rtg"   -> on({"R"}, o[2]..H)
       [] kd = "nstep" -> IF o[2] = 1 THEN on({"R"}, win(1)) \cup on({"D"}, win(1) \ {H})
                                      ELSE on({"D"}, win(1))
       [] kd \in {"gae", "ppo", "ppoflat"} ->
            on({"R", "V", "D"}, win(o[2])) \cup on({"W"}, {j \in win(o[2]) : d[b][j] = 0})
       [] kd = "a2c"   -> on({"R", "V", "D"}, win(o[2])) \cup (IF HasTerm(d[b], o[2]) THEN {} ELSE {<<"X", b, 0>>})
       [] kd = "mrq"   -> on({"R", "D"}, win(1)) \cup (IF HasTerm(d[b], 1) THEN {} ELSE {<<"X", b, 0>>})
       [] kd = "enc"   -> {<<f, r, j>> \in {"R", "V", "D"} \X (1..par.B) \X (1..par.Hs[1]) : j <= FirstTerm(d[r], 1)}

(* cells whose single-cell change is guaranteed to show in output o for generic data: Dep(o), *)
(* except that the residual discount, a product over all flags, reacts to one flag only     *)
(* when no other flag of the window is set                                                  *)
Rel(par, d, o) ==
  IF kd = "nstep" /\ o[2] = 2 /\ HasTerm(d[o[1]], 1)
  THEN IF Cardinality({j \in 1..Len(d[o[1]]) : d[o[1]][j] = 1}) = 1 THEN {<<"D", o[1], FirstTerm(d[o[1]], 1)>>} ELSE {}
  ELSE Dep(par, d, o)

(* changing any cell outside Dep(o) to any other lattice value leaves output o unchanged *)
Causal ==
  st = "ready" =>
    \A o \in OutIds(p) :
      LET base == OutVal(p, vec, o)
          free == Cells(p) \ Dep(p, D, o)
      IN \A c \in free : \A x \in CellLat(c) \ {GetCell(vec, c)} : OutVal(p, SetCell(vec, c, x), o) = base

(* Dep is tight (non-vacuity): on a witness vector with gamma = lambda = 1/2 every cell *)
(* inside Dep(o) does change output o for some lattice value                            *)
WitPar == [p EXCEPT !.g = Half, !.l = IF UsesL(kd) THEN Half ELSE Zero, !.rs = One, !.trs = One,
                    !.wd = One, !.wr = One, !.wdn = One, !.et = TRUE]
WitVec == [R |-> Mat(p, IF kd = "enc" THEN Zero ELSE One), V |-> Mat(p, IF kd = "enc" THEN 2 ELSE Half),
           W |-> Mat(p, One), D |-> D, X |-> [b \in 1..p.B |-> One]]
Canonical == /\ (kd # "enc" => p.g = Half) /\ (UsesL(kd) => p.l = Half)
             /\ p.rs = One /\ p.wd = One /\ p.wr = One /\ p.et = TRUE
DepTight ==
  (st = "flags" /\ kd # "ppoflat" /\ Canonical) =>
    \A o \in OutIds(p) : \A c \in Rel(WitPar, D, o) :
      \E x \in CellLat(c) : OutVal(WitPar, SetCell(WitVec, c, x), o) # OutVal(WitPar, WitVec, o)

(* the dependency structure of one termination pattern, for perturbation tests on floats *)
EmitDeps ==
  /\ st = "flags" /\ DEPS
  /\ Canonical /\ p.repr = "float"     \* the dependency structure does not depend on the representation
  /\ st' = "deps"
  /\ UNCHANGED <<kd, p, D, R, V, W, X>>
  /\ Emit([kind |-> "deps", of |-> kd, B |-> p.B, Hs |-> p.Hs, D |-> D,
           deps |-> {[o |-> o, rel |-> Rel(p, D, o), irr |-> Cells(p) \ Dep(p, D, o)] : o \in OutIds(p)}])

Next == \/ ChooseShape \/ ChooseFlags \/ (\E k \in 1..K : ChooseData(k)) \/ ChooseDataAll
        \/ RewardToGo \/ NStepReturn \/ ComputeGAE \/ PrepareA2CBatch \/ PPOAdvantages
        \/ MRQCriticTarget \/ EncoderLossAction \/ FinishFlat \/ EmitDeps
Spec == Init /\ [][Next]_vars

----------------------------------------------------------------------------
(* 6. Properties (C07)                                                      *)

Ready == st = "ready"
Rows == 1..p.B

(* recurrences agree with the independently written closed forms *)
ClosedForms ==
  Ready =>
    /\ kd = "rtg" => \A b \in Rows : \A t \in 1..p.Hs[b] : RTGAt(R[b], p.g, t) = RTGClosed(R[b], p.g, t)
    /\ kd \in {"nstep", "mrq"} => \A b \in Rows :
         /\ NStepRet(R[b], D[b], p.g, 1) = NStepRetClosed(R[b], D[b], p.g)
         /\ NStepDisc(D[b], p.g, 1) = NStepDiscClosed(D[b], p.g)
    /\ kd = "mrq" => \A b \in Rows :
         MRQTarget(R[b], D[b], X[b], p.g, p.rs, p.trs) = MRQTargetClosed(R[b], D[b], X[b], p.g, p.rs, p.trs)
    /\ kd \in {"gae", "ppo"} => \A b \in Rows : \A t \in 1..H1 :
         /\ AdvAt(R[b], V[b], W[b], D[b], p.g, p.l, t) = AdvClosed(R[b], V[b], W[b], D[b], p.g, p.l, t)
         /\ EvalForm(AdvForm(R[b], V[b], W[b], D[b], t), p.g, QMul(p.g, p.l)) = AdvAt(R[b], V[b], W[b], D[b], p.g, p.l, t)
    /\ kd = "a2c" => \A b \in Rows : \A t \in 1..H1 :
         LET nv == A2CNext(V[b], X[b])
         IN AdvAt(R[b], V[b], nv, D[b], p.g, p.l, t) = AdvClosed(R[b], V[b], nv, D[b], p.g, p.l, t)

(* lambda = 1: the return target is the discounted reward sum up to the first termination *)
(* plus the discounted bootstrap; lambda = 0: the advantage is the one-step TD residual   *)
LambdaLimits ==
  (Ready /\ kd = "a2c") => \A b \in Rows : \A t \in 1..H1 :
    LET o == A2CEnv(p, vec, b)[t]
        e == FirstTerm(D[b], t)
        nv == A2CNext(V[b], X[b])
    IN /\ p.l = One =>
            o.ret = QAdd(QSum([j \in 1..(e - t + 1) |-> QMul(Pow(p.g, j - 1), R[b][t + j - 1])]),
                         IF D[b][e] = 1 THEN Zero ELSE QMul(Pow(p.g, e - t + 1), nv[e]))
       /\ p.l = Zero => o.adv = Delta(R[b], V[b], nv, D[b], p.g, t)

(* the n-step return is the reward to go of the window cut after the first termination *)
NStepIsCutRTG ==
  (Ready /\ kd = "nstep") => \A b \in Rows :
    NStepRet(R[b], D[b], p.g, 1) = RTGAt(SubSeq(R[b], 1, FirstTerm(D[b], 1)), p.g, 1)

(* terminated rows ignore the bootstrap *)
TerminatedIgnoresBootstrap ==
  (Ready /\ kd = "mrq") => \A b \in Rows : HasTerm(D[b], 1) =>
    MRQTarget(R[b], D[b], X[b], p.g, p.rs, p.trs) = QDiv(NStepRetClosed(R[b], D[b], p.g), p.rs)

TypeOK == st \in {"init", "shape", "flags", "ready", "done", "deps"} /\ kd \in AllKinds \cup {"none"}

----------------------------------------------------------------------------
(* 7. Deviation claims: each must be REFUTED by TLC (canaries)              *)

(* PPOFlatScan: one reverse scan over the environment-major concatenation equals per-environment GAE *)
DevFlatScanIsPerEnv ==
  (Ready /\ kd = "ppo") => \A b \in Rows : \A t \in 1..H1 :
    GAEAt(Cat(R, p.B, H1), Cat(V, p.B, H1), Cat(W, p.B, H1), Cat(D, p.B, H1), p.g, p.l, (b - 1) * H1 + t)
      = GAEAt(R[b], V[b], W[b], D[b], p.g, p.l, t)
(* GAE whose accumulated advantage is not cut at terminated steps *)
DevNoCutIsGAE ==
  (Ready /\ kd = "gae") => \A t \in 1..H1 :
    AdvNoCut(R[1], V[1], W[1], D[1], p.g, p.l, t) = AdvAt(R[1], V[1], W[1], D[1], p.g, p.l, t)
(* a reward-to-go array that inherits the element type of an integer-typed reward sequence *)
DevStoredAsRewardTypeIsRTG ==
  (Ready /\ kd = "rtg" /\ ReprFits(p, R)) => \A b \in Rows :
    RTGStoredAs(R[b], p.g, IntegerRepr(p.repr)) = RTG(R[b], p.g)
(* (N,) x (N,1) broadcast of the done loss equals the per-row masked loss *)
DevDoneBroadcastIsMasked ==
  (Ready /\ kd = "enc") => EncDoneBroadcast(p, vec) = EncoderLoss(p, vec).done
=============================================================================
