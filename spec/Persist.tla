--------------------------- MODULE Persist ---------------------------
(* C19: saving and reloading is a stuttering step on the abstract state.      *)
(* An object o evolves by operations Op(k); at any point a snapshot may be    *)
(* saved and reloaded into a copy c, after which the SAME continuation is     *)
(* applied to both.  The property is that the copy is indistinguishable from  *)
(* the original for ever after: reload refines identity.  The object state    *)
(* is abstract here (the history of operations determines it - the concrete   *)
(* state machines are Ring / RingPrio / MultiTask / Subtraj and, for          *)
(* function approximators, a parameter version that update steps advance);    *)
(* the binding replays the concrete graphs with a reload at every transition. *)
EXTENDS Integers, Sequences, TLC, Json

CONSTANTS Ops,       \* operation labels (adds, samples, priority updates, parameter updates ...)
          MaxLen, EMIT

VARIABLES o,         \* original: the sequence of operations applied so far determines its state
          c,         \* reloaded copy [has, st]
          saved      \* number of save/reload steps so far

vars == <<o, c, saved>>
View == [o |-> o, c |-> c, saved |-> saved]
Emit(op, args) == EMIT => PrintT(<<"EMIT", ToJson([pre |-> View, op |-> op, args |-> args, exp |-> <<>>, post |-> View'])>>)

Init == o = <<>> /\ c = [has |-> FALSE, st |-> <<>>] /\ saved = 0

(* an operation is applied to the original and, if it exists, to the copy *)
Apply(k) == /\ Len(o) < MaxLen
            /\ o' = Append(o, k)
            /\ c' = IF c.has THEN [c EXCEPT !.st = Append(@, k)] ELSE c
            /\ UNCHANGED saved
            /\ Emit("Apply", <<k>>)

(* save + reload: the copy becomes exactly the original's current state; the original is untouched *)
SaveReload == /\ saved < 2
              /\ c' = [has |-> TRUE, st |-> o] /\ UNCHANGED o /\ saved' = saved + 1
              /\ Emit("SaveReload", <<>>)

Next == (\E k \in Ops : Apply(k)) \/ SaveReload
Spec == Init /\ [][Next]_vars

(* the reloaded object is the original, now and after every continuation *)
Agree == c.has => c.st = o
(* saving never changes the original *)
SaveIsStutter == [][saved' # saved => o' = o]_vars

(* canary: a reload that loses the most recent operation (e.g. a field that is not persisted) *)
LossyReload == /\ saved < 2 /\ Len(o) > 0
               /\ c' = [has |-> TRUE, st |-> SubSeq(o, 1, Len(o) - 1)] /\ UNCHANGED o /\ saved' = saved + 1
NextBad == (\E k \in Ops : Apply(k)) \/ LossyReload
=============================================================================
