--------------------------- MODULE TaskEmbed ---------------------------
(* X04 - task selection, task sets and task embeddings of rl-blox.             *)
(*                                                                            *)
(*   rl_blox/blox/multitask.py          TaskSelectionMixin, DiscreteTaskSet    *)
(*   rl_blox/blox/embedding/task_embedding.py                                  *)
(*       embedding_renorm, concatenate_embedding, MTMLPQNetwork,               *)
(*       ModelBasedMTEncoder, create_model_based_mt_encoder_and_policy,        *)
(*       create_mt_mrq_state                                                   *)
(*   rl_blox/algorithm/{smt,active_mt,uniform_task_sampling}.py                *)
(*       the task switch in front of every train_st call                       *)
(*                                                                            *)
(* The module holds five small machines, selected by the constant Part; the   *)
(* variables of the other parts keep their initial value.                     *)
(*                                                                            *)
(*  "renorm"   embedding_renorm as a function: staged choice of max_norm and  *)
(*             of a table whose rows have rational Euclidean norms; the last  *)
(*             action prints the expected table (exact rationals, Exact.tla). *)
(*  "concat"   concatenate_embedding on tagged entries (device D1).           *)
(*  "net"      two task-selecting components "a", "b" (MTMLPQNetwork /         *)
(*             ModelBasedMTEncoder / clones): current task id, embedding      *)
(*             table, ghosts.  SelectTask / Forward / TrainStep.              *)
(*  "taskset"  DiscreteTaskSet: get_task configures ONE shared base           *)
(*             environment; handles handed out earlier follow it.             *)
(*  "switch"   what train_smt / train_active_mt / train_uts tell the          *)
(*             task-conditioned components before a train_st call.            *)
(*                                                                            *)
(* The model states what the code documents AND does.  Where the code does    *)
(* something its documentation does not say (or says otherwise) the action    *)
(* carries the name of the deviation:                                         *)
(*   RenormWholeTable        select_task renormalises every row, not row k    *)
(*   SelectTaskWraps         ids -NT..-1 are accepted, row NT+k is used       *)
(*   SelectTaskOutOfRange    other ids are accepted, the embedding is NaN     *)
(*   ForwardUnbounded        a row written after the last select_task is used *)
(*                           with its raw norm (no renormalisation at lookup) *)
(*   ConcatUnbatchedDim1     an un-batched input with a 1-dim embedding raises*)
(*   ConcatRank3             inputs of rank 3 raise                           *)
(*   StaleHandleFollowsBase  an earlier get_task handle shows the latest task *)
(*   GetContextWraps         get_context(-1) is the last context              *)
(*   UnlistedKeeps           a component not in task_selectables keeps its id *)
(*   UtsInformsNobody        train_uts tells no component about the task      *)
EXTENDS Exact, FiniteSets, TLC, Json

CONSTANTS Part,     \* "renorm" | "concat" | "net" | "taskset" | "switch"
          Variant,  \* "code", or the name of a wrong variant (canaries)
          NT,       \* number of tasks
          MaxNormNum, MaxNormDen,   \* max_task_embedding_norm of the components (net) = MaxNormNum / MaxNormDen
          Bound,    \* rows per table (renorm) / state-changing calls (net) / handles (taskset) / switches (switch)
          Wide,     \* TRUE: larger lattices
          Aware,    \* taskset: context_aware
          EMIT      \* TRUE: print one EMIT record per transition

VARIABLES vec,      \* renorm / concat: the staged test vector
          cur,      \* net: [Comps -> Int] task_id attribute of every component
          tab,      \* net: [Comps -> [Tasks -> row]] embedding table, a row is a sequence of rationals
          ren,      \* net ghost: [Comps -> SUBSET Tasks] rows that hold a value produced by renormalisation
          dirty,    \* net ghost: [Comps -> SUBSET Tasks] rows written since the last select_task of that component
          calls,    \* net ghost: number of state-changing calls so far (bounds the search)
          base,     \* taskset: task the shared base environment is configured for, -1 = as constructed
          handles,  \* taskset: sequence of handles handed out; a handle is the task in its observation prefix, -1 = the base environment itself
          ids,      \* switch: [SwComps -> Int] task id every component holds
          sw,       \* switch: [sched, listed, env, n] scheduler kind, task_selectables, task of the environment handed to train_st, number of switches
          last      \* ghost: label of the last action

vars == <<vec, cur, tab, ren, dirty, calls, base, handles, ids, sw, last>>
GenView == <<vec, cur, tab, ren, dirty, calls, base, handles, ids, sw>>   \* VIEW of the generation runs: the ghost label does not matter

MaxNorm == Q(MaxNormNum, MaxNormDen)
Parts == {"renorm", "concat", "net", "taskset", "switch"}
ASSUME Part \in Parts /\ NT \in Nat /\ NT >= 1 /\ Bound \in Nat

Tasks == 0..(NT - 1)
Comps == {"a", "b"}
SwComps == {"buffer", "encoder", "target"}
SetFn(S) == [t \in Tasks |-> t \in S]     \* sets are printed as boolean functions (stable JSON)

View ==
  CASE Part = "net" -> [cur |-> cur, tab |-> tab, ren |-> [c \in Comps |-> SetFn(ren[c])],
                        dirty |-> [c \in Comps |-> SetFn(dirty[c])], calls |-> calls]
    [] Part = "taskset" -> [base |-> base, handles |-> handles]
    [] Part = "switch" -> [ids |-> ids, sched |-> sw.sched, listed |-> [c \in {"encoder", "target"} |-> c \in sw.listed],
                           env |-> sw.env, n |-> sw.n]
    [] OTHER -> vec

Emit(op, args, exp) ==
  EMIT => PrintT(<<"EMIT", ToJson([pre |-> View, op |-> op, args |-> args, exp |-> exp, post |-> View'])>>)

----------------------------------------------------------------------------
(* Euclidean norms of lattice rows are rational: the sum of squares is the    *)
(* square of a rational (3-4-5, 1-2-2-3, 2-3-6-7 and axis rows).              *)
IsSquare(n) == \E k \in 0..n : k * k = n
ISqrt(n) == CHOOSE k \in 0..n : k * k = n
SumSq(row) == QSum([i \in 1..Len(row) |-> QSq(row[i])])
HasNorm(row) == LET s == SumSq(row) IN IsSquare(s[1]) /\ IsSquare(s[2])
ENorm(row) == LET s == SumSq(row) IN Q(ISqrt(s[1]), ISqrt(s[2]))
Long(row, m) == QLt(m, ENorm(row))                 \* norm > max_norm
ScaleRow(row, f) == [i \in 1..Len(row) |-> QMul(row[i], f)]
Dot(r, s) == QSum([i \in 1..Len(r) |-> QMul(r[i], s[i])])

(* embedding_renorm, one row: a row longer than max_norm is scaled to norm    *)
(* max_norm (the code divides by norm + 1e-7: "up to rounding", see Ulps),     *)
(* every other row is returned as it is.                                      *)
RenormRowTo(row, m, target) == IF Long(row, m) THEN ScaleRow(row, QDiv(target, ENorm(row))) ELSE row
RenormRow(row, m) ==
  CASE Variant = "squared" -> RenormRowTo(row, m, QSq(m))     \* canary: scale = max_norm**2 / norm
    [] OTHER -> RenormRowTo(row, m, m)

(* embedding_renorm, the table (a function: Tasks -> row or 1..n -> row):     *)
(* row by row, shape preserved.                                               *)
MaxNormOf(t) == LET S == {ENorm(t[i]) : i \in DOMAIN t}
                IN CHOOSE x \in S : \A y \in S : QLe(y, x)
RenormTable(t, m) ==
  CASE Variant = "global" ->    \* canary: one scale for the whole table (norm without axis=1)
         IF \E i \in DOMAIN t : Long(t[i], m)
           THEN [i \in DOMAIN t |-> ScaleRow(t[i], QDiv(m, MaxNormOf(t)))] ELSE t
    [] OTHER -> [i \in DOMAIN t |-> RenormRow(t[i], m)]

(* float32 facts behind "up to rounding" (n = norm of a long row, m = max_norm,*)
(* result = row * fl(m / fl(n + 1e-7))):                                      *)
(*  n >= 2: 1e-7 is below half an ulp of n, so fl(n + 1e-7) = n; if m/n is     *)
(*          dyadic the quotient and the products are exact (0 ulp), otherwise  *)
(*          quotient, product and the rounding of the expected value cost      *)
(*          1/2 ulp each (2 ulp);                                             *)
(*  1 <= n < 2: the 1e-7 shifts the result by at most 1e-7/n <= 1.7 ulp, plus  *)
(*          four roundings (4 ulp);  1/2 <= n < 1: at most 3.4 ulp + 2 (6 ulp).*)
RECURSIVE IsPow2(_)
IsPow2(d) == d = 1 \/ (d % 2 = 0 /\ IsPow2(d \div 2))
Ulps(row, m) ==
  LET n == ENorm(row) IN
  IF ~Long(row, m) THEN 0
  ELSE IF QLe(I(2), n) THEN (IF IsPow2(QDiv(m, n)[2]) THEN 0 ELSE 2)
  ELSE IF QLe(One, n) THEN 4 ELSE 6

----------------------------------------------------------------------------
(* Part "renorm": lattices                                                    *)
Rows2 == IF Wide
  THEN {<<Q(0,1), Q(0,1)>>, <<Q(0,1), Q(1,2)>>, <<Q(3,8), Q(1,2)>>, <<Q(0,1), Q(1,1)>>, <<Q(3,4), Q(1,1)>>,
        <<Q(-3,4), Q(1,1)>>, <<Q(3,1), Q(4,1)>>, <<Q(0,1), Q(-4,1)>>, <<Q(4,1), Q(0,1)>>, <<Q(-6,1), Q(8,1)>>}
  ELSE {<<Q(0,1), Q(0,1)>>, <<Q(0,1), Q(1,2)>>, <<Q(0,1), Q(1,1)>>, <<Q(-3,4), Q(1,1)>>, <<Q(3,1), Q(4,1)>>,
        <<Q(0,1), Q(-4,1)>>}
Rows3 == {<<Q(0,1), Q(0,1), Q(0,1)>>, <<Q(1,4), Q(1,2), Q(1,2)>>, <<Q(1,1), Q(-2,1), Q(2,1)>>,
          <<Q(2,1), Q(3,1), Q(6,1)>>, <<Q(0,1), Q(0,1), Q(-2,1)>>, <<Q(1,2), Q(1,1), Q(1,1)>>}
RowsOf(d) == IF d = 2 THEN Rows2 ELSE Rows3
MaxNorms == IF Wide THEN {Q(1,2), Q(1,1), Q(5,4), Q(2,1), Q(5,2)} ELSE {Q(1,1), Q(5,4), Q(5,2)}
ASSUME \A d \in {2, 3} : \A r \in RowsOf(d) : HasNorm(r) /\ Len(r) = d
(* every long row has norm >= 1/2: the bound the ulp classes rest on *)
ASSUME \A d \in {2, 3} : \A r \in RowsOf(d) : \A m \in MaxNorms : Long(r, m) => QLe(Q(1,2), ENorm(r))

VecInit == [stage |-> "start"]

ChooseMaxNorm(m, d) ==
  /\ Part = "renorm" /\ vec.stage = "start"
  /\ vec' = [stage |-> "rows", m |-> m, d |-> d, rows |-> <<>>, out |-> <<>>]
  /\ last' = [op |-> "ChooseMaxNorm", c |-> "", k |-> 0]
  /\ UNCHANGED <<cur, tab, ren, dirty, calls, base, handles, ids, sw>>

AddRow(r) ==
  /\ Part = "renorm" /\ vec.stage = "rows" /\ Len(vec.rows) < Bound /\ r \in RowsOf(vec.d)
  /\ vec' = [vec EXCEPT !.rows = Append(@, r)]
  /\ last' = [op |-> "AddRow", c |-> "", k |-> 0]
  /\ UNCHANGED <<cur, tab, ren, dirty, calls, base, handles, ids, sw>>

RowReport(row, m) == [v |-> RenormRow(row, m), scaled |-> Long(row, m), ulps |-> Ulps(row, m)]
(* embedding_renorm(embedding, max_norm) on the chosen table *)
Renorm ==
  /\ Part = "renorm" /\ vec.stage = "rows" /\ Len(vec.rows) >= 1
  /\ vec' = [vec EXCEPT !.stage = "done", !.out = RenormTable(vec.rows, vec.m)]
  /\ last' = [op |-> "Renorm", c |-> "", k |-> 0]
  /\ UNCHANGED <<cur, tab, ren, dirty, calls, base, handles, ids, sw>>
  /\ Emit("Renorm", [max_norm |-> vec.m, rows |-> vec.rows],
          [rows |-> [i \in 1..Len(vec.rows) |-> RowReport(vec.rows[i], vec.m)], shape |-> <<Len(vec.rows), vec.d>>])

RenormDone == Part = "renorm" /\ vec.stage = "done"
(* properties of embedding_renorm (invariants over the finished vectors) *)
RenormBounded == RenormDone => \A i \in 1..Len(vec.out) : QLe(ENorm(vec.out[i]), vec.m)
RenormShortUnchanged == RenormDone => \A i \in 1..Len(vec.rows) : ~Long(vec.rows[i], vec.m) => vec.out[i] = vec.rows[i]
RenormScaledToMax == RenormDone => \A i \in 1..Len(vec.rows) : Long(vec.rows[i], vec.m) => QEq(ENorm(vec.out[i]), vec.m)
(* direction preserved: out = lambda * in with lambda > 0 (all 2x2 minors vanish, positive inner product) *)
RenormDirection == RenormDone => \A i \in 1..Len(vec.rows) :
   LET r == vec.rows[i]  o == vec.out[i] IN
   /\ \A a, b \in 1..Len(r) : QEq(QMul(r[a], o[b]), QMul(r[b], o[a]))
   /\ (ENorm(r)[1] # 0 => QLt(Zero, Dot(r, o)))
   /\ (ENorm(r)[1] = 0 => o = r)                                   \* the zero row stays the (finite) zero row
RenormShape == RenormDone => Len(vec.out) = Len(vec.rows) /\ \A i \in 1..Len(vec.out) : Len(vec.out[i]) = vec.d
(* row i of the result depends on row i of the input only *)
RenormRowwise == RenormDone => \A i, j \in 1..Len(vec.rows) : \A r \in RowsOf(vec.d) :
   i # j => RenormTable([vec.rows EXCEPT ![j] = r], vec.m)[i] = vec.out[i]
RenormIdempotent == RenormDone => RenormTable(vec.out, vec.m) = vec.out

----------------------------------------------------------------------------
(* Part "concat": concatenate_embedding(x, e); x[b][i] carries tag 10 b + i,  *)
(* the embedding (shape (1, E), as nnx.Embed returns it for one id) 100 + j.  *)
XTag(b, i) == 10 * b + i
ETag(j) == 100 + j
ConcatRow(b, f, e) ==
  CASE Variant = "swapped" -> [i \in 1..(f + e) |-> IF i <= e THEN ETag(i) ELSE XTag(b, i - e)]   \* canary: embedding first
    [] OTHER -> [i \in 1..(f + e) |-> IF i <= f THEN XTag(b, i) ELSE ETag(i - f)]

ChooseShape(kind, f, e, b) ==
  /\ Part = "concat" /\ vec.stage = "start"
  /\ vec' = [stage |-> "shape", kind |-> kind, f |-> f, e |-> e, b |-> b, out |-> <<>>]
  /\ last' = [op |-> "ChooseShape", c |-> "", k |-> 0]
  /\ UNCHANGED <<cur, tab, ren, dirty, calls, base, handles, ids, sw>>

(* un-batched x (shape (F,)) -> (F + E,); batch (B, F) -> (B, F + E), the same embedding behind every row *)
ConcatOut == [b \in 1..(IF vec.kind = "vec" THEN 1 ELSE vec.b) |-> ConcatRow(IF vec.kind = "vec" THEN 0 ELSE b, vec.f, vec.e)]
Concat ==
  /\ Part = "concat" /\ vec.stage = "shape"
  /\ vec.kind \in {"vec", "batch"} /\ ~(vec.kind = "vec" /\ vec.e = 1)
  /\ vec' = [vec EXCEPT !.stage = "done", !.out = ConcatOut]
  /\ last' = [op |-> "Concat", c |-> "", k |-> 0]
  /\ UNCHANGED <<cur, tab, ren, dirty, calls, base, handles, ids, sw>>
  /\ Emit("Concat", [kind |-> vec.kind, f |-> vec.f, e |-> vec.e, b |-> vec.b],
          [status |-> "ok", out |-> ConcatOut,
           shape |-> IF vec.kind = "vec" THEN <<vec.f + vec.e>> ELSE <<vec.b, vec.f + vec.e>>])

(* deviation: squeeze() turns a (1, 1) embedding into a scalar, the concatenation raises *)
ConcatUnbatchedDim1 ==
  /\ Part = "concat" /\ vec.stage = "shape" /\ vec.kind = "vec" /\ vec.e = 1
  /\ vec' = [vec EXCEPT !.stage = "raised"]
  /\ last' = [op |-> "ConcatUnbatchedDim1", c |-> "", k |-> 0]
  /\ UNCHANGED <<cur, tab, ren, dirty, calls, base, handles, ids, sw>>
  /\ Emit("Concat", [kind |-> vec.kind, f |-> vec.f, e |-> vec.e, b |-> vec.b], [status |-> "TypeError"])

(* deviation: only rank 1 and rank 2 inputs are handled *)
ConcatRank3 ==
  /\ Part = "concat" /\ vec.stage = "shape" /\ vec.kind = "rank3"
  /\ vec' = [vec EXCEPT !.stage = "raised"]
  /\ last' = [op |-> "ConcatRank3", c |-> "", k |-> 0]
  /\ UNCHANGED <<cur, tab, ren, dirty, calls, base, handles, ids, sw>>
  /\ Emit("Concat", [kind |-> vec.kind, f |-> vec.f, e |-> vec.e, b |-> vec.b], [status |-> "TypeError"])

ConcatDone == Part = "concat" /\ vec.stage = "done"
ConcatPrefixIsX == ConcatDone => \A b \in 1..Len(vec.out) : \A i \in 1..vec.f :
                      vec.out[b][i] = XTag(IF vec.kind = "vec" THEN 0 ELSE b, i)
ConcatSuffixIsE == ConcatDone => \A b \in 1..Len(vec.out) : \A j \in 1..vec.e : vec.out[b][vec.f + j] = ETag(j)
ConcatShape == ConcatDone => /\ Len(vec.out) = (IF vec.kind = "vec" THEN 1 ELSE vec.b)
                             /\ \A b \in 1..Len(vec.out) : Len(vec.out[b]) = vec.f + vec.e

----------------------------------------------------------------------------
(* Part "net": task-selecting networks.  Rows are chosen so that every        *)
(* renormalisation is exact in float32 (Ulps = 0): tables are compared bit    *)
(* for bit.                                                                   *)
InitRow(t) == <<Q(0,1), Q(t + 1, 4)>>         \* as constructed: every row within max_norm, rows distinct
NetRows ==
  IF MaxNorm = <<5, 4>>
    THEN {<<Q(0,1), Q(0,1)>>, <<Q(3,4), Q(1,1)>>, <<Q(3,1), Q(4,1)>>} \cup (IF Wide THEN {<<Q(0,1), Q(-5,1)>>} ELSE {})
    ELSE {<<Q(0,1), Q(0,1)>>, <<Q(1,1), Q(0,1)>>, <<Q(0,1), Q(4,1)>>} \cup (IF Wide THEN {<<Q(-2,1), Q(0,1)>>} ELSE {})
ASSUME Part = "net" => /\ MaxNorm \in {<<1, 1>>, <<5, 4>>} /\ NT <= 3
                       /\ \A r \in NetRows : HasNorm(r) /\ Ulps(r, MaxNorm) = 0
                       /\ \A t \in Tasks : ~Long(InitRow(t), MaxNorm)
InvalidIds == IF Wide THEN {-NT - 1, -NT, -1, NT, NT + 1} ELSE {-1, NT}
(* forward inputs: an un-batched observation and a batch of two *)
Inputs == [vec |-> <<<<Q(1,2), Q(-1,1)>>>>, batch |-> <<<<Q(2,1), Q(1,4)>>, <<Q(-1,2), Q(3,1)>>>>]

(* which rows select_task renormalises: the code calls embedding_renorm on    *)
(* the whole table (RenormWholeTable); torch.nn.Embedding(max_norm=...),      *)
(* which the docstring cites, touches the looked-up rows only.                *)
RenormOnSelect(t, k) ==
  CASE Variant = "onlyrow" -> [i \in DOMAIN t |-> IF i = k THEN RenormRow(t[i], MaxNorm) ELSE t[i]]   \* canary
    [] OTHER -> RenormTable(t, MaxNorm)

(* the row nnx.Embed returns for task_id k: jnp.take wraps -NT..-1 and fills  *)
(* NaN beyond (-1 stands for "no row").                                       *)
EffRow(k) ==
  CASE Variant = "row0" -> 0                    \* canary: task_embedding looks up row 0
    [] OTHER -> IF k \in Tasks THEN k ELSE IF k \in (-NT)..(-1) THEN NT + k ELSE -1

SelectCommon(c, k) ==
  /\ calls < Bound
  /\ cur' = IF Variant = "shared" THEN [d \in Comps |-> k] ELSE [cur EXCEPT ![c] = k]   \* canary "shared": one id for all
  /\ tab' = [tab EXCEPT ![c] = RenormOnSelect(tab[c], k)]
  /\ ren' = [ren EXCEPT ![c] = @ \cup {t \in Tasks : tab[c][t] # tab'[c][t]}]
  /\ dirty' = [dirty EXCEPT ![c] = {}]
  /\ calls' = calls + 1
  /\ UNCHANGED <<vec, base, handles, ids, sw>>

(* select_task(k): the component's task is k; the whole table is renormalised *)
SelectTask(c, k) ==
  /\ Part = "net" /\ k \in Tasks /\ SelectCommon(c, k)
  /\ last' = [op |-> "SelectTask", c |-> c, k |-> k]
  /\ Emit("SelectTask", [c |-> c, k |-> k], [status |-> "ok", scaled |-> SetFn({t \in Tasks : Long(tab[c][t], MaxNorm)})])

(* deviation: a negative id in -NT..-1 is accepted and kept as it is *)
SelectTaskWraps(c, k) ==
  /\ Part = "net" /\ k \in (-NT)..(-1) /\ k \in InvalidIds /\ SelectCommon(c, k)
  /\ last' = [op |-> "SelectTaskWraps", c |-> c, k |-> k]
  /\ Emit("SelectTask", [c |-> c, k |-> k], [status |-> "ok", scaled |-> SetFn({t \in Tasks : Long(tab[c][t], MaxNorm)})])

(* deviation: any other id is accepted too *)
SelectTaskOutOfRange(c, k) ==
  /\ Part = "net" /\ k \in InvalidIds /\ k \notin (-NT)..(NT - 1) /\ SelectCommon(c, k)
  /\ last' = [op |-> "SelectTaskOutOfRange", c |-> c, k |-> k]
  /\ Emit("SelectTask", [c |-> c, k |-> k], [status |-> "ok", scaled |-> SetFn({t \in Tasks : Long(tab[c][t], MaxNorm)})])

(* the input of the base network: every row of x followed by the row of the   *)
(* component's task                                                           *)
CatIn(table, k, xs) == [b \in 1..Len(xs) |-> xs[b] \o table[EffRow(k)]]
AltRow(r) == IF r = <<Q(0,1), Q(1,8)>> THEN <<Q(1,8), Q(0,1)>> ELSE <<Q(0,1), Q(1,8)>>   \* a short row different from r

ForwardCommon(c, name) ==
  /\ UNCHANGED <<vec, cur, tab, ren, dirty, calls, base, handles, ids, sw>>
  /\ last' = [op |-> name, c |-> c, k |-> cur[c]]

(* forward pass (un-batched input and batch): base network applied to         *)
(* concat(x, row of the CURRENT task); `indep`: rows whose value does not      *)
(* matter for the output                                                      *)
Forward(c) ==
  /\ Part = "net" /\ EffRow(cur[c]) \in Tasks /\ ForwardCommon(c, "Forward")
  /\ Emit("Forward", [c |-> c, x |-> Inputs],
          [status |-> "ok", row |-> EffRow(cur[c]), emb |-> tab[c][EffRow(cur[c])],
           cat |-> [kind \in {"vec", "batch"} |-> CatIn(tab[c], cur[c], Inputs[kind])],
           indep |-> SetFn(Tasks \ {EffRow(cur[c])}),
           alt |-> [t \in Tasks |-> AltRow(tab[c][t])],
           bounded |-> ~Long(tab[c][EffRow(cur[c])], MaxNorm)])

(* deviation: after an id outside -NT..NT-1 the embedding - and the output - are NaN *)
ForwardNaN(c) ==
  /\ Part = "net" /\ EffRow(cur[c]) = -1 /\ ForwardCommon(c, "ForwardNaN")
  /\ Emit("Forward", [c |-> c, x |-> Inputs], [status |-> "nan"])

(* an optimiser step writes row t of the table (binding: the row is written directly) *)
TrainStep(c, t, r) ==
  /\ Part = "net" /\ calls < Bound /\ t \in Tasks /\ r \in NetRows /\ tab[c][t] # r
  /\ tab' = [tab EXCEPT ![c][t] = r]
  /\ ren' = [ren EXCEPT ![c] = @ \ {t}]
  /\ dirty' = [dirty EXCEPT ![c] = @ \cup {t}]
  /\ calls' = calls + 1
  /\ last' = [op |-> "TrainStep", c |-> c, k |-> t]
  /\ UNCHANGED <<vec, cur, base, handles, ids, sw>>
  /\ Emit("TrainStep", [c |-> c, t |-> t, row |-> r], [status |-> "ok"])

Selects == {"SelectTask", "SelectTaskWraps", "SelectTaskOutOfRange"}
NetTypeOK == Part = "net" =>
   /\ cur \in [Comps -> Tasks \cup InvalidIds] /\ calls \in 0..Bound
   /\ \A c \in Comps : ren[c] \subseteq Tasks /\ dirty[c] \subseteq Tasks /\ \A t \in Tasks : Len(tab[c][t]) = 2
(* after select_task(k) the component's task is k ... *)
SelectedIsCurrent == (Part = "net" /\ last.op \in Selects) => cur[last.c] = last.k
(* ... and EVERY row of its table is within max_norm (RenormWholeTable) *)
SelectRenormsWholeTable == (Part = "net" /\ last.op \in Selects) => \A t \in Tasks : ~Long(tab[last.c][t], MaxNorm)
(* a row longer than max_norm was written after the last select_task *)
LongOnlyIfDirty == Part = "net" => \A c \in Comps : \A t \in Tasks : Long(tab[c][t], MaxNorm) => t \in dirty[c]
(* a renormalised row has norm max_norm exactly *)
RenAtMaxNorm == Part = "net" => \A c \in Comps : \A t \in ren[c] : QEq(ENorm(tab[c][t]), MaxNorm)
(* a valid task id is looked up as itself *)
ForwardRowIsCurrent == Part = "net" => \A c \in Comps : cur[c] \in Tasks => EffRow(cur[c]) = cur[c]
(* the forward pass reads the row of the current task only *)
ForwardUsesCurrentRowOnly == Part = "net" => \A c \in Comps : EffRow(cur[c]) \in Tasks =>
   \A kind \in {"vec", "batch"} : \A t \in Tasks \ {EffRow(cur[c])} : \A r \in NetRows :
      CatIn([tab[c] EXCEPT ![t] = r], cur[c], Inputs[kind]) = CatIn(tab[c], cur[c], Inputs[kind])
(* NOT an invariant of the code (ForwardUnbounded): what torch.nn.Embedding(max_norm) guarantees at lookup *)
ForwardRowBounded == Part = "net" => \A c \in Comps : EffRow(cur[c]) \in Tasks => ~Long(tab[c][EffRow(cur[c])], MaxNorm)
(* NOT an invariant of the code: select_task validates its argument *)
CurrentIsValid == Part = "net" => \A c \in Comps : cur[c] \in Tasks

(* a call on one component leaves the other component alone *)
ComponentIsolation == [][Part = "net" => \A c \in Comps : last'.c # c => (cur'[c] = cur[c] /\ tab'[c] = tab[c] /\ ren'[c] = ren[c])]_vars
(* a forward pass changes nothing; a train step changes one row *)
ForwardFrame == [][(Part = "net" /\ last'.op \in {"Forward", "ForwardNaN"}) => (cur' = cur /\ tab' = tab)]_vars
TrainStepFrame == [][(Part = "net" /\ last'.op = "TrainStep") =>
                       (cur' = cur /\ \A c \in Comps : \A t \in Tasks : (c # last'.c \/ t # last'.k) => tab'[c][t] = tab[c][t])]_vars

----------------------------------------------------------------------------
(* Part "taskset": DiscreteTaskSet(base_env, set_context, contexts, aware)    *)
Ctx(i) == <<Q(2 * i + 1, 2), I(((2 * i) % 3) - 1)>>            \* context vectors, distinct, min / max at different tasks
BaseLow == <<I(-4), I(-8)>>
BaseHigh == <<I(4), I(8)>>
RECURSIVE MinOver(_, _)
MinOver(d, k) == IF k = 0 THEN Ctx(0)[d] ELSE QMin(MinOver(d, k - 1), Ctx(k)[d])
RECURSIVE MaxOver(_, _)
MaxOver(d, k) == IF k = 0 THEN Ctx(0)[d] ELSE QMax(MaxOver(d, k - 1), Ctx(k)[d])

(* task whose dynamics an environment handle shows: the base environment is   *)
(* shared, get_task reconfigures it (StaleHandleFollowsBase)                  *)
DynOf(h) == CASE Variant = "fresh" -> (IF handles[h] = -1 THEN base ELSE handles[h])   \* canary view: one environment per handle
              [] OTHER -> base

(* get_task(i): configures the base environment for context i and returns a   *)
(* handle: the base environment itself, or (context_aware) a wrapper that      *)
(* puts context i in front of every observation                               *)
GetTask(i) ==
  /\ Part = "taskset" /\ i \in Tasks /\ Len(handles) < Bound
  /\ base' = IF Variant = "noconfigure" THEN base ELSE i              \* canary: set_context not called
  /\ handles' = Append(handles, IF Aware THEN i ELSE -1)
  /\ last' = [op |-> "GetTask", c |-> "", k |-> i]
  /\ UNCHANGED <<vec, cur, tab, ren, dirty, calls, ids, sw>>
  /\ Emit("GetTask", [i |-> i],
          [status |-> "ok", configured |-> Ctx(i), aware |-> Aware,
           low |-> IF Aware THEN <<MinOver(1, NT - 1), MinOver(2, NT - 1)>> \o BaseLow ELSE BaseLow,
           high |-> IF Aware THEN <<MaxOver(1, NT - 1), MaxOver(2, NT - 1)>> \o BaseHigh ELSE BaseHigh])

(* ids outside 0..NT-1 are rejected (assert) before anything is configured *)
GetTaskRejected(i) ==
  /\ Part = "taskset" /\ i \in {-1, NT, NT + 1}
  /\ last' = [op |-> "GetTaskRejected", c |-> "", k |-> i]
  /\ UNCHANGED <<vec, cur, tab, ren, dirty, calls, base, handles, ids, sw>>
  /\ Emit("GetTask", [i |-> i], [status |-> "AssertionError"])

(* reset through handle h: own context in front (context_aware), then what the base environment shows *)
Observe(h) ==
  /\ Part = "taskset" /\ h \in 1..Len(handles)
  /\ last' = [op |-> "Observe", c |-> "", k |-> h]
  /\ UNCHANGED <<vec, cur, tab, ren, dirty, calls, base, handles, ids, sw>>
  /\ Emit("Observe", [h |-> h],
          [obs |-> (IF handles[h] = -1 THEN <<>> ELSE Ctx(handles[h])) \o Ctx(DynOf(h)),
           stale |-> handles[h] # -1 /\ handles[h] # base])

GetContext(i) ==
  /\ Part = "taskset" /\ i \in Tasks
  /\ last' = [op |-> "GetContext", c |-> "", k |-> i]
  /\ UNCHANGED <<vec, cur, tab, ren, dirty, calls, base, handles, ids, sw>>
  /\ Emit("GetContext", [i |-> i], [status |-> "ok", ctx |-> Ctx(i)])
(* deviation: no range check, numpy indexing wraps *)
GetContextWraps(i) ==
  /\ Part = "taskset" /\ i \in (-NT)..(-1)
  /\ last' = [op |-> "GetContextWraps", c |-> "", k |-> i]
  /\ UNCHANGED <<vec, cur, tab, ren, dirty, calls, base, handles, ids, sw>>
  /\ Emit("GetContext", [i |-> i], [status |-> "ok", ctx |-> Ctx(NT + i)])
GetContextRejected(i) ==
  /\ Part = "taskset" /\ i \in {NT, NT + 1, -NT - 1}
  /\ last' = [op |-> "GetContextRejected", c |-> "", k |-> i]
  /\ UNCHANGED <<vec, cur, tab, ren, dirty, calls, base, handles, ids, sw>>
  /\ Emit("GetContext", [i |-> i], [status |-> "IndexError"])
LenQuery ==
  /\ Part = "taskset"
  /\ last' = [op |-> "Len", c |-> "", k |-> 0]
  /\ UNCHANGED <<vec, cur, tab, ren, dirty, calls, base, handles, ids, sw>>
  /\ Emit("Len", <<>>, [len |-> NT])

(* the environment just returned is configured for the requested task *)
LatestHandleConfigured == (Part = "taskset" /\ last.op = "GetTask") => (base = last.k /\ DynOf(Len(handles)) = last.k)
(* every handle shows the same - the latest - task *)
HandlesShareBase == Part = "taskset" => \A h \in 1..Len(handles) : DynOf(h) = base
(* a wrapper keeps the context it was created with in front *)
PrefixKept == [][Part = "taskset" => \A h \in 1..Len(handles) : handles'[h] = handles[h]]_vars
(* NOT an invariant of the code (StaleHandleFollowsBase): every handle keeps showing the task it was requested for *)
HandleKeepsItsTask == Part = "taskset" => \A h \in 1..Len(handles) : handles[h] # -1 => DynOf(h) = handles[h]

----------------------------------------------------------------------------
(* Part "switch": before every train_st call train_smt and train_active_mt    *)
(* call replay_buffer.select_task(k) and ts.select_task(k) for every ts in    *)
(* task_selectables ("these objects will be informed about the task index");  *)
(* train_uts has neither argument.  Components: the multi-task replay buffer, *)
(* the encoder of create_mt_mrq_state(...).policy_with_encoder - the only     *)
(* component of that state with a task id: policy and q networks see the task *)
(* through the encoder's output - and the encoder of the target copy          *)
(* (nnx.clone) that train_mrq is given.                                       *)
Listable == {"encoder", "target"}
Informed(s) ==
  CASE s.sched = "uts" -> {}                                                  \* UtsInformsNobody
    [] Variant = "firstonly" -> {"buffer"} \cup (IF "encoder" \in s.listed THEN {"encoder"} ELSE s.listed)   \* canary: only task_selectables[0]
    [] Variant = "nobuffer" -> s.listed                                       \* canary: replay buffer not told
    [] OTHER -> {"buffer"} \cup s.listed
SwitchPost(i, s, k) == [c \in SwComps |-> IF c \in Informed(s) THEN k ELSE i[c]]

(* task switch for task k followed by the train_st call *)
Switch(k) ==
  /\ Part = "switch" /\ k \in Tasks /\ sw.n < Bound
  /\ ids' = SwitchPost(ids, sw, k)
  /\ sw' = [sw EXCEPT !.env = k, !.n = @ + 1]
  /\ last' = [op |-> "Switch", c |-> "", k |-> k]
  /\ UNCHANGED <<vec, cur, tab, ren, dirty, calls, base, handles>>
  /\ Emit("Switch", [k |-> k], [ids |-> ids'])

(* all informed components agree with the environment train_st gets *)
AllAgree == (Part = "switch" /\ last.op = "Switch" /\ sw.sched # "uts") =>
               \A c \in {"buffer"} \cup sw.listed : ids[c] = sw.env
(* a component that is not listed keeps the id it had (UnlistedKeeps) *)
UnlistedKeeps == [][Part = "switch" => \A c \in Listable \ sw.listed : ids'[c] = ids[c]]_vars
UtsInformsNobody == [][(Part = "switch" /\ sw.sched = "uts") => ids' = ids]_vars
(* NOT an invariant of the code: every task-conditioned component follows the environment *)
EveryComponentFollows == (Part = "switch" /\ last.op = "Switch") => \A c \in SwComps : ids[c] = sw.env

----------------------------------------------------------------------------
InitOther ==
  /\ vec = VecInit
  /\ cur = [c \in Comps |-> 0]
  /\ tab = [c \in Comps |-> [t \in Tasks |-> InitRow(t)]]
  /\ ren = [c \in Comps |-> {}] /\ dirty = [c \in Comps |-> {}] /\ calls = 0
  /\ base = -1 /\ handles = <<>>
  /\ last = [op |-> "init", c |-> "", k |-> 0]
Init ==
  /\ InitOther
  /\ ids = [c \in SwComps |-> 0]
  /\ sw \in (IF Part = "switch" THEN [sched : {"smt", "amt", "uts"}, listed : SUBSET Listable, env : {-1}, n : {0}]
                               ELSE {[sched |-> "smt", listed |-> {}, env |-> -1, n |-> 0]})

ConcatShapes == {<<"vec", f, e, 0>> : f \in 1..3, e \in 1..3} \cup {<<"batch", f, e, b>> : f \in 1..2, e \in 1..3, b \in 1..3}
                  \cup {<<"rank3", 2, 2, 2>>}

Next ==
  \/ \E m \in MaxNorms : \E d \in (IF Wide THEN {2, 3} ELSE {2}) : ChooseMaxNorm(m, d)
  \/ \E r \in Rows2 \cup Rows3 : AddRow(r)
  \/ Renorm
  \/ \E s \in ConcatShapes : ChooseShape(s[1], s[2], s[3], s[4])
  \/ Concat \/ ConcatUnbatchedDim1 \/ ConcatRank3
  \/ \E c \in Comps : \/ \E k \in Tasks : SelectTask(c, k)
                      \/ \E k \in InvalidIds : SelectTaskWraps(c, k) \/ SelectTaskOutOfRange(c, k)
                      \/ Forward(c) \/ ForwardNaN(c)
                      \/ \E t \in Tasks : \E r \in NetRows : TrainStep(c, t, r)
  \/ \E i \in Tasks : GetTask(i) \/ GetContext(i)
  \/ \E i \in {-1, NT, NT + 1} : GetTaskRejected(i)
  \/ \E i \in (-NT)..(-1) : GetContextWraps(i)
  \/ \E i \in {NT, NT + 1, -NT - 1} : GetContextRejected(i)
  \/ \E h \in 1..Bound : Observe(h)
  \/ LenQuery
  \/ \E k \in Tasks : Switch(k)

Spec == Init /\ [][Next]_vars
=============================================================================
