--------------------------- MODULE Bounds ---------------------------
(* C10, function-level clauses: actions computed for a box-shaped action     *)
(* space respect its bounds.                                                 *)
(*                                                                           *)
(*   DeterministicTanhPolicy.scale_output   PolicyAction  (TanhScale)        *)
(*   ddpg.sample_actions                    Explore                          *)
(*   td3.sample_target_actions              Smooth                           *)
(* (TD3+LAP, TD7 and MR.Q use make_sample_actions / make_sample_target_      *)
(* actions of ddpg / td3; the cross-entropy planner is in BoundsCem.tla.)    *)
(*                                                                           *)
(* The "state machine" is the staged choice of one test vector: a box        *)
(* configuration, the noise / clip levels, what the policy returns and the   *)
(* standard-normal draw.  The draw is either a lattice value (model          *)
(* checking) or a row of REAL draws of jax.random.normal(key, shape) that    *)
(* the harness recorded (file named by the environment variable C10_NOISE),  *)
(* so that the vector TLC emits is the exact value the real sampler must     *)
(* return for that key.                                                      *)
EXTENDS BoundsOps, FiniteSets, TLC, Json, IOUtils

CONSTANTS Boxes,     \* set of box-configuration names (see BoxDefs)
          Levels,    \* "model": full (sigma, c) lattice | "bind": the levels replayed into the code
          NoiseSrc,  \* "lattice" | "file"
          Variant,   \* "code", or one of the deviations of BoundsOps!Variants
          EMIT

VARIABLES stage,  \* "start" | "box" | "levels" | "policy" | "done"
          bx,     \* name of the box configuration
          lv,     \* [sigma, c]
          po,     \* [kind, pat]: what the policy returns
          nz      \* [id, n]: the standard-normal draw, one value per dimension
vars == <<stage, bx, lv, po, nz>>

----------------------------------------------------------------------------
(* lattices *)
BoxDefs == [
  sym1  |-> << Dim(Q(-1, 1), Q(1, 1), 0) >>,
  asym1 |-> << Dim(Q(-1, 1), Q(2, 1), 0) >>,                  \* scale 3/2, bias 1/2
  pos1  |-> << Dim(Q(1, 2), Q(1, 1), 0) >>,                   \* scale 1/4 < 1, excludes 0
  neg1  |-> << Dim(Q(-2, 1), Q(-1, 2), 0) >>,                 \* scale 3/4, excludes 0
  tiny1 |-> << Dim(Q(-1, 1), Q(1, 1), -20) >>,
  huge1 |-> << Dim(Q(-1, 1), Q(1, 1), 20) >>,
  hugeasym1 |-> << Dim(Q(1, 2), Q(2, 1), 20) >>,
  mix2  |-> << Dim(Q(-1, 1), Q(1, 1), 0), Dim(Q(1, 2), Q(1, 1), 0) >>,
  wide3 |-> << Dim(Q(-2, 1), Q(2, 1), 0), Dim(Q(0, 1), Q(1, 1), 0), Dim(Q(-1, 1), Q(0, 1), 0) >>,
  mix3  |-> << Dim(Q(-2, 1), Q(-1, 2), 0), Dim(Q(-1, 1), Q(1, 1), -20), Dim(Q(0, 1), Q(2, 1), 20) >>,
  sym3  |-> << Dim(Q(-1, 1), Q(1, 1), 0), Dim(Q(-1, 1), Q(1, 1), 0), Dim(Q(-1, 1), Q(1, 1), 0) >>
]
AllBoxes == DOMAIN BoxDefs
Box  == BoxDefs[bx]
Dims == 1..Len(Box)

Sigmas == {Q(0, 1), Q(1, 4), Q(1, 2), Q(1, 1)}
Clips  == {Q(0, 1), Q(1, 4), Q(1, 2), Q(1, 1), Q(2, 1)}
LevelsModel == {[sigma |-> s, c |-> c] : s \in Sigmas, c \in Clips}
LevelsBind  == { [sigma |-> Q(0, 1), c |-> Q(1, 2)],   \* no noise: the sampler returns the policy's action
                 [sigma |-> Q(1, 4), c |-> Q(1, 2)],   \* small noise, mostly interior
                 [sigma |-> Q(1, 2), c |-> Q(1, 4)],   \* noise clip active for |n| > 1/2
                 [sigma |-> Q(1, 1), c |-> Q(1, 2)],
                 [sigma |-> Q(1, 1), c |-> Q(2, 1)],   \* wide clip: the action clip does the work
                 [sigma |-> Q(1, 2), c |-> Q(0, 1)] }  \* noise clipped to nothing

(* what the policy returns *)
Fracs  == << Q(0, 1), Q(1, 4), Q(1, 2), Q(3, 4), Q(1, 1) >>    \* position inside the box, faces included
SatSeq == << "zero", "pos9", "neg40", "pos2p60", "neg9", "pos40", "neg2p60", "posinf", "neginf" >>
TMids  == << Q(-1, 1), Q(-1, 2), Q(0, 1), Q(1, 2), Q(1, 1) >>  \* tanh values the model can name (model only)
Pick(seq, p, j) == seq[((p + 2 * (j - 1)) % Len(seq)) + 1]      \* dimensions get different entries
PolicyKinds == IF Levels = "model" THEN {"direct", "tanh", "tmid"} ELSE {"direct", "tanh"}
PatCount(kind) == IF kind = "tanh" THEN Len(SatSeq) ELSE 5

(* the policy's action in dimension j *)
PolicyAction(j) ==
  LET d == Box[j] IN
  CASE po.kind = "direct" -> DAdd(d.lo, QMul(Pick(Fracs, po.pat, j), Range(d)))
    [] po.kind = "tanh"   -> TanhScale(d, TanhAt(Pick(SatSeq, po.pat, j)))
    [] po.kind = "tmid"   -> TanhScale(d, Pick(TMids, po.pat, j))
PreActivation(j) == IF po.kind = "tanh" THEN Pick(SatSeq, po.pat, j) ELSE "-"

(* the standard-normal draw *)
NoiseLat  == << Q(0, 1), Q(1, 2), Q(-1, 1), Q(3, 1), Q(-1, 2), Q(1, 1), Q(-3, 1) >>
NoiseFile == JsonDeserialize(IOEnv.C10_NOISE)    \* sequence of [id, dim, n]; n[j] = <<num, den>>
NoiseRows(dim) ==
  IF NoiseSrc = "lattice"
    THEN {[id |-> r, n |-> [j \in 1..dim |-> NoiseLat[((r + 3 * (j - 1)) % 7) + 1]]] : r \in 0..6}
    ELSE {[id |-> NoiseFile[k].id, n |-> [j \in 1..dim |-> <<NoiseFile[k].n[j][1], NoiseFile[k].n[j][2]>>]] :
             k \in {k \in 1..Len(NoiseFile) : NoiseFile[k].dim = dim}}

----------------------------------------------------------------------------
(* the vector's values, per dimension *)
A(j)  == PolicyAction(j)
N(j)  == nz.n[j]
S(j)  == HalfRange(Box[j])
XPert(j)        == VPert(Variant, Box[j], lv.sigma, N(j))
XClippedPert(j) == VClippedPert(Variant, Box[j], lv.sigma, lv.c, N(j))
XExplorePre(j)  == VExplorePre(Variant, Box[j], lv.sigma, A(j), N(j))
XExplore(j)     == VExplore(Variant, Box[j], lv.sigma, A(j), N(j))
XSmoothPre(j)   == VSmoothPre(Variant, Box[j], lv.sigma, lv.c, A(j), N(j))
XSmooth(j)      == VSmooth(Variant, Box[j], lv.sigma, lv.c, A(j), N(j))
Vec(f(_)) == [j \in Dims |-> f(j)]
(* which clip is active - a case with none active decides the noise equation *)
ExploreInterior(j) == DLt(Box[j].lo, XExplorePre(j)) /\ DLt(XExplorePre(j), Box[j].hi)
NoiseInterior(j)   == DLt(DAbs(XPert(j)), NoiseLimit(Box[j], lv.c))
SmoothInterior(j)  == NoiseInterior(j) /\ DLt(Box[j].lo, XSmoothPre(j)) /\ DLt(XSmoothPre(j), Box[j].hi)

(* the interval a smoothed action may lie in: the box cut by policy action -+ noise_clip * half range *)
SmoothLo(j) == DMax(Box[j].lo, DSub(A(j), QMul(lv.c, S(j))))
SmoothHi(j) == DMin(Box[j].hi, DAdd(A(j), QMul(lv.c, S(j))))

Emit ==
  EMIT => PrintT(<<"EMIT", ToJson([
     box |-> bx, dims |-> Box, sigma |-> lv.sigma, c |-> lv.c,
     kind |-> po.kind, pat |-> po.pat, y |-> Vec(PreActivation), noise |-> nz.id, n |-> nz.n,
     action |-> Vec(A), pert |-> Vec(XPert), explore |-> Vec(XExplore),
     cpert |-> Vec(XClippedPert), smooth |-> Vec(XSmooth), slo |-> Vec(SmoothLo), shi |-> Vec(SmoothHi),
     eint |-> Vec(ExploreInterior), nint |-> Vec(NoiseInterior), sint |-> Vec(SmoothInterior)])>>)

----------------------------------------------------------------------------
Init == /\ stage = "start" /\ bx = "-" /\ lv = <<>> /\ po = <<>> /\ nz = <<>>

ChooseBox(b) ==
  /\ stage = "start" /\ stage' = "box" /\ bx' = b
  /\ UNCHANGED <<lv, po, nz>>

ChooseLevels(l) ==
  /\ stage = "box" /\ stage' = "levels" /\ lv' = l
  /\ UNCHANGED <<bx, po, nz>>

ChoosePolicy(k, p) ==
  /\ stage = "levels" /\ stage' = "policy" /\ po' = [kind |-> k, pat |-> p]
  /\ UNCHANGED <<bx, lv, nz>>

(* the draw completes the vector; the samplers are evaluated on it *)
ChooseNoise(r) ==
  /\ stage = "policy" /\ stage' = "done" /\ nz' = r
  /\ UNCHANGED <<bx, lv, po>>

PickNoise == stage = "policy" /\ \E r \in NoiseRows(Len(Box)) : ChooseNoise(r)

Next == \/ \E b \in Boxes : ChooseBox(b)
        \/ \E l \in (IF Levels = "model" THEN LevelsModel ELSE LevelsBind) : ChooseLevels(l)
        \/ \E k \in PolicyKinds : \E p \in 0..(PatCount(k) - 1) : ChoosePolicy(k, p)
        \/ PickNoise
        \/ (stage = "done" /\ Emit /\ UNCHANGED vars)

Spec == Init /\ [][Next]_vars
Done == stage = "done"

----------------------------------------------------------------------------
(* Properties (C10).  They are requirements on what a sampler returns, stated *)
(* with the box and the configured levels only; the X.. values are those of    *)
(* the composition under test (Variant = "code": the code's composition).      *)

(* every exploration action and every smoothed target action lies inside the box *)
ExploreInBox == Done => \A j \in Dims : InBox(Box[j], XExplore(j))
SmoothInBox  == Done => \A j \in Dims : InBox(Box[j], XSmooth(j))
(* the deterministic policy itself: tanh in [-1, 1] is mapped into the box, its *)
(* extremes onto the faces and 0 onto the centre                                *)
PolicyInBox  == Done => \A j \in Dims : InBox(Box[j], A(j))
PolicyFaces  == (Done /\ po.kind = "tanh") => \A j \in Dims :
                  LET t == TanhAt(Pick(SatSeq, po.pat, j)) IN
                  /\ (t = One => DEq(A(j), Box[j].hi))
                  /\ (t = QNeg(One) => DEq(A(j), Box[j].lo))
                  /\ (t = Zero => DEq(QMul(I(2), A(j)), DAdd(Box[j].lo, Box[j].hi)))
(* target-smoothing noise never exceeds noise_clip times half the action range *)
SmoothNoiseBounded ==
  Done => \A j \in Dims : /\ DLe(DAbs(XClippedPert(j)), QMul(lv.c, S(j)))
                          /\ DLe(DAbs(DSub(XSmooth(j), A(j))), QMul(lv.c, S(j)))
(* before clipping: policy action + noise level * half range * standard-normal draw *)
ExploreEquation ==
  Done => \A j \in Dims : DEq(XExplorePre(j), DAdd(A(j), QMul(QMul(lv.sigma, S(j)), N(j))))
SmoothEquation ==
  Done => \A j \in Dims :
     NoiseInterior(j) => DEq(XSmoothPre(j), DAdd(A(j), QMul(QMul(lv.sigma, S(j)), N(j))))
(* a clip that is not active changes nothing; an active one returns the face *)
ClipIsProjection ==
  Done => \A j \in Dims :
     /\ (ExploreInterior(j) => DEq(XExplore(j), XExplorePre(j)))
     /\ (DLe(Box[j].hi, XExplorePre(j)) => DEq(XExplore(j), Box[j].hi))
     /\ (DLe(XExplorePre(j), Box[j].lo) => DEq(XExplore(j), Box[j].lo))
(* without noise the sampler is the policy *)
NoNoiseIsPolicy ==
  (Done /\ lv.sigma = Zero) => \A j \in Dims : DEq(XExplore(j), A(j)) /\ DEq(XSmooth(j), A(j))
(* vacuity guards, checked by the harness through TLC's coverage of ChooseNoise *)
TypeOK == stage \in {"start", "box", "levels", "policy", "done"}
=============================================================================
