--------------------------- MODULE NetsOps ---------------------------
(* X07 - operators of spec/Nets.tla: structures, parameter assignments and    *)
(* forward laws of the function approximators and composite networks of       *)
(* rl-blox, on exact rationals (Exact.tla).                                   *)
(*                                                                            *)
(* A network is a STRUCTURE  s = [kind, nf, hn, no, act]                      *)
(*   kind  "mlp" | "lnmlp" | "gauss_shared" | "gauss_sep"                     *)
(*   nf    n_features, hn  hidden_nodes (sequence), no  n_outputs             *)
(*   act   name of the activation function                                    *)
(* plus a PARAMETER ASSIGNMENT  P = [hid, ln, head]: sequences of layers      *)
(* [W, b] (W[i][j]: kernel of shape (n_in, n_out) as flax stores it) and of   *)
(* layer norms [sc, b].  Parameters come from the lattice Lat through a       *)
(* deterministic generator indexed by (layer tag, seed): TLC chooses seeds,   *)
(* a perturbation replaces the seed of ONE parameter group.                   *)
EXTENDS Exact, FiniteSets, TLC

CONSTANT Variant     \* "code", or the name of a wrong variant (canaries)

Lat == <<Q(-1,1), Q(-1,2), Zero, Half, One, I(2)>>
Pick(k) == Lat[(k % 6) + 1]

RECURSIVE IsPow2(_)
IsPow2(n) == n = 1 \/ (n > 1 /\ n % 2 = 0 /\ IsPow2(n \div 2))
(* q > 0 is a power of two (positive or negative exponent) *)
IsPow2Q(q) == q[1] > 0 /\ ((q[1] = 1 /\ IsPow2(q[2])) \/ (q[2] = 1 /\ IsPow2(q[1])))
RECURSIVE ISum(_, _)
ISum(f, n) == IF n = 0 THEN 0 ELSE f[n] + ISum(f, n - 1)

----------------------------------------------------------------------------
(* linear algebra                                                             *)
(* <<>> \o f: TLC evaluates the function once, as a tuple (a function          *)
(* expression is otherwise re-evaluated at every application)                 *)
Tup(f) == <<>> \o f
Dot(x, W, j) == QSum(Tup([i \in 1..Len(x) |-> QMul(x[i], W[i][j])]))
Affine(L, x) == Tup([j \in 1..Len(L.b) |-> QAdd(Dot(x, L.W, j), L.b[j])])      \* nnx.Linear: x @ kernel + bias
VAbsSum(v) == QSum(Tup([i \in 1..Len(v) |-> QAbs(v[i])]))

(* activations whose value on a dyadic rational is a dyadic rational          *)
ExactActs == {"relu", "identity", "relu6", "hard_tanh"}
Act1(a, x) == CASE a = "relu" -> QMax(Zero, x)
                [] a = "identity" -> x
                [] a = "relu6" -> QClip(x, Zero, I(6))
                [] a = "hard_tanh" -> QClip(x, I(-1), One)
ActV(a, v) == Tup([i \in 1..Len(v) |-> Act1(a, v[i])])

----------------------------------------------------------------------------
(* structure: hidden_nodes semantics                                          *)
Widths(s) == <<s.nf>> \o s.hn                      \* Widths[l] = n_in of hidden layer l, Widths[l+1] = its n_out
LastW(s) == Widths(s)[Len(s.hn) + 1]               \* n_in of the output layer(s): n_features when hidden_nodes = []
HiddenShapes(s) == [l \in 1..Len(s.hn) |-> <<Widths(s)[l], s.hn[l]>>]
(* output layers: one Linear(n_in, n_outputs); GaussianMLP: one Linear(n_in,  *)
(* 2 n_outputs) (shared_head) or two Linear(n_in, n_outputs)                  *)
HeadShapes(s) == CASE s.kind = "gauss_shared" -> << <<LastW(s), 2 * s.no>> >>
                   [] s.kind = "gauss_sep" -> << <<LastW(s), s.no>>, <<LastW(s), s.no>> >>
                   [] OTHER -> << <<LastW(s), s.no>> >>
IsGauss(s) == s.kind \in {"gauss_shared", "gauss_sep"}
OutNames(s) == IF IsGauss(s) THEN {"mean", "log_var"} ELSE {"out"}
NParams(s) ==
  LET hs == HiddenShapes(s)  os == HeadShapes(s) IN
    ISum([l \in 1..Len(hs) |-> hs[l][1] * hs[l][2] + hs[l][2]], Len(hs))
  + ISum([h \in 1..Len(os) |-> os[h][1] * os[h][2] + os[h][2]], Len(os))
  + (IF s.kind = "lnmlp" THEN ISum([l \in 1..Len(hs) |-> 2 * hs[l][2]], Len(hs)) ELSE 0)
(* the order of operations of one forward pass, as names (the binding         *)
(* recomputes the pass through the real sub-modules in this order)            *)
RECURSIVE ProgramTo(_, _)
ProgramTo(s, l) ==
  IF l = 0 THEN <<>>
  ELSE ProgramTo(s, l - 1) \o <<"linear">> \o (IF s.kind = "lnmlp" THEN <<"norm">> ELSE <<>>) \o <<"act">>
Program(s) == ProgramTo(s, Len(s.hn)) \o <<"head">>

----------------------------------------------------------------------------
(* parameter generator                                                        *)
(* (sd % 6, sd \div 6) enter differently: seeds 0..35 give distinct assignments *)
GenW(t, sd, nin, nout) ==
  LET a == sd % 6  c == sd \div 6
  IN Tup([i \in 1..nin |-> Tup([j \in 1..nout |-> Pick(i * i + i * (3 + a) + j * (5 + 2 * a) + i * j * (1 + c) + 7 * t + a + c * (j + 1))])])
GenB(t, sd, nout) ==
  LET a == sd % 6  c == sd \div 6
  IN Tup([j \in 1..nout |-> Pick(j * (2 + a) + 3 * t + 2 * a + 1 + c * (j + 2))])
GenLayer(t, sd, nin, nout) == [W |-> GenW(t, sd, nin, nout), b |-> GenB(t, sd, nout)]
GenScale(t, sd, n) == Tup([j \in 1..n |-> <<One, I(2), Half>>[((j + t + sd) % 3) + 1]])     \* layer-norm scale

(* perturbation: [kind, c, grp, r, i, d]                                      *)
(*   "none"                                                                   *)
(*   "input"        component i of row r of the input + 1                     *)
(*   "group"        parameter group grp (of critic / component c) regenerated *)
(*                  with seed + d                                             *)
(*   "logvar_cols"  shared head of GaussianMLP: columns n_outputs+1.. only    *)
(*   "lnshift"      + 1 on every bias of hidden layer grp (LayerNormMLP)      *)
NoPert == [kind |-> "none", c |-> 0, grp |-> "", r |-> 0, i |-> 0, d |-> 0]
SeedFor(sd, pert, g) == IF pert.kind = "group" /\ pert.grp = g THEN sd + pert.d ELSE sd
ShiftB(b, pert, g) == IF pert.kind = "lnshift" /\ pert.grp = g THEN [j \in 1..Len(b) |-> QAdd(b[j], One)] ELSE b
HidName(l) == "hid" \o ToString(l)
LnName(l) == "ln" \o ToString(l)
HeadName(h) == "head" \o ToString(h)
HidLayer(s, sd, pert, l) ==
  LET L == GenLayer(l, SeedFor(sd, pert, HidName(l)), Widths(s)[l], s.hn[l])
  IN [W |-> L.W, b |-> ShiftB(L.b, pert, HidName(l))]
LnLayer(s, sd, pert, l) ==
  LET sd2 == SeedFor(sd, pert, LnName(l)) IN [sc |-> GenScale(l, sd2, s.hn[l]), b |-> GenB(10 + l, sd2, s.hn[l])]
HeadLayer(s, sd, pert, h) ==
  LET shp == HeadShapes(s)[h]
      A == GenLayer(20 + h, SeedFor(sd, pert, HeadName(h)), shp[1], shp[2])
      B == GenLayer(20 + h, sd + pert.d, shp[1], shp[2])
  IN IF pert.kind = "logvar_cols"
       THEN [W |-> [i \in 1..shp[1] |-> [j \in 1..shp[2] |-> IF j > s.no THEN B.W[i][j] ELSE A.W[i][j]]],
             b |-> [j \in 1..shp[2] |-> IF j > s.no THEN B.b[j] ELSE A.b[j]]]
       ELSE A
Params(s, sd, pert) ==
  [hid |-> [l \in 1..Len(s.hn) |-> HidLayer(s, sd, pert, l)],
   ln |-> IF s.kind = "lnmlp" THEN [l \in 1..Len(s.hn) |-> LnLayer(s, sd, pert, l)] ELSE <<>>,
   head |-> [h \in 1..Len(HeadShapes(s)) |-> HeadLayer(s, sd, pert, h)]]
Groups(s) == {HidName(l) : l \in 1..Len(s.hn)} \cup {HeadName(h) : h \in 1..Len(HeadShapes(s))}
               \cup (IF s.kind = "lnmlp" THEN {LnName(l) : l \in 1..Len(s.hn)} ELSE {})
PertInput(xs, pert) ==
  IF pert.kind = "input" THEN [xs EXCEPT ![pert.r] = [@ EXCEPT ![pert.i] = QAdd(@, One)]] ELSE xs

----------------------------------------------------------------------------
(* layer normalisation (nnx.LayerNorm, epsilon 1e-6) over 1 or 2 features.    *)
(* Width 1: the centred value is 0, the result is the bias exactly.  Width 2: *)
(* h = (c + d, c - d) gives (+-d / sqrt(d^2 + eps)) * scale + bias; the IDEAL  *)
(* value is (sign d, -sign d) * scale + bias, the real one is closer to the   *)
(* bias by the relative amount LnDelta (below).                               *)
LNIdeal(ln, h) ==
  IF Len(h) = 1 THEN <<ln.b[1]>>                  \* WidthOneLayerNormIsConstant: the layer no longer depends on its input
  ELSE LET sg == QSign(QSub(h[1], h[2]))
       IN <<QAdd(ln.b[1], QMul(ln.sc[1], I(sg))), QSub(ln.b[2], QMul(ln.sc[2], I(sg)))>>

(* one forward pass, layer by layer:                                          *)
(*   hidden layer l:  x <- act(layer_l(x))          (MLP, GaussianMLP)        *)
(*                    x <- act(norm_l(layer_l(x)))  (LayerNormMLP)            *)
(*   no activation (and no norm) after the output layer(s)                    *)
RECURSIVE Hid(_, _, _, _)
Hid(s, P, x, l) ==
  IF l = 0 THEN x
  ELSE LET pre == Affine(P.hid[l], Hid(s, P, x, l - 1))
           a(v) == IF Variant = "NoActivationOnLastHidden" /\ l = Len(s.hn) THEN v ELSE ActV(s.act, v)
       IN IF s.kind = "lnmlp"
            THEN (IF Variant = "NormAfterActivation" THEN LNIdeal(P.ln[l], a(pre)) ELSE a(LNIdeal(P.ln[l], pre)))
            ELSE a(pre)
PreAct(s, P, x, l) == Affine(P.hid[l], Hid(s, P, x, l - 1))
LastHidden(s, P, x) == Hid(s, P, x, Len(s.hn))
Heads(s, P, h) ==
  Tup([k \in 1..Len(P.head) |-> LET y == Affine(P.head[k], h)
                                IN IF Variant = "ActivationOnOutputLayer" THEN ActV(s.act, y) ELSE y])
(* GaussianMLP: shared head - the first n_outputs components of the one       *)
(* output layer are the mean, the others the log variance (jnp.split at       *)
(* n_outputs); separate heads - output_layers[0] is the mean, [1] log_var.    *)
(* HeadsShareTrunkEitherWay: in both modes every node of the last hidden      *)
(* layer feeds mean AND log_var (the docstring says so of shared_head = True  *)
(* only); the modes differ in how the output parameters are grouped.          *)
Forward1(s, P, x) ==
  LET y == Heads(s, P, LastHidden(s, P, x)) IN
  CASE s.kind = "gauss_shared" ->
         IF Variant = "SplitSwapped"
           THEN [mean |-> SubSeq(y[1], s.no + 1, 2 * s.no), log_var |-> SubSeq(y[1], 1, s.no)]
           ELSE [mean |-> SubSeq(y[1], 1, s.no), log_var |-> SubSeq(y[1], s.no + 1, 2 * s.no)]
    [] s.kind = "gauss_sep" ->
         IF Variant = "SplitSwapped" THEN [mean |-> y[2], log_var |-> y[1]] ELSE [mean |-> y[1], log_var |-> y[2]]
    [] OTHER -> [out |-> y[1]]
(* a batch: every row on its own                                              *)
BatchMean(xs) == Tup([i \in 1..Len(xs[1]) |-> QMean(Tup([b \in 1..Len(xs) |-> xs[b][i]]))])
Centre(xs) == LET m == BatchMean(xs) IN Tup([b \in 1..Len(xs) |-> Tup([i \in 1..Len(xs[b]) |-> QSub(xs[b][i], m[i])])])
ForwardB(s, P, xs) ==
  LET X == IF Variant = "NormOverBatchAxis" THEN Centre(xs) ELSE xs
      rows == Tup([b \in 1..Len(xs) |-> Forward1(s, P, X[b])])
  IN [n \in OutNames(s) |-> Tup([b \in 1..Len(xs) |-> rows[b][n]])]

(* --- how far the real LayerNormMLP may be from the ideal one -------------- *)
(* class of layer l on input x: "const" (result is the bias exactly: width 1, *)
(* or equal pre-activations computed from exact inputs), "sign" (|h1 - h2|    *)
(* large enough that the sign pattern is certain and LnDelta is small),       *)
(* "bad" (not used as a test vector)                                          *)
RECURSIVE LnCls(_, _, _, _)
LnCls(s, P, x, l) ==
  LET pre == PreAct(s, P, x, l)
      prevExact == l = 1 \/ LnCls(s, P, x, l - 1) = "const"
  IN IF Len(pre) = 1 THEN "const"
     ELSE LET gap == QAbs(QSub(pre[1], pre[2]))
          IN IF gap[1] = 0 THEN (IF prevExact THEN "const" ELSE "bad")
             ELSE IF QLe(I(IF prevExact THEN 1 ELSE 2), gap) THEN "sign" ELSE "bad"
LnAdmissible(s, P, x) == s.kind = "lnmlp" => \A l \in 1..Len(s.hn) : s.hn[l] <= 2 /\ LnCls(s, P, x, l) # "bad"
(* relative shortfall of |d| / sqrt(d^2 + eps) from 1, d = gap / 2 >= 1/2,    *)
(* in UNITS OF 2^-22 (TLC integers are 32-bit):                               *)
(*   eps / (2 d^2) with eps = 1e-6 <= 2^-19 = 8 units; when the inputs of the *)
(*   layer are themselves rounded, var = mean(x^2) - mean(x)^2 carries an     *)
(*   absolute error <= 4 * 2^-24 * M2 (M2 bounds x^2): another M2 / (2 d^2)    *)
(*   units; 4 units (2^-20) for the roundings of rsqrt, the products and the  *)
(*   bias addition                                                            *)
LnDelta(s, P, x, l) ==
  LET pre == PreAct(s, P, x, l)
      d2 == QMul(Q(1, 4), QSq(QSub(pre[1], pre[2])))
      prevExact == l = 1 \/ LnCls(s, P, x, l - 1) = "const"
      m2 == QSq(QAdd(QAdd(QAbs(pre[1]), QAbs(pre[2])), One))
      num == IF prevExact THEN I(8) ELSE QAdd(I(8), m2)
  IN QAdd(QDiv(num, QMul(I(2), d2)), I(4))
(* bound on |real - ideal| of output k of head h, in units of 2^-22: per unit *)
(* of the last hidden layer |scale| * LnDelta (the activations are            *)
(* 1-Lipschitz), through the output layer, plus 4 units (2^-20) of the        *)
(* magnitudes for the roundings                                               *)
LnSlack(s, P, x, h, k) ==
  LET L == Len(s.hn) IN
  IF s.kind # "lnmlp" \/ L = 0 \/ LnCls(s, P, x, L) = "const" THEN Zero
  ELSE LET dl == LnDelta(s, P, x, L)
           Wk == [i \in 1..s.hn[L] |-> QAbs(P.head[h].W[i][k])]
           e == QSum([i \in 1..s.hn[L] |-> QMul(Wk[i], QMul(QAbs(P.ln[L].sc[i]), dl))])
           mag == QAdd(QAbs(P.head[h].b[k]),
                       QSum([i \in 1..s.hn[L] |-> QMul(Wk[i], QAdd(QAbs(P.ln[L].sc[i]), QAbs(P.ln[L].b[i])))]))
       IN QAdd(e, QMul(I(4), mag))

----------------------------------------------------------------------------
(* AvgL1Norm: x / max(mean |x_i|, eps) over the last axis.  On the lattice a  *)
(* non-zero vector has mean |x_i| >= 1/64 > eps; the zero vector gives 0 / eps*)
AbsMean(v) == QMean(Tup([i \in 1..Len(v) |-> QAbs(v[i])]))
AvgL1(v) == LET m == AbsMean(v) IN IF m[1] = 0 THEN v ELSE Tup([i \in 1..Len(v) |-> QDiv(v[i], m)])
(* float32 computes it exactly when the divisor is a power of two             *)
AvgL1Exact(v) == AbsMean(v)[1] = 0 \/ IsPow2Q(AbsMean(v))

----------------------------------------------------------------------------
(* named activations that are not exact on dyadics: closed brackets           *)
(* [lo / 32, hi / 32] that contain the mathematical value (flax.nnx           *)
(* documentation of each function) at the probes -8, -2, -1, -1/2, 0, 1/2, 1, *)
(* 2, 8; lo = hi where the float32 value is that dyadic exactly.              *)
Probes == <<I(-8), I(-2), I(-1), Q(-1, 2), Zero, Half, One, I(2), I(8)>>
ActTable == [
  leaky_relu    |-> <<<<-3,-2>>, <<-1,0>>, <<-1,0>>, <<-1,0>>, <<0,0>>, <<16,16>>, <<32,32>>, <<64,64>>, <<256,256>>>>,
  elu           |-> <<<<-32,-31>>, <<-28,-27>>, <<-21,-20>>, <<-13,-12>>, <<0,0>>, <<16,16>>, <<32,32>>, <<64,64>>, <<256,256>>>>,
  celu          |-> <<<<-32,-31>>, <<-28,-27>>, <<-21,-20>>, <<-13,-12>>, <<0,0>>, <<16,16>>, <<32,32>>, <<64,64>>, <<256,256>>>>,
  selu          |-> <<<<-57,-56>>, <<-49,-48>>, <<-36,-35>>, <<-23,-22>>, <<0,0>>, <<16,17>>, <<33,34>>, <<67,68>>, <<268,269>>>>,
  tanh          |-> <<<<-33,-31>>, <<-31,-30>>, <<-25,-24>>, <<-15,-14>>, <<0,0>>, <<14,15>>, <<24,25>>, <<30,31>>, <<31,33>>>>,
  sigmoid       |-> <<<<0,1>>, <<3,4>>, <<8,9>>, <<12,13>>, <<16,16>>, <<19,20>>, <<23,24>>, <<28,29>>, <<31,32>>>>,
  softplus      |-> <<<<0,1>>, <<4,5>>, <<10,11>>, <<15,16>>, <<22,23>>, <<31,32>>, <<42,43>>, <<68,69>>, <<256,257>>>>,
  silu          |-> <<<<-1,0>>, <<-8,-7>>, <<-9,-8>>, <<-7,-6>>, <<0,0>>, <<9,10>>, <<23,24>>, <<56,57>>, <<255,256>>>>,
  swish         |-> <<<<-1,0>>, <<-8,-7>>, <<-9,-8>>, <<-7,-6>>, <<0,0>>, <<9,10>>, <<23,24>>, <<56,57>>, <<255,256>>>>,
  gelu          |-> <<<<-1,1>>, <<-2,-1>>, <<-6,-5>>, <<-5,-4>>, <<0,0>>, <<11,12>>, <<26,27>>, <<62,63>>, <<255,257>>>>,
  soft_sign     |-> <<<<-29,-28>>, <<-22,-21>>, <<-16,-16>>, <<-11,-10>>, <<0,0>>, <<10,11>>, <<16,16>>, <<21,22>>, <<28,29>>>>,
  hard_sigmoid  |-> <<<<0,0>>, <<5,6>>, <<10,11>>, <<13,14>>, <<16,16>>, <<18,19>>, <<21,22>>, <<26,27>>, <<32,32>>>>,
  hard_swish    |-> <<<<0,0>>, <<-11,-10>>, <<-11,-10>>, <<-7,-6>>, <<0,0>>, <<9,10>>, <<21,22>>, <<53,54>>, <<256,256>>>>,
  hard_silu     |-> <<<<0,0>>, <<-11,-10>>, <<-11,-10>>, <<-7,-6>>, <<0,0>>, <<9,10>>, <<21,22>>, <<53,54>>, <<256,256>>>>,
  log_sigmoid   |-> <<<<-257,-256>>, <<-69,-68>>, <<-43,-42>>, <<-32,-31>>, <<-23,-22>>, <<-16,-15>>, <<-11,-10>>, <<-5,-4>>, <<-1,0>>>>
]
BracketActs == DOMAIN ActTable
ActNames == ExactActs \cup BracketActs
(* names that flax.nnx binds to the same function *)
Aliases == {{"silu", "swish"}, {"hard_swish", "hard_silu"}, {"elu", "celu"}}     \* celu(alpha = 1) = elu(alpha = 1)
SameFunction(a, b) == a = b \/ \E S \in Aliases : a \in S /\ b \in S
(* the bracket of activation a at probe index p: <<lo, hi>> as rationals *)
Bracket(a, p) ==
  IF a \in ExactActs THEN <<Act1(a, Probes[p]), Act1(a, Probes[p])>>
  ELSE <<Q(ActTable[a][p][1], 32), Q(ActTable[a][p][2], 32)>>
=============================================================================
