--------------------------- MODULE TargetNet ---------------------------
(* Target networks (rl_blox.blox.target_net and the places where training   *)
(* routines create their targets).  C06, clauses LAW and STORAGE.           *)
(*                                                                          *)
(* A network is a parameter tree: a function from leaf classes 1..K to      *)
(* exact rationals (device D2).  Networks do not hold their values, they    *)
(* hold REFERENCES to storage cells (nnx.Variable objects); the values live *)
(* in `heap`.  That makes "shares no storage", "without changing the online *)
(* network" and "an online update leaves the target untouched" statements   *)
(* TLC can decide instead of being true by construction.                    *)
(*                                                                          *)
(* One action per operation of the code:                                    *)
(*   SupplyTarget  train_*(..., target=<module of the caller>)              *)
(*   CreateTarget  train_*(..., target=None): target = nnx.clone(online)    *)
(*   OnlineStep    optimizer.update(online, grads): any change of online    *)
(*   SoftUpdate    soft_target_net_update(online, target, tau)              *)
(*   HardUpdate    hard_target_net_update(online, target)                   *)
EXTENDS Integers, Sequences, FiniteSets, TLC, Json, Exact

CONSTANTS K,         \* number of leaf classes of a parameter tree
          Vals,      \* sequence of rationals: the value lattice
          Taus,      \* set of rationals in [0, 1]
          Shifts,    \* rotations of Vals used as parameter trees
          MaxOps,    \* bound on the number of operations after the target exists
          TrackHist, \* TRUE: keep the ghost history (closed form, action properties)
          EMIT       \* TRUE: print one EMIT record per transition

VARIABLES heap,   \* storage: cell -> rational; cells 1..K online, K+1..2K a separate target
          onref,  \* online network: leaf class -> cell
          tgref,  \* target network: leaf class -> cell; <<>> while there is no target
          n,      \* operations performed since the target exists
          last,   \* ghost: the operation that produced this state
          hist    \* ghost: all operations so far (only when TrackHist)

vars == <<heap, onref, tgref, n, last, hist>>

(* value lattices (a cfg file cannot hold negative numbers) *)
ValsDyadic  == << <<-2, 1>>, <<-1, 1>>, <<0, 1>>, <<1, 2>>, <<1, 1>>, <<3, 1>> >>
TausDyadic  == { <<0, 1>>, <<1, 4>>, <<1, 2>>, <<1, 1>> }
TausTypical == { <<1, 200>>, <<3, 10>> }

Leaves == 1..K
Cells  == 1..(2 * K)
(* parameter tree number s: leaf class l holds Vals[l + s] (cyclically); all *)
(* leaf classes differ, and over s, t every pair of values meets in a leaf  *)
Tree(s) == [l \in Leaves |-> Vals[((l - 1 + s) % Len(Vals)) + 1]]

HasTarget == tgref # <<>>
OnVal == [l \in Leaves |-> heap[onref[l]]]
TgVal == [l \in DOMAIN tgref |-> heap[tgref[l]]]
Shared == {onref[l] : l \in Leaves} \cap {tgref[l] : l \in DOMAIN tgref}

(* in-place write of a tree through a network's references *)
Write(h, ref, tree) ==
  [c \in DOMAIN h |-> IF \E l \in DOMAIN ref : ref[l] = c
                      THEN tree[CHOOSE l \in DOMAIN ref : ref[l] = c]
                      ELSE h[c]]
OwnCells == [l \in Leaves |-> K + l]

----------------------------------------------------------------------------
(* THE LAW *)
Polyak(tau, o, t) == QAdd(QMul(tau, o), QMul(QSub(One, tau), t))
Soft(on, tg, tau) == [l \in DOMAIN tg |-> Polyak(tau, on[l], tg[l])]
Hard(on, tg)      == [l \in DOMAIN tg |-> on[l]]

(* realistic wrong variants (deviation canaries) *)
SoftSwapped(on, tg, tau)  == [l \in DOMAIN tg |-> Polyak(QSub(One, tau), on[l], tg[l])]
SoftSkipLast(on, tg, tau) == [l \in DOMAIN tg |-> IF l = K THEN tg[l] ELSE Polyak(tau, on[l], tg[l])]
HardSkipLast(on, tg)      == [l \in DOMAIN tg |-> IF l = K THEN tg[l] ELSE on[l]]

----------------------------------------------------------------------------
View == [on |-> OnVal, tg |-> TgVal, shared |-> Cardinality(Shared)]
Emit(op, args) ==
  EMIT => PrintT(<<"EMIT", ToJson([pre |-> View, op |-> op, args |-> args, post |-> View', n |-> n])>>)

Op(k, tau, tree) == [k |-> k, tau |-> tau, tree |-> tree]
Ghost(op) == /\ last' = IF TrackHist THEN op ELSE Op("-", Zero, <<>>)
             /\ hist' = IF TrackHist THEN Append(hist, op) ELSE hist

Init == /\ \E s \in Shifts : heap = [c \in Cells |-> IF c <= K THEN Tree(s)[c] ELSE Zero]
        /\ onref = [l \in Leaves |-> l]
        /\ tgref = <<>>
        /\ n = 0
        /\ last = Op("-", Zero, <<>>)
        /\ hist = <<>>

(* the caller passes its own target network holding tree t *)
SupplyTarget(t) ==
  /\ ~HasTarget
  /\ tgref' = OwnCells
  /\ heap' = Write(heap, OwnCells, Tree(t))
  /\ UNCHANGED <<onref, n>>
  /\ Ghost(Op("supply", Zero, Tree(t)))
  /\ Emit("Supply", [t |-> Tree(t)])

(* target=None: the routine clones the online network into fresh storage *)
CreateTarget ==
  /\ ~HasTarget
  /\ tgref' = OwnCells
  /\ heap' = Write(heap, OwnCells, OnVal)
  /\ UNCHANGED <<onref, n>>
  /\ Ghost(Op("create", Zero, OnVal))
  /\ Emit("Create", [x |-> 0])

(* a gradient step: the online network takes arbitrary new values *)
OnlineStep(s) ==
  /\ HasTarget /\ n < MaxOps
  /\ Tree(s) # OnVal
  /\ heap' = Write(heap, onref, Tree(s))
  /\ n' = n + 1
  /\ UNCHANGED <<onref, tgref>>
  /\ Ghost(Op("online", Zero, Tree(s)))
  /\ Emit("Online", [on |-> Tree(s)])

SoftUpdateBy(F(_, _, _), tau) ==
  /\ HasTarget /\ n < MaxOps
  /\ heap' = Write(heap, tgref, F(OnVal, TgVal, tau))
  /\ n' = n + 1
  /\ UNCHANGED <<onref, tgref>>
  /\ Ghost(Op("soft", tau, OnVal))
  /\ Emit("Soft", [tau |-> tau])
SoftUpdate(tau) == SoftUpdateBy(Soft, tau)

HardUpdateBy(F(_, _)) ==
  /\ HasTarget /\ n < MaxOps
  /\ heap' = Write(heap, tgref, F(OnVal, TgVal))
  /\ n' = n + 1
  /\ UNCHANGED <<onref, tgref>>
  /\ Ghost(Op("hard", One, OnVal))
  /\ Emit("Hard", [x |-> 0])
HardUpdate == HardUpdateBy(Hard)

Start   == CreateTarget \/ \E t \in Shifts : SupplyTarget(t)
Online  == \E s \in Shifts : OnlineStep(s)
Next    == Start \/ Online \/ (\E tau \in Taus : SoftUpdate(tau)) \/ HardUpdate
Spec    == Init /\ [][Next]_vars

----------------------------------------------------------------------------
(* Properties: LAW *)
TypeOK == /\ n \in 0..MaxOps
          /\ DOMAIN heap = Cells
          /\ DOMAIN onref = Leaves
          /\ DOMAIN tgref \in {{}, Leaves}

LawTauOneIsHard  == HasTarget => Soft(OnVal, TgVal, One) = Hard(OnVal, TgVal)
LawTauZeroIsNoop == HasTarget => Soft(OnVal, TgVal, Zero) = TgVal
LawHardIsOnline  == HasTarget => Hard(OnVal, TgVal) = OnVal
(* every leaf is updated: it moves whenever tau # 0 and it differs from online, *)
(* its distance to the online value shrinks by exactly 1 - tau, it ends up      *)
(* between the old target and the online value, and equal trees stay equal      *)
LawEveryLeaf ==
  HasTarget =>
    \A tau \in Taus : \A l \in Leaves :
      LET o == OnVal[l]  t == TgVal[l]  x == Soft(OnVal, TgVal, tau)[l] IN
        /\ (tau # Zero /\ o # t) => x # t
        /\ QSub(x, o) = QMul(QSub(One, tau), QSub(t, o))
        /\ QLe(QMin(o, t), x) /\ QLe(x, QMax(o, t))
        /\ (o = t) => (x = t)

(* the target is always the stated function of the history: a convex        *)
(* combination, written as an explicit sum of products (not the recurrence) *)
Keep(e) == CASE e.k = "soft"   -> QSub(One, e.tau)
             [] e.k = "online" -> One
             [] OTHER          -> Zero          \* supply, create, hard replace everything
Gain(e) == CASE e.k = "soft"   -> e.tau
             [] e.k = "online" -> Zero
             [] OTHER          -> One
RECURSIVE KeepProd(_, _)
KeepProd(h, i) == IF i > Len(h) THEN One ELSE QMul(Keep(h[i]), KeepProd(h, i + 1))
Weight(h, i) == QMul(Gain(h[i]), KeepProd(h, i + 1))
RECURSIVE Fold(_, _, _)
Fold(h, l, i) == IF i = 0 THEN Zero
                 ELSE QAdd(Fold(h, l, i - 1),
                           IF Weight(h, i) = Zero THEN Zero ELSE QMul(Weight(h, i), h[i].tree[l]))
TargetIsClosedForm ==
  (TrackHist /\ HasTarget) => \A l \in Leaves : TgVal[l] = Fold(hist, l, Len(hist))
WeightsConvex ==
  (TrackHist /\ HasTarget) =>
     /\ QSum([i \in 1..Len(hist) |-> Weight(hist, i)]) = One
     /\ \A i \in 1..Len(hist) : QLe(Zero, Weight(hist, i))

(* Properties: STORAGE and frame conditions (action properties over `last`) *)
NoSharedStorage == Shared = {}
OnlineUntouched ==       \* no target operation changes the online network
  [][(last'.k \in {"soft", "hard", "create", "supply"}) => OnVal' = OnVal]_vars
TargetUntouched ==       \* an online update leaves the target untouched
  [][(last'.k = "online" /\ HasTarget) => TgVal' = TgVal]_vars
UpdateLaw ==
  [][/\ (last'.k = "soft") => TgVal' = Soft(OnVal, TgVal, last'.tau)
     /\ (last'.k = "hard") => TgVal' = OnVal
     /\ (last'.k = "create") => TgVal' = OnVal]_vars

----------------------------------------------------------------------------
(* Deviation canaries: each must be refuted by TLC *)
HardUpdateAlias ==        \* "copy" by rebinding the target's leaves to the online cells
  /\ HasTarget /\ n < MaxOps
  /\ tgref' = onref
  /\ n' = n + 1
  /\ UNCHANGED <<heap, onref>>
  /\ Ghost(Op("hard", One, OnVal))
CreateTargetAlias ==      \* target = online instead of a clone
  /\ ~HasTarget
  /\ tgref' = onref
  /\ UNCHANGED <<heap, onref, n>>
  /\ Ghost(Op("create", Zero, OnVal))
SoftTouchesOnline(tau) == \* in-place update that also moves the online network
  /\ HasTarget /\ n < MaxOps
  /\ heap' = Write(Write(heap, tgref, Soft(OnVal, TgVal, tau)), onref, Soft(OnVal, TgVal, tau))
  /\ n' = n + 1
  /\ UNCHANGED <<onref, tgref>>
  /\ Ghost(Op("soft", tau, OnVal))

NextSwapped     == Start \/ Online \/ (\E tau \in Taus : SoftUpdateBy(SoftSwapped, tau)) \/ HardUpdate
NextSkipLeaf    == Start \/ Online \/ (\E tau \in Taus : SoftUpdateBy(SoftSkipLast, tau)) \/ HardUpdate
NextHardSkip    == Start \/ Online \/ (\E tau \in Taus : SoftUpdate(tau)) \/ HardUpdateBy(HardSkipLast)
NextHardAlias   == Start \/ Online \/ (\E tau \in Taus : SoftUpdate(tau)) \/ HardUpdateAlias
NextCreateAlias == CreateTargetAlias \/ Online \/ (\E tau \in Taus : SoftUpdate(tau)) \/ HardUpdate
NextTouchOnline == Start \/ Online \/ (\E tau \in Taus : SoftTouchesOnline(tau)) \/ HardUpdate
=============================================================================
