--------------------------- MODULE Nets ---------------------------
(* X07 - the function approximators and composite networks of rl-blox.        *)
(*                                                                            *)
(*   rl_blox/blox/function_approximator/mlp.py             MLP                *)
(*   rl_blox/blox/function_approximator/layer_norm_mlp.py  LayerNormMLP       *)
(*   rl_blox/blox/function_approximator/gaussian_mlp.py    GaussianMLP        *)
(*   rl_blox/blox/function_approximator/norm.py            avg_l1_norm        *)
(*   rl_blox/blox/double_qnet.py        ContinuousClippedDoubleQNet           *)
(*   rl_blox/blox/embedding/sale.py     SALE, ActorSALE, CriticSALE,          *)
(*                                      DeterministicSALEPolicy               *)
(*   rl_blox/blox/q_policy.py           greedy_policy (Q-network)             *)
(*   rl_blox/blox/value_policy.py       make_q_table, greedy_policy,          *)
(*                                      epsilon_greedy_policy (tabular)       *)
(*                                                                            *)
(* Seven small machines, selected by the constant Part.  Each is the staged   *)
(* choice of a test vector (structure, parameter seeds, input, perturbation); *)
(* the action that completes a stage prints the expected values computed with *)
(* exact rationals (operators in NetsOps.tla).                                *)
(*                                                                            *)
(*  "mlp"   MLP / LayerNormMLP / GaussianMLP: structure from hidden_nodes,    *)
(*          forward law, batch rows, perturbations (dependency relation)      *)
(*  "dq"    ContinuousClippedDoubleQNet over two MLP critics                  *)
(*  "sale"  SALE / ActorSALE / CriticSALE / DeterministicSALEPolicy data flow *)
(*  "act"   activation lookup by name, signature of every named activation    *)
(*  "cfg"   constructor validation and call totality (shapes) as a state      *)
(*          machine: unbuilt -> built | rejected, built -> called | raised    *)
(*  "norm"  avg_l1_norm on vectors whose mean absolute value is a power of 2  *)
(*  "tab"   greedy / epsilon-greedy action selection, Q-table construction    *)
(*                                                                            *)
(* The model states what the code documents AND does.  Where the code does    *)
(* something its documentation does not say the operator / action carries the *)
(* name of the deviation:                                                     *)
(*   HiddenNodesNotValidated     hidden_nodes entries <= 0 are not rejected   *)
(*                               by a chex assertion; the initialiser raises  *)
(*   LookupAcceptsAnyAttribute   activation = any attribute of flax.nnx is    *)
(*                               accepted ("Linear", "jit"); the call raises  *)
(*   HeadsShareTrunkEitherWay    shared_head = False still connects all nodes *)
(*                               of the last hidden layer to mean and log_var *)
(*   WidthOneLayerNormIsConstant LayerNormMLP with a hidden layer of width 1  *)
(*                               ignores its input                            *)
(*   GreedyFlattensBatch         q_policy.greedy_policy on a batch returns a  *)
(*                               flat index into (batch x actions)            *)
(*   GreedyClampsObservation     tabular greedy_policy: observation -1 wraps, *)
(*                               observation >= n reads the last row          *)
(*   SubkeyReusedForChoice       epsilon_greedy_policy draws the roll and the *)
(*                               random action from the same subkey           *)
EXTENDS NetsOps, Json

CONSTANTS Part,     \* "mlp" | "dq" | "sale" | "act" | "cfg" | "norm" | "tab"
          Wide,     \* TRUE: larger lattices (thorough tier)
          EMIT      \* TRUE: print one EMIT record per completed stage

VARIABLES vec,      \* the staged test vector (record; fields depend on Part and stage)
          last      \* ghost: label of the last action
vars == <<vec, last>>
GenView == vec

Parts == {"mlp", "dq", "sale", "act", "cfg", "norm", "tab"}
ASSUME Part \in Parts /\ Wide \in BOOLEAN

Emit(op, args, exp) == EMIT => PrintT(<<"EMIT", ToJson([op |-> op, args |-> args, exp |-> exp])>>)

----------------------------------------------------------------------------
(* input lattices                                                             *)
Rows1 == << <<I(-1)>>, <<Q(-1,2)>>, <<Zero>>, <<Half>>, <<One>>, <<I(2)>> >>
Rows2 == << <<One, Half>>, <<I(-1), I(2)>>, <<Zero, Zero>>, <<I(2), Q(-1,2)>>,
            <<Q(-1,2), I(-1)>>, <<Half, One>>, <<I(2), I(2)>>, <<I(-1), Q(-1,2)>> >>
RowsOf(nf) == IF nf = 1 THEN Rows1 ELSE Rows2
Cyc(seq, k) == seq[((k - 1) % Len(seq)) + 1]
Batch(nf, k, B) == [b \in 1..B |-> Cyc(RowsOf(nf), k + b - 1)]
AltRows(nf) == IF nf = 1 THEN {<<I(2)>>, <<I(-1)>>} ELSE {<<I(2), I(-1)>>, <<Q(-1,2), Half>>}

----------------------------------------------------------------------------
(* Part "mlp"                                                                 *)
Kinds == {"mlp", "lnmlp", "gauss_shared", "gauss_sep"}
HNs(kind) == IF kind = "lnmlp" THEN {<<>>, <<2>>, <<1>>, <<2, 2>>, <<2, 1>>}
                               ELSE {<<>>, <<2>>, <<1>>, <<2, 2>>, <<3, 2>>}
MNFs == IF Wide THEN {1, 2} ELSE {2}
MActs == IF Wide THEN {"relu", "hard_tanh", "identity"} ELSE {"relu", "hard_tanh"}
MStructs == UNION {{[kind |-> k, nf |-> nf, hn |-> hn, no |-> no, act |-> a] :
                      nf \in MNFs, hn \in HNs(k), no \in {1, 2}, a \in MActs} : k \in Kinds}
MSeeds == IF Wide THEN 0..3 ELSE 0..2
MBatches == IF Wide THEN {<<1, 2>>, <<3, 3>>, <<6, 1>>, <<4, 2>>} ELSE {<<1, 2>>, <<3, 3>>, <<6, 1>>}
ASSUME \A s \in MStructs : s.kind = "lnmlp" => \A l \in 1..Len(s.hn) : s.hn[l] <= 2

MChooseStruct(s) ==
  /\ Part = "mlp" /\ vec.stage = "start"
  /\ vec' = [stage |-> "struct", s |-> s]
  /\ last' = "ChooseStruct"

MChooseParams(sd) ==
  /\ Part = "mlp" /\ vec.stage = "struct"
  /\ vec' = [stage |-> "params", s |-> vec.s, sd |-> sd, P |-> Params(vec.s, sd, NoPert)]
  /\ last' = "ChooseParams"

MChooseInput(k, B) ==
  /\ Part = "mlp" /\ vec.stage = "params"
  /\ LET xs == Batch(vec.s.nf, k, B) IN
       /\ \A b \in 1..B : LnAdmissible(vec.s, vec.P, xs[b])
       /\ vec' = [stage |-> "input", s |-> vec.s, sd |-> vec.sd, P |-> vec.P, xs |-> xs]
  /\ last' = "ChooseInput"

SlackB(s, P, xs) == [n \in OutNames(s) |-> [b \in 1..Len(xs) |-> [k \in 1..s.no |-> LnSlack(s, P, xs[b], 1, k)]]]
StructReport(s) == [layers |-> HiddenShapes(s), heads |-> HeadShapes(s), nparams |-> NParams(s), program |-> Program(s)]

(* net(x) for the batch and for every row on its own *)
MForward ==
  /\ Part = "mlp" /\ vec.stage = "input"
  /\ LET outs == ForwardB(vec.s, vec.P, vec.xs) IN
       /\ vec' = [stage |-> "done", s |-> vec.s, sd |-> vec.sd, P |-> vec.P, xs |-> vec.xs, outs |-> outs]
       /\ last' = "Forward"
       /\ Emit("Forward", [s |-> vec.s, sd |-> vec.sd, P |-> vec.P, xs |-> vec.xs],
               [struct |-> StructReport(vec.s), outs |-> outs, slack |-> SlackB(vec.s, vec.P, vec.xs)])

MPerts(s, xs) ==
  {[NoPert EXCEPT !.kind = "input", !.r = ri[1], !.i = ri[2]] : ri \in {<<1, 1>>, <<Len(xs), s.nf>>}}
  \cup {[NoPert EXCEPT !.kind = "group", !.grp = g, !.d = 1] : g \in Groups(s)}
  \cup (IF s.kind = "gauss_shared" THEN {[NoPert EXCEPT !.kind = "logvar_cols", !.d = 1]} ELSE {})
  \cup (IF s.kind = "lnmlp" /\ Len(s.hn) >= 1 THEN {[NoPert EXCEPT !.kind = "lnshift", !.grp = HidName(1)]} ELSE {})

(* outputs <<name, row>> that a perturbation MAY change (dependency relation, *)
(* from the structure alone)                                                  *)
AllOut(s, xs) == OutNames(s) \X (1..Len(xs))
MMayChange(s, xs, pert) ==
  CASE pert.kind = "input" -> {nb \in AllOut(s, xs) : nb[2] = pert.r}
    [] pert.kind = "lnshift" -> {}                                          \* layer norm removes a common shift
    [] pert.kind = "logvar_cols" -> {nb \in AllOut(s, xs) : nb[1] = "log_var"}
    [] pert.kind = "group" /\ s.kind = "gauss_sep" /\ pert.grp = HeadName(1) -> {nb \in AllOut(s, xs) : nb[1] = "mean"}
    [] pert.kind = "group" /\ s.kind = "gauss_sep" /\ pert.grp = HeadName(2) -> {nb \in AllOut(s, xs) : nb[1] = "log_var"}
    [] OTHER -> AllOut(s, xs)
SameMap(s, xs, may) == [n \in OutNames(s) |-> [b \in 1..Len(xs) |-> <<n, b>> \notin may]]

MPerturb(pert) ==
  /\ Part = "mlp" /\ vec.stage = "done" /\ pert \in MPerts(vec.s, vec.xs)
  /\ LET P2 == Params(vec.s, vec.sd, pert)
         xs2 == PertInput(vec.xs, pert)
         outs2 == ForwardB(vec.s, P2, xs2)
         valued == \A b \in 1..Len(xs2) : LnAdmissible(vec.s, P2, xs2[b])
     IN /\ vec' = [stage |-> "pert", s |-> vec.s, sd |-> vec.sd, P |-> vec.P, xs |-> vec.xs, outs |-> vec.outs,
                   pert |-> pert, P2 |-> P2, xs2 |-> xs2, outs2 |-> outs2]
        /\ last' = "Perturb"
        /\ Emit("Perturb", [s |-> vec.s, sd |-> vec.sd, P |-> vec.P, xs |-> vec.xs, pert |-> pert, P2 |-> P2, xs2 |-> xs2],
                [outs |-> vec.outs, slack |-> SlackB(vec.s, vec.P, vec.xs),
                 outs2 |-> outs2, slack2 |-> IF valued THEN SlackB(vec.s, P2, xs2) ELSE SlackB(vec.s, vec.P, vec.xs),
                 valued |-> valued, same |-> SameMap(vec.s, vec.xs, MMayChange(vec.s, vec.xs, pert))])

MDone == Part = "mlp" /\ vec.stage \in {"done", "pert"}
(* hidden_nodes semantics: one hidden layer per entry, sizes chained from     *)
(* n_features; the output layer(s) read the last hidden layer (n_features     *)
(* when hidden_nodes is empty)                                                *)
StructureLaw == MDone =>
  LET s == vec.s  P == vec.P IN
  /\ Len(P.hid) = Len(s.hn)
  /\ \A l \in 1..Len(s.hn) :
       /\ Len(P.hid[l].W) = (IF l = 1 THEN s.nf ELSE s.hn[l - 1])
       /\ Len(P.hid[l].b) = s.hn[l]
       /\ \A i \in 1..Len(P.hid[l].W) : Len(P.hid[l].W[i]) = s.hn[l]
  /\ Len(P.head) = (IF s.kind = "gauss_sep" THEN 2 ELSE 1)
  /\ \A h \in 1..Len(P.head) :
       /\ Len(P.head[h].W) = (IF Len(s.hn) = 0 THEN s.nf ELSE s.hn[Len(s.hn)])
       /\ Len(P.head[h].b) = (IF s.kind = "gauss_shared" THEN 2 * s.no ELSE s.no)
  /\ (s.kind = "lnmlp" => Len(P.ln) = Len(s.hn))
  /\ Len(Program(s)) = (IF s.kind = "lnmlp" THEN 3 ELSE 2) * Len(s.hn) + 1
OutputShape == MDone => \A n \in OutNames(vec.s) :
  /\ Len(vec.outs[n]) = Len(vec.xs)
  /\ \A b \in 1..Len(vec.xs) : Len(vec.outs[n][b]) = vec.s.no
(* every hidden layer is followed by the activation (LayerNormMLP: by the     *)
(* layer norm, then the activation)                                           *)
HiddenLayersActivated == MDone => \A b \in 1..Len(vec.xs) : \A l \in 1..Len(vec.s.hn) :
  LET pre == PreAct(vec.s, vec.P, vec.xs[b], l) IN
  Hid(vec.s, vec.P, vec.xs[b], l) = ActV(vec.s.act, IF vec.s.kind = "lnmlp" THEN LNIdeal(vec.P.ln[l], pre) ELSE pre)
(* the output layer is affine in the last hidden layer: no activation         *)
OutputLayerAffine == (MDone /\ ~IsGauss(vec.s)) => \A b \in 1..Len(vec.xs) :
  vec.outs["out"][b] = Affine(vec.P.head[1], LastHidden(vec.s, vec.P, vec.xs[b]))
(* GaussianMLP: (mean, log_var), mean first                                   *)
GaussHeads == (MDone /\ IsGauss(vec.s)) => \A b \in 1..Len(vec.xs) :
  LET h == LastHidden(vec.s, vec.P, vec.xs[b]) IN
  IF vec.s.kind = "gauss_shared"
    THEN vec.outs["mean"][b] \o vec.outs["log_var"][b] = Affine(vec.P.head[1], h)
    ELSE vec.outs["mean"][b] = Affine(vec.P.head[1], h) /\ vec.outs["log_var"][b] = Affine(vec.P.head[2], h)
(* row b of a batched forward pass is the forward pass of row b alone ...     *)
RowIsSingle == MDone => \A n \in OutNames(vec.s) : \A b \in 1..Len(vec.xs) :
  vec.outs[n][b] = ForwardB(vec.s, vec.P, <<vec.xs[b]>>)[n][1]
(* ... and does not depend on the other rows                                  *)
RowIndependence == (Part = "mlp" /\ vec.stage = "done") =>
  \A b, c \in 1..Len(vec.xs) : \A r \in AltRows(vec.s.nf) : \A n \in OutNames(vec.s) :
    b # c => ForwardB(vec.s, vec.P, [vec.xs EXCEPT ![c] = r])[n][b] = vec.outs[n][b]
(* what a perturbation may not change, it does not change                     *)
MDependencySound == (Part = "mlp" /\ vec.stage = "pert") =>
  \A nb \in AllOut(vec.s, vec.xs) \ MMayChange(vec.s, vec.xs, vec.pert) : vec.outs2[nb[1]][nb[2]] = vec.outs[nb[1]][nb[2]]

----------------------------------------------------------------------------
(* Part "dq": ContinuousClippedDoubleQNet(q1, q2)                             *)
DStructs == {[kind |-> "mlp", nf |-> 2, hn |-> hn, no |-> no, act |-> "relu"] : hn \in {<<>>, <<2>>}, no \in {1, 2}}
DSeedPairs == IF Wide THEN {<<0, 1>>, <<1, 3>>, <<2, 0>>, <<4, 4>>, <<3, 5>>, <<5, 2>>} ELSE {<<0, 1>>, <<1, 3>>, <<2, 0>>, <<4, 4>>}
DBatches == IF Wide THEN {<<1, 2>>, <<3, 3>>, <<6, 1>>, <<7, 2>>} ELSE {<<1, 2>>, <<3, 3>>, <<6, 1>>}
DNames == {"q1", "q2", "min", "mean"}
(* the two critics own their parameters *)
CriticParams(s, sds, pert, c) ==
  LET shared == Variant = "SharedCriticParameters"
  IN Params(s, IF shared THEN sds[1] ELSE sds[c], IF pert.c = c \/ shared THEN pert ELSE NoPert)
Combine(x, y) == CASE Variant = "MaxInsteadOfMin" -> QMax(x, y)
                   [] Variant = "FirstCriticOnly" -> x
                   [] OTHER -> QMin(x, y)
(* both critics get the same arguments; __call__ is the element-wise minimum, *)
(* mean() the element-wise average                                            *)
DQOut(s, P1, P2, xs) ==
  LET a == ForwardB(s, P1, xs)["out"]
      b == ForwardB(s, P2, xs)["out"]
  IN [q1 |-> a, q2 |-> b,
      min |-> Tup([r \in 1..Len(xs) |-> Tup([k \in 1..s.no |-> Combine(a[r][k], b[r][k])])]),
      mean |-> Tup([r \in 1..Len(xs) |-> Tup([k \in 1..s.no |-> QMul(Half, QAdd(a[r][k], b[r][k]))])])]

DChoose(s, sds) ==
  /\ Part = "dq" /\ vec.stage = "start"
  /\ vec' = [stage |-> "params", s |-> s, sds |-> sds, P1 |-> CriticParams(s, sds, NoPert, 1), P2 |-> CriticParams(s, sds, NoPert, 2)]
  /\ last' = "ChooseCritics"
DForward(k, B) ==
  /\ Part = "dq" /\ vec.stage = "params"
  /\ LET xs == Batch(2, k, B)
         outs == DQOut(vec.s, vec.P1, vec.P2, xs)
     IN /\ vec' = [stage |-> "done", s |-> vec.s, sds |-> vec.sds, P1 |-> vec.P1, P2 |-> vec.P2, xs |-> xs, outs |-> outs]
        /\ Emit("DoubleQ", [s |-> vec.s, sds |-> vec.sds, P1 |-> vec.P1, P2 |-> vec.P2, xs |-> xs], [outs |-> outs])
  /\ last' = "DoubleQ"
DPerts(s, xs) ==
  {[NoPert EXCEPT !.kind = "input", !.r = Len(xs), !.i = 1]}
  \cup {[NoPert EXCEPT !.kind = "group", !.c = c, !.grp = g, !.d = 2] : c \in {1, 2}, g \in Groups(s)}
DAll(xs) == DNames \X (1..Len(xs))
DMayChange(xs, pert) ==
  CASE pert.kind = "input" -> {nb \in DAll(xs) : nb[2] = pert.r}
    [] pert.c = 1 -> {nb \in DAll(xs) : nb[1] # "q2"}
    [] OTHER -> {nb \in DAll(xs) : nb[1] # "q1"}
DPerturb(pert) ==
  /\ Part = "dq" /\ vec.stage = "done" /\ pert \in DPerts(vec.s, vec.xs)
  /\ LET A2 == CriticParams(vec.s, vec.sds, pert, 1)
         B2 == CriticParams(vec.s, vec.sds, pert, 2)
         xs2 == PertInput(vec.xs, pert)
         outs2 == DQOut(vec.s, A2, B2, xs2)
     IN /\ vec' = [stage |-> "pert", s |-> vec.s, sds |-> vec.sds, P1 |-> vec.P1, P2 |-> vec.P2, xs |-> vec.xs, outs |-> vec.outs,
                   pert |-> pert, outs2 |-> outs2]
        /\ Emit("DoubleQPerturb", [s |-> vec.s, sds |-> vec.sds, P1 |-> vec.P1, P2 |-> vec.P2, xs |-> vec.xs, pert |-> pert,
                                   P1b |-> A2, P2b |-> B2, xs2 |-> xs2],
                [outs |-> vec.outs, outs2 |-> outs2,
                 same |-> [n \in DNames |-> [b \in 1..Len(vec.xs) |-> <<n, b>> \notin DMayChange(vec.xs, pert)]]])
  /\ last' = "DoubleQPerturb"

DDone == Part = "dq" /\ vec.stage \in {"done", "pert"}
DEntries == {rk \in (1..3) \X (1..2) : DDone /\ rk[1] <= Len(vec.xs) /\ rk[2] <= vec.s.no}
MinElementwise == DDone => \A rk \in DEntries :
  vec.outs["min"][rk[1]][rk[2]] = QMin(vec.outs["q1"][rk[1]][rk[2]], vec.outs["q2"][rk[1]][rk[2]])
MinIsLowerBound == DDone => \A rk \in DEntries :
  /\ QLe(vec.outs["min"][rk[1]][rk[2]], vec.outs["q1"][rk[1]][rk[2]])
  /\ QLe(vec.outs["min"][rk[1]][rk[2]], vec.outs["q2"][rk[1]][rk[2]])
MeanIsMidpoint == DDone => \A rk \in DEntries :
  QAdd(vec.outs["mean"][rk[1]][rk[2]], vec.outs["mean"][rk[1]][rk[2]]) = QAdd(vec.outs["q1"][rk[1]][rk[2]], vec.outs["q2"][rk[1]][rk[2]])
DShape == DDone => \A n \in DNames : Len(vec.outs[n]) = Len(vec.xs) /\ \A b \in 1..Len(vec.xs) : Len(vec.outs[n][b]) = vec.s.no
(* perturbing critic 2 never changes q1 (and vice versa) *)
CriticIndependence == (Part = "dq" /\ vec.stage = "pert") =>
  \A nb \in DAll(vec.xs) \ DMayChange(vec.xs, vec.pert) : vec.outs2[nb[1]][nb[2]] = vec.outs[nb[1]][nb[2]]

----------------------------------------------------------------------------
(* Part "sale": z^s = AvgL1Norm(f(s)), z^sa = g(z^s, a);                      *)
(*   ActorSALE(s, zs)        = policy_net(AvgL1Norm(l0(s)) ++ zs)             *)
(*   CriticSALE(sa, zsa, zs) = q_net(AvgL1Norm(q0(sa)) ++ zsa ++ zs)          *)
(*   DeterministicSALEPolicy(o) = actor(o, embedding.state_embedding(o))      *)
SD == 2   AD == 1   ZD == 2   HD == 2
FS == [kind |-> "mlp", nf |-> SD, hn |-> <<2>>, no |-> ZD, act |-> "relu"]
GS == [kind |-> "mlp", nf |-> ZD + AD, hn |-> <<2>>, no |-> ZD, act |-> "relu"]
PS == [kind |-> "mlp", nf |-> HD + ZD, hn |-> <<2>>, no |-> AD, act |-> "relu"]
QS == [kind |-> "mlp", nf |-> HD + 2 * ZD, hn |-> <<2>>, no |-> 1, act |-> "relu"]
SGroups == {"f", "g", "l0", "pnet", "q0a", "qneta", "q0b", "qnetb"}
SOff(g) == CASE g = "f" -> 0 [] g = "g" -> 1 [] g = "l0" -> 2 [] g = "pnet" -> 3
             [] g = "q0a" -> 4 [] g = "qneta" -> 5 [] g = "q0b" -> 1 [] g = "qnetb" -> 2
GSeed(sd, pert, g) == sd + SOff(g) + (IF pert.kind = "group" /\ pert.grp = g THEN pert.d ELSE 0)
Twice(L) == [W |-> [i \in 1..Len(L.W) |-> [j \in 1..Len(L.W[i]) |-> QMul(I(2), L.W[i][j])]], b |-> [j \in 1..Len(L.b) |-> QMul(I(2), L.b[j])]]
SaleNet(sd, pert) ==
  LET f0 == Params(FS, GSeed(sd, pert, "f"), NoPert) IN
  [f |-> IF pert.kind = "fscale" THEN [f0 EXCEPT !.head = <<Twice(f0.head[1])>>] ELSE f0,
   g |-> Params(GS, GSeed(sd, pert, "g"), NoPert),
   l0 |-> GenLayer(30, GSeed(sd, pert, "l0"), SD, HD),
   pnet |-> Params(PS, GSeed(sd, pert, "pnet"), NoPert),
   q0a |-> GenLayer(31, GSeed(sd, pert, "q0a"), SD + AD, HD),
   qneta |-> Params(QS, GSeed(sd, pert, "qneta"), NoPert),
   q0b |-> GenLayer(32, GSeed(sd, pert, "q0b"), SD + AD, HD),
   qnetb |-> Params(QS, GSeed(sd, pert, "qnetb"), NoPert)]

FRaw(N, st) == Forward1(FS, N.f, st)["out"]                       \* the state embedding network WITHOUT AvgL1Norm
Zs(N, st) == IF Variant = "ZsNotNormalised" THEN FRaw(N, st) ELSE AvgL1(FRaw(N, st))
Zsa(N, st, a) ==
  LET zin == IF Variant = "EncoderActionFirst" THEN a \o Zs(N, st) ELSE Zs(N, st) \o a
      y == Forward1(GS, N.g, zin)["out"]
  IN IF Variant = "ZsaNormalised" THEN AvgL1(y) ELSE y
ActorIn(N, st, z) ==
  IF Variant = "ActorNormAfterConcat" THEN AvgL1(Affine(N.l0, st) \o z) ELSE AvgL1(Affine(N.l0, st)) \o z
Actor(N, st, z) == Forward1(PS, N.pnet, ActorIn(N, st, z))["out"]
Policy(N, st) == Actor(N, st, IF Variant = "PolicyUsesRawEmbedding" THEN FRaw(N, st) ELSE Zs(N, st))
CriticIn(q0, sa, zsa, zs) ==
  LET h == AvgL1(Affine(q0, sa))
  IN IF Variant = "CriticConcatZsFirst" THEN h \o zs \o zsa ELSE h \o zsa \o zs
Critic(q0, qnet, sa, zsa, zs) == Forward1(QS, qnet, CriticIn(q0, sa, zsa, zs))["out"]

SNames == {"zs", "zsa", "pi", "act_d", "q1", "q2", "qmin", "q_d"}
(* zs / zsa: SALE(state, action) returns (zsa, zs); pi: the policy; act_d:    *)
(* ActorSALE(state, zarg) with an independent zs argument; q1, q2, qmin: the  *)
(* two critics and their clipped minimum on (sa, zsa, zs); q_d: critic 1 on   *)
(* independent embedding arguments (zsaarg, zarg)                             *)
SaleRow(N, st, a, za, zsaa) ==
  LET zs == Zs(N, st)
      zsa == Zsa(N, st, a)
      sa == st \o a
      q1 == Critic(N.q0a, N.qneta, sa, zsa, zs)
      q2 == Critic(N.q0b, N.qnetb, sa, zsa, zs)
  IN [zs |-> zs, zsa |-> zsa, pi |-> Policy(N, st), act_d |-> Actor(N, st, za), q1 |-> q1, q2 |-> q2,
      qmin |-> Tup([k \in 1..Len(q1) |-> Combine(q1[k], q2[k])]), q_d |-> Critic(N.q0a, N.qneta, sa, zsaa, za)]
(* is the float32 result the exact rational (every AvgL1Norm divisor on the   *)
(* path a power of two)?                                                      *)
SaleExactRow(N, st, a) ==
  LET fx == AvgL1Exact(FRaw(N, st))
      lx == AvgL1Exact(Affine(N.l0, st))
      ax == AvgL1Exact(Affine(N.q0a, st \o a))
      bx == AvgL1Exact(Affine(N.q0b, st \o a))
  IN [zs |-> fx, zsa |-> fx, pi |-> fx /\ lx, act_d |-> lx, q1 |-> fx /\ ax, q2 |-> fx /\ bx,
      qmin |-> fx /\ ax /\ bx, q_d |-> ax]
ActRows == << <<I(-1)>>, <<Half>>, <<One>>, <<Zero>>, <<I(2)>> >>
ZArgs == << <<One, Q(-1,2)>>, <<Zero, I(2)>>, <<I(-1), I(-1)>> >>
ZsaArgs == << <<I(-1), Half>>, <<Half, One>>, <<I(2), Zero>> >>
SaleIn(k, B) == [st |-> Batch(SD, k, B), a |-> [b \in 1..B |-> Cyc(ActRows, k + b - 1)],
                 zarg |-> [b \in 1..B |-> Cyc(ZArgs, k + b - 1)], zsaarg |-> [b \in 1..B |-> Cyc(ZsaArgs, k + b - 1)]]
SaleOut(N, inp) ==
  LET rows == Tup([b \in 1..Len(inp.st) |-> SaleRow(N, inp.st[b], inp.a[b], inp.zarg[b], inp.zsaarg[b])])
  IN [n \in SNames |-> Tup([b \in 1..Len(inp.st) |-> rows[b][n]])]
SaleExact(N, inp) ==
  LET rows == Tup([b \in 1..Len(inp.st) |-> SaleExactRow(N, inp.st[b], inp.a[b])])
  IN [n \in SNames |-> Tup([b \in 1..Len(inp.st) |-> rows[b][n]])]
SPertIn(inp, pert) ==
  LET bump(rows) == [rows EXCEPT ![pert.r] = [@ EXCEPT ![pert.i] = QAdd(@, One)]] IN
  CASE pert.kind = "state" -> [inp EXCEPT !.st = bump(@)]
    [] pert.kind = "action" -> [inp EXCEPT !.a = bump(@)]
    [] pert.kind = "zarg" -> [inp EXCEPT !.zarg = bump(@)]
    [] pert.kind = "zsaarg" -> [inp EXCEPT !.zsaarg = bump(@)]
    [] OTHER -> inp

SSeeds == IF Wide THEN 0..35 ELSE 0..23
SBatches == IF Wide THEN {<<1, 2>>, <<3, 2>>, <<5, 1>>, <<7, 2>>, <<2, 3>>, <<6, 2>>} ELSE {<<1, 2>>, <<3, 2>>, <<5, 1>>, <<7, 2>>}
SChoose(sd, k, B) ==
  /\ Part = "sale" /\ vec.stage = "start"
  /\ LET N == SaleNet(sd, NoPert)
         inp == SaleIn(k, B)
         outs == SaleOut(N, inp)
         ex == SaleExact(N, inp)
     IN /\ (\E b \in 1..B : ex["pi"][b] \/ ex["q1"][b] \/ ex["q2"][b]) = TRUE      \* keep vectors with an exact float32 expectation downstream of the embedding
        /\ vec' = [stage |-> "done", sd |-> sd, N |-> N, inp |-> inp, outs |-> outs]
        /\ Emit("Sale", [sd |-> sd, N |-> N, inp |-> inp, returns |-> <<"zsa", "zs">>], [outs |-> outs, exact |-> SaleExact(N, inp)])
  /\ last' = "Sale"
SPerts(inp) ==
  {[NoPert EXCEPT !.kind = kd, !.r = Len(inp.st), !.i = 1] : kd \in {"state", "action", "zarg", "zsaarg"}}
  \cup {[NoPert EXCEPT !.kind = "state", !.r = 1, !.i = 2]}
  \cup {[NoPert EXCEPT !.kind = "group", !.grp = g, !.d = 1] : g \in SGroups}
  \cup {[NoPert EXCEPT !.kind = "fscale"]}
SAll(inp) == SNames \X (1..Len(inp.st))
SMayNames(pert) ==
  CASE pert.kind = "state" -> SNames
    [] pert.kind = "action" -> {"zsa", "q1", "q2", "qmin", "q_d"}
    [] pert.kind = "zarg" -> {"act_d", "q_d"}
    [] pert.kind = "zsaarg" -> {"q_d"}
    [] pert.kind = "fscale" -> {}                                  \* the embedding enters only through its normalised value
    [] pert.grp = "f" -> {"zs", "zsa", "pi", "q1", "q2", "qmin"}
    [] pert.grp = "g" -> {"zsa", "q1", "q2", "qmin"}               \* the policy never sees zsa
    [] pert.grp \in {"l0", "pnet"} -> {"pi", "act_d"}
    [] pert.grp \in {"q0a", "qneta"} -> {"q1", "qmin", "q_d"}
    [] OTHER -> {"q2", "qmin"}
SMayChange(inp, pert) == {nb \in SAll(inp) : nb[1] \in SMayNames(pert) /\ (pert.r = 0 \/ nb[2] = pert.r)}
SPerturb(pert) ==
  /\ Part = "sale" /\ vec.stage = "done" /\ pert \in SPerts(vec.inp)
  /\ LET N2 == SaleNet(vec.sd, pert)
         inp2 == SPertIn(vec.inp, pert)
         outs2 == SaleOut(N2, inp2)
     IN /\ vec' = [stage |-> "pert", sd |-> vec.sd, N |-> vec.N, inp |-> vec.inp, outs |-> vec.outs, pert |-> pert, outs2 |-> outs2]
        /\ Emit("SalePerturb", [sd |-> vec.sd, N |-> vec.N, inp |-> vec.inp, pert |-> pert, N2 |-> N2, inp2 |-> inp2, returns |-> <<"zsa", "zs">>],
                [outs |-> vec.outs, exact |-> SaleExact(vec.N, vec.inp), outs2 |-> outs2, exact2 |-> SaleExact(N2, inp2),
                 same |-> [n \in SNames |-> [b \in 1..Len(vec.inp.st) |-> <<n, b>> \notin SMayChange(vec.inp, pert)]]])
  /\ last' = "SalePerturb"

SDone == Part = "sale" /\ vec.stage \in {"done", "pert"}
SRows == {b \in 1..3 : SDone /\ b <= Len(vec.inp.st)}
(* zs has mean absolute value one (or is the zero vector) *)
ZsNormalised == SDone => \A b \in SRows : AbsMean(vec.outs["zs"][b]) \in {Zero, One}
(* zsa is the raw output of the state-action encoder on (zs, action) *)
ZsaIsEncoderOutput == SDone => \A b \in SRows :
  vec.outs["zsa"][b] = Forward1(GS, vec.N.g, vec.outs["zs"][b] \o vec.inp.a[b])["out"]
(* the policy network sees AvgL1Norm(l0(state)) followed by zs as it is *)
ActorLayout == SDone => \A b \in SRows :
  LET x == ActorIn(vec.N, vec.inp.st[b], vec.inp.zarg[b]) IN
  /\ Len(x) = HD + ZD
  /\ SubSeq(x, HD + 1, HD + ZD) = vec.inp.zarg[b]
  /\ SubSeq(x, 1, HD) = AvgL1(Affine(vec.N.l0, vec.inp.st[b]))
(* the Q network sees AvgL1Norm(q0(sa)), then zsa, then zs *)
CriticLayout == SDone => \A b \in SRows :
  LET x == CriticIn(vec.N.q0a, vec.inp.st[b] \o vec.inp.a[b], vec.inp.zsaarg[b], vec.inp.zarg[b]) IN
  /\ Len(x) = HD + 2 * ZD
  /\ SubSeq(x, 1, HD) = AvgL1(Affine(vec.N.q0a, vec.inp.st[b] \o vec.inp.a[b]))
  /\ SubSeq(x, HD + 1, HD + ZD) = vec.inp.zsaarg[b]
  /\ SubSeq(x, HD + ZD + 1, HD + 2 * ZD) = vec.inp.zarg[b]
(* the policy is the actor on the normalised state embedding *)
PolicyIsActorOnZs == SDone => \A b \in SRows : vec.outs["pi"][b] = Actor(vec.N, vec.inp.st[b], vec.outs["zs"][b])
QMinIsMin == SDone => \A b \in SRows : vec.outs["qmin"][b][1] = QMin(vec.outs["q1"][b][1], vec.outs["q2"][b][1])
SDependencySound == (Part = "sale" /\ vec.stage = "pert") =>
  \A nb \in SAll(vec.inp) \ SMayChange(vec.inp, vec.pert) : vec.outs2[nb[1]][nb[2]] = vec.outs[nb[1]][nb[2]]

----------------------------------------------------------------------------
(* Part "act": activation = name of a function of flax.nnx; the network       *)
(* MLP(1, 1, [2], name) with read-out parameters computes w * act(p) + b      *)
OtherNnxAttributes == {"Linear", "jit"}          \* LookupAcceptsAnyAttribute
UnknownNames == {"Relu", "RELU", "", "relu ", "nn.relu", "leakyrelu"}
Resolve(name) == IF Variant = "LookupIgnoresName" THEN "relu" ELSE name
ReadOut(w, b) == [hid |-> << [W |-> << <<One, Zero>> >>, b |-> <<Zero, Zero>>] >>, ln |-> <<>>,
                  head |-> << [W |-> << <<w>>, <<Zero>> >>, b |-> <<b>>] >>]
ReadOuts == IF Wide THEN {<<One, Zero>>, <<I(-2), Half>>, <<Half, I(-1)>>} ELSE {<<One, Zero>>, <<I(-2), Half>>}
AChoose(name, p, wb) ==
  /\ Part = "act" /\ vec.stage = "start" /\ name \in ActNames
  /\ LET br == Bracket(Resolve(name), p)
         e1 == QAdd(QMul(wb[1], br[1]), wb[2])
         e2 == QAdd(QMul(wb[1], br[2]), wb[2])
     IN /\ vec' = [stage |-> "done", name |-> name, p |-> p, wb |-> wb, fn |-> Resolve(name)]
        /\ Emit("Activation", [name |-> name, x |-> Probes[p], P |-> ReadOut(wb[1], wb[2])],
                [status |-> "ok", lo |-> QMin(e1, e2), hi |-> QMax(e1, e2)])
  /\ last' = "Activation"
AUnknown(name) ==
  /\ Part = "act" /\ vec.stage = "start" /\ name \in UnknownNames
  /\ vec' = [stage |-> "rejected", name |-> name]
  /\ Emit("Activation", [name |-> name], [status |-> "AttributeError"])
  /\ last' = "ActivationUnknown"
(* deviation: the constructor accepts the name, the first call with a hidden layer raises *)
LookupAcceptsAnyAttribute(name) ==
  /\ Part = "act" /\ vec.stage = "start" /\ name \in OtherNnxAttributes
  /\ vec' = [stage |-> "built_uncallable", name |-> name]
  /\ Emit("Activation", [name |-> name, x |-> One, P |-> ReadOut(One, Zero)], [status |-> "TypeError"])
  /\ last' = "LookupAcceptsAnyAttribute"
ResolveFaithful == (Part = "act" /\ vec.stage = "done") => SameFunction(vec.fn, vec.name)
BracketsOrdered == Part = "act" => \A a \in ActNames : \A p \in 1..Len(Probes) : QLe(Bracket(a, p)[1], Bracket(a, p)[2])
(* two names stand for the same function, or a probe tells them apart *)
Disjoint(x, y) == QLt(x[2], y[1]) \/ QLt(y[2], x[1])
NamesDistinguishable == Part = "act" => \A a, b \in ActNames :
  SameFunction(a, b) \/ \E p \in 1..Len(Probes) : Disjoint(Bracket(a, p), Bracket(b, p))

----------------------------------------------------------------------------
(* Part "cfg": construction and calls as a state machine                      *)
CClasses == {"mlp", "lnmlp", "gauss_shared", "gauss_sep"}
CConfigs == {[cls |-> c, nf |-> nf, no |-> no, hn |-> hn, act |-> a] :
               c \in CClasses, nf \in {-1, 0, 2}, no \in {0, 1}, hn \in {<<>>, <<2>>, <<0>>, <<2, 0>>, <<-1>>},
               a \in {"relu", "Relu", "Linear"}}
HiddenValid(c) == \A l \in 1..Len(c.hn) : c.hn[l] >= 1
(* checks in the order of the code: chex.assert_scalar_positive on n_features *)
(* and n_outputs, then getattr(nnx, activation), then the layers              *)
CStatus(c) ==
  IF (c.nf <= 0 \/ c.no <= 0) /\ Variant # "SizesNotValidated" THEN "AssertionError"
  ELSE IF c.act \notin ActNames \cup OtherNnxAttributes THEN "AttributeError"
  ELSE IF ~HiddenValid(c) /\ Variant # "ZeroWidthAccepted" THEN "error"          \* HiddenNodesNotValidated: no chex assertion, the initialiser raises
  ELSE IF c.nf <= 0 \/ c.no <= 0 THEN "error"
  ELSE "ok"
CConstruct(c) ==
  /\ Part = "cfg" /\ vec.stage = "start" /\ c \in CConfigs
  /\ vec' = [stage |-> IF CStatus(c) = "ok" THEN "built" ELSE "rejected", c |-> c, status |-> CStatus(c)]
  /\ Emit("Construct", [c |-> c], [status |-> CStatus(c),
          struct |-> IF CStatus(c) = "ok" THEN StructReport([kind |-> c.cls, nf |-> c.nf, hn |-> c.hn, no |-> c.no, act |-> c.act])
                     ELSE [layers |-> <<>>, heads |-> <<>>, nparams |-> 0, program |-> <<>>]])
  /\ last' = "Construct"
CShapes == {<<>>, <<2>>, <<3>>, <<1, 2>>, <<3, 2>>, <<3, 3>>, <<2, 3, 2>>, <<0, 2>>}
(* a call is defined for every input whose last axis has n_features entries   *)
(* (any number of leading axes, including an empty batch)                     *)
CCallStatus(c, shp) ==
  IF Len(shp) = 0 \/ shp[Len(shp)] # c.nf THEN "TypeError"
  ELSE IF c.act \notin ActNames /\ Len(c.hn) > 0 THEN "TypeError"              \* LookupAcceptsAnyAttribute
  ELSE "ok"
OutShape(c, shp) == SubSeq(shp, 1, Len(shp) - 1) \o <<c.no>>
CCall(shp) ==
  /\ Part = "cfg" /\ vec.stage = "built" /\ shp \in CShapes
  /\ vec' = [stage |-> IF CCallStatus(vec.c, shp) = "ok" THEN "called" ELSE "call_raised", c |-> vec.c, shp |-> shp]
  /\ Emit("Call", [c |-> vec.c, shape |-> shp],
          [status |-> CCallStatus(vec.c, shp),
           shapes |-> IF CCallStatus(vec.c, shp) # "ok" THEN <<>>
                      ELSE IF vec.c.cls \in {"gauss_shared", "gauss_sep"} THEN <<OutShape(vec.c, shp), OutShape(vec.c, shp)>>
                      ELSE <<OutShape(vec.c, shp)>>])
  /\ last' = "Call"
(* only valid configurations are built *)
InvalidRejected == (Part = "cfg" /\ vec.stage \in {"built", "called", "call_raised"}) =>
  vec.c.nf >= 1 /\ vec.c.no >= 1 /\ HiddenValid(vec.c) /\ vec.c.act \in ActNames \cup OtherNnxAttributes
ValidBuilt == (Part = "cfg" /\ vec.stage = "rejected") =>
  ~(vec.c.nf >= 1 /\ vec.c.no >= 1 /\ HiddenValid(vec.c) /\ vec.c.act \in ActNames \cup OtherNnxAttributes)
(* non-positive n_features / n_outputs are rejected by the chex assertion, before anything else *)
SizesRejectedByAssertion == (Part = "cfg" /\ vec.stage = "rejected" /\ (vec.c.nf <= 0 \/ vec.c.no <= 0)) => vec.status = "AssertionError"
(* NOT invariants of the code (witnesses of the named deviations):             *)
(* HiddenNodesNotValidated - a bad hidden_nodes entry is rejected by a chex assertion like the other sizes *)
HiddenNodesRejectedByAssertion == (Part = "cfg" /\ vec.stage = "rejected" /\ vec.c.nf >= 1 /\ vec.c.no >= 1
                                   /\ vec.c.act \in ActNames \cup OtherNnxAttributes) => vec.status = "AssertionError"
(* LookupAcceptsAnyAttribute - whatever is built has an activation FUNCTION *)
ActivationIsAFunction == (Part = "cfg" /\ vec.stage \in {"built", "called", "call_raised"}) => vec.c.act \in ActNames
CallTotal == (Part = "cfg" /\ vec.stage = "call_raised") =>
  (Len(vec.shp) = 0 \/ vec.shp[Len(vec.shp)] # vec.c.nf \/ vec.c.act \notin ActNames)

----------------------------------------------------------------------------
(* Part "norm": avg_l1_norm on 1-D and 2-D inputs                             *)
NVals == {I(-2), I(-1), Q(-1,2), Zero, Half, One, I(2), I(3)}
NRows(n) == {v \in [1..n -> NVals] : AvgL1Exact(v)}
NormRow(v) ==
  CASE Variant = "SumInsteadOfMean" -> (IF VAbsSum(v)[1] = 0 THEN v ELSE [i \in 1..Len(v) |-> QDiv(v[i], VAbsSum(v))])
    [] OTHER -> AvgL1(v)
NormBatch(xs) ==
  CASE Variant = "NormOverAllAxes" ->
         LET m == QMean([b \in 1..Len(xs) |-> AbsMean(xs[b])])
         IN [b \in 1..Len(xs) |-> IF m[1] = 0 THEN xs[b] ELSE [i \in 1..Len(xs[b]) |-> QDiv(xs[b][i], m)]]
    [] OTHER -> [b \in 1..Len(xs) |-> NormRow(xs[b])]
NChooseFirst(v) ==
  /\ Part = "norm" /\ vec.stage = "start" /\ v \in NRows(2) \cup (IF Wide THEN NRows(4) ELSE {})
  /\ vec' = [stage |-> "row", xs |-> <<v>>]
  /\ last' = "ChooseRow"
NChooseSecond(v) ==
  /\ Part = "norm" /\ vec.stage = "row" /\ v \in NRows(Len(vec.xs[1])) /\ Len(vec.xs[1]) = 2
  /\ vec' = [stage |-> "row2", xs |-> Append(vec.xs, v)]
  /\ last' = "ChooseRow"
NNorm ==
  /\ Part = "norm" /\ vec.stage \in {"row", "row2"}
  /\ vec' = [stage |-> "done", xs |-> vec.xs, out |-> NormBatch(vec.xs)]
  /\ Emit("AvgL1Norm", [xs |-> vec.xs], [out |-> NormBatch(vec.xs)])
  /\ last' = "AvgL1Norm"
NDone == Part = "norm" /\ vec.stage = "done"
NRowIx == {b \in 1..2 : NDone /\ b <= Len(vec.xs)}
NormUnitMeanAbs == NDone => \A b \in NRowIx : AbsMean(vec.out[b]) = (IF AbsMean(vec.xs[b])[1] = 0 THEN Zero ELSE One)
NormKeepsSigns == NDone => \A b \in NRowIx : \A i \in 1..Len(vec.xs[b]) : QSign(vec.out[b][i]) = QSign(vec.xs[b][i])
NormRowwise == NDone => \A b \in NRowIx : vec.out[b] = NormBatch(<<vec.xs[b]>>)[1]
NormScaleInvariant == NDone => \A b \in NRowIx : NormBatch(<<[i \in 1..Len(vec.xs[b]) |-> QMul(I(4), vec.xs[b][i])]>>)[1] = vec.out[b]
NormIdempotent == NDone => NormBatch(vec.out) = vec.out

----------------------------------------------------------------------------
(* Part "tab": action selection                                               *)
TVals == <<I(-1), Zero, I(2)>>
TRow(k) == <<TVals[(k % 3) + 1], TVals[((k \div 3) % 3) + 1], TVals[((k \div 9) % 3) + 1]>>      \* k in 0..26: every row over TVals
TTable(k) == <<TRow(k), TRow(k + 5), TRow(k + 13)>>
(* the row q_table[observation] really reads (GreedyClampsObservation) *)
EffObs(n, o) == IF o < 0 THEN n + o ELSE IF o >= n THEN n - 1 ELSE o
Greedy(row) == (IF Variant = "LastMaximiser" THEN (CHOOSE i \in ArgMaxSet(row) : \A j \in ArgMaxSet(row) : j <= i) ELSE ArgMaxFirst(row)) - 1
TGreedy(k, o) ==
  /\ Part = "tab" /\ vec.stage = "start" /\ k \in 0..26 /\ o \in {-1, 0, 1, 2, 3}
  /\ vec' = [stage |-> "greedy", row |-> TTable(k)[EffObs(3, o) + 1], action |-> Greedy(TTable(k)[EffObs(3, o) + 1])]
  /\ Emit("Greedy", [table |-> TTable(k), obs |-> o], [action |-> Greedy(TTable(k)[EffObs(3, o) + 1]), in_range |-> o \in 0..2])
  /\ last' = "Greedy"
(* epsilon-greedy: one key split; roll = uniform(subkey); roll < epsilon      *)
(* selects choice(subkey, arange(n_actions)), otherwise the greedy action     *)
Explore(roll, eps) == IF Variant = "ExploreAtOrBelow" THEN QLe(roll, eps) ELSE QLt(roll, eps)
TEps(k, eps, roll, ch) ==
  /\ Part = "tab" /\ vec.stage = "start" /\ k \in {1, 6, 13, 25}
  /\ LET row == TTable(k)[2]
         act == IF Explore(roll, eps) THEN ch ELSE Greedy(row)
     IN /\ vec' = [stage |-> "eps", row |-> row, eps |-> eps, roll |-> roll, ch |-> ch, action |-> act]
        /\ Emit("EpsGreedy", [table |-> SubSeq(TTable(k), 1, 2), obs |-> 1, eps |-> eps, roll |-> roll, choice |-> ch],     \* 2 states x 3 actions
                [action |-> act, explore |-> Explore(roll, eps),
                 calls |-> <<"split", "uniform">> \o (IF Explore(roll, eps) THEN <<"choice">> ELSE <<>>), n |-> 3])
  /\ last' = "EpsGreedy"
(* q_policy.greedy_policy(q_net, obs): argmax of q_net(obs) (first maximiser);*)
(* a batch is flattened (GreedyFlattensBatch)                                 *)
TQS == [kind |-> "mlp", nf |-> 2, hn |-> <<2>>, no |-> 3, act |-> "relu"]
RECURSIVE Flat(_, _)
Flat(rows, n) == IF n = 0 THEN <<>> ELSE Flat(rows, n - 1) \o rows[n]
TQGreedy(sd, k, B) ==
  /\ Part = "tab" /\ vec.stage = "start"
  /\ LET P == Params(TQS, sd, NoPert)
         xs == Batch(2, k, B)
         q == ForwardB(TQS, P, xs)["out"]
         act == Greedy(Flat(q, B))
     IN /\ vec' = [stage |-> "qgreedy", q |-> q, action |-> act]
        /\ Emit("QGreedy", [s |-> TQS, P |-> P, xs |-> xs, batched |-> B > 1], [q |-> q, action |-> act])
  /\ last' = "QGreedy"
(* make_q_table: zeros of shape observation shape + (number of actions,) *)
TSpaces == {<<"discrete", <<4>>, 3>>, <<"discrete", <<2>>, 2>>, <<"tuple", <<2, 3>>, 2>>, <<"tuple", <<3, 2, 2>>, 4>>}
TMakeTable(sp) ==
  /\ Part = "tab" /\ vec.stage = "start" /\ sp \in TSpaces
  /\ vec' = [stage |-> "table", shape |-> sp[2] \o <<sp[3]>>]
  /\ Emit("MakeTable", [obs_kind |-> sp[1], obs |-> sp[2], n_actions |-> sp[3]], [shape |-> sp[2] \o <<sp[3]>>, value |-> Zero])
  /\ last' = "MakeTable"
GreedyIsMaximiser == (Part = "tab" /\ vec.stage \in {"greedy", "eps"} /\ (vec.stage = "greedy" \/ ~Explore(vec.roll, vec.eps))) =>
  /\ vec.action + 1 \in ArgMaxSet(vec.row)
  /\ \A j \in ArgMaxSet(vec.row) : vec.action + 1 <= j
(* epsilon = 0 never explores, epsilon = 1 always does (roll in [0, 1)) *)
EpsilonExtremes == (Part = "tab" /\ vec.stage = "eps") =>
  /\ (vec.eps = Zero => vec.action = Greedy(vec.row))
  /\ (vec.eps = One => vec.action = vec.ch)
QGreedyFirstMax == (Part = "tab" /\ vec.stage = "qgreedy") =>
  LET f == Flat(vec.q, Len(vec.q)) IN
  /\ QEq(f[vec.action + 1], QMaxSeq(f))
  /\ \A j \in 1..vec.action : QLt(f[j], QMaxSeq(f))

----------------------------------------------------------------------------
Init == vec = [stage |-> "start"] /\ last = "init"

Lattice4 == {Zero, Q(1, 4), Half, One}
Next ==
  \/ /\ Part = "mlp"
     /\ \/ \E s \in MStructs : MChooseStruct(s)
        \/ \E sd \in MSeeds : MChooseParams(sd)
        \/ \E kb \in MBatches : MChooseInput(kb[1], kb[2])
        \/ MForward
        \/ vec.stage = "done" /\ Len(vec.xs) = 2 /\ \E pert \in MPerts(vec.s, vec.xs) : MPerturb(pert)    \* perturbations of the two-row batches
  \/ /\ Part = "dq"
     /\ \/ \E s \in DStructs : \E sds \in DSeedPairs : DChoose(s, sds)
        \/ \E kb \in DBatches : DForward(kb[1], kb[2])
        \/ vec.stage = "done" /\ \E pert \in DPerts(vec.s, vec.xs) : DPerturb(pert)
  \/ /\ Part = "sale"
     /\ \/ \E sd \in SSeeds : \E kb \in SBatches : SChoose(sd, kb[1], kb[2])
        \/ vec.stage = "done" /\ \E pert \in SPerts(vec.inp) : SPerturb(pert)
  \/ /\ Part = "act"
     /\ \/ \E name \in ActNames : \E p \in 1..Len(Probes) : \E wb \in ReadOuts : AChoose(name, p, wb)
        \/ \E name \in UnknownNames : AUnknown(name)
        \/ \E name \in OtherNnxAttributes : LookupAcceptsAnyAttribute(name)
  \/ /\ Part = "cfg"
     /\ \/ \E c \in CConfigs : CConstruct(c)
        \/ \E shp \in CShapes : CCall(shp)
  \/ /\ Part = "norm"
     /\ \/ vec.stage = "start" /\ \E v \in NRows(2) \cup (IF Wide THEN NRows(4) ELSE {}) : NChooseFirst(v)
        \/ vec.stage = "row" /\ \E v \in NRows(2) : NChooseSecond(v)
        \/ NNorm
  \/ /\ Part = "tab"
     /\ \/ \E k \in 0..26 : \E o \in {-1, 0, 1, 2, 3} : TGreedy(k, o)
        \/ \E k \in {1, 6, 13, 25} : \E eps \in Lattice4 : \E roll \in {Zero, Q(1, 4), Half, Q(3, 4)} : \E ch \in 0..2 : TEps(k, eps, roll, ch)
        \/ \E sd \in 0..(IF Wide THEN 7 ELSE 3) : \E kb \in {<<1, 1>>, <<4, 1>>, <<7, 1>>, <<2, 2>>, <<5, 2>>} : TQGreedy(sd, kb[1], kb[2])
        \/ \E sp \in TSpaces : TMakeTable(sp)

Spec == Init /\ [][Next]_vars
=============================================================================
