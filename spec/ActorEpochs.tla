--------------------------- MODULE ActorEpochs ---------------------------
(* C12 - the USE of the PPO objective over several optimisation epochs        *)
(* (rl_blox.algorithm.ppo.update_ppo with epochs >= 1), as a state machine.   *)
(*                                                                            *)
(*   ChooseParams  batch size, learning rates of the two optimisers (plain    *)
(*                 SGD), number of epochs K                                   *)
(*   ChooseRow x n per-sample reward, value prediction, entropy               *)
(*   Enter         entry parameters theta_0: advantages and returns (GAE, all *)
(*                 rows terminated) from the ENTRY critic, reference          *)
(*                 log-probabilities = log pi_theta_0; both stay fixed for    *)
(*                 the whole update                                           *)
(*   Epoch  x K    one optimiser step of actor and critic on                  *)
(*                 ppo_loss(theta_k ; reference) - the objective is Actor.tla's*)
(*   Finish        emit the schedule and the expected state after every epoch *)
(*                                                                            *)
(* The policy is the per-sample table of Actor.tla's binding: sample i has    *)
(* its own log-probability parameter, so its displacement from the entry      *)
(* value d_i = log pi_theta_k(a_i|o_i) - log pi_theta_0(a_i|o_i) is the state.*)
(* The probability ratio is exp(d_i - ref_i).  d_i is an exact rational as    *)
(* long as the sample only ever took steps at ratio exactly 1 (or none);      *)
(* after a step at another ratio it is an INTERVAL of fixed-point numbers     *)
(* (unit 2^-14) computed with outward rounded Taylor bounds of exp, which is  *)
(* all that is needed to DECIDE on which side of the clip range the ratio     *)
(* lies (lattice points inside the narrow undecidable band around             *)
(* log(1 +- eps) are excluded by the invariant EpDecidable).  The step of an  *)
(* epoch is emitted as a linear form  c_i * Exp(logratio_i)  (device D3: Exp  *)
(* is the named constant, c_i the exact coefficient decided here).            *)
EXTENDS Exact, FiniteSets, TLC, Json

CONSTANTS EMIT,    \* TRUE: print one EMIT record per finished update
          NSet,    \* batch sizes
          KSet,    \* numbers of epochs
          LAT,     \* "full" | "small"
          DEV      \* "" | "refresh": the reference is re-read from the updated actor at the start of every epoch

VARIABLES stage,   \* "par" | "rows" | "epochs" | "done"
          n, par, rows,
          k,       \* epochs done
          ref,     \* per sample: displacement of the REFERENCE log-probability from the entry log-probability
          disp,    \* per sample: displacement of the current log-probability from the entry log-probability
          val,     \* per sample: current value prediction (exact)
          hist     \* one record per epoch done

vars == <<stage, n, par, rows, k, ref, disp, val, hist>>

(* the PPO objective itself: Actor.tla (its variables are not used by the operators referenced here) *)
A == INSTANCE Actor WITH EMIT <- FALSE, Kinds <- {"ppoupd"}, NSet <- {}, LAT <- "small", DEV <- "",
                         stage <- "done", kind <- "ppoupd", n <- 0, par <- <<>>, rows <- <<>>

P == [eps |-> A!DefaultClip]            \* update_ppo calls ppo_loss with its default clip range
Full == LAT = "full"

----------------------------------------------------------------------------
(* fixed-point interval arithmetic, unit 1/F; all roundings outward *)
F == 16384
Neg(x) == 0 - x
FloorDiv(a, b) == a \div b                          \* b > 0: floor
CeilDiv(a, b)  == Neg(Neg(a) \div b)
FDn(q) == FloorDiv(q[1] * F, q[2])
FUp(q) == CeilDiv(q[1] * F, q[2])
IAbs(x) == IF x < 0 THEN Neg(x) ELSE x
IMax(a, b) == IF a < b THEN b ELSE a

(* t * (x / F) for an interval t and a fixed-point scalar x *)
IMul(t, x) == IF x >= 0 THEN <<FloorDiv(t[1] * x, F), CeilDiv(t[2] * x, F)>>
                        ELSE <<FloorDiv(t[2] * x, F), CeilDiv(t[1] * x, F)>>
IDivK(t, j) == <<FloorDiv(t[1], j), CeilDiv(t[2], j)>>
(* enclosure of F * exp(x / F) for |x| <= F/2: Taylor polynomial of degree 6, Lagrange remainder e^|x| |x|^7/7! <= 2 |t7| *)
ExpDomain(x) == Neg(F \div 2) <= x /\ x <= F \div 2
Taylor(x) ==
  LET t0 == <<F, F>>
      t1 == IMul(t0, x)
      t2 == IDivK(IMul(t1, x), 2)
      t3 == IDivK(IMul(t2, x), 3)
      t4 == IDivK(IMul(t3, x), 4)
      t5 == IDivK(IMul(t4, x), 5)
      t6 == IDivK(IMul(t5, x), 6)
      t7 == IDivK(IMul(t6, x), 7)
      r  == 2 * IMax(IAbs(t7[1]), IAbs(t7[2])) + 1
  IN <<t0[1] + t1[1] + t2[1] + t3[1] + t4[1] + t5[1] + t6[1] - r,
       t0[2] + t1[2] + t2[2] + t3[2] + t4[2] + t5[2] + t6[2] + r>>
ExpIv(iv) == <<Taylor(iv[1])[1], Taylor(iv[2])[2]>>          \* exp is increasing

(* brackets of log(1 + eps) and log(1 - eps) in units of 1/F; proved below with the same enclosure of exp *)
LogHiDn == 2980
LogHiUp == 2994
LogLoDn == Neg(3664)
LogLoUp == Neg(3648)
ASSUME /\ Taylor(LogHiDn)[2] <= FDn(A!Hi(P))                 \* exp(LogHiDn/F) <= 1 + eps
       /\ Taylor(LogHiUp)[1] >= FUp(A!Hi(P))                 \* exp(LogHiUp/F) >= 1 + eps
       /\ Taylor(LogLoDn)[2] <= FDn(A!Lo(P))
       /\ Taylor(LogLoUp)[1] >= FUp(A!Lo(P))
       /\ FloorDiv(Neg(7), 2) = Neg(4) /\ CeilDiv(Neg(7), 2) = Neg(3)      \* \div floors

(* a displacement: exact rational, or an interval *)
DPt(q) == [ex |-> TRUE, q |-> q, lo |-> FDn(q), hi |-> FUp(q)]
DIv(lo, hi) == [ex |-> FALSE, q |-> Zero, lo |-> lo, hi |-> hi]
DSub(a, b) == IF a.ex /\ b.ex THEN DPt(QSub(a.q, b.q)) ELSE DIv(a.lo - b.hi, a.hi - b.lo)
(* rational c times an interval e (units 1/F) *)
MulQ(c, e) == IF c[1] >= 0 THEN <<FloorDiv(c[1] * e[1], c[2]), CeilDiv(c[1] * e[2], c[2])>>
                           ELSE <<FloorDiv(c[1] * e[2], c[2]), CeilDiv(c[1] * e[1], c[2])>>

(* where the ratio exp(d) lies relative to the clip range *)
Region(d) ==
  IF d.ex /\ d.q = Zero THEN "one"                                     \* ratio exactly 1
  ELSE IF d.lo > LogHiUp THEN "above"
  ELSE IF d.hi < LogLoDn THEN "below"
  ELSE IF d.hi < LogHiDn /\ d.lo > LogLoUp THEN (IF d.lo >= 0 THEN "in_up" ELSE IF d.hi <= 0 THEN "in_dn" ELSE "in")
  ELSE "undecided"
(* a rational representative of the region for Actor.tla's objective (its derivative is constant on each region) *)
Mid(a, b) == QMul(Half, QAdd(a, b))
Rep(rg) == CASE rg = "above" -> QAdd(A!Hi(P), One)
             [] rg = "below" -> QMul(Half, A!Lo(P))
             [] rg = "in_up" -> Mid(One, A!Hi(P))
             [] rg = "in_dn" -> Mid(A!Lo(P), One)
             [] OTHER        -> One
Rep2(rg) == CASE rg = "above" -> QAdd(A!Hi(P), Half)
              [] rg = "below" -> QMul(Q(3, 4), A!Lo(P))
              [] rg = "in_up" -> Mid(One, Mid(One, A!Hi(P)))
              [] rg = "in_dn" -> Mid(Mid(A!Lo(P), One), One)
              [] OTHER        -> One

----------------------------------------------------------------------------
(* lattice *)
AdvE == IF Full THEN {I(-4), I(-2), Q(-3, 2), I(-1), Q(-1, 2), Zero, Half, One, Q(3, 2), I(2), I(3), I(4)}
        ELSE {I(-2), I(-1), Q(-1, 2), Zero, Half, One, Q(3, 2)}
ValE == IF Full THEN {Zero, Half, I(-1)} ELSE {Half}
EntE == IF Full THEN {Zero, One} ELSE {Zero}
LrA  == IF Full THEN {Q(1, 8), Q(1, 4), Half, One} ELSE {Q(1, 4)}          \* actor optimiser: SGD(lr)
LrC  == IF Full THEN {Half, One} ELSE {One}                                \* critic optimiser: SGD(lr)
RowSet == {[r |-> QAdd(a, v), v |-> v, ent |-> e] : a \in AdvE, v \in ValE, e \in EntE}
ParSet == [lra : LrA, lrc : LrC, K : KSet]
(* 32-bit rationals: the denominators of the critic's predictions grow by the factor N / lr_c with every epoch *)
RECURSIVE QPow(_, _)
QPow(q, m) == IF m <= 0 THEN One ELSE QMul(q, QPow(q, m - 1))
Representable(nn, p) == QLe(QPow(QDiv(I(nn), p.lrc), p.K - 1), I(16))

Idx == 1..n
Tup(f) == SubSeq(f, 1, n)          \* TLC evaluates [i \in S |-> e] lazily on every application; SubSeq forces it once
Entry(i) == A!PPORow(rows[i])                     \* advantage r - v and return (r - v) + v from the ENTRY critic
Adv(i) == Entry(i).adv
Ret(i) == Entry(i).ret
(* the entropy parameter of every sample of the batch rises by lr * 0.01 / N per epoch (gradient of the bonus -0.01 mean entropy), so the *)
(* objective of epoch k + 1 is lower by k * 0.01 * EntStep than with the entry entropies (kept as a separate term: 32-bit rationals)       *)
EntStep == QMul(par.lra, QDiv(A!EntCoef, I(n)))

----------------------------------------------------------------------------
Init == /\ stage = "par" /\ n = 0 /\ par = <<>> /\ rows = <<>> /\ k = 0
        /\ ref = <<>> /\ disp = <<>> /\ val = <<>> /\ hist = <<>>

ChooseParams(nn, p) == /\ stage = "par" /\ Representable(nn, p)
                       /\ n' = nn /\ par' = p /\ stage' = "rows"
                       /\ UNCHANGED <<rows, k, ref, disp, val, hist>>
ChooseRow(x) == /\ stage = "rows" /\ Len(rows) < n
                /\ rows' = Append(rows, x)
                /\ UNCHANGED <<stage, n, par, k, ref, disp, val, hist>>
(* entry of update_ppo: the reference is log pi_theta_0, the critic predicts rows[i].v *)
Enter == /\ stage = "rows" /\ Len(rows) = n
         /\ stage' = "epochs"
         /\ ref'  = [i \in Idx |-> DPt(Zero)]
         /\ disp' = [i \in Idx |-> DPt(Zero)]
         /\ val'  = [i \in Idx |-> rows[i].v]
         /\ UNCHANGED <<n, par, rows, k, hist>>

(* one epoch: gradient of Actor.tla's ppo_loss at theta_k with the reference, one SGD step of actor and critic *)
RefUsed == IF DEV = "refresh" THEN disp ELSE ref
EpochRec ==
  LET ru   == RefUsed
      lrat == Tup([i \in Idx |-> DSub(disp[i], ru[i])])                     \* log of the probability ratio
      rg   == Tup([i \in Idx |-> Region(lrat[i])])
      rws  == Tup([i \in Idx |-> [ratio |-> Rep(rg[i]), adv |-> Adv(i), ret |-> Ret(i), v |-> val[i], ent |-> rows[i].ent]])
      \* d loss / d v_i of the value term 1/2 mean (ret - v)^2 and d loss / d entropy_i of the bonus (EpObjective ties both to Actor.tla)
      gv   == Tup([i \in Idx |-> QNeg(QDiv(QSub(Ret(i), val[i]), I(n)))])
      ge   == QNeg(QDiv(A!EntCoef, I(n)))
      ds   == Tup([i \in Idx |-> A!DSurr(P, rws[i])])                        \* d surrogate_i / d ratio_i
      \* displacement step of sample i = c_i * ratio_i,  c_i = lr * (d surrogate / d ratio) / N
      c    == Tup([i \in Idx |-> QMul(QDiv(par.lra, I(n)), ds[i][1])])
      expo == Tup([i \in Idx |-> c[i] # Zero /\ rg[i] # "one"])
      stp  == Tup([i \in Idx |-> IF ~expo[i] THEN <<0, 0>>
                             ELSE IF ExpDomain(lrat[i].lo) /\ ExpDomain(lrat[i].hi)
                                  THEN MulQ(c[i], ExpIv(<<lrat[i].lo, lrat[i].hi>>)) ELSE <<Neg(8 * F), 8 * F>>])
      nd   == Tup([i \in Idx |-> IF ~expo[i] THEN (IF disp[i].ex THEN DPt(QAdd(disp[i].q, c[i])) ELSE DIv(disp[i].lo + FDn(c[i]), disp[i].hi + FUp(c[i])))
                             ELSE DIv(disp[i].lo + stp[i][1], disp[i].hi + stp[i][2])])
      \* surrogate of sample i as a linear form s_i * (ratio_i if sexp_i else 1)
      act  == Tup([i \in Idx |-> A!Active(P, rws[i])])
      sur  == Tup([i \in Idx |-> IF act[i] = "clipped" THEN A!S2(P, rws[i]) ELSE Adv(i)])
      sexp == Tup([i \in Idx |-> act[i] # "clipped" /\ rg[i] # "one"])
      \* the objective at theta_k as a linear form  lconst + k * lentk + sum_i lcoef_i * ratio_i
      polc == QNeg(QDiv(QSum(Tup([i \in Idx |-> IF sexp[i] THEN Zero ELSE sur[i]])), I(n)))
      lcoef == Tup([i \in Idx |-> IF sexp[i] THEN QNeg(QDiv(sur[i], I(n))) ELSE Zero])
      \* judged against the ENTRY policy: is the sample clipped on the side its advantage favours?
      rgE  == Tup([i \in Idx |-> Region(disp[i])])
      fav  == Tup([i \in Idx |-> A!Favoured(P, [ratio |-> Rep(rgE[i]), adv |-> Adv(i)])])
  IN [epoch |-> k + 1,
      refk |-> IF \A i \in Idx : ru[i] = DPt(Zero) THEN "entry" ELSE "moved",
      region |-> rg, regionE |-> rgE, fav |-> fav,
      lrat |-> lrat, c |-> c, expo |-> expo, point |-> \A i \in Idx : ds[i][1] = ds[i][2],
      sur |-> sur, sexp |-> sexp, lval |-> A!ValLoss(rws), lent |-> A!EntMean(rws), lconst |-> A!Compose(polc, A!ValLoss(rws), A!EntMean(rws)), lcoef |-> lcoef, gv |-> gv, ge |-> ge,
      before |-> disp, after |-> nd,
      \* critic: v <- v - lr_c * d loss / d v ; entropy table: ent <- ent - lr_a * d loss / d ent
      v |-> Tup([i \in Idx |-> QSub(val[i], QMul(par.lrc, gv[i]))]),
      entstep |-> EntStep, lentk |-> QNeg(QMul(A!EntCoef, EntStep))]
Epoch == /\ stage = "epochs" /\ k < par.K
         /\ LET h == EpochRec
            IN /\ hist' = Append(hist, h)
               /\ disp' = h.after
               /\ val'  = h.v
               /\ ref'  = RefUsed
         /\ k' = k + 1
         /\ UNCHANGED <<stage, n, par, rows>>

Emit == EMIT => PrintT(<<"EMIT", ToJson([kind |-> "ppoep", n |-> n, par |-> par, rows |-> rows,
                                           adv |-> [i \in Idx |-> Adv(i)], ret |-> [i \in Idx |-> Ret(i)],
                                           hist |-> hist, unit |-> F])>>)
Finish == /\ stage = "epochs" /\ k = par.K
          /\ stage' = "done"
          /\ UNCHANGED <<n, par, rows, k, ref, disp, val, hist>>
          /\ Emit

Next == \/ \E nn \in NSet, p \in ParSet : ChooseParams(nn, p)
        \/ (stage = "rows" /\ Len(rows) < n /\ \E x \in RowSet : ChooseRow(x))
        \/ Enter \/ Epoch \/ Finish

Spec == Init /\ [][Next]_vars

----------------------------------------------------------------------------
(* Properties *)
HIdx == 1..Len(hist)
EpTypeOK == /\ stage \in {"par", "rows", "epochs", "done"}
            /\ Len(hist) = k
            /\ (stage \in {"epochs", "done"} => k <= par.K)
(* the lattice never needs a decision inside the undecidable band, and Actor.tla's derivative is a point there *)
EpDecidable == \A j \in HIdx : \A i \in Idx :
                 /\ hist[j].region[i] # "undecided" /\ hist[j].regionE[i] # "undecided"
                 /\ hist[j].point
(* the derivative of the surrogate does not depend on the representative chosen inside a region (checked once) *)
EpRepresentative == \A rg \in {"above", "below", "in_up", "in_dn", "one"} : \A a \in AdvE :
                      /\ A!DSurr(P, [ratio |-> Rep(rg), adv |-> a]) = A!DSurr(P, [ratio |-> Rep2(rg), adv |-> a])
                      /\ A!Active(P, [ratio |-> Rep(rg), adv |-> a]) = A!Active(P, [ratio |-> Rep2(rg), adv |-> a])
ASSUME EpRepresentative
(* the reference is log pi_theta_0 for the whole update *)
EpRefFixed == \A j \in HIdx : hist[j].refk = "entry"
(* the listed clause on the use of the objective: in epoch j a sample whose ratio pi_theta_j / pi_theta_0 is clipped *)
(* on the side its advantage favours contributes zero policy gradient (and therefore does not move)              *)
EpClippedZero == \A j \in HIdx : \A i \in Idx :
                   hist[j].fav[i] => (hist[j].c[i] = Zero /\ hist[j].after[i] = hist[j].before[i])
(* first epoch: unchanged parameters, gradient of the unclipped surrogate *)
EpFirstUnclipped == Len(hist) >= 1 =>
                      \A i \in Idx : /\ hist[1].region[i] = "one" /\ ~hist[1].expo[i]
                                     /\ hist[1].c[i] = QDiv(QMul(par.lra, Adv(i)), I(n))
                                     /\ hist[1].after[i] = DPt(QDiv(QMul(par.lra, Adv(i)), I(n)))
(* the value / entropy derivatives used by Epoch are those of Actor.tla's objective (checked at the entry state, where all numbers are small) *)
EpObjective == Len(hist) >= 1 =>
                 LET rws == Tup([i \in Idx |-> Entry(i)])
                     e   == A!EvalPPO("ppo", P, rws)
                 IN /\ hist[1].lval = e.val /\ hist[1].lent = e.ent /\ hist[1].ge = e.ge /\ EntStep = QNeg(QMul(par.lra, e.ge)) /\ hist[1].lconst = e.loss
                    /\ \A i \in Idx : hist[1].gv[i] = e.gv[i] /\ hist[1].c[i] = QNeg(QMul(par.lra, e.g[i][1])) /\ e.g[i][1] = e.g[i][2]
(* with per-sample parameters a clipped sample stays clipped, and every sample moves only towards the side its advantage favours *)
EpAbsorbing == \A j \in HIdx : \A i \in Idx :
                 /\ (hist[j].fav[i] /\ j < Len(hist) => hist[j + 1].fav[i])
                 /\ (QSign(Adv(i)) > 0 => hist[j].after[i].lo >= hist[j].before[i].lo /\ hist[j].before[i].lo >= 0)
                 /\ (QSign(Adv(i)) < 0 => hist[j].after[i].hi <= hist[j].before[i].hi /\ hist[j].before[i].hi <= 0)
                 /\ (QSign(Adv(i)) = 0 => hist[j].after[i] = DPt(Zero))
(* the critic regresses on the ENTRY returns: with lr_c / N <= 1 the error never grows, and the returns are not re-estimated *)
EpCritic == \A j \in HIdx : \A i \in Idx :
              LET before == IF j = 1 THEN rows[i].v ELSE hist[j - 1].v[i]
              IN /\ hist[j].v[i] = QAdd(before, QMul(QDiv(par.lrc, I(n)), QSub(Ret(i), before)))
                 /\ QLe(QAbs(QSub(Ret(i), hist[j].v[i])), QAbs(QSub(Ret(i), before)))
=============================================================================
