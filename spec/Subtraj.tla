--------------------------- MODULE Subtraj ---------------------------
(* rl_blox.blox.replay_buffer.SubtrajectoryReplayBuffer and                   *)
(* SubtrajectoryReplayBufferPER, transcribed section by section.              *)
(*                                                                            *)
(* Slots hold tagged rows (device D1): a "step" row [ep, t] is step t of      *)
(* episode ep (its observation is obs(ep,t), its successor obs(ep,t+1)); an   *)
(* "extra" row is the successor row written after an episode ends (its        *)
(* observation is obs(ep,t), reward 0, other fields copied from the last      *)
(* step).  mask[s] = 1 marks s as an admissible start of a subtrajectory.     *)
EXTENDS Integers, Sequences, FiniteSets, TLC, Json

CONSTANTS N,        \* capacity
          H,        \* storage horizon
          MaxAdds,  \* bound on add_sample calls
          PRIO,     \* TRUE: prioritized variant (priority array, max priority, updates)
          PrioVals, \* priorities that update_priority may write
          MaxBatch, \* batch sizes explored for prioritized sampling / update
          EMIT

VARIABLES slots,   \* Seq(N) of [kind, ep, t, term, trunc]
          mask,    \* Seq(N) of 0/1
          ins, len,
          epT,     \* episode_timesteps
          envTerm, \* environment_terminates
          ep,      \* ghost: number of the current episode
          adds,    \* ghost: number of add_sample calls
          prio,    \* Seq(N) of Nat, 0 = never initialised   (PRIO only)
          maxPrio, \* tracked maximum priority              (PRIO only)
          sampled  \* start indices of the most recent batch (PRIO only)

vars == <<slots, mask, ins, len, epT, envTerm, ep, adds, prio, maxPrio, sampled>>
View == [slots |-> slots, mask |-> mask, ins |-> ins, len |-> len, epT |-> epT,
         envTerm |-> envTerm, prio |-> prio, maxPrio |-> maxPrio, sampled |-> sampled]

None == [kind |-> "none", ep |-> 0, t |-> 0, term |-> FALSE, trunc |-> FALSE]
Min(a, b) == IF a < b THEN a ELSE b
Max(a, b) == IF a < b THEN b ELSE a

(* PRIO only: the model value of the initial tracked maximum (max_priority = 1.0 in the code); a model priority p  *)
(* stands for the real priority p / PrioDefault.  A definition (not a CONSTANT: configurations that do not mention *)
(* it - all of C04's - keep PrioDefault = 1); C08 selects a lattice with priorities BELOW and above the initial     *)
(* maximum by the definition override  CONSTANT PrioDefault <- PrioDefault2  (PrioVals {1,3} are then 0.5 and 1.5). *)
PrioDefault == 1
PrioDefault2 == 2
PrioDefault4 == 4

Emit(op, args, exp) ==
  EMIT => PrintT(<<"EMIT", ToJson([pre |-> View, op |-> op, args |-> args, exp |-> exp, post |-> View'])>>)

Init == /\ slots = [i \in 1..N |-> None] /\ mask = [i \in 1..N |-> 0]
        /\ ins = 0 /\ len = 0 /\ epT = 0 /\ envTerm = FALSE /\ ep = 0 /\ adds = 0
        /\ prio = [i \in 1..N |-> 0] /\ maxPrio = PrioDefault /\ sampled = <<>>

----------------------------------------------------------------------------
(* add_sample(end): the two flags of the stored step                                                              *)
(*   "cont"  neither flag                 "term"  terminated only                                                 *)
(*   "trunc" truncated only               "both"  terminated AND truncated on the same step (gymnasium's          *)
(*           TimeLimit sets truncated on the step that reaches the limit even if the wrapped environment          *)
(*           terminates on that very step)                                                                        *)
(* A "both" step is a truncated step: C04 ("never contains a truncated step") demands that no admissible window   *)
(* reaches it, so the tail of its episode is masked out exactly as for "trunc" - truncation takes precedence     *)
(* over termination in the end-of-episode bookkeeping; it is a terminated step as well: it makes                  *)
(* environment_terminates true and the successor row copies both flags.                                           *)
(* Ends: the kinds Next explores.  A definition, not a CONSTANT (configurations that do not mention it - C08's    *)
(* and C19's - keep the three single-flag kinds); C04 selects all four by  CONSTANT Ends <- EndsBoth.             *)
Ends == {"cont", "term", "trunc"}
EndsBoth == {"cont", "term", "trunc", "both"}
IsTerm(end) == end \in {"term", "both"}
IsTrunc(end) == end \in {"trunc", "both"}

(* tailOn: the value the end-of-episode bookkeeping writes for the last min(episode_timesteps, H) steps;          *)
(* earlyClear: FALSE = the order of the mask statements in the code (clear the written slot, enable the start H   *)
(* behind, clear the successor row's slot, tail); TRUE is the deviation of canary (d) below                       *)
AddResultP(end, tailOn, earlyClear) ==
  LET isT   == IsTerm(end)
      isTr  == IsTrunc(end)
      row   == [kind |-> "step", ep |-> ep, t |-> epT, term |-> isT, trunc |-> isTr]
      s1    == [slots EXCEPT ![ins + 1] = row]
      len1  == Min(len + 1, N)
      epT1  == epT + 1
      ins1  == (ins + 1) % N
      m0    == [mask EXCEPT ![ins + 1] = 0]
      m1    == IF earlyClear /\ end # "cont" THEN [m0 EXCEPT ![ins1 + 1] = 0] ELSE m0
      (* a start becomes admissible once H further steps of its episode exist; at the smallest capacity          *)
      (* N = H + 1 this slot, (ins - H) % N, IS the slot (ins + 1) % N the successor row goes to                  *)
      m2    == IF epT1 > H THEN [m1 EXCEPT ![((ins - H) % N) + 1] = 1] ELSE m1
  IN IF end = "cont"
     THEN [slots |-> s1, mask |-> m2, ins |-> ins1, len |-> len1, epT |-> epT1,
           written |-> <<ins>>]
     ELSE
       LET extra == [kind |-> "extra", ep |-> ep, t |-> epT1, term |-> isT, trunc |-> isTr]
           s2    == [s1 EXCEPT ![ins1 + 1] = extra]
           m3    == IF earlyClear THEN m2 ELSE [m2 EXCEPT ![ins1 + 1] = 0]
           past  == {((ins1 - k - 1) % N) + 1 : k \in 0..(Min(epT1, H) - 1)}
           m4    == [i \in 1..N |-> IF i \in past THEN (IF tailOn THEN 1 ELSE 0) ELSE m3[i]]
       IN [slots |-> s2, mask |-> m4, ins |-> (ins1 + 1) % N, len |-> Min(len1 + 1, N),
           epT |-> 0, written |-> <<ins, ins1>>]

(* tail starts: masked out whenever the final step is truncated ("trunc", "both"), admissible for "term" *)
AddResult(end) == AddResultP(end, ~IsTrunc(end), FALSE)

Add(end) ==
  /\ adds < MaxAdds
  /\ LET r == AddResult(end) IN
       /\ slots' = r.slots /\ mask' = r.mask /\ ins' = r.ins /\ len' = r.len /\ epT' = r.epT
       /\ envTerm' = (envTerm \/ IsTerm(end))
       /\ ep' = IF end = "cont" THEN ep ELSE ep + 1
       /\ adds' = adds + 1
       (* prioritized variant: every newly written row gets the current maximum priority *)
       /\ prio' = IF PRIO THEN [i \in 1..N |-> IF \E j \in 1..Len(r.written) : r.written[j] + 1 = i
                                               THEN maxPrio ELSE prio[i]]
                  ELSE prio
       /\ UNCHANGED <<maxPrio, sampled>>
  /\ Emit("Add", <<end, ep, epT>>, <<>>)

----------------------------------------------------------------------------
(* sampling *)
Starts == {s \in 0..(N - 1) : mask[s + 1] = 1}
WindowIdx(s, h) == [k \in 1..h |-> (s + (k - 1)) % len]
Window(s, h) == [k \in 1..h |-> slots[WindowIdx(s, h)[k] + 1]]
OnesBefore(s) == Cardinality({i \in 0..(s - 1) : mask[i + 1] = 1})

(* priority mass: prio * mask over the filled region 0..len-1 *)
W(i) == IF i < len THEN prio[i + 1] * mask[i + 1] ELSE 0
RECURSIVE Cum(_)
Cum(i) == IF i < 0 THEN 0 ELSE Cum(i - 1) + W(i)
Total == Cum(len - 1)
(* tick k in 1..Total selects the unique slot i with Cum(i-1) < k <= Cum(i) *)
Select(k) == CHOOSE i \in 0..(len - 1) : Cum(i - 1) < k /\ k <= Cum(i)

(* uniform variant: one start, any sampling horizon <= H, both views *)
Sample(s, h, inter) ==
  /\ ~PRIO /\ s \in Starts /\ h \in 1..H
  /\ UNCHANGED vars
  /\ Emit("Sample", [s |-> s, h |-> h, inter |-> inter, pos |-> OnesBefore(s),
                     ones |-> Cardinality(Starts), len |-> len],
          [idx |-> WindowIdx(s, h), rows |-> Window(s, h)])

(* uniform variant with data stored but no admissible start yet (warm-up: the first episode is not longer than the
   horizon, or every stored episode was truncated early): there is nothing that may be sampled - the request is
   rejected loudly, it must not hand out a window *)
SampleNone ==
  /\ ~PRIO /\ Starts = {} /\ len > 0
  /\ UNCHANGED vars
  /\ Emit("SampleNone", <<len>>, "error")

(* prioritized variant: a batch of ticks; remembers the selected starts *)
TickVectors == UNION {[1..b -> 1..Total] : b \in 1..MaxBatch}
SamplePrio(ticks, h, inter) ==
  /\ PRIO /\ Total > 0 /\ h \in 1..H
  /\ (Len(ticks) = 1 \/ (h = H /\ inter))   \* larger batches only in the full intermediate view
  /\ sampled' = [j \in 1..Len(ticks) |-> Select(ticks[j])]
  /\ UNCHANGED <<slots, mask, ins, len, epT, envTerm, ep, adds, prio, maxPrio>>
  /\ Emit("SamplePrio", [ticks |-> ticks, h |-> h, inter |-> inter, total |-> Total, len |-> len],
          [starts |-> sampled',
           rows |-> [j \in 1..Len(ticks) |-> Window(Select(ticks[j]), h)]])

(* update_priority: exactly the most recently sampled starts get the supplied values *)
ValVectors(b) == [1..b -> PrioVals]
RECURSIVE SeqMax(_, _)
SeqMax(s, k) == IF k = 0 THEN 0 ELSE Max(SeqMax(s, k - 1), s[k])
UpdatePriority(vals) ==
  /\ PRIO /\ Len(sampled) > 0 /\ Len(vals) = Len(sampled)
  (* numpy fancy assignment: for duplicate indices the last value wins *)
  /\ prio' = [i \in 1..N |->
               IF \E j \in 1..Len(sampled) : sampled[j] + 1 = i
               THEN vals[CHOOSE j \in 1..Len(sampled) :
                          sampled[j] + 1 = i /\ \A j2 \in 1..Len(sampled) : sampled[j2] + 1 = i => j2 <= j]
               ELSE prio[i]]
  /\ maxPrio' = Max(maxPrio, SeqMax(vals, Len(vals)))
  /\ UNCHANGED <<slots, mask, ins, len, epT, envTerm, ep, adds, sampled>>
  /\ Emit("UpdatePriority", <<vals>>, <<>>)

(* reset_max_priority: the true maximum over the filled region (masked slots included), whether it lies above, *)
(* at or below the initial value PrioDefault; an empty buffer keeps its tracked maximum                         *)
TrueMax == SeqMax([i \in 1..len |-> prio[i]], len)
ResetMax ==
  /\ PRIO
  /\ maxPrio' = IF len > 0 THEN TrueMax ELSE maxPrio
  /\ UNCHANGED <<slots, mask, ins, len, epT, envTerm, ep, adds, prio, sampled>>
  /\ Emit("ResetMax", <<>>, <<>>)

Next == \/ \E e \in Ends : Add(e)
        \/ \E s \in Starts, h \in 1..H, inter \in BOOLEAN : Sample(s, h, inter)
        \/ SampleNone
        \/ \E t \in TickVectors, h \in 1..H, inter \in BOOLEAN : SamplePrio(t, h, inter)
        \/ \E b \in 1..MaxBatch : \E v \in ValVectors(b) : UpdatePriority(v)
        \/ ResetMax

Spec == Init /\ [][Next]_vars
----------------------------------------------------------------------------
(* C04 *)
FirstTerm(w) == IF \E k \in 1..Len(w) : w[k].term
                THEN CHOOSE k \in 1..Len(w) : w[k].term /\ \A k2 \in 1..(k - 1) : ~w[k2].term
                ELSE Len(w)

(* every admissible start, every sampling horizon: up to and including its first  *)
(* terminated step the window is a contiguous run of step rows of one episode in  *)
(* order, none truncated; all rows are written slots                              *)
WindowsValid ==
  \A s \in Starts : \A h \in 1..H :
    LET w == Window(s, h)
        j == FirstTerm(w)
    IN /\ s < len
       /\ \A k \in 1..h : w[k].kind # "none"
       /\ \A k \in 1..j : /\ w[k].kind = "step"
                          /\ ~w[k].trunc
                          /\ w[k].ep = w[1].ep
                          /\ w[k].t = w[1].t + (k - 1)

MaskOnlyWritten == \A i \in 1..N : mask[i] = 1 => slots[i].kind = "step" /\ i <= len
LenExact == len = Min(Cardinality({i \in 1..N : slots[i].kind # "none"}), N) /\ (len < N => ins = len)
EnvTermSticky == [][envTerm => envTerm']_vars

(* C08 on the prioritized variant *)
MaxDominates == PRIO => \A i \in 1..len : prio[i] <= maxPrio
NewGetMax == PRIO => \A i \in 1..len : prio[i] >= 1
Proportional == (PRIO /\ len > 0) =>
  \A i \in 0..(len - 1) : Cardinality({k \in 1..Total : Select(k) = i}) = prio[i + 1] * mask[i + 1]
NeverMasked == (PRIO /\ len > 0) => \A k \in 1..Total : mask[Select(k) + 1] = 1 /\ Select(k) < len
(* a step that lowers the tracked maximum is a reset and leaves exactly the true maximum *)
ResetExact == [][(PRIO /\ maxPrio' < maxPrio) => (len > 0 /\ UNCHANGED <<prio, len>> /\ maxPrio' = TrueMax)]_vars
(* reachability target (C08 requires TLC to REFUTE it in the lattice it uses): a state where a reset has to go  *)
(* below the initial maximum - every sampleable priority was updated to a value below PrioDefault and the rest   *)
(* overwritten by additions that received such a maximum                                                         *)
NeverAllBelow == ~(PRIO /\ len > 0 /\ maxPrio < PrioDefault /\ \A i \in 1..len : prio[i] < PrioDefault)

----------------------------------------------------------------------------
(* Deviation canaries *)
(* (a) tail starts of a truncated episode left admissible *)
AddTruncTailOn(end) ==
  /\ adds < MaxAdds
  /\ LET r == AddResult(IF end = "trunc" THEN "term" ELSE end)
         fix(row) == IF end = "trunc" /\ row.ep = ep /\ row.term /\ row.kind # "none"
                     THEN [row EXCEPT !.term = FALSE, !.trunc = TRUE] ELSE row
     IN /\ slots' = [i \in 1..N |-> fix(r.slots[i])]
        /\ mask' = r.mask /\ ins' = r.ins /\ len' = r.len /\ epT' = r.epT
  /\ envTerm' = (envTerm \/ end = "term")
  /\ ep' = IF end = "cont" THEN ep ELSE ep + 1
  /\ adds' = adds + 1
  /\ UNCHANGED <<prio, maxPrio, sampled>>
NextBadTrunc == \E e \in {"cont", "term", "trunc"} : AddTruncTailOn(e)

(* (c) termination takes precedence over truncation in the end-of-episode bookkeeping: the tail of an episode   *)
(* whose final step is terminated and truncated at once is left admissible                                       *)
AddTermWins(end) ==
  /\ adds < MaxAdds
  /\ LET r == AddResultP(end, IsTerm(end), FALSE)
     IN slots' = r.slots /\ mask' = r.mask /\ ins' = r.ins /\ len' = r.len /\ epT' = r.epT
  /\ envTerm' = (envTerm \/ IsTerm(end))
  /\ ep' = IF end = "cont" THEN ep ELSE ep + 1
  /\ adds' = adds + 1
  /\ UNCHANGED <<prio, maxPrio, sampled>>
NextBadBoth == \E e \in EndsBoth : AddTermWins(e)

(* (d) both written slots invalidated up front, before the start H behind is enabled: at N = H + 1 the successor *)
(* row of an episode longer than H stays an admissible start                                                     *)
AddEarlyClear(end) ==
  /\ adds < MaxAdds
  /\ LET r == AddResultP(end, ~IsTrunc(end), TRUE)
     IN slots' = r.slots /\ mask' = r.mask /\ ins' = r.ins /\ len' = r.len /\ epT' = r.epT
  /\ envTerm' = (envTerm \/ IsTerm(end))
  /\ ep' = IF end = "cont" THEN ep ELSE ep + 1
  /\ adds' = adds + 1
  /\ UNCHANGED <<prio, maxPrio, sampled>>
NextBadEarlyClear == \E e \in EndsBoth : AddEarlyClear(e)

(* (b) windows wrapped modulo capacity instead of modulo current length *)
WindowBadMod(s, h) == [k \in 1..h |-> slots[((s + (k - 1)) % N) + 1]]
WindowsValidBadMod ==
  \A s \in Starts : \A h \in 1..H : \A k \in 1..h : WindowBadMod(s, h)[k].kind # "none"
=============================================================================
