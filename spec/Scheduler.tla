--------------------------- MODULE Scheduler ---------------------------
(* C11, scheduler clauses.  Four state machines over the operators of         *)
(* SchedulerOps.tla, selected by MODE:                                        *)
(*   "sel"  a task selector object driven by its caller (select / feedback,   *)
(*          accepted or rejected): TaskSelector, RoundRobinSelector,          *)
(*          DUCBGeneralized, and the bare bandit mapb.DUCB                    *)
(*   "uts"  train_uts          over the scripted single-task learner          *)
(*   "amt"  train_active_mt    (selector + learner + per-task bookkeeping)    *)
(*   "smt"  train_smt          (two stages, pools, per-task budgets)          *)
(* One action per call / loop body of the code.                               *)
EXTENDS SchedulerOps, TLC, Json

CONSTANTS MODE, EMIT,
          KIND, NT, GAMMA, WIN, BASELINE, OP, HG, TIE,   \* selector parameters
          REWARDS,      \* feedback values offered to the selector ("sel")
          MAXROUNDS,    \* bound on selections ("sel") / calls ("uts")
          MAXREJ,       \* out-of-turn calls are explored while at most MAXREJ selections were made
          T,            \* total_timesteps (uts, amt) / b1 (smt)
          B2,           \* b2 (smt)
          EPI,          \* episodes per call: episodes_per_task / scheduling_interval
          MAXLEN,       \* episode lengths 1..MAXLEN
          LMODE,        \* learner reports "exact" (start+executed) or "short"
          EXPL,         \* exploring_starts of train_uts (warm-up in absolute steps)
          KK, KAPPA, NAV, RETS, SOLVEDT, UNSOLVT   \* smt: K, kappa, n_average, episode returns, thresholds

VARIABLES sel,    \* selector object (SelInit record)
          acct,   \* bookkeeping of the scheduler (per MODE)
          hist,   \* ghost: every id handed out by select / every task trained
          nfb     \* ghost: number of accepted feedbacks

vars == <<sel, acct, hist, nfb>>

P == [kind |-> KIND, nt |-> NT, gamma |-> GAMMA, W |-> WIN, baseline |-> BASELINE, op |-> OP, hg |-> HG, tie |-> TIE]
C == [nt |-> NT, b1 |-> T, b2 |-> B2, K |-> KK, kappa |-> KAPPA, E |-> EPI, nav |-> NAV,
      solvedT |-> SOLVEDT, unsolvT |-> UNSOLVT]

(* value sets for the cfg files (cfg cannot hold negative numbers) *)
RewA      == {I(0), Q(1, 2), I(1)}
RewTwo    == {I(0), I(1)}
RewConst  == {I(1)}            \* all arms tie for ever: only the window decides
RewSigned == {I(-1), Q(1, 2), I(1)}
RewAvg    == {I(-15), I(0), I(15)}
RetsSmt   == {I(-2), I(0), I(2)}
MinusOne  == I(-1)
QHalf     == Q(1, 2)
QQuarter  == Q(1, 4)
Q3Quarter == Q(3, 4)
QOne      == One
PlusOne   == I(1)

View == SelView(P, sel)
Emit(op, args, exp) ==
  EMIT => PrintT(<<"EMIT", ToJson([pre |-> View, op |-> op, args |-> args, exp |-> exp, post |-> SelView(P, sel')])>>)

Tasks == 0..(NT - 1)
LenVecs == [1..EPI -> 1..MAXLEN]
RetVecs == [1..EPI -> RETS]

Init == /\ sel = SelInit(P)
        /\ hist = <<>> /\ nfb = 0
        /\ acct \in CASE MODE = "uts" -> {UtsInit}
                      [] MODE = "amt" -> {AmtInit(NT)}
                      [] MODE = "smt" -> {SmtStart(C, p) : p \in SmtInitialPools(C)}
                      [] OTHER        -> {[gs |-> 0]}

----------------------------------------------------------------------------
(* MODE "sel": the selector protocol *)
SelAdmissible == IF KIND \in {"gen", "ducb"} /\ ~sel.waiting THEN ChooseSet(P, sel.chosen, sel.rewards) ELSE {}

Select == /\ MODE = "sel" /\ Len(hist) < MAXROUNDS
          /\ \E pr \in SelSelectSet(P, sel) :
               /\ sel' = pr[1] /\ hist' = Append(hist, pr[2])
               /\ UNCHANGED <<acct, nfb>>
               /\ Emit("Select", <<>>, [id |-> pr[2], adm |-> SelAdmissible])

(* a second select without feedback is rejected loudly, nothing changes *)
SelectRejected == /\ MODE = "sel" /\ KIND # "ducb" /\ sel.waiting /\ Len(hist) <= MAXREJ
                  /\ UNCHANGED vars
                  /\ Emit("SelectRejected", <<>>, "AssertionError")

Feedback(r) == /\ MODE = "sel" /\ sel.waiting
               /\ sel' = SelFeedback(P, sel, r) /\ nfb' = nfb + 1
               /\ UNCHANGED <<acct, hist>>
               /\ Emit("Feedback", r, "ok")

(* a feedback nobody asked for is rejected loudly, nothing changes *)
FeedbackRejected(r) == /\ MODE = "sel" /\ KIND # "ducb" /\ ~sel.waiting /\ Len(hist) <= MAXREJ
                       /\ UNCHANGED vars
                       /\ Emit("FeedbackRejected", r, "AssertionError")

SelNext == \/ Select \/ SelectRejected
           \/ \E r \in REWARDS : Feedback(r)
           \/ FeedbackRejected(CHOOSE r \in REWARDS : TRUE)

----------------------------------------------------------------------------
(* MODE "uts": while global_step < total_timesteps: task ~ uniform;           *)
(* global_step = train_st(..., global_step=global_step).global_step           *)
UtsCall == /\ MODE = "uts" /\ acct.gs < T /\ acct.calls < MAXROUNDS
           /\ \E task \in Tasks, lens \in LenVecs :
                /\ acct' = UtsAfter(acct, acct.gs, Run(acct.gs, T, EPI, lens, LMODE), UtsWarmup(EXPL, acct.gs), EXPL)
                /\ hist' = Append(hist, task)
           /\ UNCHANGED <<sel, nfb>>

(* MODE "amt": one body of the while loop of train_active_mt: select, train,  *)
(* then either the budget is exhausted (no feedback, loop left) or feedback   *)
(* with the mean return and bookkeeping from the episode statistics           *)
AmtCall == /\ MODE = "amt" /\ ~acct.over /\ acct.gs < T
           /\ \E pr \in SelSelectSet(P, sel), lens \in LenVecs, rets \in RetVecs :
                LET run == Run(acct.gs, T, EPI, lens, LMODE) IN
                /\ acct' = AmtAfter(acct, T, EPI, pr[2], run)
                /\ hist' = Append(hist, pr[2])
                /\ IF run.done = EPI
                     THEN sel' = SelFeedback(P, pr[1], QMean(rets)) /\ nfb' = nfb + 1
                     ELSE sel' = pr[1] /\ nfb' = nfb

(* MODE "smt" *)
SmtCall == /\ MODE = "smt" /\ acct.stage \in {"s1", "s2"} /\ acct.todo # {}
           /\ \E task \in acct.todo, lens \in LenVecs, rets \in RetVecs :
                /\ acct' = SmtAfterCall(C, acct, task, Run(acct.gs, StageLimit(C, acct), EPI, lens, LMODE), rets)
                /\ hist' = Append(hist, task)
           /\ UNCHANGED <<sel, nfb>>
SmtSweepEnd == /\ MODE = "smt" /\ acct.stage \in {"s1", "s2"} /\ acct.todo = {}
               /\ acct' \in SmtAfterSweep(C, acct)
               /\ UNCHANGED <<sel, hist, nfb>>

Next == SelNext \/ UtsCall \/ AmtCall \/ SmtCall \/ SmtSweepEnd
Spec == Init /\ [][Next]_vars

----------------------------------------------------------------------------
(* Properties *)
Count(s, x) == Cardinality({k \in 1..Len(s) : s[k] = x})

(* only valid task ids are ever handed out / trained *)
SelValid == \A k \in 1..Len(hist) : hist[k] \in Tasks

(* selection and feedback strictly alternate *)
Alternates == MODE \in {"sel", "amt"} => /\ Len(hist) - nfb \in {0, 1}
                                         /\ sel.waiting <=> Len(hist) - nfb = 1
(* the training loop can always select: it never meets a selector still waiting *)
LoopCanSelect == MODE = "amt" => (sel.waiting => acct.over)

(* round robin: every task exactly once in each block of NT selections *)
RRFair == KIND = "rr" /\ MODE \in {"sel", "amt"} =>
            \A b \in 0..((Len(hist) \div NT) - 1) : {hist[b * NT + j] : j \in 1..NT} = Tasks

(* bandit histories stay aligned: one recorded reward per remembered choice *)
Aligned == KIND \in {"gen", "ducb"} /\ MODE \in {"sel", "amt"} =>
             Len(sel.chosen) = Len(sel.rewards) + (IF sel.waiting THEN 1 ELSE 0)

(* every arm is played in the initial rounds: the remembered choices start    *)
(* 0,1,..,NT-1,0,1,..,NT-1 and (gen) each arm was handed out once more before *)
InitialRoundsCoverAll ==
  KIND \in {"gen", "ducb"} /\ MODE \in {"sel", "amt"} =>
    /\ \A k \in 1..Len(sel.chosen) : k <= 2 * NT => sel.chosen[k] = (k - 1) % NT
    /\ Len(sel.rewards) >= NT => \A a \in Tasks : Count(hist, a) >= (IF KIND = "gen" THEN 2 ELSE 1)
    /\ Len(sel.rewards) >= 2 * NT => \A a \in Tasks : Count(hist, a) >= (IF KIND = "gen" THEN 3 ELSE 2)

(* after the initial rounds the arm just chosen has a maximal index (or no    *)
(* weight in the window at all); stated without ArgMaxSet                     *)
ChoiceMaximises ==
  KIND \in {"gen", "ducb"} /\ MODE \in {"sel", "amt"} /\ sel.waiting /\ ~InitialRounds(P, sel.rewards) =>
    LET ch == Front(sel.chosen)
        a  == sel.chosen[Len(sel.chosen)]
        un == Unplayed(P, ch, sel.rewards)
    IN IF un # {} THEN a \in un
       ELSE LET iv == IndexVec(P, ch, sel.rewards) IN \A b \in 1..NT : QLe(iv[b], iv[a + 1])

(* numpy's first maximiser is one of the maximisers (refinement of the choice) *)
FirstRefines == KIND \in {"gen", "ducb"} /\ ~sel.waiting =>
                  ChooseFirst(P, sel.chosen, sel.rewards) \in ChooseSet(P, sel.chosen, sel.rewards)

(* accounting *)
Executed == IF MODE = "uts" THEN acct.exec ELSE IF MODE \in {"amt", "smt"} THEN ISum(acct.exec) ELSE 0
Budget   == IF MODE = "smt" THEN T + B2 ELSE T
BudgetRespected == Executed <= Budget
UtsExact == MODE = "uts" => acct.gs = acct.exec
(* no parameter update before exploring_starts environment steps have been executed *)
NoUpdateBeforeWarmup == MODE = "uts" => ~acct.early
PerTaskExact == MODE \in {"amt", "smt"} => \A k \in 1..NT : acct.ts[k] = acct.exec[k]
CounterExact == /\ MODE = "amt" => (IF acct.over THEN ISum(acct.ts) = T ELSE ISum(acct.ts) = acct.gs)
                /\ MODE = "smt" => ISum(acct.ts) = acct.gs /\ acct.gs <= StageLimit(C, acct)

(* smt pools *)
Partition == MODE = "smt" => SmtPartition(C, acct)
Stage2Pool == MODE = "smt" /\ acct.stage = "s2" =>
                /\ acct.s2 # {} /\ acct.todo \subseteq acct.s2
                /\ acct.s2 = (IF acct.unsolv # {} THEN acct.unsolv ELSE acct.main)
PoolSizes == MODE = "smt" => Cardinality(acct.upd) <= KK
(* tasks move only training->solved/unsolvable/main and main->training (action property) *)
PoolMovesOK == [][MODE = "smt" => \A t \in Tasks :
                    \/ PoolOf(acct, t) = PoolOf(acct', t)
                    \/ <<PoolOf(acct, t), PoolOf(acct', t)>> \in PoolMoves]_vars
(* stage 2 trains nothing but its pool; solved tasks are never trained again *)
TrainsOnlyPool == [][MODE = "smt" /\ hist' # hist =>
                      LET t == hist'[Len(hist')] IN
                      IF acct.stage = "s1" THEN t \in acct.upd ELSE t \in acct.s2]_vars

----------------------------------------------------------------------------
(* Deviation canaries (must be refuted) *)
(* the loop dropped the feedback, select is called twice and goes through *)
Select_IgnoresWaiting ==
  /\ MODE = "sel" /\ Len(hist) < MAXROUNDS
  /\ \E pr \in SelSelectSet(P, [sel EXCEPT !.waiting = FALSE]) :
       sel' = pr[1] /\ hist' = Append(hist, pr[2]) /\ UNCHANGED <<acct, nfb>>
NextSelBad == SelNext \/ Select_IgnoresWaiting

(* DUCBGeneralized that keeps the arm of a baseline-only feedback in the bandit's memory *)
Feedback_KeepsFirst(r) ==
  /\ MODE = "sel" /\ sel.waiting
  /\ sel' = [SelFeedback(P, sel, r) EXCEPT !.chosen = sel.chosen]
  /\ nfb' = nfb + 1 /\ UNCHANGED <<acct, hist>>
NextGenBad == Select \/ \E r \in REWARDS : Feedback_KeepsFirst(r)

(* train_uts that hands over "what is left of the warm-up" although the learner *)
(* compares it with the absolute counter                                       *)
UtsCall_RelativeWarmup ==
  /\ MODE = "uts" /\ acct.gs < T /\ acct.calls < MAXROUNDS
  /\ \E task \in Tasks, lens \in LenVecs :
       /\ acct' = UtsAfter(acct, acct.gs, Run(acct.gs, T, EPI, lens, LMODE), UtsWarmupRelative(EXPL, acct.gs), EXPL)
       /\ hist' = Append(hist, task)
  /\ UNCHANGED <<sel, nfb>>
NextUtsBad == UtsCall_RelativeWarmup

(* bookkeeping from the learner's reported count instead of the environment's *)
(* statistics: wrong as soon as a learner reports one short                   *)
AmtCall_CountsReported ==
  /\ MODE = "amt" /\ ~acct.over /\ acct.gs < T
  /\ \E pr \in SelSelectSet(P, sel), lens \in LenVecs, rets \in RetVecs :
       LET run == Run(acct.gs, T, EPI, lens, LMODE)
           n   == run.reported - acct.gs IN
       /\ acct' = [acct EXCEPT !.ts[pr[2] + 1] = @ + n, !.exec[pr[2] + 1] = @ + run.executed, !.gs = @ + n]
       /\ hist' = Append(hist, pr[2])
       /\ sel' = SelFeedback(P, pr[1], QMean(rets)) /\ nfb' = nfb + 1
NextAmtBad == AmtCall_CountsReported

(* refill that copies the worst task into the training pool but leaves it in the main pool *)
SmtSweepEnd_KeepsInMain ==
  /\ MODE = "smt" /\ acct.stage = "s1" /\ acct.todo = {}
  /\ \E nx \in SmtAfterSweep(C, acct) : acct' = [nx EXCEPT !.main = acct.main]
  /\ UNCHANGED <<sel, hist, nfb>>
NextSmtBad == SmtCall \/ SmtSweepEnd_KeepsInMain
=============================================================================
