--------------------------- MODULE RingPrio ---------------------------
(* Prioritized ring buffers: rl_blox.blox.replay_buffer.LAP (plain            *)
(* proportional sampling), PrioritizedReplayBuffer (stratified sampling +     *)
(* importance weights) and their MultiTaskReplayBuffer wrapper (K > 1).       *)
(* Priorities are small naturals so that proportionality is a counting        *)
(* statement over "ticks": the uniform variate u is represented by the        *)
(* half-integer point tick - 1/2 of the cumulative priority mass.             *)
(* A model priority p stands for the real priority p / Default, where Default *)
(* is the model value of the tracked maximum of a fresh buffer (max_priority  *)
(* = 1.0 in the code): with Default = 2 and PrioVals = {1, 3} update_priority *)
(* writes 0.5 and 1.5, i.e. values BELOW and ABOVE the initial maximum, and   *)
(* histories in which every stored priority lies below it are reachable       *)
(* (LAP with a minimum priority < 1, PER priorities |delta|^alpha + eps).     *)
(* Sampling, strata and importance weights do not depend on the unit.         *)
EXTENDS Integers, Sequences, FiniteSets, TLC, Json, Exact

CONSTANTS K,         \* number of tasks (1 = bare buffer)
          N, MaxAdds,
          PrioVals,  \* values update_priority may write
          MaxBatch,
          STRAT,     \* TRUE: stratified sampling (PrioritizedReplayBuffer)
          EMIT

VARIABLES bufs,     \* [0..K-1 -> [store, prio : Seq(N); ins, len, maxPrio; sampled : Seq]]
          sel, active, sampledTask,
          cnt,
          last      \* ghost: name of the last operation

vars == <<bufs, sel, active, sampledTask, cnt, last>>
Tasks == 0..(K - 1)
View == [bufs |-> [t \in Tasks |-> bufs[t]], sel |-> sel, active |-> active,
         sampledTask |-> sampledTask, cnt |-> cnt]

Min(a, b) == IF a < b THEN a ELSE b
Max(a, b) == IF a < b THEN b ELSE a

(* the initial tracked maximum in model units.  A definition, not a CONSTANT, so that configurations that do   *)
(* not mention it (spec/apalache/RingPrioRefines*.cfg, other drivers) keep the unit lattice Default = 1; a      *)
(* configuration selects another lattice by the definition override  CONSTANT Default <- Default2.              *)
Default == 1
Default2 == 2
Default3 == 3   \* real priorities in thirds: not representable in binary floating point of any width
Default4 == 4

Emit(op, args, exp) ==
  EMIT => PrintT(<<"EMIT", ToJson([pre |-> View, op |-> op, args |-> args, exp |-> exp, post |-> View'])>>)

Empty == [store |-> [i \in 1..N |-> 0], prio |-> [i \in 1..N |-> 0], ins |-> 0, len |-> 0,
          maxPrio |-> Default, sampled |-> <<>>]
Init == /\ bufs = [t \in Tasks |-> Empty] /\ sel = 0 /\ active = {} /\ sampledTask = -1 /\ cnt = 0 /\ last = "init"

Select(k) == /\ K > 1 /\ k \in Tasks /\ sel' = k /\ last' = "select"
             /\ UNCHANGED <<bufs, active, sampledTask, cnt>>
             /\ Emit("Select", <<k>>, "ok")

(* add_sample: the new transition gets the buffer's current maximum priority *)
Add == /\ cnt < MaxAdds
       /\ LET b == bufs[sel] IN
            bufs' = [bufs EXCEPT ![sel] =
                      [b EXCEPT !.store = [b.store EXCEPT ![b.ins + 1] = cnt + 1],
                                !.prio  = [b.prio EXCEPT ![b.ins + 1] = b.maxPrio],
                                !.ins = (b.ins + 1) % N, !.len = Min(b.len + 1, N)]]
       /\ active' = active \cup {sel} /\ cnt' = cnt + 1 /\ last' = "add"
       /\ UNCHANGED <<sel, sampledTask>>
       /\ Emit("Add", <<cnt + 1>>, <<>>)

----------------------------------------------------------------------------
W(b, i) == IF i < b.len THEN b.prio[i + 1] ELSE 0
RECURSIVE Cum(_, _)
Cum(b, i) == IF i < 0 THEN 0 ELSE Cum(b, i - 1) + W(b, i)
Total(b) == Cum(b, b.len - 1)
Pick(b, k) == CHOOSE i \in 0..(b.len - 1) : Cum(b, i - 1) < k /\ k <= Cum(b, i)

(* stratified: the j-th point tick-1/2 lies in [(j-1)*Total/n, j*Total/n) *)
InStratum(b, ticks, j) ==
  LET n == Len(ticks) T == Total(b) IN
    2 * (j - 1) * T <= n * (2 * ticks[j] - 1) /\ n * (2 * ticks[j] - 1) < 2 * j * T
TickVectors(b) ==
  LET all == UNION {[1..n -> 1..Total(b)] : n \in 1..MaxBatch}
  IN IF STRAT THEN {tv \in all : \A j \in 1..Len(tv) : InStratum(b, tv, j)} ELSE all

(* importance weights for beta = 1: (min p / p_j), exact rationals; beta = 0: all ones *)
BatchPrio(b, idx) == [j \in 1..Len(idx) |-> b.prio[idx[j] + 1]]
RECURSIVE SeqMin(_, _)
SeqMin(s, k) == IF k = 1 THEN s[1] ELSE Min(SeqMin(s, k - 1), s[k])
Weights1(b, idx) == LET p == BatchPrio(b, idx) m == SeqMin(p, Len(p))
                    IN [j \in 1..Len(p) |-> Q(m, p[j])]

Sample(t, ticks) ==
  /\ t \in active /\ Total(bufs[t]) > 0
  /\ LET b == bufs[t]
         idx == [j \in 1..Len(ticks) |-> Pick(b, ticks[j])]
     IN /\ bufs' = [bufs EXCEPT ![t].sampled = idx]
        /\ sampledTask' = t /\ last' = "sample"
        /\ UNCHANGED <<sel, active, cnt>>
        /\ Emit("Sample", [task |-> t, ticks |-> ticks, total |-> Total(b), len |-> b.len, active |-> active],
                [idx |-> idx, rows |-> [j \in 1..Len(idx) |-> b.store[idx[j] + 1]],
                 w1 |-> Weights1(b, idx)])

RECURSIVE SeqMax(_, _)
SeqMax(s, k) == IF k = 0 THEN 0 ELSE Max(SeqMax(s, k - 1), s[k])
(* update_priority: exactly the rows of the most recent batch (of the task it came from) *)
UpdatePriority(vals) ==
  /\ sampledTask \in Tasks
  /\ LET b == bufs[sampledTask] IN
       /\ Len(b.sampled) > 0 /\ Len(vals) = Len(b.sampled)
       /\ bufs' = [bufs EXCEPT ![sampledTask] =
            [b EXCEPT !.prio = [i \in 1..N |->
                 IF \E j \in 1..Len(b.sampled) : b.sampled[j] + 1 = i
                 THEN vals[CHOOSE j \in 1..Len(b.sampled) :
                            b.sampled[j] + 1 = i /\ \A j2 \in 1..Len(b.sampled) : b.sampled[j2] + 1 = i => j2 <= j]
                 ELSE b.prio[i]],
               !.maxPrio = Max(b.maxPrio, SeqMax(vals, Len(vals)))]]
  /\ UNCHANGED <<sel, active, sampledTask, cnt>> /\ last' = "update"
  /\ Emit("UpdatePriority", <<vals>>, <<>>)

(* the true maximum: the largest stored priority of the filled region (b.len > 0) *)
TrueMax(b) == SeqMax([i \in 1..b.len |-> b.prio[i]], b.len)
(* reset_max_priority: every task's tracked maximum becomes its true maximum - whether that lies above, at or *)
(* below the initial value Default; an empty buffer keeps its tracked maximum                                  *)
ResetMax ==
  /\ bufs' = [t \in Tasks |->
       [bufs[t] EXCEPT !.maxPrio = IF bufs[t].len > 0 THEN TrueMax(bufs[t]) ELSE bufs[t].maxPrio]]
  /\ UNCHANGED <<sel, active, sampledTask, cnt>> /\ last' = "reset"
  /\ Emit("ResetMax", <<>>, <<>>)

Next == \/ \E k \in Tasks : Select(k)
        \/ Add
        \/ \E t \in active : \E tv \in TickVectors(bufs[t]) : Sample(t, tv)
        \/ \E n \in 1..MaxBatch : \E v \in [1..n -> PrioVals] : UpdatePriority(v)
        \/ ResetMax
Spec == Init /\ [][Next]_vars
----------------------------------------------------------------------------
(* C08 *)
Proportional == \A t \in Tasks : LET b == bufs[t] IN b.len > 0 =>
  \A i \in 0..(b.len - 1) : Cardinality({k \in 1..Total(b) : Pick(b, k) = i}) = b.prio[i + 1]
OnlyFilled == \A t \in Tasks : LET b == bufs[t] IN
  \A k \in 1..Total(b) : Pick(b, k) < b.len /\ b.store[Pick(b, k) + 1] # 0
MaxDominates == \A t \in Tasks : \A i \in 1..bufs[t].len : bufs[t].prio[i] <= bufs[t].maxPrio
Positive == \A t \in Tasks : \A i \in 1..bufs[t].len : bufs[t].prio[i] >= 1
(* importance weights lie in (0,1], have maximum 1, and are non-increasing in priority *)
WeightsOK == \A t \in active : LET b == bufs[t] IN
  \A tv \in TickVectors(b) :
    LET idx == [j \in 1..Len(tv) |-> Pick(b, tv[j])]
        w == Weights1(b, idx) p == BatchPrio(b, idx) IN
      /\ \A j \in 1..Len(w) : QLt(Zero, w[j]) /\ QLe(w[j], One)
      /\ \E j \in 1..Len(w) : QEq(w[j], One)
      /\ \A j1, j2 \in 1..Len(w) : p[j1] <= p[j2] => QLe(w[j2], w[j1])
(* an update touches only the last batch's rows of the task the batch came from *)
UpdateFrame == [][\A t \in Tasks : \A i \in 1..N :
                   (bufs'[t].prio[i] # bufs[t].prio[i] /\ last' = "update")
                     => (t = sampledTask /\ \E j \in 1..Len(bufs[t].sampled) : bufs[t].sampled[j] + 1 = i)]_vars
(* after a reset the tracked maximum is the true maximum *)
ResetExact == last = "reset" => \A t \in Tasks : bufs[t].len > 0 => bufs[t].maxPrio = TrueMax(bufs[t])
(* ... hence the transition added right after a reset receives the true maximum of the buffer it goes to *)
NewAfterReset == [][(last = "reset" /\ last' = "add" /\ bufs[sel].len > 0)
                      => bufs'[sel].prio[bufs[sel].ins + 1] = TrueMax(bufs[sel])]_vars
(* the situations a reset has to get right, as reachability targets (the driver requires TLC to REFUTE the     *)
(* negations in the lattices it uses, otherwise the lattice is too poor): at a reset every stored priority is  *)
(* below / above the initial maximum                                                                            *)
AllBelow(b) == b.len > 0 /\ \A i \in 1..b.len : b.prio[i] < Default
AllAbove(b) == b.len > 0 /\ \A i \in 1..b.len : b.prio[i] > Default
NoResetAllBelow == ~(last = "reset" /\ \E t \in Tasks : AllBelow(bufs[t]) /\ bufs[t].len = N)
NoResetAllAbove == ~(last = "reset" /\ \E t \in Tasks : AllAbove(bufs[t]) /\ bufs[t].len = N)

(* canary: a new transition gets the initial priority (1.0) instead of the current maximum -  *)
(* proportionality still holds but NewGetsMax fails                                           *)
NewGetsMax == [][\A t \in Tasks : (cnt' = cnt + 1 /\ bufs'[t] # bufs[t])
                   => bufs'[t].prio[bufs[t].ins + 1] = bufs[t].maxPrio]_vars
AddBad == /\ cnt < MaxAdds
          /\ LET b == bufs[sel] IN
               bufs' = [bufs EXCEPT ![sel] =
                         [b EXCEPT !.store = [b.store EXCEPT ![b.ins + 1] = cnt + 1],
                                   !.prio  = [b.prio EXCEPT ![b.ins + 1] = Default],
                                   !.ins = (b.ins + 1) % N, !.len = Min(b.len + 1, N)]]
          /\ active' = active \cup {sel} /\ cnt' = cnt + 1 /\ last' = "add"
          /\ UNCHANGED <<sel, sampledTask>>
(* canary: the initial value as a floor of the recomputed maximum (max(true maximum, 1.0)) - only a lattice   *)
(* with priorities below Default can tell it from ResetMax: ResetExact and NewAfterReset must fail              *)
ResetMaxFloor ==
  /\ bufs' = [t \in Tasks |-> [bufs[t] EXCEPT !.maxPrio = IF bufs[t].len > 0 THEN Max(Default, TrueMax(bufs[t])) ELSE Default]]
  /\ UNCHANGED <<sel, active, sampledTask, cnt>> /\ last' = "reset"
NextBadReset == (\E k \in Tasks : Select(k)) \/ Add \/ (\E t \in active : \E tv \in TickVectors(bufs[t]) : Sample(t, tv))
                \/ (\E n \in 1..MaxBatch : \E v \in [1..n -> PrioVals] : UpdatePriority(v)) \/ ResetMaxFloor
(* canary: reset_max_priority recomputes only the task the last batch was sampled from ("priorities are only     *)
(* modified by update_priority, which targets that task") - several sample/update rounds on different tasks lie   *)
(* between two resets, so the other tasks keep a stale maximum: ResetExact (all tasks) must fail for K > 1        *)
ResetMaxLastSampled ==
  /\ bufs' = [t \in Tasks |->
       [bufs[t] EXCEPT !.maxPrio = IF t = sampledTask /\ bufs[t].len > 0 THEN TrueMax(bufs[t]) ELSE bufs[t].maxPrio]]
  /\ UNCHANGED <<sel, active, sampledTask, cnt>> /\ last' = "reset"
NextBadResetLast == (\E k \in Tasks : Select(k)) \/ Add \/ (\E t \in active : \E tv \in TickVectors(bufs[t]) : Sample(t, tv))
                    \/ (\E n \in 1..MaxBatch : \E v \in [1..n -> PrioVals] : UpdatePriority(v)) \/ ResetMaxLastSampled
(* reachability target (the driver requires TLC to REFUTE it in every multi-task lattice): a reset is taken while  *)
(* a task OTHER than the one of the last batch tracks a maximum above its true maximum (its priorities were        *)
(* lowered by updates since the previous reset, then a batch was drawn from another task)                         *)
NoResetStaleOther == [][~(last' = "reset" /\ \E t \in Tasks :
                           t # sampledTask /\ bufs[t].len > 0 /\ bufs[t].maxPrio > TrueMax(bufs[t]))]_vars
NextBad == AddBad \/ (\E t \in active : \E tv \in TickVectors(bufs[t]) : Sample(t, tv))
           \/ (\E n \in 1..MaxBatch : \E v \in [1..n -> PrioVals] : UpdatePriority(v))
=============================================================================
