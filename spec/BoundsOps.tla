--------------------------- MODULE BoundsOps ---------------------------
(* C10 - the arithmetic of every place where rl_blox produces an action     *)
(* for a box-shaped action space, on exact rationals (device D2).  No       *)
(* variables: Bounds.tla (samplers, tanh head), BoundsCem.tla (cross-entropy *)
(* planner) and BoundsFacts.tla (order predicates on float32 ordinals, D4)   *)
(* build on these operators.                                                 *)
(*                                                                           *)
(* One dimension of a box is a record [lo, hi, e]: bounds lo*2^e .. hi*2^e.  *)
(* All arithmetic is done on the unit-scale rationals lo, hi (every operator *)
(* below is positively homogeneous of degree one in (lo, hi, action), and a  *)
(* power of two is an exact factor in binary floating point), the exponent e *)
(* travels with the emitted vector and only the harness applies it.  That    *)
(* keeps numerators inside TLC's 32-bit integers even for real draws of      *)
(* jax.random.normal (24-bit mantissas) on boxes of size 2^-20 and 2^20.     *)
EXTENDS Integers, Sequences, Exact

(* ---- rationals whose denominators divide one another (all ours are       *)
(* powers of two).  Exact.tla's QAdd/QLe cross-multiply the denominators,    *)
(* which overflows for 2^-27-grained values; these align to the larger       *)
(* denominator instead: safe while |value| * max-denominator < 2^31.         *)
DCommon(a, b) == IF a[2] >= b[2] THEN a[2] ELSE b[2]
DNum(a, D)    == a[1] * (D \div a[2])
DAdd(a, b) == LET D == DCommon(a, b) IN Norm(DNum(a, D) + DNum(b, D), D)
DSub(a, b) == LET D == DCommon(a, b) IN Norm(DNum(a, D) - DNum(b, D), D)
DLe(a, b)  == LET D == DCommon(a, b) IN DNum(a, D) <= DNum(b, D)
DLt(a, b)  == LET D == DCommon(a, b) IN DNum(a, D) < DNum(b, D)
DEq(a, b)  == LET D == DCommon(a, b) IN DNum(a, D) = DNum(b, D)
DMin(a, b) == IF DLe(a, b) THEN a ELSE b
DMax(a, b) == IF DLe(a, b) THEN b ELSE a
DClip(x, lo, hi) == DMax(lo, DMin(x, hi))      \* jnp.clip(x, lo, hi) = maximum(lo, minimum(x, hi))
DAbs(a) == QAbs(a)

Dim(lo, hi, e) == [lo |-> lo, hi |-> hi, e |-> e]

(* ---- the box *)
Range(d)     == DSub(d.hi, d.lo)
HalfRange(d) == QMul(Half, Range(d))                 \* "half the action range" of the property
InBox(d, x)  == DLe(d.lo, x) /\ DLe(x, d.hi)

(* ---- DeterministicTanhPolicy: action_scale, action_bias, scale_output     *)
ActionScale(d) == QMul(Half, DSub(d.hi, d.lo))       \* (high - low) / 2
ActionBias(d)  == QMul(Half, DAdd(d.hi, d.lo))       \* (high + low) / 2
(* scale_output(y) = tanh(y) * action_scale + action_bias; t stands for tanh(y) in [-1, 1] *)
TanhScale(d, t) == DAdd(QMul(t, ActionScale(d)), ActionBias(d))
(* float32 tanh is exactly 0 at 0 and exactly +-1 from |y| = 9 on (measured, jax CPU);  *)
(* these are the pre-activations at which the specification can name tanh(y)            *)
SatPoints == {"zero", "pos9", "neg9", "pos40", "neg40", "pos2p60", "neg2p60", "posinf", "neginf"}
TanhAt(y) == IF y = "zero" THEN Zero
             ELSE IF y \in {"pos9", "pos40", "pos2p60", "posinf"} THEN One ELSE QNeg(One)

(* ---- ddpg.sample_actions / td3.sample_target_actions                     *)
(* make_sample_actions / make_sample_target_actions: action_scale = 0.5 * (high - low) *)
SamplerScale(d) == QMul(Half, DSub(d.hi, d.lo))
(* eps = exploration_noise * action_scale * jax.random.normal(key, action.shape) *)
Perturbation(d, sigma, n) == QMul(QMul(sigma, SamplerScale(d)), n)
(* scaled_noise_clip = action_scale * noise_clip *)
NoiseLimit(d, c) == QMul(SamplerScale(d), c)
ClippedPerturbation(d, sigma, c, n) ==
  DClip(Perturbation(d, sigma, n), QNeg(NoiseLimit(d, c)), NoiseLimit(d, c))
ExplorePre(d, sigma, a, n)   == DAdd(a, Perturbation(d, sigma, n))
Explore(d, sigma, a, n)      == DClip(ExplorePre(d, sigma, a, n), d.lo, d.hi)
SmoothPre(d, sigma, c, a, n) == DAdd(a, ClippedPerturbation(d, sigma, c, n))
Smooth(d, sigma, c, a, n)    == DClip(SmoothPre(d, sigma, c, a, n), d.lo, d.hi)

(* ---- realistic wrong variants (deviation canaries).  A variant is a      *)
(* record of the three places a sampler can go wrong.                        *)
(*   scale:  the factor the standard-normal draw is multiplied with          *)
(*   limit:  the level the target-smoothing noise is clipped at              *)
(*   outer:  "box" | "unit" | "none"  - the final clip                       *)
VScale(v, d) == IF v = "full_range" THEN Range(d) ELSE SamplerScale(d)
VLimit(v, d, c) == IF v = "clip_unscaled" THEN c ELSE NoiseLimit(d, c)
VOuter(v, d, x) == IF v = "no_outer_clip" THEN x
                   ELSE IF v = "unit_box" THEN DClip(x, QNeg(One), One)
                   ELSE DClip(x, d.lo, d.hi)
VPert(v, d, sigma, n) == QMul(QMul(sigma, VScale(v, d)), n)
VClippedPert(v, d, sigma, c, n) == DClip(VPert(v, d, sigma, n), QNeg(VLimit(v, d, c)), VLimit(v, d, c))
VExplorePre(v, d, sigma, a, n) == DAdd(a, VPert(v, d, sigma, n))
VExplore(v, d, sigma, a, n) == VOuter(v, d, VExplorePre(v, d, sigma, a, n))
VSmoothPre(v, d, sigma, c, a, n) == DAdd(a, VClippedPert(v, d, sigma, c, n))
VSmooth(v, d, sigma, c, a, n) == VOuter(v, d, VSmoothPre(v, d, sigma, c, a, n))
Variants == {"code", "full_range", "clip_unscaled", "unit_box", "no_outer_clip"}

(* ---- cross_entropy_method.cem_sample / cem_update                        *)
(* the search distribution is given by its standard deviation sd (var = sd^2)             *)
ZMax == <<2, 1>>                                    \* truncated_normal(key, -2.0, 2.0, ...)
LbDist(d, mean) == DSub(mean, d.lo)
UbDist(d, mean) == DSub(d.hi, mean)
ConstrainedVar(d, mean, sd) ==
  DMin(DMin(QSq(QMul(Half, LbDist(d, mean))), QSq(QMul(Half, UbDist(d, mean)))), QSq(sd))
(* jnp.sqrt of a minimum of squares of non-negative numbers: the root is one of them *)
ConstrainedSd(d, mean, sd) ==
  CHOOSE s \in {sd, QMul(Half, LbDist(d, mean)), QMul(Half, UbDist(d, mean))} :
    DLe(Zero, s) /\ DEq(QSq(s), ConstrainedVar(d, mean, sd))
Candidate(d, mean, sd, z) == DAdd(QMul(z, ConstrainedSd(d, mean, sd)), mean)
(* deviation: the variance is not constrained by the distance to the bounds *)
CandidateUnconstrained(d, mean, sd, z) == DAdd(QMul(z, sd), mean)
(* deviation: the standard deviation (not its half) is limited by the distance *)
CandidateFullDist(d, mean, sd, z) ==
  DAdd(QMul(z, DMin(sd, DMin(LbDist(d, mean), UbDist(d, mean)))), mean)
(* mean' = alpha * mean + (1 - alpha) * average(elites) *)
Blend(alpha, old, new) == DAdd(QMul(alpha, old), QMul(DSub(One, alpha), new))
=============================================================================
