--------------------------- MODULE Components ---------------------------
(* C05 - each update routine changes only the component it trains.           *)
(*                                                                            *)
(* An agent of one algorithm family is a fixed set of COMPONENTS: online      *)
(* networks ("param"), the optimiser state that belongs to one online network *)
(* ("opt") and copies of an online network (targets, TD7's fixed embeddings   *)
(* and checkpoints: "copy").  The content of a component is abstracted to a   *)
(* CONTENT ID (device D5): ver[c] is the id of the bit pattern component c    *)
(* holds; ids are issued in the order in which new contents are first seen    *)
(* (scanning the components in the order of CompSeq), so two components hold  *)
(* the same id iff they are bit-identical (a target right after a hard copy). *)
(*                                                                            *)
(* One action per public routine of rl_blox (tables below, `trains` and       *)
(* `kind` are taken from the routines' documentation):                        *)
(*   Call(r, g)       a parameter-update routine on a batch of kind g         *)
(*   TargetUpdate(t)  hard_/soft_target_net_update on the stated pairs        *)
(*   TrainStepTD7     td7._train_step, the composition the TD7 loop executes  *)
(*   SelectTask(c, k) MTMLPQNetwork.select_task: renormalises the task embedding *)
(*   Evaluate(f)      a loss / gradient function is merely evaluated          *)
(*   Act(f)           an acting function (sampling, greedy action, forward)   *)
(*                                                                            *)
(* What an optimiser does to its own state, and what a step with an all-zero  *)
(* gradient does to the parameters (nothing for a fresh Adam, momentum /      *)
(* weight decay otherwise) is left open: those are nondeterministic choices.  *)
(* What is NOT open: a generic (non-zero gradient) batch changes every        *)
(* trained network, and nothing outside trains(r) + their optimisers changes. *)
EXTENDS Integers, Sequences, FiniteSets, TLC, Json

CONSTANTS Family,    \* "DQN" | "DQNMT" | "DDPG" | "TD3" | "SAC" | "TD7" | "MRQ" | "PPO" | "PG" | "PETS"
          MaxCalls,  \* bound on the number of state-changing calls in a behaviour
          EMIT       \* TRUE: print one EMIT record per transition

VARIABLES ver,    \* [Component -> Nat]  content id held by every component
          nxt,    \* number of content ids issued so far (ghost)
          calls,  \* number of update / target calls so far (ghost, bounds the search)
          last,   \* label of the last action (ghost; the action properties speak about it)
          rn      \* DQNMT only (else <<>>): rn[i] = id of the renormalised version of content i, -1 = not yet observed

vars == <<ver, nxt, calls, last, rn>>
GenView == <<ver, nxt, calls, rn>>
View == [ver |-> ver, nxt |-> nxt, calls |-> calls, rn |-> rn]

Families == {"DQN", "DQNMT", "DDPG", "TD3", "SAC", "TD7", "MRQ", "PPO", "PG", "PETS"}
ASSUME Family \in Families /\ MaxCalls \in Nat

----------------------------------------------------------------------------
(* Components.  kind: "param" trainable online network, "opt" optimiser state *)
(* of network `of`, "copy" created as nnx.clone of `of`.  role: what the      *)
(* property text calls the component.                                         *)
P(c, role) == [c |-> c, kind |-> "param", of |-> c, role |-> role]
O(c, of, role) == [c |-> c, kind |-> "opt", of |-> of, role |-> role]
T(c, of, role) == [c |-> c, kind |-> "copy", of |-> of, role |-> role]

ActorCritic == <<P("policy", "actor"), O("policy_opt", "policy", "actor"), T("policy_target", "policy", "target"),
                 P("q", "critic"), O("q_opt", "q", "critic"), T("q_target", "q", "target")>>

CompTable ==
  CASE Family \in {"DQN", "DQNMT"} -> <<P("q", "critic"), O("q_opt", "q", "critic"), T("q_target", "q", "target")>>
    [] Family = "DDPG" -> ActorCritic
    [] Family = "TD3" -> ActorCritic
    [] Family = "SAC" -> <<P("policy", "actor"), O("policy_opt", "policy", "actor"),
                           P("q", "critic"), O("q_opt", "q", "critic"), T("q_target", "q", "target"),
                           P("alpha", "alpha"), O("alpha_opt", "alpha", "alpha")>>
    [] Family = "TD7" -> <<P("embedding", "repr"), O("embedding_opt", "embedding", "repr"),
                           T("fixed_embedding", "embedding", "target"), T("fixed_embedding_target", "embedding", "target"),
                           P("actor", "actor"), O("actor_opt", "actor", "actor"), T("actor_target", "actor", "target"),
                           P("critic", "critic"), O("critic_opt", "critic", "critic"), T("critic_target", "critic", "target"),
                           T("ckpt_actor", "actor", "ckpt"), T("ckpt_embedding", "embedding", "ckpt")>>
    [] Family = "MRQ" -> <<P("encoder", "repr"), O("encoder_opt", "encoder", "repr"), T("encoder_target", "encoder", "target"),
                           P("policy", "actor"), O("policy_opt", "policy", "actor"), T("policy_target", "policy", "target"),
                           P("q", "critic"), O("q_opt", "q", "critic"), T("q_target", "q", "target")>>
    [] Family = "PPO" -> <<P("actor", "actor"), O("actor_opt", "actor", "actor"),
                           P("critic", "critic"), O("critic_opt", "critic", "critic")>>
    [] Family = "PG" -> <<P("policy", "actor"), O("policy_opt", "policy", "actor"),
                          P("value_function", "critic"), O("value_function_opt", "value_function", "critic")>>
    [] Family = "PETS" -> <<P("model", "repr"), O("model_opt", "model", "repr")>>

NC == Len(CompTable)
CompSeq == [i \in 1..NC |-> CompTable[i].c]
CompSet == {CompSeq[i] : i \in 1..NC}
Pos(c) == CHOOSE i \in 1..NC : CompSeq[i] = c
Role(c) == CompTable[Pos(c)].role
Params == {CompTable[i].c : i \in {j \in 1..NC : CompTable[j].kind = "param"}}
OptOf(p) == CompTable[CHOOSE i \in 1..NC : CompTable[i].kind = "opt" /\ CompTable[i].of = p].c
Opts(S) == {OptOf(p) : p \in S}
Source(c) == IF CompTable[Pos(c)].kind = "copy" THEN CompTable[Pos(c)].of ELSE c
ASSUME /\ Cardinality(CompSet) = NC
       /\ \A c \in CompSet : Pos(Source(c)) <= Pos(c)
       /\ \A p \in Params : \E i \in 1..NC : CompTable[i].kind = "opt" /\ CompTable[i].of = p

----------------------------------------------------------------------------
(* Routines.  trains: what the documentation says the routine optimises;      *)
(* kind: which clause of the property it falls under (critic / actor / alpha  *)
(* / representation update); zero: an all-zero-gradient batch is realisable   *)
(* for it (weights, advantages or importance ratios that are all zero).       *)
R(name, trains, kind, zero) == [name |-> name, trains |-> trains, kind |-> kind, zero |-> zero]
Soft(a, b) == [name |-> "soft_target_net_update(" \o a \o ", " \o b \o ")", pairs |-> <<<<a, b>>>>, soft |-> TRUE]
Hard(a, b) == [name |-> "hard_target_net_update(" \o a \o ", " \o b \o ")", pairs |-> <<<<a, b>>>>, soft |-> FALSE]

Routines ==
  CASE Family \in {"DQN", "DQNMT"} -> {R("train_step_with_loss(dqn_loss)", {"q"}, {"critic"}, FALSE),
                          R("train_step_with_loss(nature_dqn_loss)", {"q"}, {"critic"}, FALSE),
                          R("train_step_with_loss(ddqn_loss)", {"q"}, {"critic"}, FALSE),
                          R("train_step_with_loss(ddqn_per_loss)", {"q"}, {"critic"}, TRUE)}
    [] Family = "DDPG" -> {R("train_step_with_loss(ddpg_loss)", {"q"}, {"critic"}, FALSE),
                           R("ddpg_update_actor", {"policy"}, {"actor"}, FALSE)}
    [] Family = "TD3" -> {R("train_step_with_loss(td3_loss)", {"q"}, {"critic"}, FALSE),
                          R("train_step_with_loss(td3_lap_loss)", {"q"}, {"critic"}, FALSE),
                          R("ddpg_update_actor", {"policy"}, {"actor"}, FALSE)}
    [] Family = "SAC" -> {R("train_step_with_loss(sac_loss)", {"q"}, {"critic"}, FALSE),
                          R("sac_update_actor", {"policy"}, {"actor"}, FALSE),
                          R("_update_entropy_coefficient", {"alpha"}, {"alpha"}, FALSE),
                          R("EntropyControl.update", {"alpha"}, {"alpha"}, FALSE)}
    [] Family = "TD7" -> {R("update_sale", {"embedding"}, {"repr"}, FALSE),
                          R("td7_update_critic", {"critic"}, {"critic"}, FALSE),
                          R("td7_update_actor", {"actor"}, {"actor"}, FALSE)}
    [] Family = "MRQ" -> {R("update_model_based_encoder", {"encoder"}, {"repr"}, FALSE),
                          R("update_critic_and_policy", {"q", "policy"}, {"critic", "actor"}, FALSE)}
    [] Family = "PPO" -> {R("update_ppo", {"actor", "critic"}, {"actor", "critic"}, FALSE)}
    [] Family = "PG" -> {R("train_value_function", {"value_function"}, {"critic"}, FALSE),
                         R("train_policy_reinforce", {"policy"}, {"actor"}, TRUE),
                         R("train_policy_actor_critic", {"policy"}, {"actor"}, TRUE),
                         R("train_policy_a2c", {"policy"}, {"actor"}, TRUE)}
    [] Family = "PETS" -> {R("train_epoch", {"model"}, {"repr"}, FALSE),
                           R("train_ensemble", {"model"}, {"repr"}, FALSE)}

RoutineNamed(n) == CHOOSE r \in Routines : r.name = n

(* target actions (their law is C06; here: which components they may touch)   *)
Targets ==
  CASE Family \in {"DQN", "DQNMT"} -> {Hard("q", "q_target")}
    [] Family \in {"DDPG", "TD3"} -> {Soft("policy", "policy_target"), Soft("q", "q_target")}
    [] Family = "SAC" -> {Soft("q", "q_target")}
    [] Family = "TD7" -> {Hard("actor", "actor_target"), Hard("critic", "critic_target"),
                          Hard("fixed_embedding", "fixed_embedding_target"), Hard("embedding", "fixed_embedding"),
                          [name |-> "hard_target_net_update(policy, checkpoint)", soft |-> FALSE,
                           pairs |-> <<<<"fixed_embedding", "ckpt_embedding">>, <<"actor", "ckpt_actor">>>>]}
    [] Family = "MRQ" -> {[name |-> "hard_target_net_update(policy_with_encoder, policy_with_encoder_target)", soft |-> FALSE,
                           pairs |-> <<<<"encoder", "encoder_target">>, <<"policy", "policy_target">>>>],
                          Hard("q", "q_target")}
    [] OTHER -> {}

Evals ==
  CASE Family \in {"DQN", "DQNMT"} -> {"dqn_loss", "nature_dqn_loss", "ddqn_loss", "ddqn_per_loss", "mse_discrete_action_value_loss"}
    [] Family = "DDPG" -> {"ddpg_loss", "deterministic_policy_gradient_loss", "mse_continuous_action_value_loss"}
    [] Family = "TD3" -> {"td3_loss", "td3_lap_loss", "deterministic_policy_gradient_loss"}
    [] Family = "SAC" -> {"sac_loss", "sac_actor_loss", "sac_exploration_loss", "EntropyControl.update(autotune=False)"}
    [] Family = "TD7" -> {"state_action_embedding_loss", "_sum_of_qnet_losses", "deterministic_policy_gradient_loss_sale"}
    [] Family = "MRQ" -> {"model_based_encoder_loss", "mrq_loss", "mrq_policy_loss"}
    [] Family = "PPO" -> {"ppo_loss"}
    [] Family = "PG" -> {"stochastic_policy_gradient_pseudo_loss", "mse_value_loss", "reinforce_gradient",
                         "actor_critic_policy_gradient", "a2c_policy_gradient"}
    [] Family = "PETS" -> {"gaussian_ensemble_loss"}

Acts ==
  CASE Family \in {"DQN", "DQNMT"} -> {"greedy_policy"}
    [] Family = "DDPG" -> {"sample_actions(policy)", "policy_target"}
    [] Family = "TD3" -> {"sample_actions(policy)", "sample_target_actions(policy_target)"}
    [] Family = "SAC" -> {"policy.sample", "policy.log_probability", "alpha()"}
    [] Family = "TD7" -> {"sample_actions(policy)", "sample_target_actions(policy_target)"}
    [] Family = "MRQ" -> {"sample_actions(policy_with_encoder)", "sample_target_actions(policy_with_encoder_target)"}
    [] Family = "PPO" -> {"actor.sample", "actor.log_probability", "critic"}
    [] Family = "PG" -> {"policy.sample", "policy.log_probability", "value_function"}
    [] Family = "PETS" -> {"model", "model.aggregate"}

ASSUME /\ \A r \in Routines : r.trains \subseteq Params /\ r.trains # {}
       /\ \A t \in Targets : \A i \in 1..Len(t.pairs) : t.pairs[i][1] \in CompSet /\ t.pairs[i][2] \in CompSet

----------------------------------------------------------------------------
(* State transformers on s = [ver, nxt].                                      *)
St == [ver |-> ver, nxt |-> nxt]

(* every component of C receives a content never seen before *)
Bump(s, C) == [ver |-> [c \in CompSet |-> IF c \in C THEN s.nxt + Pos(c) - 1 ELSE s.ver[c]],
               nxt |-> s.nxt + NC]

(* hard copy: the destination holds the source's content *)
CopyOne(s, a, b) == [s EXCEPT !.ver[b] = s.ver[a]]
(* Polyak step with tau = 1/2: equal contents stay equal (x/2 + x/2 = x exactly *)
(* in binary floating point), different contents give a new one                 *)
SoftOne(s, a, b) == IF s.ver[a] = s.ver[b] THEN s ELSE Bump(s, {b})

RECURSIVE ApplyPairs(_, _, _)
ApplyPairs(s, ps, soft) ==
  IF ps = <<>> THEN s
  ELSE ApplyPairs(IF soft THEN SoftOne(s, ps[1][1], ps[1][2]) ELSE CopyOne(s, ps[1][1], ps[1][2]), Tail(ps), soft)

(* ids are issued in first-seen order: renumber the ids that are new w.r.t. s0 *)
(* by their first position in CompSeq (what a digest table that is filled      *)
(* while scanning the components in that order produces)                       *)
Canon(s0, s1) ==
  LET New == {s1.ver[c] : c \in CompSet} \ (0..(s0.nxt - 1))
      First(i) == CHOOSE p \in 1..NC : s1.ver[CompSeq[p]] = i /\ \A q \in 1..(p - 1) : s1.ver[CompSeq[q]] # i
      Rank(i) == Cardinality({j \in New : First(j) < First(i)})
  IN [ver |-> [c \in CompSet |-> IF s1.ver[c] \in New THEN s0.nxt + Rank(s1.ver[c]) ELSE s1.ver[c]],
      nxt |-> s0.nxt + Cardinality(New)]

(* what one parameter update may do: every trained network changes on a        *)
(* generic batch; on a zero-gradient batch each may or may not (momentum,      *)
(* weight decay); each of their optimisers may or may not change its state     *)
BatchKinds(r) == IF r.zero THEN {"generic", "zero"} ELSE {"generic"}
Outcomes(r, g) == {Pc \cup Oc : Pc \in (IF g = "generic" THEN {r.trains} ELSE SUBSET r.trains), Oc \in SUBSET Opts(r.trains)}
Allowed(r) == r.trains \cup Opts(r.trains)

Label(op, g, trains, kinds, allowed) == [op |-> op, g |-> g, trains |-> trains, kinds |-> kinds, allowed |-> allowed]

Emit(op, args) ==
  EMIT => PrintT(<<"EMIT", ToJson([pre |-> View, op |-> op, args |-> args, exp |-> <<>>, post |-> View'])>>)

(* the renormalisation record grows with the ids (DQNMT), new ids: not observed *)
RnExt(f, n0, n1) == IF Family = "DQNMT" THEN [i \in 0..(n1 - 1) |-> IF i < n0 THEN f[i] ELSE -1] ELSE <<>>

Commit(s, lab, op, args) ==
  LET c == Canon(St, s) IN
  /\ ver' = c.ver /\ nxt' = c.nxt /\ calls' = calls + 1 /\ last' = lab
  /\ rn' = RnExt(rn, nxt, c.nxt)
  /\ Emit(op, args)

----------------------------------------------------------------------------
Init == /\ ver = Canon([ver |-> [c \in CompSet |-> 0], nxt |-> 0],
                       [ver |-> [c \in CompSet |-> Pos(Source(c))], nxt |-> NC + 1]).ver
        /\ nxt = Cardinality({Source(c) : c \in CompSet})
        /\ calls = 0
        /\ last = Label("Init", "none", {}, {}, {})
        /\ rn = RnExt(<<>>, 0, Cardinality({Source(c) : c \in CompSet}))

(* a parameter-update routine *)
Call(r, g) ==
  /\ calls < MaxCalls
  /\ g \in BatchKinds(r)
  /\ \E C \in Outcomes(r, g) :
       Commit(Bump(St, C), Label(r.name, g, r.trains, r.kind, Allowed(r)), r.name, [g |-> g])

(* hard_/soft_target_net_update: only the destinations may change *)
TargetDests(t) == {t.pairs[i][2] : i \in 1..Len(t.pairs)}
TargetUpdate(t) ==
  /\ calls < MaxCalls
  /\ Commit(ApplyPairs(St, t.pairs, t.soft),
            Label(t.name, "none", {}, {Role(d) : d \in TargetDests(t)}, TargetDests(t)), t.name, [g |-> "none"])

(* Composition: the segment a training loop executes between two observable    *)
(* boundaries is a sequence of routine calls (on generic batches) and target    *)
(* actions; its possible results are the relational composition of the steps.   *)
CallStep(n) == [t |-> "call", n |-> n]
TargetStep(n) == [t |-> "target", n |-> n]
TargetNamed(n) == CHOOSE t \in Targets : t.name = n
StepResults(s, st) ==
  IF st.t = "call" THEN {Bump(s, C) : C \in Outcomes(RoutineNamed(st.n), "generic")}
  ELSE {ApplyPairs(s, TargetNamed(st.n).pairs, TargetNamed(st.n).soft)}
RECURSIVE Results(_, _)
Results(S, steps) == IF steps = <<>> THEN S ELSE Results(UNION {StepResults(s, steps[1]) : s \in S}, Tail(steps))
StepTrains(st) == IF st.t = "call" THEN RoutineNamed(st.n).trains ELSE {}
StepKinds(st) == IF st.t = "call" THEN RoutineNamed(st.n).kind ELSE {Role(d) : d \in TargetDests(TargetNamed(st.n))}
StepAllowed(st) == IF st.t = "call" THEN Allowed(RoutineNamed(st.n)) ELSE TargetDests(TargetNamed(st.n))
Composite(name, steps, args) ==
  /\ calls < MaxCalls
  /\ \E s \in Results({St}, steps) :
       Commit(s, Label(name, "generic", UNION {StepTrains(steps[i]) : i \in 1..Len(steps)},
                       UNION {StepKinds(steps[i]) : i \in 1..Len(steps)},
                       UNION {StepAllowed(steps[i]) : i \in 1..Len(steps)}), name, args)

(* td7._train_step(epoch): update_sale . td7_update_critic . [td7_update_actor  *)
(* if epoch % policy_delay = 0] . [actor_target := actor, critic_target :=      *)
(* critic, fixed_embedding_target := fixed_embedding, fixed_embedding :=        *)
(* embedding, in this order, if epoch % target_delay = 0]                       *)
TD7Steps(policyDue, targetDue) ==
  <<CallStep("update_sale"), CallStep("td7_update_critic")>>
  \o (IF policyDue THEN <<CallStep("td7_update_actor")>> ELSE <<>>)
  \o (IF targetDue THEN <<TargetStep("hard_target_net_update(actor, actor_target)"),
                          TargetStep("hard_target_net_update(critic, critic_target)"),
                          TargetStep("hard_target_net_update(fixed_embedding, fixed_embedding_target)"),
                          TargetStep("hard_target_net_update(embedding, fixed_embedding)")>>
       ELSE <<>>)
TrainStepTD7(policyDue, targetDue) ==
  /\ Family = "TD7"
  /\ Composite("td7._train_step", TD7Steps(policyDue, targetDue),
               [g |-> "generic", policy_due |-> policyDue, target_due |-> targetDue])

(* DQNMT: the Q-networks are MTMLPQNetwork (task-embedding table + MLP).       *)
(* select_task(k) sets the task and RENORMALISES the embedding table in place  *)
(* (rows above max_task_embedding_norm are scaled down): the one documented    *)
(* place where a network's parameters change outside an optimiser step.  The   *)
(* result is a FUNCTION of the content (recorded in rn once observed): either  *)
(* the content itself (no row too long) or another content; in floating point  *)
(* the function need not be idempotent.  Nothing but the network changes.      *)
SelectTask(c, k) ==
  /\ Family = "DQNMT"
  /\ calls < MaxCalls
  /\ LET a == ver[c] IN
     \E s \in (IF rn[a] # -1 THEN {[St EXCEPT !.ver[c] = rn[a]]} ELSE {St, Bump(St, {c})}) :
       LET cn == Canon(St, s) IN
       /\ ver' = cn.ver /\ nxt' = cn.nxt /\ calls' = calls + 1
       /\ last' = Label("select_task", "none", {}, {Role(c)}, {c})
       /\ rn' = [i \in 0..(cn.nxt - 1) |-> IF i = a THEN cn.ver[c] ELSE IF i < nxt THEN rn[i] ELSE -1]
       /\ Emit("select_task", [c |-> c, task |-> k])

(* evaluating a loss / computing a gradient, and acting, change nothing *)
Evaluate(f) == /\ UNCHANGED <<ver, nxt, calls, rn>>
               /\ last' = Label("Evaluate", "none", {}, {}, {})
               /\ Emit("Evaluate", [fn |-> f])
Act(f) == /\ UNCHANGED <<ver, nxt, calls, rn>>
          /\ last' = Label("Act", "none", {}, {}, {})
          /\ Emit("Act", [fn |-> f])

Next == \/ \E r \in Routines : \E g \in {"generic", "zero"} : Call(r, g)
        \/ \E t \in Targets : TargetUpdate(t)
        \/ \E pd \in BOOLEAN, td \in BOOLEAN : TrainStepTD7(pd, td)
        \/ \E k \in {0, 1} : SelectTask("q", k)
        \/ SelectTask("q_target", 0)
        \/ \E f \in Evals : Evaluate(f)
        \/ \E f \in Acts : Act(f)

Spec == Init /\ [][Next]_vars

(* printed once per generation run: the component order the ids are issued in *)
ASSUME EMIT => PrintT(<<"EMIT", ToJson([op |-> "Meta", family |-> Family, comps |-> CompSeq,
                                        roles |-> [i \in 1..NC |-> CompTable[i].role],
                                        kinds |-> [i \in 1..NC |-> CompTable[i].kind],
                                        of |-> [i \in 1..NC |-> CompTable[i].of]])>>)

----------------------------------------------------------------------------
(* Properties (C05) *)
TypeOK == /\ ver \in [CompSet -> 0..(nxt - 1)]
          /\ calls \in 0..MaxCalls
          /\ Family = "DQNMT" => rn \in [0..(nxt - 1) -> -1..(nxt - 1)]
          /\ \A c \in CompSet : \A d \in CompSet : ver[c] = ver[d] => Source(c) = Source(d)

Changed(c) == ver'[c] # ver[c]

(* the documentation of every routine: nothing but what it trains (and the     *)
(* optimiser state that belongs to it) changes                                 *)
FrameByDoc == [][\A c \in CompSet \ last'.allowed : ~Changed(c)]_vars

(* the property text, by roles: a critic update leaves actors, encoders,       *)
(* entropy coefficient, all targets and checkpoints alone; an actor update     *)
(* leaves critics and encoders alone; the entropy-coefficient update leaves    *)
(* policy and critics alone; a representation update leaves everything else    *)
(* alone; evaluation and acting change nothing (kinds = {})                    *)
FrameByRole == [][\A c \in CompSet : Role(c) \notin last'.kinds => ~Changed(c)]_vars

(* a generic (non-zero gradient) update does change every trained network *)
NonVacuity == [][last'.g = "generic" => \A c \in last'.trains : Changed(c)]_vars

(* copies change only through target actions (and the composed train step) *)
CopiesOnlyAtUpdatePoints ==
  [][\A c \in CompSet : (Changed(c) /\ CompTable[Pos(c)].kind = "copy") => c \in last'.allowed]_vars

----------------------------------------------------------------------------
(* Deviation canaries: realistic wrong wirings; each must be refuted.          *)
SomeOf(S) == CHOOSE x \in S : TRUE
ByKind(k) == {r \in Routines : r.kind = {k}}
ParamsOfRole(k) == {p \in Params : Role(p) = k}
CopiesOf(p) == {c \in CompSet : CompTable[Pos(c)].kind = "copy" /\ CompTable[Pos(c)].of = p}

(* wrong argnums / wrt: the actor update also moves the critic *)
ActorUpdateTouchesCritic ==
  \E r \in ByKind("actor") : \E q \in ParamsOfRole("critic") :
    /\ calls < MaxCalls
    /\ Commit(Bump(St, Allowed(r) \cup {q}), Label(r.name, "generic", r.trains, r.kind, Allowed(r)), r.name, [g |-> "generic"])
(* the critic update writes the new parameters into the target as well *)
CriticUpdateMovesTarget ==
  \E r \in ByKind("critic") : \E p \in r.trains : \E tg \in CopiesOf(p) :
    /\ calls < MaxCalls
    /\ Commit(CopyOne(Bump(St, Allowed(r)), p, tg), Label(r.name, "generic", r.trains, r.kind, Allowed(r)), r.name, [g |-> "generic"])
(* optimiser of A applied to B: B's optimiser state advances in A's routine *)
WrongOptimizer ==
  \E r \in Routines : \E p \in Params \ r.trains :
    /\ calls < MaxCalls
    /\ Commit(Bump(St, r.trains \cup {OptOf(p)}), Label(r.name, "generic", r.trains, r.kind, Allowed(r)), r.name, [g |-> "generic"])
(* evaluating a loss mutates a network *)
EvaluateMutates ==
  \E f \in Evals : \E p \in Params :
    /\ ver' = Canon(St, Bump(St, {p})).ver /\ nxt' = nxt + 1 /\ calls' = calls /\ rn' = RnExt(rn, nxt, nxt + 1)
    /\ last' = Label("Evaluate", "none", {}, {}, {})
(* an update on a generic batch that does not learn *)
UpdateDoesNotLearn ==
  \E r \in Routines :
    /\ calls < MaxCalls
    /\ Commit(Bump(St, Opts(r.trains)), Label(r.name, "generic", r.trains, r.kind, Allowed(r)), r.name, [g |-> "generic"])

NextActorTouchesCritic == Next \/ ActorUpdateTouchesCritic
NextCriticMovesTarget == Next \/ CriticUpdateMovesTarget
NextWrongOptimizer == Next \/ WrongOptimizer
NextEvaluateMutates == Next \/ EvaluateMutates
NextUpdateDoesNotLearn == Next \/ UpdateDoesNotLearn
=============================================================================
