------------------------- MODULE PersistModules -------------------------
(* C19, function approximators: checkpoints of a live module and the objects  *)
(* restored from them, as one state machine.                                  *)
(*                                                                            *)
(* A live module is trained (UpdateLive advances its parameter version by one *)
(* deterministic optimiser step), snapshots of it are written to paths        *)
(* (Save: the pickle helper may overwrite a path, the checkpointing logger    *)
(* always writes a new one), any existing snapshot is restored at any time    *)
(* into a new object (Restore - with the library's loaders this goes through  *)
(* a template module / graph definition that is SHARED by all restores of a   *)
(* run), and every restored object can itself be trained further (UpdateObj). *)
(* Because the optimiser step is a deterministic function of the parameters,  *)
(* an object restored from version v and updated k times must be bit-identical*)
(* to the original at version v + k: "same parameters, same outputs, same     *)
(* evolution".  The binding replays behaviours of this graph into the real    *)
(* save_pickle / load_pickle, OrbaxCheckpointer.record_epoch and              *)
(* restore_checkpoint and compares the version of every object (content       *)
(* digest looked up among the digests of a never-saved reference module)      *)
(* after every step.                                                          *)
EXTENDS Integers, Sequences, TLC, Json

CONSTANTS NPaths,     \* snapshot paths 1..NPaths
          MaxUpd,     \* bound on optimiser steps (live and restored objects together)
          MaxObjs,    \* bound on restored objects alive at the same time
          MaxOps,     \* bound on the length of a behaviour
          OVERWRITE,  \* TRUE: Save may overwrite an existing path (pickle helper); FALSE: every Save writes the next new path (logger)
          EMIT

VARIABLES live,   \* parameter version of the live module
          file,   \* file[p] = version stored under path p, None if nothing was written
          objs,   \* objs[i] = version of the i-th restored object
          ghost,  \* ghost[i] = version the i-th restored object must have: version of its snapshot + its own updates
          gfile,  \* ghost: version of the live module at the most recent Save to p
          nupd, nops

vars == <<live, file, objs, ghost, gfile, nupd, nops>>
None == MaxUpd + 1
Paths == 1..NPaths

View == [live |-> live, file |-> [p \in Paths |-> file[p]], objs |-> objs]
Emit(op, args) == EMIT => PrintT(<<"EMIT", ToJson([pre |-> View, op |-> op, args |-> args, exp |-> <<>>, post |-> View'])>>)

Init == /\ live = 0 /\ file = [p \in Paths |-> None] /\ gfile = [p \in Paths |-> None]
        /\ objs = <<>> /\ ghost = <<>> /\ nupd = 0 /\ nops = 0

Tick == nops < MaxOps /\ nops' = nops + 1

UpdateLive == /\ Tick /\ nupd < MaxUpd
              /\ live' = live + 1 /\ nupd' = nupd + 1
              /\ UNCHANGED <<file, objs, ghost, gfile>>
              /\ Emit("UpdateLive", <<>>)

NextFree == IF \E p \in Paths : file[p] = None THEN CHOOSE p \in Paths : file[p] = None /\ \A q \in Paths : q < p => file[q] # None ELSE 0

(* writing a snapshot changes the file and nothing else: not the live module, not any restored object *)
Save(p) == /\ Tick
           /\ IF OVERWRITE THEN TRUE ELSE p = NextFree
           /\ file' = [file EXCEPT ![p] = live] /\ gfile' = [gfile EXCEPT ![p] = live]
           /\ UNCHANGED <<live, objs, ghost, nupd>>
           /\ Emit("Save", <<p>>)

(* restoring yields a NEW object with the snapshot's version; everything that existed before is untouched *)
Restore(p) == /\ Tick /\ file[p] # None /\ Len(objs) < MaxObjs
              /\ objs' = Append(objs, file[p]) /\ ghost' = Append(ghost, gfile[p])
              /\ UNCHANGED <<live, file, gfile, nupd>>
              /\ Emit("Restore", <<p>>)

UpdateObj(i) == /\ Tick /\ nupd < MaxUpd /\ i \in 1..Len(objs)
                /\ objs' = [objs EXCEPT ![i] = @ + 1] /\ ghost' = [ghost EXCEPT ![i] = @ + 1]
                /\ nupd' = nupd + 1
                /\ UNCHANGED <<live, file, gfile>>
                /\ Emit("UpdateObj", <<i>>)

(* a restored object that is no longer needed is dropped (keeps the graph small; no call into the library) *)
Drop == /\ Tick /\ Len(objs) > 0
        /\ objs' = Tail(objs) /\ ghost' = Tail(ghost)
        /\ UNCHANGED <<live, file, gfile, nupd>>
        /\ Emit("Drop", <<>>)

Next == UpdateLive \/ (\E p \in Paths : Save(p) \/ Restore(p)) \/ (\E i \in 1..MaxObjs : UpdateObj(i)) \/ Drop
Spec == Init /\ [][Next]_vars

----------------------------------------------------------------------------
TypeOK == /\ live \in 0..MaxUpd /\ file \in [Paths -> 0..None]
          /\ Len(objs) <= MaxObjs /\ \A i \in 1..Len(objs) : objs[i] \in 0..MaxUpd
(* every restored object is the original at (version of its snapshot + its own updates), now and for ever after *)
Agree == objs = ghost
(* a path holds what was most recently saved to it *)
FileFaithful == file = gfile
(* saving and restoring never change the live module; restoring and training one object never change another *)
SaveRestoreAreStutterOnLive == [][(nupd' = nupd) => live' = live]_vars
Independent == [][\A i \in 1..Len(objs) : (Len(objs') >= Len(objs) /\ objs'[i] # objs[i]) => (nupd' = nupd + 1 /\ \A j \in 1..Len(objs) : j # i => objs'[j] = objs[j])]_vars

----------------------------------------------------------------------------
(* named deviations (canaries; TLC must refute each)                          *)
(* the loader writes the snapshot into the shared template and returns the template itself: all restored objects alias *)
RestoreIntoSharedTemplate(p) ==
  /\ Tick /\ file[p] # None /\ Len(objs) < MaxObjs
  /\ objs' = [i \in 1..(Len(objs) + 1) |-> file[p]] /\ ghost' = Append(ghost, gfile[p])
  /\ UNCHANGED <<live, file, gfile, nupd>>
NextAlias == UpdateLive \/ (\E p \in Paths : Save(p) \/ RestoreIntoSharedTemplate(p)) \/ (\E i \in 1..MaxObjs : UpdateObj(i)) \/ Drop
(* a later snapshot written to an existing path is not picked up (stale cache keyed by the path) *)
SaveStale(p) == /\ Tick /\ OVERWRITE
                /\ file' = IF file[p] = None THEN [file EXCEPT ![p] = live] ELSE file
                /\ gfile' = [gfile EXCEPT ![p] = live]
                /\ UNCHANGED <<live, objs, ghost, nupd>>
NextStale == UpdateLive \/ (\E p \in Paths : SaveStale(p) \/ Restore(p)) \/ (\E i \in 1..MaxObjs : UpdateObj(i)) \/ Drop
(* two objects loaded from one file share their parameters: training one trains the other *)
UpdateObjShared(i) == /\ Tick /\ nupd < MaxUpd /\ i \in 1..Len(objs)
                      /\ objs' = [j \in 1..Len(objs) |-> IF objs[j] = objs[i] THEN objs[j] + 1 ELSE objs[j]]
                      /\ ghost' = [ghost EXCEPT ![i] = @ + 1] /\ nupd' = nupd + 1
                      /\ UNCHANGED <<live, file, gfile>>
NextShared == UpdateLive \/ (\E p \in Paths : Save(p) \/ Restore(p)) \/ (\E i \in 1..MaxObjs : UpdateObjShared(i)) \/ Drop
=============================================================================
