--------------------------- MODULE Ring ---------------------------
(* Fixed-capacity FIFO replay buffer (rl_blox.blox.replay_buffer.ReplayBuffer *)
(* and the storage part of LAP / PrioritizedReplayBuffer).                    *)
(*                                                                            *)
(* Every added transition is a WHOLE record whose fields all carry the same   *)
(* identifier (device D1): the k-th addition has id k.  One action per public *)
(* call of the implementation: add_sample -> Add, sample_batch -> Sample,     *)
(* __len__ -> LenQuery.                                                       *)
EXTENDS Integers, Sequences, FiniteSets, TLC, Json

CONSTANTS N,        \* capacity (buffer_size)
          MaxAdds,  \* bound on the number of additions explored
          MaxBatch, \* largest batch size explored
          EMIT      \* TRUE: print one EMIT record per transition

VARIABLES store,    \* Seq of length N; store[i+1] = id held by slot i, 0 = never written
          ins,      \* next slot to be written (0-based, as insert_idx)
          len,      \* number of valid slots (current_len)
          cnt       \* number of additions so far (ghost; id of the newest transition)

vars == <<store, ins, len, cnt>>
View == [store |-> store, ins |-> ins, len |-> len, cnt |-> cnt]

Min(a, b) == IF a < b THEN a ELSE b
Emit(op, args, exp) ==
  EMIT => PrintT(<<"EMIT", ToJson([pre |-> View, op |-> op, args |-> args, exp |-> exp, post |-> View'])>>)

Init == /\ store = [i \in 1..N |-> 0]
        /\ ins = 0 /\ len = 0 /\ cnt = 0

(* add_sample: write the whole record at the insert position, advance mod N *)
Add == /\ cnt < MaxAdds
       /\ store' = [store EXCEPT ![ins + 1] = cnt + 1]
       /\ ins' = (ins + 1) % N
       /\ len' = Min(len + 1, N)
       /\ cnt' = cnt + 1
       /\ Emit("Add", <<cnt + 1>>, <<>>)

(* sample_batch: any vector of indices below len; rows are the stored records *)
IndexVectors == UNION {[1..b -> 0..(len - 1)] : b \in 1..MaxBatch}
Sample(idx) == /\ len > 0
               /\ UNCHANGED vars
               /\ Emit("Sample", <<idx, len>>, [k \in 1..Len(idx) |-> store[idx[k] + 1]])

LenQuery == UNCHANGED vars /\ Emit("Len", <<>>, <<len>>)

(* update_priority of the prioritized subclasses (after sampling a batch): the storage abstraction does *)
(* not see priorities, so whatever is written, the stored transitions and what any later sample may     *)
(* return stay the same.  w indexes the binding's table of priority values (below, at and above the     *)
(* initial priority 1).  For the plain ReplayBuffer the binding does nothing.                           *)
Weights == 1..3
Reweigh(w) == /\ len > 0
              /\ UNCHANGED vars
              /\ Emit("Reweigh", <<w>>, <<>>)

Next == Add \/ (\E idx \in IndexVectors : Sample(idx)) \/ LenQuery \/ (\E w \in Weights : Reweigh(w))

Spec == Init /\ [][Next]_vars

----------------------------------------------------------------------------
(* Properties (C02) *)
TypeOK == /\ store \in [1..N -> 0..MaxAdds] /\ ins \in 0..(N - 1)
          /\ len \in 0..N /\ cnt \in 0..MaxAdds

(* exactly the most recent min(n, N) transitions, and that count is the length *)
Fifo == /\ len = Min(cnt, N)
        /\ {store[i] : i \in 1..len} = (cnt - len + 1)..cnt

(* positional form: the j-th newest transition sits j slots behind the write position *)
Positional == \A j \in 1..len : store[((ins - j) % N) + 1] = cnt + 1 - j

(* slots that were never written are outside the sampled region *)
NeverUnwritten == \A i \in 1..len : store[i] # 0

(* every row any Sample can return is one of the stored transitions *)
SampleSound == \A i \in 0..(len - 1) : store[i + 1] \in (cnt - len + 1)..cnt

(* deviation canary: advancing modulo N+1 (off-by-one wrap) must break Fifo *)
AddBadWrap == /\ cnt < MaxAdds
              /\ store' = [store EXCEPT ![(ins % N) + 1] = cnt + 1]
              /\ ins' = (ins + 1) % (N + 1)
              /\ len' = Min(len + 1, N)
              /\ cnt' = cnt + 1
NextBad == AddBadWrap
=============================================================================
