--------------------------- MODULE Ring ---------------------------
(* Fixed-capacity FIFO replay buffer (rl_blox.blox.replay_buffer.ReplayBuffer *)
(* and the storage part of LAP / PrioritizedReplayBuffer).                    *)
(*                                                                            *)
(* Every added transition is a WHOLE record whose fields all carry the same   *)
(* identifier (device D1): the k-th addition has id k.  One action per public *)
(* call of the implementation: add_sample -> Add, sample_batch -> Sample,     *)
(* __len__ -> LenQuery.                                                       *)
EXTENDS Integers, Sequences, FiniteSets, TLC, Json

CONSTANTS N,        \* capacity (buffer_size)
          MaxAdds,  \* bound on the number of additions explored
          MaxBatch, \* largest batch size explored
          EMIT      \* TRUE: print one EMIT record per transition

VARIABLES store,    \* Seq of length N; store[i+1] = id held by slot i, 0 = never written
          ins,      \* next slot to be written (0-based, as insert_idx)
          len,      \* number of valid slots (current_len)
          cnt       \* number of additions so far (ghost; id of the newest transition)

vars == <<store, ins, len, cnt>>
View == [store |-> store, ins |-> ins, len |-> len, cnt |-> cnt]

Min(a, b) == IF a < b THEN a ELSE b
Emit(op, args, exp) ==
  EMIT => PrintT(<<"EMIT", ToJson([pre |-> View, op |-> op, args |-> args, exp |-> exp, post |-> View'])>>)

Init == /\ store = [i \in 1..N |-> 0]
        /\ ins = 0 /\ len = 0 /\ cnt = 0

(* add_sample: write the whole record at the insert position, advance mod N *)
Write == /\ cnt < MaxAdds
         /\ store' = [store EXCEPT ![ins + 1] = cnt + 1]
         /\ ins' = (ins + 1) % N
         /\ len' = Min(len + 1, N)
         /\ cnt' = cnt + 1

Add == /\ Write
       /\ Emit("Add", <<cnt + 1>>, <<>>)

(* How a call of add_sample is SPELLED.  add_sample takes the quantities as keyword arguments only; the      *)
(* storage dtype of every field is the documented one (constructor dtypes, float by default).  The transition  *)
(* that is added does not depend on the spelling of the call:                                                   *)
(*   form  the Python type that carries the values of the documented-float fields: Python floats / float64     *)
(*         arrays, Python ints (nested lists of ints for array fields), int64 arrays, uint8 arrays, jax int32  *)
(*         arrays - an integer-typed value is a legal value of a float field and is stored as that float;      *)
(*   half  the float fields of the transition with id k carry k + half/2: integral values (which every form can *)
(*         carry) or fractional ones (float form only);                                                         *)
(*   ord   the order in which the keywords are written at the call site (0: the declared key order, 1: that     *)
(*         order reversed, 2: fields of equal shape exchanged) - keyword order has no meaning in a call.        *)
(* All of this is invisible to the storage abstraction: AddAs(s) is Write for every s, on every history - in   *)
(* particular whatever the spelling of the FIRST call was, which is the call that allocates the storage.        *)
ValueForms == {"float", "pyint", "npint", "npuint8", "jaxint"}
Orders == 0..2
Spellings == {s \in [form : ValueForms, half : 0..1, ord : Orders] : s.form # "float" => s.half = 0}
(* bound of the quick tier: value form and keyword order vary one at a time *)
SpellingsPairwise == {s \in Spellings : s.ord = 0 \/ s.form = "float"}

AddAs(s) == /\ Write
            /\ Emit("Add", <<cnt + 1, s.form, s.half, s.ord>>, <<>>)

(* sample_batch: any vector of indices below len; rows are the stored records *)
IndexVectors == UNION {[1..b -> 0..(len - 1)] : b \in 1..MaxBatch}
Sample(idx) == /\ len > 0
               /\ UNCHANGED vars
               /\ Emit("Sample", <<idx, len>>, [k \in 1..Len(idx) |-> store[idx[k] + 1]])

LenQuery == UNCHANGED vars /\ Emit("Len", <<>>, <<len>>)

(* update_priority of the prioritized subclasses (after sampling a batch): the storage abstraction does *)
(* not see priorities, so whatever is written, the stored transitions and what any later sample may     *)
(* return stay the same.  w indexes the binding's table of priority values (below, at and above the     *)
(* initial priority 1).  For the plain ReplayBuffer the binding does nothing.                           *)
Weights == 1..3
Reweigh(w) == /\ len > 0
              /\ UNCHANGED vars
              /\ Emit("Reweigh", <<w>>, <<>>)

Next == Add \/ (\E idx \in IndexVectors : Sample(idx)) \/ LenQuery \/ (\E w \in Weights : Reweigh(w))

Spec == Init /\ [][Next]_vars

(* the same operations with every call of add_sample spelled in every way *)
Observers == (\E idx \in IndexVectors : Sample(idx)) \/ LenQuery \/ (\E w \in Weights : Reweigh(w))
NextCalls == (\E s \in SpellingsPairwise : AddAs(s)) \/ Observers
NextCallsFull == (\E s \in Spellings : AddAs(s)) \/ Observers

----------------------------------------------------------------------------
(* Properties (C02) *)
TypeOK == /\ store \in [1..N -> 0..MaxAdds] /\ ins \in 0..(N - 1)
          /\ len \in 0..N /\ cnt \in 0..MaxAdds

(* exactly the most recent min(n, N) transitions, and that count is the length *)
Fifo == /\ len = Min(cnt, N)
        /\ {store[i] : i \in 1..len} = (cnt - len + 1)..cnt

(* positional form: the j-th newest transition sits j slots behind the write position *)
Positional == \A j \in 1..len : store[((ins - j) % N) + 1] = cnt + 1 - j

(* slots that were never written are outside the sampled region *)
NeverUnwritten == \A i \in 1..len : store[i] # 0

(* every row any Sample can return is one of the stored transitions *)
SampleSound == \A i \in 0..(len - 1) : store[i + 1] \in (cnt - len + 1)..cnt

(* deviation canary: advancing modulo N+1 (off-by-one wrap) must break Fifo *)
AddBadWrap == /\ cnt < MaxAdds
              /\ store' = [store EXCEPT ![(ins % N) + 1] = cnt + 1]
              /\ ins' = (ins + 1) % (N + 1)
              /\ len' = Min(len + 1, N)
              /\ cnt' = cnt + 1
NextBad == AddBadWrap
=============================================================================
