--------------------------- MODULE MpcTrace ---------------------------
(* X01, code -> spec: validation of event streams recorded from real           *)
(* rl_blox.algorithm.pets.train_pets runs (scripted environment; mpc_action,   *)
(* update_dynamics_model, the replay buffer and the logger interposed) against *)
(* the vocabulary of Mpc.tla: the trace machine below IS level 3 of Mpc (loop  *)
(* body of train_pets) with level 1 (mpc_action) inlined, driven by the        *)
(* recorded events instead of by nondeterministic choice; every expected value *)
(* is computed with Mpc's operators (TrainDueP, EpochsP, ActsRandomlyP,        *)
(* InitialPlanP, OptimiserInputP, ReturnedAction, ShiftFillsAvgAct, Child).    *)
(* Each event is judged clause by clause; failing clauses are collected in     *)
(* `viol` (position, clause) and the machine re-synchronises on the recorded   *)
(* facts, so the rest of the trace is still checked.  One TLC run validates a  *)
(* batch of traces (tid); the run parameters come from each trace's cfg.       *)
EXTENDS Integers, Sequences, FiniteSets, TLC, Json, IOUtils

M == INSTANCE Mpc WITH H <- 1, InitWithPrev <- TRUE, Masks <- {}, MaxCalls <- 0, NOptIters <- {}, NSamplesSet <- {},
                       NParticlesSet <- {}, Obs0Set <- {}, NEnsemble <- 1, ThreadIterKey <- FALSE, Total <- 0,
                       LearningStarts <- 0, StepsPerIter <- 1, LSGradSteps <- 0, GradSteps <- 0, MaxEpLen <- 1, Cap <- 1,
                       Bounds <- {}, Dev <- {}, EMIT <- FALSE, mpc <- 0, opt <- 0, loop <- 0

Traces == JsonDeserialize(IOEnv.TRACE_FILE)

VARIABLES tid, l,
          st,    \* model state, see St0
          viol   \* set of <<position, clause>>
vars == <<tid, l, st, viol>>

T == Traces[tid]
C == T.cfg      \* [h, with_prev, ls, nspi, lsgs, gs, total, cap, logger, stats]
E == T.events[l]

Ex(ev, key) == [ev |-> ev, key |-> key]
St0(c) == [t |-> 0,               \* loop index = number of completed loop bodies
           stage |-> "top",       \* "top" (before the action choice) | "acted" | "stepped" | "ending"
           trained |-> FALSE,     \* the model was trained at the top of this loop body
           trainCount |-> 0, tkey |-> <<>>, sampled |-> <<>>, hasSample |-> FALSE, loss |-> "",
           kept |-> <<>>,         \* rows handed to the replay buffer, in order
           epLen |-> 0, epRet4 |-> 0, ended |-> FALSE, lastObs |-> <<-1, -1, -1>>, pend |-> "none",
           prevPlan |-> M!InitialPlanP(c.h), calls |-> 0, epCalls |-> 0, skey |-> <<>>,
           started |-> FALSE,
           due |-> IF c.logger THEN <<Ex("reset", ""), Ex("log_start", "")>> ELSE <<Ex("reset", "")>>]   \* events that must come next, in order

Init == /\ tid \in 1..Len(Traces) /\ l = 1 /\ viol = {}
        /\ st = St0(Traces[tid].cfg)

Fail(cs) == viol' = viol \cup {<<l, c>> : c \in cs}
If(b, c) == IF b THEN {c} ELSE {}

DueNow == M!TrainDueP(st.t, C.ls, C.nspi)
BufLen == M!MinI(Len(st.kept), C.cap)
Stored == {st.kept[i] : i \in (Len(st.kept) - BufLen + 1)..Len(st.kept)}
AtTrainPoint == st.stage = "top" /\ DueNow /\ ~st.trained

(* ordering: events announced in st.due must arrive next, in order; once broken the expectations are dropped *)
Matches(d) == E.ev = d.ev /\ (d.key = "" \/ E.key = d.key)
Expected == Len(st.due) > 0 /\ Matches(Head(st.due))
Order == IF Len(st.due) > 0 /\ ~Matches(Head(st.due)) THEN {"Missing_" \o Head(st.due).ev \o (IF Head(st.due).key = "" THEN "" ELSE "_" \o Head(st.due).key)} ELSE {}
DueRest == IF Expected THEN Tail(st.due) ELSE <<>>
(* events that may only occur when announced *)
Announced == If(~Expected, "Unexpected_" \o E.ev)

(* the model's EpisodeEnd: next loop index, previous plan := initial plan *)
AfterEpisodeEnd(s) == [s EXCEPT !.t = @ + 1, !.stage = "top", !.trained = FALSE, !.epLen = 0, !.epRet4 = 0, !.ended = FALSE,
                                !.prevPlan = M!InitialPlanP(C.h), !.epCalls = 0]

EvReset ==
  /\ E.ev = "reset"
  /\ Fail(Order \cup If(Len(st.due) = 0, "ResetOnlyAtEpisodeEnd") \cup If(~st.started /\ ~E.seeded, "FirstResetSeeded"))
  /\ st' = [(IF st.ended THEN AfterEpisodeEnd(st) ELSE st) EXCEPT !.lastObs = E.obs, !.started = TRUE, !.due = DueRest]

EvLogStart ==
  /\ E.ev = "log_start"
  /\ Fail(Order \cup Announced)
  /\ st' = [st EXCEPT !.due = DueRest]

EvLogStop ==
  /\ E.ev = "log_stop"
  /\ Fail(Order \cup Announced \cup If(E.n # st.epLen, "StopReportsEpisodeLength"))
  /\ st' = [st EXCEPT !.due = DueRest]

EvLogStat ==
  /\ E.ev = "log_stat"
  /\ Fail(Order \cup Announced
          \cup If(E.step # st.t, "LogStepIsLoopIndex")
          \cup If(E.key = "return" /\ E.v4 # st.epRet4, "ReturnIsEpisodeReturn")
          \cup If(E.key = "dynamics model loss" /\ E.val # st.loss, "LoggedLossIsTrainingLoss")
          \cup If(E.key \notin {"return", "dynamics model loss"}, "UnknownStatistic"))
  /\ st' = [st EXCEPT !.due = DueRest]

EvLogEpoch ==
  /\ E.ev = "log_epoch"
  /\ Fail(Order \cup Announced \cup If(E.step # st.t, "LogStepIsLoopIndex") \cup If(~E.live, "EpochLogsLiveModel"))
  /\ st' = [st EXCEPT !.due = DueRest]

(* replay_buffer.sample_batch(len(replay_buffer), rng): as many rows as the buffer holds, each of them a stored transition.
   WHAT THE CODE DOES (BatchIsResampleOfBuffer): ReplayBuffer.sample_batch draws indices with replacement, so the batch is a
   bootstrap resample of the data set, not the data set itself ("Train dynamics model f given D" in the docstring) - hence
   membership, not equality, is the clause. *)
EvSample ==
  /\ E.ev = "sample"
  /\ Fail(Order \cup If(~AtTrainPoint, "TrainOnlyWhenDue")
          \cup If(E.b # BufLen \/ Len(E.rows) # E.b, "TrainBatchIsWholeBuffer")
          \cup If(\E i \in 1..Len(E.rows) : E.rows[i] \notin Stored, "TrainBatchRowsAreStored"))
  /\ st' = [st EXCEPT !.sampled = E.rows, !.hasSample = TRUE, !.due = DueRest]

(* update_dynamics_model(dynamics_model, D_obs, D_acts, D_next_obs, train_key, n_epochs) *)
EvTrain ==
  /\ E.ev = "train"
  /\ Fail(Order \cup If(~AtTrainPoint, "TrainOnlyWhenDue")
          \cup If(~st.hasSample \/ E.rows # st.sampled, "TrainDataIsSampledBatch")
          \cup If(E.epochs # M!EpochsP(st.trainCount + 1, C.lsgs, C.gs), "EpochsHandOver")
          \cup If(E.kpath # M!Child(st.tkey, 1), "TrainKeySplit")
          \cup If(~E.live, "TrainsLiveModel"))
  /\ st' = [st EXCEPT !.trained = TRUE, !.trainCount = @ + 1, !.tkey = M!Child(@, 0), !.hasSample = FALSE, !.loss = E.val,
                      !.due = IF C.logger THEN <<Ex("log_stat", "dynamics model loss"), Ex("log_epoch", "dynamics_model")>> ELSE <<>>]

ActClauses == Order \cup If(st.stage # "top", "OneActionPerStep") \cup If(DueNow /\ ~st.trained, "TrainMissing")

(* action_space.sample() *)
EvExplore ==
  /\ E.ev = "explore"
  /\ Fail(ActClauses \cup If(~M!ActsRandomlyP(st.t, C.ls), "RandomOnlyBeforeLearningStarts"))
  /\ st' = [st EXCEPT !.stage = "acted", !.pend = E.act, !.due = DueRest]

(* mpc_action: before / after = stored plan around the call, inp / okey = what the optimiser was handed, out = what it returned *)
EvPlan ==
  /\ E.ev = "plan"
  /\ Fail(ActClauses
          \cup If(M!ActsRandomlyP(st.t, C.ls), "PlannerOnlyAfterLearningStarts")
          \cup If(E.obs # st.lastObs, "PlansOnCurrentObservation")
          \cup If(~E.live, "PlansWithLiveModel")
          \cup If(~E.samefn, "OneOptimiserPerRun")
          \cup If(Len(E.before) # C.h \/ Len(E.after) # C.h, "PlanLength")
          \cup If(E.before # st.prevPlan, IF st.epCalls = 0 THEN "PlanResetAtEpisodeEnd" ELSE "StoredPlanIsShiftedPrevious")
          \cup If(E.ncalls # 1, "OptimiserCalledOnce")
          \cup If(E.inp # M!OptimiserInputP(E.before, C.with_prev), "OptimiserInput")
          \cup If(E.skey_b # st.skey, "KeyOnlyAdvancedByPlanner")
          \cup If(E.okey # M!Child(E.skey_b, 1) \/ E.skey_a # M!Child(E.skey_b, 0), "KeySplitOncePerCall")
          \cup If(Len(E.out) > 0 /\ E.ret # M!ReturnedAction(E.out), "ReturnsFirstRow")
          \cup If(Len(E.out) > 0 /\ E.after # M!ShiftFillsAvgAct(E.out), "ShiftByOne"))
  /\ st' = [st EXCEPT !.stage = "acted", !.pend = E.retd, !.prevPlan = E.after, !.skey = E.skey_a,
                      !.calls = @ + 1, !.epCalls = @ + 1, !.due = DueRest]

EvStep ==
  /\ E.ev = "step"
  /\ Fail(Order \cup If(st.stage # "acted", "ActionWithoutChoice")
          \cup If(st.stage = "acted" /\ E.act # st.pend, "ChosenActionExecuted")
          \cup If(st.t >= C.total, "RunsTotalTimesteps"))
  /\ st' = [st EXCEPT !.stage = "stepped", !.epLen = @ + 1, !.epRet4 = @ + E.r4, !.lastObs = E.obs,
                      !.ended = E.term \/ E.trunc, !.due = DueRest]

EpisodeEndEvents == (IF C.logger THEN (IF C.stats THEN <<Ex("log_stat", "return")>> ELSE <<>>) \o <<Ex("log_stop", ""), Ex("log_start", "")>> ELSE <<>>)
                    \o <<Ex("reset", "")>>

EvAdd ==
  /\ E.ev = "add"
  /\ Fail(Order \cup If(st.stage # "stepped", "StoreAfterStep"))
  /\ st' = IF st.ended
           THEN [st EXCEPT !.kept = Append(@, E.row), !.stage = "ending", !.due = EpisodeEndEvents]
           ELSE [st EXCEPT !.kept = Append(@, E.row), !.stage = "top", !.t = @ + 1, !.trained = FALSE, !.due = DueRest]

(* what train_pets returns: the MPC state after the last loop body *)
EvResult ==
  /\ E.ev = "result"
  /\ Fail(Order
          \cup If(st.t # C.total \/ st.stage # "top", "RunsTotalTimesteps")
          \cup If(E.plan # st.prevPlan, IF st.epCalls = 0 THEN "PlanResetAtEpisodeEnd" ELSE "StoredPlanIsShiftedPrevious")
          \cup If(E.skey # st.skey, "KeyOnlyAdvancedByPlanner")
          \cup If(E.n # BufLen, "ReturnedBufferHoldsRun"))
  /\ st' = [st EXCEPT !.due = DueRest]

EvOther ==
  /\ E.ev \notin {"reset", "log_start", "log_stop", "log_stat", "log_epoch", "sample", "train", "explore", "plan", "step", "add", "result"}
  /\ Fail(Order)
  /\ st' = [st EXCEPT !.due = DueRest]

Next == /\ l <= Len(T.events)
        /\ (EvReset \/ EvLogStart \/ EvLogStop \/ EvLogStat \/ EvLogEpoch \/ EvSample \/ EvTrain \/ EvExplore \/ EvPlan
            \/ EvStep \/ EvAdd \/ EvResult \/ EvOther)
        /\ l' = l + 1 /\ UNCHANGED tid

(* verdict lines: one per trace, printed when the trace is consumed *)
Verdict == (l = Len(T.events) + 1) =>
             PrintT(<<"VERDICT", ToJson([id |-> T.id, steps |-> st.t, trainings |-> st.trainCount, calls |-> st.calls, viol |-> viol])>>)
=============================================================================
