------------------------ MODULE BookkeepingTrace ------------------------
(* code -> spec: validates event streams recorded from the real train_td7,   *)
(* train_mrq and train_td3_lap (harness/extras/x02_record.py: scripted        *)
(* environment, recording buffer / logger of harness/probes.py, interposed    *)
(* td7_update_critic / ValueClippingState / _train_step / nnx.cached_partial  *)
(* / hard_target_net_update) against Bookkeeping.tla.                         *)
(*                                                                            *)
(* Every event takes the EFFECT of the corresponding Bookkeeping action, with *)
(* the value the real call produced as its parameter, and is judged clause by *)
(* clause against the value operator of the model (RangeAfter, TargetAfter,   *)
(* ClipBounds, RewardScale, MaxAfterUpdate, MaxAfterReset, Slots ...).        *)
(* Failing clauses are collected in `viol`; the model state follows the       *)
(* logged state, so the rest of the trace is still checked.  At the end of    *)
(* the trace the run-level invariants of Bookkeeping are evaluated on the     *)
(* ghost histories of the REAL run.  One TLC run validates a batch (tid).     *)
EXTENDS Bookkeeping, IOUtils

Traces == JsonDeserialize(IOEnv.TRACE_FILE)

VARIABLES tid, l,
          seg,     \* learning part of the current loop pass / iteration: what happened in it
          viol     \* set of <<position, clause>>

tvars == <<vars, tid, l, seg, viol>>

T == Traces[tid]
C == T.cfg
E == T.events[l]

NoSeg == [open |-> FALSE, learn |-> FALSE, due |-> FALSE, at |-> 0, resets |-> 0, bufresets |-> 0, tupd |-> 0, copies |-> 0,
          critic |-> 0, range |-> 0, rscalls |-> 0, enc |-> 0, logs |-> 0, prioupd |-> 0, samples |-> 0]
OpenSeg(learn, due, at) == [NoSeg EXCEPT !.open = TRUE, !.learn = learn, !.due = due, !.at = at]

TraceCfg(c) == [routine |-> c.routine, delay |-> c.delay, grid |-> c.grid, warm |-> c.warm, start |-> c.start, cap |-> c.cap,
                subtraj |-> c.subtraj, big |-> c.big, one |-> c.one, ncopies |-> c.ncopies, bs |-> c.bs, eh |-> c.eh, qh |-> c.qh]

TInit == /\ tid \in 1..Len(Traces) /\ l = 1
         /\ InitState(TraceCfg(Traces[tid].cfg))
         /\ seg = NoSeg /\ viol = {}

Fail(clauses) == viol' = viol \cup {<<l, c>> : c \in clauses}
If(b, c) == IF b THEN {c} ELSE {}
B2N(b) == IF b THEN 1 ELSE 0
Bump(field) == seg' = [seg EXCEPT ![field] = @ + 1]

(* projections of logged values: [ordinal, exactly float32], [num, den, exactly that rational] *)
Ord(x) == x[1]
Exact32(x) == x[2]
Rat(x) == <<x[1], x[2]>>
ExactQ(x) == x[3]
VcOf(a) == [minV |-> Ord(a.minV), maxV |-> Ord(a.maxV), minT |-> Ord(a.minT), maxT |-> Ord(a.maxT)]
VcExact(a) == Exact32(a.minV) /\ Exact32(a.maxV) /\ Exact32(a.minT) /\ Exact32(a.maxT)
OrdSeq(s) == [k \in 1..Len(s) |-> Ord(s[k])]
AllExact(s) == \A k \in 1..Len(s) : Exact32(s[k])

SegByAdd == cfg.routine # "td7"          \* MR.Q / TD3+LAP: the learning part of a pass is delimited by add events
Keep(groups) == UNCHANGED groups

----------------------------------------------------------------------------
(* what must have happened in a learning segment                              *)
CloseClauses(s) ==
  IF ~s.open THEN {}
  ELSE CASE cfg.routine = "td7" ->
              If(s.resets # B2N(s.due) \/ s.bufresets # B2N(s.due), "ResetExactlyAtUpdatePoints")
              \cup If(s.tupd # B2N(s.due), "TargetRangeExactlyAtUpdatePoints")
              \cup If(s.copies # (IF s.due THEN cfg.ncopies ELSE 0), "TargetCopiesExactlyAtUpdatePoints")
              \cup If(s.critic # 1 \/ s.range # 1 \/ s.prioupd # 1, "IterationStructure")
         [] cfg.routine = "mrq" ->
              If(s.resets # B2N(s.due) \/ s.bufresets # B2N(s.due), "ResetExactlyAtUpdatePoints")
              \cup If(s.copies # (IF s.due THEN cfg.ncopies ELSE 0), "TargetCopiesExactlyAtUpdatePoints")
              \cup If(s.rscalls # B2N(s.due), "HandOverExactlyAtUpdatePoints")
              \cup If(s.enc # B2N(s.due), "EncoderBlockExactlyAtUpdatePoints")
              \cup If(s.logs # B2N(s.due), "RewardScaleLoggedAtUpdatePoints")
              \cup If(s.critic # B2N(s.learn) \/ s.prioupd # B2N(s.learn) \/ s.samples # B2N(s.learn) + B2N(s.due), "IterationStructure")
         [] OTHER ->   \* td3_lap: GridDue (hard-coded 250-step grid on the absolute step index)
              If(s.resets # B2N(GridDue(cfg, s.at)) \/ s.bufresets # B2N(GridDue(cfg, s.at)), "ResetOnFixedGrid")
              \cup If(s.prioupd # B2N(s.learn), "IterationStructure")

(* data stored (before the routine: StoreBefore; in the loop: EnvStepAndStore); the add event carries the slots and the
   tracked maximum reported by PriorityBuffer.initialize_priority *)
EvAdd ==
  /\ E.ev = "add"
  /\ StoreEff(E.r4, E.ends)
  /\ LET inloop == pc = "act"
         s1 == step + 1
         learn == inloop /\ s1 >= cfg.warm
         ep1 == IF learn /\ SegByAdd THEN epoch + 1 ELSE epoch
     IN /\ step' = IF inloop THEN s1 ELSE step
        /\ epoch' = ep1
        /\ seg' = IF inloop /\ SegByAdd THEN OpenSeg(learn, learn /\ Due(cfg, ep1), s1) ELSE seg
        /\ Fail((IF inloop /\ SegByAdd THEN CloseClauses(seg) ELSE {})
                \cup If(E.idx # Slots(cfg, ins, E.ends), "InsertSlots")
                \cup If(Ord(E.maxp) # maxp \/ ~Exact32(E.maxp), "AddKeepsMaxPriority"))
  /\ UNCHANGED <<cfg, pc, ncopy>> /\ Keep(<<vcg, logg, rsg>>)

(* the buffer has been built (and possibly filled): the routine is entered *)
EvStart ==
  /\ E.ev = "bk_start"
  /\ LET i == InitialScales(rew, len) IN EnterRoutineEff(i[1], i[2])
  /\ pc' = "act" /\ UNCHANGED <<cfg, step, epoch, ncopy, seg>>
  /\ Fail(If(pc # "prefill", "EventOrder"))
  /\ Keep(<<vcg, logg, bufg>>)

(* td7._train_step(..., value_clipping_state, replay_buffer, epoch, ..., target_delay) *)
EvIter ==
  /\ E.ev = "bk_iter"
  /\ epoch' = E.epoch
  /\ seg' = OpenSeg(TRUE, Due(cfg, E.epoch), step)
  /\ Fail(If(E.epoch # epoch + 1, "EpochCountsIterations")
          \cup If(E.delay # cfg.delay, "ConfiguredDelay")
          \cup If(VcOf(E.state) # vc \/ ~VcExact(E.state), "RangeStateOnlyChangedByItsMethods")
          \cup If(seg.open, "EventOrder"))
  /\ UNCHANGED <<cfg, pc, step, ncopy>> /\ Keep(<<vcg, logg, bufg, rsg>>)

EvIterEnd ==
  /\ E.ev = "bk_iter_end"
  /\ seg' = NoSeg
  /\ Fail(CloseClauses(seg) \cup If(~seg.open, "EventOrder"))
  /\ UNCHANGED ctl /\ Keep(<<vcg, logg, bufg, rsg>>)

(* TD7: td7_update_critic received (q_min, q_max) and produced a target batch with the given extremes *)
EvCriticTd7 ==
  /\ E.ev = "bk_critic" /\ cfg.routine = "td7"
  /\ CriticEff(<<Ord(E.lo), Ord(E.hi)>>, <<Ord(E.qmin), Ord(E.qmax)>>)
  /\ ScaleCriticEff(<<rs, trs>>)
  /\ Bump("critic")
  /\ Fail(If(<<Ord(E.lo), Ord(E.hi)>> # ClipBounds(vc), "BoundsAreTargetRange")
          \cup If(~(Exact32(E.lo) /\ Exact32(E.hi) /\ Exact32(E.qmin) /\ Exact32(E.qmax)), "ValueNotFloat32")
          \cup If(~seg.open, "OutsideIteration"))
  /\ UNCHANGED ctl /\ Keep(<<logg, bufg>>)

(* MR.Q: update_critic_and_policy received (reward_scale, target_reward_scale) *)
EvCriticMrq ==
  /\ E.ev = "bk_critic" /\ cfg.routine = "mrq"
  /\ CriticEff(ClipBounds(vc), <<0, 0>>)
  /\ ScaleCriticEff(<<Rat(E.rs), Rat(E.trs)>>)
  /\ Bump("critic")
  /\ Fail(If(~QEq(Rat(E.rs), rs) \/ ~QEq(Rat(E.trs), trs) \/ ~ExactQ(E.rs) \/ ~ExactQ(E.trs), "CriticGetsCurrentScales")
          \cup If(E.n # cfg.bs, "CriticBatchSize")
          \cup If(~seg.open \/ ~seg.learn, "OutsideIteration"))
  /\ UNCHANGED ctl /\ Keep(<<logg, bufg>>)

(* ValueClippingState.update_range(q_target) + the metrics snapshot that follows it *)
EvRange ==
  /\ E.ev = "bk_range"
  /\ LET got == <<Ord(E.qmin), Ord(E.qmax)>>
         after == VcOf(E.after)
     IN /\ UpdateRangeEff(after)
        /\ SnapshotEff(after)
        /\ Fail(If(got # obs, "RangeSeesCriticTargets")
                \cup If(after # RangeAfter(vc, got) \/ ~VcExact(E.after), "RunningRangeIsMinMaxOfTargets")
                \cup If(~seg.open, "OutsideIteration"))
  /\ Bump("range")
  /\ UNCHANGED ctl /\ Keep(<<bufg, rsg>>)

(* ValueClippingState.update_target_range() *)
EvTargetRange ==
  /\ E.ev = "bk_target_range"
  /\ LET after == VcOf(E.after)
     IN /\ UpdateTargetRangeEff(after)
        /\ Fail(If(after # TargetAfter(vc) \/ ~VcExact(E.after), "TargetRangeTakesRunningRange")
                \cup If(~seg.open, "OutsideIteration"))
  /\ Bump("tupd")
  /\ UNCHANGED ctl /\ Keep(<<logg, bufg, rsg>>)

(* PriorityBuffer.update_priority *)
EvPrioUpdate ==
  /\ E.ev = "prio_update"
  /\ UpdatePriorityEff(E.idx, OrdSeq(E.p), Ord(E.maxp))
  /\ Bump("prioupd")
  /\ Fail(If(Ord(E.maxp) # MaxAfterUpdate(maxp, OrdSeq(E.p)) \/ ~Exact32(E.maxp) \/ ~AllExact(E.p), "MaxPriorityIsRunningMaximum")
          \cup If(Ord(E.maxp) < maxp, "MaxPriorityMonotoneBetweenResets")
          \cup If(Len(E.idx) # Len(E.p) \/ \E k \in 1..Len(E.idx) : E.idx[k] \notin 0..(len - 1), "PrioritySlots")
          \cup If(~seg.open, "OutsideIteration"))
  /\ UNCHANGED ctl /\ Keep(<<vcg, logg, rsg>>)

(* PriorityBuffer.reset_max_priority(current_len) *)
EvPrioReset ==
  /\ E.ev = "prio_reset"
  /\ ResetEff(Ord(E.maxp), IF cfg.routine = "td3_lap" THEN step ELSE epoch)
  /\ Bump("resets")
  /\ Fail(If(E.n # len, "ResetSeesCurrentLength")
          \cup If(Ord(E.maxp) # MaxAfterReset(prio, len, maxp) \/ ~Exact32(E.maxp), "ResetRecalculatesMaximum")
          \cup If(~seg.open, "ResetOutsideLearning"))
  /\ UNCHANGED ctl /\ Keep(<<vcg, logg, rsg>>)

(* the buffer-level call replay_buffer.reset_max_priority() (recording buffer of harness/probes.py) *)
EvBufReset ==
  /\ E.ev = "reset_max_priority"
  /\ Bump("bufresets")
  /\ Fail(If(~seg.open, "ResetOutsideLearning"))
  /\ UNCHANGED ctl /\ Keep(<<vcg, logg, bufg, rsg>>)

(* hard_target_net_update / soft_target_net_update *)
EvCopy ==
  /\ E.ev = "bk_copy"
  /\ ncopy' = ncopy + 1
  /\ Bump("copies")
  /\ Fail(If(~seg.open, "OutsideIteration"))
  /\ UNCHANGED <<cfg, pc, step, epoch>> /\ Keep(<<vcg, logg, bufg, rsg>>)

(* replay_buffer.reward_scale(): before the loop (InitialScales) or the hand-over at an update point *)
EvRewardScale ==
  /\ E.ev = "bk_rs"
  /\ LET v == Rat(E.v)
         good == len > 0 /\ ExactQ(E.v) /\ QEq(v, RewardScale(rew, len))
     IN IF seg.open
        THEN /\ HandOverEff(v, rs)
             /\ Bump("rscalls")
             /\ Fail(If(~good, "RewardScaleIsMeanAbsReward") \cup If(E.n # len, "RewardScaleSeesCurrentLength"))
        ELSE /\ Keep(<<rsg, seg>>)
             /\ Fail(If(~good, "RewardScaleIsMeanAbsReward")
                     \cup If(step # cfg.start - 1 \/ len = 0 \/ pc # "act", "InitialScaleOnlyFromStoredData"))
  /\ UNCHANGED ctl /\ Keep(<<vcg, logg, bufg>>)

(* SubtrajectoryReplayBufferPER.sample_batch(batch_size, horizon, include_intermediate, rng) *)
EvSample ==
  /\ E.ev = "bk_sample"
  /\ Bump("samples")
  /\ Fail(IF seg.open /\ seg.due /\ seg.samples = 0
          THEN If(E.n # cfg.bs * cfg.delay \/ E.hor # cfg.eh \/ ~E.inter, "EncoderBatchIsDelayTimesBatchSize")
          ELSE If(E.n # cfg.bs \/ E.hor # cfg.qh \/ E.inter, "CriticBatch"))
  /\ UNCHANGED ctl /\ Keep(<<vcg, logg, bufg, rsg>>)

(* update_model_based_encoder: target_delay mini-batches of batch_size subtrajectories, one optimiser step each *)
EvEncoder ==
  /\ E.ev = "bk_encoder"
  /\ EncoderEff(E.opt_steps)
  /\ Bump("enc")
  /\ Fail(If(E.nsub # cfg.bs * cfg.delay \/ E.hor # cfg.eh \/ E.opt_steps # cfg.delay \/ E.delay # cfg.delay \/ E.bs # cfg.bs \/ E.eh # cfg.eh,
             "EncoderBlockIsDelayMiniBatches")
          \cup If(~seg.open \/ seg.rscalls = 0, "EncoderAfterHandOver"))
  /\ UNCHANGED ctl /\ Keep(<<vcg, logg, bufg>>)

(* logger.record_stat(key, value) for the bookkeeping quantities *)
Field(m, k) == CASE k = "min_value" -> m.minV [] k = "max_value" -> m.maxV [] k = "min_target_value" -> m.minT [] OTHER -> m.maxT
EvLog ==
  /\ E.ev = "bk_log"
  /\ IF E.key = "reward scale"
     THEN /\ LogRewardScaleEff(Rat(E.q))
          /\ Bump("logs")
          /\ Fail(If(~QEq(Rat(E.q), rs) \/ ~ExactQ(E.q), "LoggedRewardScaleIsCurrent"))
     ELSE /\ LogMetricsEff([logged EXCEPT ![CASE E.key = "min_value" -> "minV" [] E.key = "max_value" -> "maxV"
                                               [] E.key = "min_target_value" -> "minT" [] OTHER -> "maxT"] = Ord(E.o)], 1)
          /\ UNCHANGED seg
          /\ Fail(If(Ord(E.o) # Field(snap, E.key) \/ ~Exact32(E.o), "LoggedMetricsAreSnapshot"))
  /\ UNCHANGED ctl /\ Keep(<<vcg, bufg, rsg>>)

----------------------------------------------------------------------------
(* end of the run: close the last segment and evaluate the run-level invariants of Bookkeeping on the real histories *)
WellFormed ==
  /\ epoch >= E0
  /\ Td7 => (Len(hist) = epoch - E0 /\ Len(usedHist) = Len(hist) /\ Len(seen) = Len(hist))
  /\ Mrq => Len(pairHist) = epoch - E0
FinalClauses ==
  IF ~WellFormed THEN {"HistoryStructure"}
  ELSE If(~RunningRangeIsExtremeOfSeen, "Inv:RunningRangeIsExtremeOfSeen")
       \cup If(~TargetRangeIsRunningAtLastUpdatePoint, "Inv:TargetRangeIsRunningAtLastUpdatePoint")
       \cup If(~ClipBoundsAreTargetRangeBeforeStep, "Inv:ClipBoundsAreTargetRangeBeforeStep")
       \cup If(~ResetCadence, "Inv:ResetCadence")
       \cup If(~TargetCopiesAtUpdatePoints, "Inv:TargetCopiesAtUpdatePoints")
       \cup If(~MaxPriorityDominates, "Inv:MaxPriorityDominates")
       \cup If(~ScalesHandedOver, "Inv:ScalesHandedOver")
       \cup If(~CriticGetsPairInForce, "Inv:CriticGetsPairInForce")
       \cup If(~EncoderBlocksAtUpdatePoints, "Inv:EncoderBlocksAtUpdatePoints")
       \cup If(~LoggedTargetRangeLags, "Inv:LoggedTargetRangeLags")
       \cup If(~LoggedRewardScaleIsCurrent, "Inv:LoggedRewardScaleIsCurrent")
       \cup If(Td7 /\ nlog # 4 * (epoch - E0), "MetricsLoggedEveryIteration")

EvEnd ==
  /\ E.ev = "end"
  /\ seg' = NoSeg
  /\ Fail((IF SegByAdd THEN CloseClauses(seg) ELSE If(seg.open, "EventOrder")) \cup FinalClauses)
  /\ UNCHANGED vars

Known == {"add", "bk_start", "bk_iter", "bk_iter_end", "bk_critic", "bk_range", "bk_target_range", "prio_update", "prio_reset",
          "reset_max_priority", "bk_copy", "bk_rs", "bk_sample", "bk_encoder", "bk_log", "end"}
EvOther ==
  /\ E.ev \notin Known
  /\ Fail({})
  /\ UNCHANGED <<vars, seg>>

TNext == /\ l <= Len(T.events)
         /\ (EvAdd \/ EvStart \/ EvIter \/ EvIterEnd \/ EvCriticTd7 \/ EvCriticMrq \/ EvRange \/ EvTargetRange \/ EvPrioUpdate
             \/ EvPrioReset \/ EvBufReset \/ EvCopy \/ EvRewardScale \/ EvSample \/ EvEncoder \/ EvLog \/ EvEnd \/ EvOther)
         /\ l' = l + 1 /\ UNCHANGED tid

(* verdict lines: one per trace, printed when the trace is consumed *)
Verdict == (l = Len(T.events) + 1) =>
             PrintT(<<"VERDICT", ToJson([id |-> T.id, steps |-> step - cfg.start + 1, iterations |-> epoch - E0, updates |-> Len(resetsAt),
                                         copies |-> ncopy, viol |-> viol])>>)
=============================================================================
