--------------------------- MODULE LoopTrace ---------------------------
(* Trace validation of recorded executions of rl_blox training routines       *)
(* against the clause operators of the protocol specification (LoopClauses).  *)
(* Every trace is consumed event by event; each event is judged clause by     *)
(* clause, failing clauses are collected in `viol` (position, clause) and the *)
(* machine re-synchronises on the logged facts, so the REST of the trace is   *)
(* still checked.  One TLC run validates a whole batch of traces (tid).       *)
EXTENDS Integers, Sequences, FiniteSets, TLC, Json, IOUtils, LoopClauses

Traces == JsonDeserialize(IOEnv.TRACE_FILE)

VARIABLES tid, l,
          phase,     \* [env -> "idle" | "running" | "ended"]
          lastObs,   \* [env -> tag the environment returned last]
          queue,     \* [env -> Seq of produced transitions not yet stored]
          kept,      \* Seq of all transitions kept so far (add events, in order)
          hist,      \* Seq of all transitions the environment(s) produced so far (step events; auto-reset calls), in log order
          autoq,     \* [env -> Seq of rows a vector environment produced for its auto-reset calls (NEXT_STEP mode)]
          pend,      \* [env -> [src, act]] pending action choice
          executed, epsDone,
          updates,   \* number of events at which a trained component was seen changed
          prevEv,    \* name of the previous event
          callStart, \* executed steps at the latest inner_call (multi-task schedulers)
          iters,     \* number of gradient iterations started so far (buffer sample events)
          seg,       \* open learning segment: [open, changed, stepIdx, iter]
          dirty,     \* targets whose online counterpart (cfg.pairs) changed since the target last changed
          viol       \* set of <<position, clause>>

vars == <<tid, l, phase, lastObs, queue, kept, hist, autoq, pend, executed, epsDone, updates, prevEv, callStart, iters, seg, dirty, viol>>

T == Traces[tid]
C == T.cfg
E == T.events[l]
Envs == 0..(C.nenvs - 1)
NoTag == <<-1, -1, -1>>

Init == /\ tid \in 1..Len(Traces) /\ l = 1
        /\ phase = [e \in 0..(Traces[tid].cfg.nenvs - 1) |-> "idle"]
        /\ lastObs = [e \in 0..(Traces[tid].cfg.nenvs - 1) |-> NoTag]
        /\ queue = [e \in 0..(Traces[tid].cfg.nenvs - 1) |-> <<>>]
        /\ autoq = [e \in 0..(Traces[tid].cfg.nenvs - 1) |-> <<>>]
        /\ kept = <<>> /\ hist = <<>>
        /\ pend = [e \in 0..(Traces[tid].cfg.nenvs - 1) |-> [src |-> "none", act |-> "none"]]
        /\ executed = 0 /\ epsDone = 0 /\ updates = 0 /\ prevEv = "none" /\ viol = {}
        /\ dirty = {} /\ callStart = 0 /\ iters = 0 /\ seg = [open |-> FALSE, changed |-> {}, stepIdx |-> 0, iter |-> 0]

Fail(clauses) == viol' = viol \cup {<<l, c>> : c \in clauses}
SetOf(s) == {s[i] : i \in 1..Len(s)}
Changed == SetOf(E.changed)
LatestStepIndex == C.start + executed - 1

----------------------------------------------------------------------------
(* C05 / C06 inside training runs: a learning segment starts with a buffer      *)
(* sample (one gradient iteration) and ends with the next sample or the next    *)
(* protocol event; the components seen changed over the segment must be exactly *)
(* those the routine's documented rules make due at that step / iteration.      *)
(* A rule is [comps, counter ("step" | "iter" | "always"), mod, rem, after].    *)
Learnish == {"sample", "update_priority", "reset_max_priority", "log_stat", "log_epoch", "log_start", "log_stop"}
RuleDue(r, stepIdx, it, sampled) ==
  /\ stepIdx >= r.after
  /\ (r.needs_sample => sampled)
  /\ CASE r.counter = "always" -> TRUE
       [] r.counter = "step" -> stepIdx % r.mod = r.rem
       [] r.counter = "iter" -> sampled /\ it % r.mod = r.rem
       [] OTHER -> FALSE
DueComps(stepIdx, it, sampled) == UNION {SetOf(C.rules[i].comps) : i \in {j \in 1..Len(C.rules) : RuleDue(C.rules[j], stepIdx, it, sampled)}}
Ruled == UNION {SetOf(C.rules[i].comps) : i \in 1..Len(C.rules)}
Paired == {C.pairs[i][1] : i \in 1..Len(C.pairs)}
OnlineOf(t) == {C.pairs[i][2] : i \in {j \in 1..Len(C.pairs) : C.pairs[j][1] = t}}
(* a copy of unchanged content is invisible to content digests: a due target update is only required to
   show when the target's online counterpart changed since the target last changed *)
MustShow(changed) == {t \in SetOf(C.targets) : t \notin Paired \/ t \in dirty \/ OnlineOf(t) \cap changed # {}}
SegClauses(changed, stepIdx, it, sampled) ==
  LET due == DueComps(stepIdx, it, sampled) IN
    (IF (changed \cap Ruled \cap SetOf(C.targets)) \ due # {} THEN {"TargetsOnlyAtUpdatePoints"} ELSE {})
    \cup (IF ((due \cap MustShow(changed)) \ changed) # {} THEN {"TargetUpdateMissing"} ELSE {})
    \cup (IF ((changed \cap Ruled) \ SetOf(C.targets)) \ due # {} THEN {"TrainedOnlyWhenDue"} ELSE {})
    \cup (IF ((due \ SetOf(C.targets)) \ changed) # {} THEN {"UpdateMissing"} ELSE {})
(* closing: the closing event's own changes still belong to the segment *)
Opener == C.segment     \* "add": one segment per stored step; "sample": one per gradient iteration
Closes == seg.open /\ (E.ev = Opener \/ E.ev \notin Learnish)
SegClose == IF Closes /\ Len(C.rules) > 0
            THEN IF Opener = "sample"
                 THEN SegClauses(seg.changed \cup Changed, seg.stepIdx, seg.iter, TRUE)
                 ELSE SegClauses(seg.changed \cup Changed, seg.stepIdx, iters, iters > seg.iter)
            ELSE {}
(* changes of ruled components outside any learning segment *)
OutOfSegment == IF ~seg.open /\ Len(C.rules) > 0
                THEN (IF (Changed \cap Ruled) \ SetOf(C.targets) # {} THEN {"ChangeOutsideLearning"} ELSE {})
                     \cup (IF (Changed \cap Ruled \cap SetOf(C.targets)) # {} THEN {"TargetChangeOutsideLearning"} ELSE {})
                ELSE {}
(* "add" must not be treated as a learning event even when it opens a segment: its own changes are judged by StoringChangesNothing *)


(* copy relations on content digests: E.same lists the groups of watched components with bit-identical content *)
SameContent(a, b) == \E i \in 1..Len(E.same) : a \in SetOf(E.same[i]) /\ b \in SetOf(E.same[i])
(* a hard update makes the target equal to its online network (judged at the first event after the copy) *)
HardCopyClauses ==
  IF \E i \in 1..Len(C.hard_pairs) : C.hard_pairs[i][1] \in Changed /\ ~SameContent(C.hard_pairs[i][1], C.hard_pairs[i][2])
  THEN {"HardCopyIsCopy"} ELSE {}
(* components that are documented to be copied together (TD7's checkpoint = fixed embedding + actor):
   when one member of the group is copied, every member equals its source *)
CopyGroupClauses ==
  IF \E g \in 1..Len(C.copy_groups) :
       /\ \E i \in 1..Len(C.copy_groups[g]) : C.copy_groups[g][i][1] \in Changed
       /\ \E i \in 1..Len(C.copy_groups[g]) : ~SameContent(C.copy_groups[g][i][1], C.copy_groups[g][i][2])
  THEN {"CopyGroupIncomplete"} ELSE {}

(* the law inside runs: whenever a watched target changed, the projection judged the relation between its
   previous value, the online network and its new value (float32 recomputation of tau*online + (1-tau)*target;
   tau = 1 for hard copies); anything but "polyak" is a violation of the update rule at that call site *)
LawClauses == IF \E i \in 1..Len(E.rel) : E.rel[i][2] # "polyak" THEN {"TargetLawInRun"} ELSE {}

(* clauses that apply to every event: frame conditions on component versions *)
Common ==
  (IF Changed \cap SetOf(C.frozen) # {} THEN {"FrozenComponentChanged"} ELSE {})
  \cup (IF Changed \cap (SetOf(C.trained) \cup SetOf(C.targets)) # {} /\ C.warmlearn >= 0 /\ ~CMayLearn(LatestStepIndex, C.warmlearn)
        THEN {"NoLearnBeforeWarmup"} ELSE {})
  \cup (IF Changed # {} /\ E.ev = "add" THEN {"StoringChangesNothing"} ELSE {})
  \cup (IF Changed # {} /\ E.ev = "step" /\ prevEv \in {"explore", "policy"} THEN {"ActingChangesNothing"} ELSE {})
  \cup SegClose \cup OutOfSegment \cup HardCopyClauses \cup CopyGroupClauses \cup LawClauses

Bump == /\ l' = l + 1 /\ prevEv' = E.ev /\ UNCHANGED tid
        /\ updates' = IF Changed \cap SetOf(C.trained) # {} THEN updates + 1 ELSE updates
        /\ iters' = IF E.ev = "sample" THEN iters + 1 ELSE iters
        /\ callStart' = IF E.ev = "inner_call" THEN executed ELSE callStart
        /\ kept' = IF E.ev = "add" /\ ~E.auto
                   THEN Append(kept, [obs |-> E.obs, act |-> E.act, r |-> E.r4, next |-> E.next, term |-> E.term])
                   ELSE kept
        (* the environment log as transitions: what a step produced = (observation returned last, action received, reward,
           successor, termination flag); the answer of a NEXT_STEP vector environment to the call after an episode end *)
        /\ hist' = IF E.ev = "step"
                   THEN Append(hist, [obs |-> lastObs[E.env], act |-> E.act, r |-> E.r4, next |-> E.obs, term |-> E.term])
                   ELSE IF E.ev = "reset" /\ C.autoreset /\ phase[E.env] = "ended"
                   THEN Append(hist, [obs |-> lastObs[E.env], act |-> "any", r |-> 0, next |-> E.obs, term |-> FALSE])
                   ELSE hist
        /\ dirty' = (dirty \cup {t \in Paired : OnlineOf(t) \cap Changed # {}}) \ (Changed \cap SetOf(C.targets))
        /\ seg' = IF E.ev = Opener
                  THEN [open |-> TRUE, changed |-> {}, iter |-> IF Opener = "sample" THEN iters + 1 ELSE iters,
                        stepIdx |-> IF E.ev = "step" THEN LatestStepIndex + 1 ELSE LatestStepIndex]
                  ELSE IF E.ev \in Learnish /\ seg.open THEN [seg EXCEPT !.changed = @ \cup Changed]
                  ELSE [open |-> FALSE, changed |-> {}, stepIdx |-> 0, iter |-> 0]

EvReset ==
  /\ E.ev = "reset"
  /\ phase' = [phase EXCEPT ![E.env] = "running"]
  /\ lastObs' = [lastObs EXCEPT ![E.env] = E.obs]
  /\ pend' = [pend EXCEPT ![E.env] = [src |-> "none", act |-> "none"]]
  (* a vector environment in NEXT_STEP mode answers the call after an episode end with
     (reset observation, reward 0, no flags): that is what it produced for that call *)
  /\ autoq' = IF C.autoreset /\ phase[E.env] = "ended"
              THEN [autoq EXCEPT ![E.env] = Append(@, [obs |-> lastObs[E.env], act |-> "any", r |-> 0, next |-> E.obs, term |-> FALSE, trunc |-> FALSE])]
              ELSE autoq
  /\ Fail(Common)
  /\ UNCHANGED <<queue, executed, epsDone>>

EvExplore ==
  /\ E.ev = "explore"
  /\ pend' = [pend EXCEPT ![E.env] = [src |-> "explore", act |-> E.act]]
  /\ Fail(Common \cup (IF C.warmact >= 0 /\ C.start + executed >= C.warmact /\ C.explore_only_in_warmup THEN {"ExploreOnlyInWarmup"} ELSE {}))
  /\ UNCHANGED <<phase, lastObs, queue, autoq, executed, epsDone>>

(* exploration probability in force at the upcoming step (times 4): constant (epsilon4) or a step schedule that is 1
   before step index eps_switch and 0 from it on; -1 = unknown *)
Eps4 == IF C.eps_switch >= 0 THEN (IF C.start + executed < C.eps_switch THEN 4 ELSE 0) ELSE C.epsilon4

(* the policy / planner was evaluated on an un-batched observation *)
EvPolicy ==
  /\ E.ev = "policy"
  /\ pend' = [pend EXCEPT ![E.env] = [src |-> "policy", act |-> IF E.chosen >= 0 THEN ToString(E.chosen) ELSE "unknown"]]
  /\ Fail(Common
          \cup (IF ~CCondMatches(E.obs, lastObs[E.env]) THEN {"CondFaithful"} ELSE {})
          \cup (IF E.chosen >= 0 /\ E.chosen \notin SetOf(E.argmax) THEN {"GreedyIsMaximiser"} ELSE {})
          \cup (IF ~E.current THEN {"GreedyOnCurrentEstimate"} ELSE {})
          \cup (IF Eps4 = 4 /\ C.start + executed >= C.warmact THEN {"EpsilonOneNeverGreedy"} ELSE {})
          \cup (IF C.warmact >= 0 /\ C.start + executed < C.warmact THEN {"PolicyBeforeWarmup"} ELSE {}))
  /\ UNCHANGED <<phase, lastObs, queue, autoq, executed, epsDone>>

EvStep ==
  /\ E.ev = "step"
  /\ LET e == E.env
         rec == [obs |-> lastObs[e], act |-> E.act, r |-> E.r4, next |-> E.obs, term |-> E.term, trunc |-> E.trunc]
         ended == CEpisodeEnds(E.term, E.trunc)   \* also a step that carries BOTH flags ends its episode - once
     IN
     /\ queue' = [queue EXCEPT ![e] = Append(@, rec)]
     /\ lastObs' = [lastObs EXCEPT ![e] = E.obs]
     /\ phase' = [phase EXCEPT ![e] = IF ended THEN "ended" ELSE phase[e]]
     /\ executed' = executed + 1
     /\ epsDone' = IF ~E.after_end THEN epsDone + CEpisodesEnded(E.term, E.trunc) ELSE epsDone
     /\ pend' = [pend EXCEPT ![e] = [src |-> "none", act |-> "none"]]
     /\ UNCHANGED autoq
     /\ Fail(Common
          \cup (IF ~CCanStep(phase[e]) \/ E.after_end THEN {"NoStepAfterEnd"} ELSE {})
          \cup (IF C.budget >= 0 /\ ~CWithinBudget(executed, C.budget, C.start) THEN {"BudgetRespected"} ELSE {})
          \cup (IF ~CMayContinue(epsDone, C.eplimit) THEN {"StopsAtEpisodeLimit"} ELSE {})
          \cup (IF C.check_bounds /\ E.box /\ (~E.finite \/ ~CInBounds(E.a, E.lo, E.hi, C.ulpk)) THEN {"ActionInBounds"} ELSE {})
          \cup (IF C.check_bounds /\ ~E.box /\ ~E.valid THEN {"ActionInBounds"} ELSE {})
          \cup (IF pend[e].src = "explore" /\ pend[e].act # E.act THEN {"ExploredActionPassed"} ELSE {})
          \cup (IF pend[e].src = "policy" /\ pend[e].act # "unknown" /\ pend[e].act # E.act THEN {"ChosenActionPassed"} ELSE {})
          \cup (IF Eps4 = 0 /\ C.start + executed >= C.warmact /\ pend[e].src = "explore" THEN {"EpsilonZeroAlwaysGreedy"} ELSE {})
          (* C13, loop clause at execution time: with exploration probability 0 the action PASSED to the environment is a
             maximiser of the routine's CURRENT estimate at the observation the environment returned last.  E.qrow holds
             the action values of that estimate (float32 ordinals) as they are when the environment receives the action;
             it is independent of the routine's own greedy evaluations (policy events), so a choice made before an
             update and executed after it is judged against the updated estimate. *)
          \cup (IF E.has_q /\ Eps4 = 0 /\ C.start + executed >= C.warmact /\ ~CIsMaximiser(E.qrow, E.acti + 1)
                THEN {"ExecutedActionGreedy"} ELSE {})
          (* C10, last clause, at the configured exploration noise level 0 (cfg.expl_noise8 = 8 * level; -1 = the routine
             has no such parameter): the action the environment receives after a policy evaluation is exactly the clipped
             action of the LIVE policy at the observation the environment returned last.  E.pol = that action (float32
             ordinals), evaluated by the environment's execution probe when it receives the action - independent of the
             routine's own sampler, so a sampler built with any other noise-like parameter (target policy noise, noise
             clip ...), all of which are non-zero and pairwise different in every scenario, shows. *)
          \cup (IF C.expl_noise8 = 0 /\ E.has_pol /\ E.box /\ pend[e].src = "policy" /\ ~CUnperturbed(E.a, E.pol, E.lo, E.hi)
                THEN {"ExplorationNoiseScale"} ELSE {})
          \cup (IF C.policy_probe /\ pend[e].src = "none" THEN {"ActionWithoutChoice"} ELSE {}))

(* a transition kept for learning: must be the oldest produced-but-unstored one of that stream *)
EvAdd ==
  /\ E.ev = "add"
  /\ LET e == E.env
         rec == [obs |-> E.obs, act |-> E.act, r |-> E.r4, next |-> E.next, term |-> E.term]
         src == IF E.auto THEN autoq[e] ELSE queue[e]
     IN
     IF Len(src) = 0
     THEN /\ Fail(Common \cup {"StoredNotProduced"}) /\ UNCHANGED <<queue, autoq>>
     ELSE LET p == Head(src) IN
          /\ queue' = IF E.auto THEN queue ELSE [queue EXCEPT ![e] = Tail(@)]
          /\ autoq' = IF E.auto THEN [autoq EXCEPT ![e] = Tail(@)] ELSE autoq
          /\ Fail(Common
               \cup (IF ~CStoreObs(rec, p.obs) THEN {"StoreObs"} ELSE {})
               \cup (IF C.check_act /\ ~E.auto /\ ~CStoreAct(rec, p.act) THEN {"StoreAct"} ELSE {})
               \cup (IF ~CStoreReward(rec, p.r) THEN {"StoreReward"} ELSE {})
               \cup (IF C.check_next /\ E.chk_next /\ ~CStoreNext(rec, p.next) THEN {"StoreNext"} ELSE {})
               \cup (IF C.check_term /\ E.chk_term /\ ~CStoreTerm(rec, p.term) THEN {"StoreTerm"} ELSE {})
               (* buffers that keep the truncation flag (subtrajectory buffers mask windows by it) *)
               \cup (IF E.has_trunc /\ E.trunc # p.trunc THEN {"StoreTrunc"} ELSE {})
               (* the learner is handed the routine's current estimate, not a stale copy *)
               \cup (IF ~E.table_current THEN {"LearnerOnCurrentEstimate"} ELSE {}))
  /\ UNCHANGED <<phase, lastObs, pend, executed, epsDone>>

EvRet ==
  /\ E.ev = "ret"
  /\ Fail(Common \cup (IF C.ret_applicable /\ ~CReturnMatches(E.n, C.start, executed) THEN {"ReturnedCount"} ELSE {}))
  /\ UNCHANGED <<phase, lastObs, queue, autoq, pend, executed, epsDone>>

(* multi-task schedulers: every chained call of the single-task learner is bracketed by inner_call /
   inner_ret; the count fed in must be the steps really executed so far and the count reported back must
   be that start plus the steps executed within the call *)
EvInnerCall ==
  /\ E.ev = "inner_call"
  /\ Fail(Common \cup (IF E.start # C.start + executed THEN {"InnerCallStart"} ELSE {}))
  /\ UNCHANGED <<phase, lastObs, queue, autoq, pend, executed, epsDone>>

EvInnerRet ==
  /\ E.ev = "inner_ret"
  /\ Fail(Common \cup (IF E.n >= 0 /\ E.n # E.start + (executed - callStart) THEN {"InnerReturnedCount"} ELSE {}))
  /\ UNCHANGED <<phase, lastObs, queue, autoq, pend, executed, epsDone>>

(* what a fixed-capacity buffer holds at the end of the run: exactly the most recent min(n, capacity) kept transitions *)
EvFinalBuffer ==
  /\ E.ev = "final_buffer"
  /\ LET rows == {[obs |-> E.rows[i].obs, act |-> E.rows[i].act, r |-> E.rows[i].r4, next |-> E.rows[i].next, term |-> E.rows[i].term] : i \in 1..Len(E.rows)}
         m == IF Len(kept) < E.n THEN Len(kept) ELSE E.n
         recent == {kept[i] : i \in (Len(kept) - m + 1)..Len(kept)}
     IN Fail(Common \cup (IF rows # recent \/ Len(E.rows) # m THEN {"FinalBufferFaithful"} ELSE {}))
  /\ UNCHANGED <<phase, lastObs, queue, autoq, pend, executed, epsDone>>

(* the components a routine hands back for continued training are distinct objects: a returned target that is (or
   shares variables with) another returned component would be changed by that component's updates *)
EvResult ==
  /\ E.ev = "result"
  /\ Fail(Common \cup (IF Len(E.aliased) > 0 THEN {"ResultComponentsDistinct"} ELSE {}))
  /\ UNCHANGED <<phase, lastObs, queue, autoq, pend, executed, epsDone>>

(* the rows a learner is handed (module-level policy / value update functions of the on-policy routines, interposed at
   call time): every row of the prepared batch - whatever its layout - is one real environment step: its observation is
   the observation some step started from and the action (reward, successor, flag - the fields the row carries) are
   those of THAT step.  Judged against the environment log (hist), not against the routine's own rollout record. *)
EvLearnRows ==
  /\ E.ev = "learn_rows"
  /\ LET produced == SetOf(hist)
         row(i) == [obs |-> E.lrows[i].obs, act |-> E.lrows[i].act, r |-> E.lrows[i].r4, next |-> E.lrows[i].next, term |-> E.lrows[i].term]
         verdicts == {CRowVerdict(row(i), SetOf(E.lrows[i].has), produced) : i \in 1..Len(E.lrows)}
     IN Fail(Common \cup {"Learn" \o v : v \in verdicts \ {"ok"}})
  /\ UNCHANGED <<phase, lastObs, queue, autoq, pend, executed, epsDone>>

(* the experience record a model-based tabular learner keeps (Dyna-Q's Counter: transition counts and reward lists per
   (o, a, o')), projected as a whole whenever it is handed to the model update: it must equal exactly the multiset of
   environment steps so far - the entry of (o, a, o') counts the logged steps (o, a) -> o' and lists the rewards of exactly
   those steps in order; transitions that never happened have no entry; every transition that happened has one. *)
EvExperience ==
  /\ E.ev = "experience"
  /\ LET n == Len(E.rec)
         steps(i) == CStepsOf(hist, E.rec[i].obs, E.rec[i].act, E.rec[i].next)
         listed == {<<E.rec[i].obs, E.rec[i].act, E.rec[i].next>> : i \in 1..n}
         happened == {<<hist[k].obs, hist[k].act, hist[k].next>> : k \in 1..Len(hist)}
     IN Fail(Common
          \cup (IF \E i \in 1..n : ~CRecordProduced(steps(i)) THEN {"RecordNotProduced"} ELSE {})
          \cup (IF \E i \in 1..n : CRecordProduced(steps(i)) /\ ~CRecordCount(E.rec[i], steps(i)) THEN {"RecordCount"} ELSE {})
          \cup (IF \E i \in 1..n : CRecordProduced(steps(i)) /\ ~CRecordRewards(E.rec[i], steps(i)) THEN {"RecordReward"} ELSE {})
          \cup (IF E.readable /\ happened \ listed # {} THEN {"RecordMissing"} ELSE {}))
  /\ UNCHANGED <<phase, lastObs, queue, autoq, pend, executed, epsDone>>

(* events without protocol content (buffer sampling, logger calls ...): frame clauses only *)
EvOther ==
  /\ E.ev \notin {"reset", "explore", "policy", "step", "add", "ret", "inner_call", "inner_ret", "final_buffer", "result", "learn_rows", "experience"}
  /\ Fail(Common)
  /\ UNCHANGED <<phase, lastObs, queue, autoq, pend, executed, epsDone>>

Next == /\ l <= Len(T.events)
        /\ (EvReset \/ EvExplore \/ EvPolicy \/ EvStep \/ EvAdd \/ EvRet \/ EvInnerCall \/ EvInnerRet \/ EvFinalBuffer \/ EvResult \/ EvLearnRows \/ EvExperience \/ EvOther)
        /\ Bump

(* verdict lines: one per trace, printed when the trace is consumed *)
Verdict == (l = Len(T.events) + 1) =>
             PrintT(<<"VERDICT", ToJson([id |-> T.id, executed |-> executed, episodes |-> epsDone, updates |-> updates, viol |-> viol])>>)
=============================================================================
