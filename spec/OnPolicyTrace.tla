------------------------- MODULE OnPolicyTrace -------------------------
(* code -> spec: validates event streams recorded from REAL runs of           *)
(* train_ppo, train_a2c, train_reinforce and train_ac (scripted environments  *)
(* whose observations are tags [episode, t, env]; interposed module-level     *)
(* names collect_trajectories / sample_trajectories / EpisodeDataset /        *)
(* update_ppo / ppo_loss / train_policy_* / train_value_function / the        *)
(* gradient functions; recording optimisers) against OnPolicy.tla.            *)
(*                                                                            *)
(* A trace is [id, cfg, events]; cfg is the configuration record of OnPolicy  *)
(* (what the routine's documented parameters say) plus `autoreset_row`.       *)
(* Every event is judged clause by clause; if no clause fails, the matching   *)
(* action of OnPolicy is taken with the logged facts as arguments (Epoch and  *)
(* EndIteration leave no event of their own and are taken silently when the   *)
(* next event needs them).  The first event with failing clauses ends the     *)
(* trace: one VERDICT line per trace names position and clauses.              *)
(*                                                                            *)
(* events (program order)                                                     *)
(*   reset env obs | step env obs term trunc     the scripted environment     *)
(*   collect_begin n tae pv vv     collection call entered (its arguments,    *)
(*                                 version ids of the networks it was given)  *)
(*   ds_start | ds_add obs         EpisodeDataset.start_episode / add_sample  *)
(*   collect_end rows eps pv vv    what the call returned (flattened rows)    *)
(*   update_begin kind n ne rows pv vv  update_ppo / train_policy_* /         *)
(*                                     train_value_function entered (epochs   *)
(*                                     or gradient steps, n_envs argument)    *)
(*   loss kind rows                a loss / gradient function was evaluated   *)
(*   opt kind before after         an optimiser was stepped                   *)
(*   update_end kind dp dv pv vv   the update call returned (deltas of the    *)
(*                                 optimisers' own step counters)             *)
(*   end pv vv | error msg         the routine returned / raised              *)
EXTENDS OnPolicy, IOUtils

VARIABLES tid,      \* trace being validated
          l,        \* next event; 0 = verdict given
          lastObs,  \* [env -> tag the environment returned last]
          prevObs,  \* tag the environment of the latest step had returned before that step
          lastDone, \* the latest step ended its episode
          pendAdd,  \* pg: the latest step has not been added to the data set yet
          inColl,   \* inside a collection call
          prod,     \* [env -> observations acted on in this collection call, in time order]
          pcur, vcur,  \* version ids of policy / value function after the latest observed optimiser step
          inUpd,    \* kind of the update call we are in, or "none"
          uph,      \* phase index at update_begin
          mark      \* <<psteps, vsteps>> at update_begin

tvars == <<tid, l, lastObs, prevObs, lastDone, pendAdd, inColl, prod, pcur, vcur, inUpd, uph, mark>>

Traces == JsonDeserialize(IOEnv.TRACE_FILE)
T == Traces[tid]
E == T.events[l]
Envs == 0..(T.cfg.nenvs - 1)
NoTag == <<-1, -1, -1>>

TInit == /\ tid \in 1..Len(Traces)
         /\ InitWith(Traces[tid].cfg)
         /\ l = 1
         /\ lastObs = [e \in 0..(Traces[tid].cfg.nenvs - 1) |-> NoTag]
         /\ prod = [e \in 0..(Traces[tid].cfg.nenvs - 1) |-> <<>>]
         /\ prevObs = NoTag /\ lastDone = FALSE /\ pendAdd = FALSE /\ inColl = FALSE
         /\ pcur = 0 /\ vcur = 0 /\ inUpd = "none" /\ uph = 0 /\ mark = <<0, 0>>

(* names of the clauses whose failure condition holds: S is a set of <<name, failed>> *)
Failing(S) == {p[1] : p \in {q \in S : q[2]}}
Verdict(bad) == PrintT(<<"VERDICT", ToJson([id |-> T.id, pos |-> l, clauses |-> bad, iters |-> iter, counted |-> counted,
                                           psteps |-> pver, vsteps |-> vver])>>)
Reject(bad) == /\ Verdict(bad) /\ l' = 0
               /\ UNCHANGED <<vars, tid, lastObs, prevObs, lastDone, pendAdd, inColl, prod, pcur, vcur, inUpd, uph, mark>>
Advance == l' = l + 1 /\ UNCHANGED tid
VersionsMoved == E.pv # pcur \/ E.vv # vcur

----------------------------------------------------------------------------
(* silent model steps *)
TEpoch == /\ E.ev = "loss" /\ pc = "epoch" /\ inUpd = E.kind /\ P.name = E.kind /\ ph = uph
          /\ Epoch /\ UNCHANGED tvars
TEndIteration == /\ E.ev \in {"collect_begin", "end"} /\ pc = "end" /\ inUpd = "none"
                 /\ EndIteration /\ UNCHANGED tvars
Silent == (E.ev = "loss" /\ pc = "epoch" /\ inUpd = E.kind /\ P.name = E.kind /\ ph = uph)
          \/ (E.ev \in {"collect_begin", "end"} /\ pc = "end" /\ inUpd = "none")

----------------------------------------------------------------------------
(* the environment *)
TReset ==
  /\ E.ev = "reset"
  /\ LET bad == Failing({<<"NoUpdateDuringCollection", inColl /\ VersionsMoved>>}) IN
     IF bad # {} THEN Reject(bad)
     ELSE /\ lastObs' = [lastObs EXCEPT ![E.env] = E.obs]
          (* NEXT_STEP auto-reset (a2c): the vector call after an episode end resets the sub-environment instead of
             stepping it; the row kept for that call holds the final observation *)
          /\ prod' = IF inColl /\ cfg.autoreset_row THEN [prod EXCEPT ![E.env] = Append(@, lastObs[E.env])] ELSE prod
          /\ Advance /\ UNCHANGED <<vars, prevObs, lastDone, pendAdd, inColl, pcur, vcur, inUpd, uph, mark>>

TStep ==
  /\ E.ev = "step"
  /\ LET bad == Failing({<<"StepOnlyInCollection", ~inColl>>,
                         <<"NoUpdateDuringCollection", VersionsMoved>>,
                         <<"EveryStepStored", cfg.layout = "episodes" /\ pendAdd>>}) IN
     IF bad # {} THEN Reject(bad)
     ELSE /\ prod' = [prod EXCEPT ![E.env] = Append(@, lastObs[E.env])]
          /\ prevObs' = lastObs[E.env] /\ lastObs' = [lastObs EXCEPT ![E.env] = E.obs]
          /\ lastDone' = (E.term \/ E.trunc) /\ pendAdd' = (cfg.layout = "episodes")
          /\ Advance /\ UNCHANGED <<vars, inColl, pcur, vcur, inUpd, uph, mark>>

----------------------------------------------------------------------------
(* collection *)
WantN == IF cfg.layout = "episodes" THEN cfg.minsamples ELSE cfg.nsteps
TCollectBegin ==
  /\ E.ev = "collect_begin" /\ ~Silent
  /\ LET bad == Failing({<<"CollectWhenDue", pc # "collect" \/ inUpd # "none">>,
                         <<"ContinueOnlyWhileBudget", pc = "collect" /\ ~Continue>>,
                         <<"CollectUsesLatest", VersionsMoved>>,
                         <<"CollectArgs", E.n # WantN \/ (cfg.layout = "episodes" /\ E.tae # cfg.tae)>>}) IN
     IF bad # {} THEN Reject(bad)
     ELSE /\ BeginCollect
          /\ inColl' = TRUE /\ prod' = [e \in Envs |-> <<>>] /\ pendAdd' = FALSE
          /\ Advance /\ UNCHANGED <<lastObs, prevObs, lastDone, pcur, vcur, inUpd, uph, mark>>

TDsStart ==
  /\ E.ev = "ds_start"
  /\ LET bad == Failing({<<"DatasetCallsInCollection", ~inColl \/ cfg.layout # "episodes" \/ pc # "sampling">>,
                         <<"StartEpisodeAtEpisodeEnd", epOpen>>,
                         <<"CollectStopsWhenEnough", ~epOpen /\ Len(episodes) > 0 /\ Enough>>}) IN
     IF bad # {} THEN Reject(bad)
     ELSE /\ SampleStart /\ Advance
          /\ UNCHANGED <<lastObs, prevObs, lastDone, pendAdd, inColl, prod, pcur, vcur, inUpd, uph, mark>>

TDsAdd ==
  /\ E.ev = "ds_add"
  /\ LET bad == Failing({<<"DatasetCallsInCollection", ~inColl \/ cfg.layout # "episodes" \/ pc # "sampling">>,
                         <<"AddIntoOpenEpisode", ~epOpen>>,
                         <<"SampleIsLatestStep", ~pendAdd \/ E.obs # prevObs>>}) IN
     IF bad # {} THEN Reject(bad)
     ELSE /\ SampleStep(E.obs, lastDone) /\ pendAdd' = FALSE /\ Advance
          /\ UNCHANGED <<lastObs, prevObs, lastDone, inColl, prod, pcur, vcur, inUpd, uph, mark>>

(* the flattening the routine documents for what it keeps *)
RECURSIVE Concat(_, _)
Concat(f, k) == IF k < 0 THEN <<>> ELSE Concat(f, k - 1) \o f[k]
LayoutRows ==
  IF cfg.layout = "timemajor"
  THEN [i \in 1..(cfg.nsteps * cfg.nenvs) |-> prod[(i - 1) % cfg.nenvs][((i - 1) \div cfg.nenvs) + 1]]
  ELSE Concat(prod, cfg.nenvs - 1)       \* envmajor: "the rollouts of the environments one after the other"; pg: one environment
TCollectEnd ==
  /\ E.ev = "collect_end"
  /\ LET vector == cfg.layout # "episodes"
         lenBad == IF vector THEN (\E e \in Envs : Len(prod[e]) # cfg.nsteps) \/ Len(E.rows) # cfg.nsteps * cfg.nenvs
                   ELSE epOpen \/ Len(episodes) = 0 \/ ~Enough
         bad == Failing({<<"CollectEndsCollection", ~inColl \/ pc # "sampling">>,
                         <<"CollectLength", lenBad>>,
                         <<"EveryStepStored", ~vector /\ pendAdd>>,
                         <<"DatasetIsWhatWasAdded", ~vector /\ E.eps # episodes>>,
                         <<"RowsAreThisCollection", ~lenBad /\ E.rows # LayoutRows>>,
                         <<"NoUpdateDuringCollection", VersionsMoved>>}) IN
     IF bad # {} \/ ~(pc = "sampling" /\ CollectShape(E.rows)) THEN Reject(bad \cup (IF bad = {} THEN {"CollectShape"} ELSE {}))
     ELSE /\ Collect(E.rows) /\ inColl' = FALSE /\ Advance
          /\ UNCHANGED <<lastObs, prevObs, lastDone, pendAdd, prod, pcur, vcur, inUpd, uph, mark>>

----------------------------------------------------------------------------
(* updates *)
TUpdateBegin ==
  /\ E.ev = "update_begin"
  /\ LET atPhase == pc = "epoch" /\ ep = 0 /\ inUpd = "none"
         bad == Failing({<<"UpdateAfterCollection", pc \in {"collect", "sampling"}>>,
                         <<"PhaseOrder", pc \notin {"collect", "sampling"} /\ ~(atPhase /\ P.name = E.kind)>>,
                         <<"UpdateOnCollected", E.rows # rows>>,
                         (* epochs / gradient steps as configured; update_ppo is told how many environments the batch holds *)
                         <<"UpdateArgs", atPhase /\ P.name = E.kind /\ (E.n # P.epochs \/ (E.ne # 0 /\ E.ne # cfg.nenvs))>>,
                         <<"ParamsChangeOnlyByOptimiser", VersionsMoved>>}) IN
     IF bad # {} THEN Reject(bad)
     ELSE /\ inUpd' = E.kind /\ uph' = ph /\ mark' = <<psteps, vsteps>> /\ Advance
          /\ UNCHANGED <<vars, lastObs, prevObs, lastDone, pendAdd, inColl, prod, pcur, vcur>>

Idx(tags) == {i \in 1..N : rows[i] \in SetOf(tags)}
TLoss ==
  /\ E.ev = "loss" /\ ~Silent
  /\ LET here == inUpd = E.kind /\ pc = "minibatch"
         sel == Idx(E.rows)
         bad == Failing({<<"LossInsideUpdate", inUpd # E.kind>>,
                         <<"StepAfterLoss", inUpd = E.kind /\ pc = "step">>,   \* the previous evaluation's gradients were not applied
                         <<"OptimiserStepCount", inUpd = E.kind /\ pc \notin {"minibatch", "step"}>>,   \* more evaluations than epochs * minibatches
                         <<"MinibatchFromDataset", ~(SetOf(E.rows) \subseteq SetOf(rows)) \/ Cardinality(SetOf(E.rows)) # Len(E.rows)>>,
                         <<"MinibatchSize", here /\ Len(E.rows) # K>>,
                         <<"RowOncePerEpoch", here /\ ~(sel \subseteq Unused)>>,
                         <<"MinibatchInOrder", here /\ ~P.shuffle /\ Len(E.rows) = K /\ E.rows # SubSeq(rows, pos + 1, pos + K)>>}) IN
     IF bad # {} \/ ~(pc = "minibatch" /\ pos < N /\ MinibatchOk(sel)) THEN Reject(bad \cup (IF bad = {} THEN {"MinibatchRefused"} ELSE {}))
     ELSE /\ Minibatch(sel) /\ Advance
          /\ UNCHANGED <<lastObs, prevObs, lastDone, pendAdd, inColl, prod, pcur, vcur, inUpd, uph, mark>>

TOpt ==
  /\ E.ev = "opt"
  /\ LET isP == E.kind = "policy"
         bad == Failing({<<"OptInsideUpdate", inUpd = "none">>,
                         <<"StepAfterLoss", inUpd # "none" /\ ~(pc = "step" /\ E.kind \in due)>>,   \* every optimiser step applies the gradients of one loss evaluation, once
                         <<"StepFromLatest", E.before # (IF isP THEN pcur ELSE vcur)>>}) IN
     IF bad # {} THEN Reject(bad)
     ELSE /\ IF isP THEN PolicyStep /\ pcur' = E.after /\ UNCHANGED vcur
                    ELSE ValueStep /\ vcur' = E.after /\ UNCHANGED pcur
          /\ Advance /\ UNCHANGED <<lastObs, prevObs, lastDone, pendAdd, inColl, prod, inUpd, uph, mark>>

TUpdateEnd ==
  /\ E.ev = "update_end"
  /\ LET complete == (pc = "end" /\ uph = Len(cfg.phases)) \/ (pc = "epoch" /\ ep = 0 /\ ph = uph + 1)
         p == cfg.phases[uph]
         bad == Failing({<<"UpdateEndsUpdate", inUpd # E.kind>>,
                         <<"OptimiserStepCount", inUpd = E.kind /\ (~complete
                                                  \/ psteps - mark[1] # PhaseSteps(p, "policy", N)
                                                  \/ vsteps - mark[2] # PhaseSteps(p, "value", N))>>,
                         (* the optimisers' own step counters advanced by exactly the observed steps *)
                         <<"OptimiserCounters", E.dp # psteps - mark[1] \/ E.dv # vsteps - mark[2]>>,
                         <<"ParamsChangeOnlyByOptimiser", VersionsMoved>>}) IN
     IF bad # {} THEN Reject(bad)
     ELSE /\ inUpd' = "none" /\ Advance
          /\ UNCHANGED <<vars, lastObs, prevObs, lastDone, pendAdd, inColl, prod, pcur, vcur, uph, mark>>

----------------------------------------------------------------------------
TEnd ==
  /\ E.ev = "end" /\ ~Silent
  /\ LET bad == Failing({<<"IterationComplete", pc # "collect" \/ inUpd # "none" \/ inColl>>,
                         <<"StopsOnlyWhenBudgetUsed", pc = "collect" /\ Continue>>,
                         <<"ParamsChangeOnlyByOptimiser", VersionsMoved>>}) IN
     Reject(bad)      \* the verdict of a trace that was accepted to its end has no clauses

TError == E.ev = "error" /\ Reject({"RoutineRaised"})

TIncomplete == /\ l = Len(T.events) + 1
               /\ Verdict({"TraceIncomplete"}) /\ l' = 0
               /\ UNCHANGED <<vars, tid, lastObs, prevObs, lastDone, pendAdd, inColl, prod, pcur, vcur, inUpd, uph, mark>>

TNext == \/ (l \in 1..Len(T.events) /\ (TEpoch \/ TEndIteration \/ TReset \/ TStep \/ TCollectBegin \/ TDsStart \/ TDsAdd \/ TCollectEnd
                                        \/ TUpdateBegin \/ TLoss \/ TOpt \/ TUpdateEnd \/ TEnd \/ TError))
         \/ TIncomplete
=============================================================================
