--------------------------- MODULE Loop ---------------------------
(* The agent-environment protocol shared by all rl_blox training loops        *)
(* (C01, C11; loop part of C13).  One action per code section of a generic    *)
(* off-policy loop: choose action (Explore | PolicyAct), EnvStep, Store,      *)
(* Learn, Advance (reset or carry the successor), Return.  The environment is *)
(* nondeterministic: any episode ends after 1..MaxEpLen steps by termination, *)
(* by truncation, or by a step that returns BOTH flags at once (step kind     *)
(* "both").  Observations are tags <<ep, t>> (device D1).                     *)
(* The routine's value estimate is abstracted to `row`, the action values it   *)
(* holds at the observation the environment returned last (constant Rows):    *)
(* PolicyAct picks a maximiser of the row as it is NOW; Learn may change it.  *)
(*                                                                            *)
(* The clause operators (CanStep, StoreMatches, CondMatches, ...) are the     *)
(* single source of truth: the actions below use them as guards/effects and   *)
(* LoopTrace.tla evaluates the same operators on recorded executions.         *)
EXTENDS Integers, Sequences, FiniteSets, TLC, LoopClauses

CONSTANTS Budget,     \* total_timesteps
          Start,      \* global_step at entry
          EpLimit,    \* total_episodes, 0 = unlimited
          MaxEpLen,
          WarmAct,    \* steps with index < WarmAct explore
          WarmLearn,  \* no update at steps with index < WarmLearn
          Rows,       \* rows of action values the routine's estimate may hold at an observation (C13 loop clause;
                      \* a singleton switches the estimate model off: no extra branching)
          DEV         \* set of enabled deviation names (empty = strict design)

VARIABLES pc, phase, ep, t, last, cur, cond, pend, res, stored, produced,
          step, executed, epsDone, updates, returned,
          row,      \* action values of the CURRENT estimate at the observation the environment returned last
          choice,   \* action (1-based index into row) the loop is about to pass to the environment; 0 = an explored one
          carried   \* choice made at the successor BEFORE the update (SARSA's A', the greedy bootstrap); 0 = none

vars == <<pc, phase, ep, t, last, cur, cond, pend, res, stored, produced,
          step, executed, epsDone, updates, returned, row, choice, carried>>

NoTag == <<-1, -1>>
NoRes == [obs |-> NoTag, r |-> 0, term |-> FALSE, trunc |-> FALSE]

----------------------------------------------------------------------------
(* Clause operators instantiated with this model's constants (LoopClauses.tla) *)
CanStep(ph) == CCanStep(ph)
WithinBudget(ex) == CWithinBudget(ex, Budget, Start)
CondMatches(c, l) == CCondMatches(c, l)
StoreMatches(rec, before, act, rs) == CStoreMatches(rec, before, act, rs)
MayLearn(s) == CMayLearn(s, WarmLearn)
ReturnMatches(ret, ex) == CReturnMatches(ret, Start, ex)
MayContinue(done) == CMayContinue(done, EpLimit)
IsMaximiser(r, a) == CIsMaximiser(r, a)
AnyRow == CHOOSE r \in Rows : TRUE
(* values for the constant Rows (cfg: Rows <- RowsOne / RowsTie): one fixed row, or two actions with a tie *)
RowsOne == {<<0, 1>>}
RowsTie == {<<0, 1>>, <<1, 0>>, <<1, 1>>}

----------------------------------------------------------------------------
Init == /\ pc = "reset" /\ phase = "idle" /\ ep = -1 /\ t = 0
        /\ last = NoTag /\ cur = NoTag /\ cond = NoTag /\ pend = "none" /\ res = NoRes
        /\ stored = <<>> /\ produced = <<>>
        /\ step = Start /\ executed = 0 /\ epsDone = 0 /\ updates = <<>> /\ returned = -1
        /\ row = AnyRow /\ choice = 0 /\ carried = 0

Reset == /\ pc = "reset"
         /\ phase' = "running" /\ ep' = ep + 1 /\ t' = 0
         /\ last' = <<ep + 1, 0>> /\ cur' = <<ep + 1, 0>>
         /\ pc' = "act"
         /\ row' \in Rows /\ carried' = 0
         /\ UNCHANGED <<cond, pend, res, stored, produced, step, executed, epsDone, updates, returned, choice>>

(* the loop condition *)
Done == step >= Budget

Explore == /\ pc = "act" /\ ~Done /\ step < WarmAct
           /\ pend' = "explore" /\ cond' = NoTag /\ pc' = "env" /\ choice' = 0
           /\ UNCHANGED <<phase, ep, t, last, cur, res, stored, produced, step, executed, epsDone, updates, returned, row, carried>>

(* act greedily: evaluate the CURRENT estimate at the current observation, now *)
PolicyAct == /\ pc = "act" /\ ~Done /\ step >= WarmAct
             /\ pend' = "policy" /\ cond' = cur /\ pc' = "env"
             /\ \E a \in 1..Len(row) : IsMaximiser(row, a) /\ choice' = a
             /\ UNCHANGED <<phase, ep, t, last, cur, res, stored, produced, step, executed, epsDone, updates, returned, row, carried>>

(* deviation: the loop does not evaluate the estimate again but executes the choice it made at the successor
   before the update (the on-policy "carry A' forward" formulation); the update in between may have changed
   the values of the very observation the agent is still in (self-transition) *)
ActOnStaleChoice ==
             /\ "stale_choice" \in DEV
             /\ pc = "act" /\ ~Done /\ step >= WarmAct /\ carried # 0
             /\ pend' = "policy" /\ cond' = cur /\ pc' = "env" /\ choice' = carried
             /\ UNCHANGED <<phase, ep, t, last, cur, res, stored, produced, step, executed, epsDone, updates, returned, row, carried>>

EnvStep(outcome) ==
  /\ pc = "env"
  /\ ("step_after_end" \in DEV \/ CanStep(phase))
  /\ LET t1 == t + 1
         r == [obs |-> <<ep, t1>>, r |-> 16 * ep + t1, term |-> outcome \in {"term", "both"}, trunc |-> outcome \in {"trunc", "both"}]
     IN /\ (outcome = "cont" => t1 < MaxEpLen)
        /\ t' = t1 /\ res' = r /\ last' = r.obs
        /\ phase' = IF outcome = "cont" THEN phase ELSE "ended"
        /\ produced' = Append(produced, [obs |-> last, act |-> pend, r |-> r.r, next |-> r.obs, term |-> r.term])
  /\ executed' = executed + 1 /\ pc' = "store"
  /\ row' \in Rows   \* the successor may be any observation, also the same one again (self-transition)
  /\ UNCHANGED <<ep, cur, cond, pend, stored, step, epsDone, updates, returned, choice, carried>>

Store == /\ pc = "store"
         /\ stored' = Append(stored, [obs |-> cur, act |-> pend, r |-> res.r, next |-> res.obs,
                                      (* deviations: the done flag is kept / a step with both flags is kept as "not terminated" *)
                                      term |-> IF "store_done_flag" \in DEV THEN (res.term \/ res.trunc)
                                               ELSE IF "store_term_unless_trunc" \in DEV THEN (res.term /\ ~res.trunc) ELSE res.term])
         /\ pc' = "learn"
         (* the bootstrap choice at the successor, on the estimate as it is before the update (only tracked when
            the deviation that re-uses it is enabled) *)
         /\ \E a \in (IF "stale_choice" \in DEV THEN CMaximisers(row) ELSE {0}) : carried' = a
         /\ UNCHANGED <<phase, ep, t, last, cur, cond, pend, res, produced, step, executed, epsDone, updates, returned, row, choice>>

Learn == /\ pc = "learn"
         /\ updates' = IF MayLearn(step) \/ "learn_early" \in DEV THEN Append(updates, step) ELSE updates
         /\ pc' = "advance"
         (* an update may change the values at the observation the agent is in (it does when the step was a self-transition) *)
         /\ row' \in (IF MayLearn(step) \/ "learn_early" \in DEV THEN Rows ELSE {row})
         /\ UNCHANGED <<phase, ep, t, last, cur, cond, pend, res, stored, produced, step, executed, epsDone, returned, choice, carried>>

(* end of the loop body: reset after an ended episode, else carry the successor *)
Advance ==
  /\ pc = "advance"
  /\ IF CEpisodeEnds(res.term, res.trunc)
     THEN (* deviation: the two flags are counted separately, a step with both flags ends "two" episodes *)
          /\ epsDone' = epsDone + (IF "count_flags_separately" \in DEV THEN (IF res.term THEN 1 ELSE 0) + (IF res.trunc THEN 1 ELSE 0)
                                    ELSE CEpisodesEnded(res.term, res.trunc))
          /\ IF ~MayContinue(epsDone')
             THEN /\ pc' = "return"
                  (* deviation: break before the step counter is advanced *)
                  /\ step' = IF "break_before_count" \in DEV THEN step ELSE step + 1
                  /\ UNCHANGED <<phase, ep, t, last, cur, row, carried>>
             ELSE IF "step_after_end" \in DEV
             THEN (* deviation: the loop goes on without resetting the ended environment *)
                  /\ cur' = res.obs /\ step' = step + 1 /\ pc' = "act"
                  /\ UNCHANGED <<phase, ep, t, last, row, carried>>
             ELSE /\ phase' = "running" /\ ep' = ep + 1 /\ t' = 0 /\ last' = <<ep + 1, 0>>
                  (* deviation: the successor overwrites the reset observation *)
                  /\ cur' = IF "stale_after_reset" \in DEV THEN res.obs ELSE <<ep + 1, 0>>
                  /\ step' = step + 1 /\ pc' = "act"
                  (* values at the reset observation; a choice made for the old episode's successor is dropped *)
                  /\ row' \in Rows /\ carried' = 0
     ELSE /\ cur' = res.obs /\ step' = step + 1 /\ pc' = "act"
          /\ UNCHANGED <<phase, ep, t, last, epsDone, row, carried>>
  /\ UNCHANGED <<cond, pend, res, stored, produced, executed, updates, returned, choice>>

Return == /\ (pc = "return" \/ (pc = "act" /\ Done))
          /\ returned' = IF "return_plus_one" \in DEV THEN step + 1 ELSE step
          /\ pc' = "done"
          /\ UNCHANGED <<phase, ep, t, last, cur, cond, pend, res, stored, produced, step, executed, epsDone, updates, row, choice, carried>>

Next == Reset \/ Explore \/ PolicyAct \/ ActOnStaleChoice \/ (\E o \in {"cont", "term", "trunc", "both"} : EnvStep(o))
        \/ Store \/ Learn \/ Advance \/ Return
Spec == Init /\ [][Next]_vars
----------------------------------------------------------------------------
(* C01 *)
RowsFaithful == \A k \in 1..Len(stored) :
   StoreMatches(stored[k], produced[k].obs, produced[k].act, [obs |-> produced[k].next, r |-> produced[k].r, term |-> produced[k].term])
(* The experience record a model-based learner derives from the transitions it keeps (Dyna-Q's Counter: per (o, a, o')
   the number of kept transitions and the list of their rewards, what the model update and planning learn from) is a
   function of `stored`: one entry per (o, a, o') that occurs.  It must equal exactly the multiset of environment steps:
   each entry counts the produced steps (o, a) -> o' and lists the rewards of exactly those steps in order, there is no
   entry for a transition that never happened and every transition that happened has one.  Same entry operators
   (CStepsOf, CRecordEntryMatches) as LoopTrace.tla evaluates on the recorded Counter (EvExperience).
   Deviation "shared_reward_list": the reward lists of all successors of one (o, a) pair are ONE list
   (`[[]] * n_states`), so every (o, a, o'') - also those that never happened - holds the rewards of all steps from (o, a) to any successor. *)
KeysOf(s) == {<<s[k].obs, s[k].act, s[k].next>> : k \in 1..Len(s)}
RewardsOf(st) == [i \in 1..Len(st) |-> st[i].r]
RecordOf(s) == [key \in KeysOf(s) |-> LET st == CStepsOf(s, key[1], key[2], key[3]) IN [n |-> Len(st), rs |-> RewardsOf(st)]]
RecordShared(s) ==
  [key \in {<<s[k].obs, s[k].act, s[j].next>> : k \in 1..Len(s), j \in 1..Len(s)} |->
     [n |-> Len(CStepsOf(s, key[1], key[2], key[3])),
      rs |-> RewardsOf(SelectSeq(s, LAMBDA p : p.obs = key[1] /\ p.act = key[2]))]]
ExperienceRecord == IF "shared_reward_list" \in DEV THEN RecordShared(stored) ELSE RecordOf(stored)
RecordFaithful ==
  LET rec == ExperienceRecord
      env == SubSeq(produced, 1, Len(stored))   \* the steps whose transition has been handed to the store
  IN /\ \A key \in DOMAIN rec : CRecordEntryMatches(rec[key], CStepsOf(env, key[1], key[2], key[3]))
     /\ KeysOf(env) \subseteq DOMAIN rec
(* The batch an on-policy routine prepares from its rollout and hands to the policy / value update is a set of rows
   in some layout (time-major, env-major, shuffled): every row must be ONE real environment step (CRowVerdict, the operator
   LoopTrace.tla evaluates on the arguments of the interposed update functions, EvLearnRows).
   Deviation "misaligned_batch": the columns of the batch are flattened in different orders, so row k pairs the
   observation (reward, successor, flag) of one step with the action of another. *)
PreparedBatch == IF "misaligned_batch" \in DEV
                 THEN {[stored[k] EXCEPT !.act = stored[Len(stored) + 1 - k].act] : k \in 1..Len(stored)}
                 ELSE {stored[k] : k \in 1..Len(stored)}
LearnRowsFaithful ==
  LET env == {produced[k] : k \in 1..Len(stored)}
  IN \A brow \in PreparedBatch : CRowVerdict(brow, {"act", "r", "next", "term"}, env) = "ok"
(* bootstrapping: the learner bootstraps through a kept transition iff the environment did not report termination for
   that step - in particular never through a step that returned both flags *)
BootstrapFaithful == \A k \in 1..Len(stored) : CBootstrapFaithful(stored[k], produced[k].term)
StoredFaithful == RowsFaithful /\ RecordFaithful /\ LearnRowsFaithful /\ BootstrapFaithful
(* every ended episode is counted once, whatever flags its last step carried *)
EpisodesCountedOnce == epsDone <= ep + 1
FirstOfEpisodeFromReset == \A k \in 1..Len(stored) : stored[k].next[2] = 1 => stored[k].obs = <<stored[k].next[1], 0>>
CondFaithful == (pc = "env" /\ pend = "policy") => CondMatches(cond, last)
(* C11 *)
BudgetRespected == executed <= (IF Budget > Start THEN Budget - Start ELSE 0)
EpisodeLimitRespected == EpLimit > 0 => epsDone <= EpLimit
NoLearnBeforeWarmup == \A k \in 1..Len(updates) : MayLearn(updates[k])
ReturnedCount == pc = "done" => ReturnMatches(returned, executed)
NoStepAfterEnd == [][(executed' = executed + 1) => CanStep(phase)]_vars
(* warm-up exploration discipline (C13 loop clause): policy actions only after the warm-up *)
ExploreOnlyInWarmup == (pc = "env" /\ pend = "explore") => step < WarmAct
(* C13 loop clause: outside the warm-up (exploration probability 0 in this model) the action about to be executed
   is a maximiser of the CURRENT estimate at the observation the environment returned last *)
ExecutedActionGreedy == (pc = "env" /\ pend = "policy") => IsMaximiser(row, choice)
=============================================================================
