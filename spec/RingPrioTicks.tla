--------------------------- MODULE RingPrioTicks ---------------------------
(* C08, the sampling law at the BOUNDARIES of the uniform variate and of the  *)
(* cumulative priority mass: PriorityBuffer.prioritized_sampling (LAP, the     *)
(* masked sampler of the prioritized subtrajectory buffer, the multi-task      *)
(* wrapper) and PrioritizedReplayBuffer.prioritized_sampling_stratified.       *)
(*                                                                              *)
(* RingPrio.tla represents a variate by the half-integer tick k - 1/2 of the   *)
(* cumulative mass, i.e. a point strictly inside a stratum.  Here a variate    *)
(* class is a LIMIT VALUE v (an exact rational point of the cumulative mass    *)
(* [0, Total]) together with an offset d in units in the last place of the     *)
(* variate: the binding feeds the double  fl(v / Total) stepped d ulps  (for   *)
(* the stratified sampler: the variate of stratum j that maps to v, stepped d  *)
(* ulps).  v ranges over 0, Total, every cumulative boundary, every half-      *)
(* integer tick, and the ends / centres of the strata; so the largest double   *)
(* below 1 (v = Total, d = -1), the smallest positive doubles (v = 0, d > 0),  *)
(* and the variates within MaxUlp ulp of every boundary are classes.           *)
(*                                                                              *)
(* The specification decides the ADMISSIBLE index set of a class:              *)
(*   Adm(v) = {i : W(i) > 0 /\ Cum(i-1) <= v <= Cum(i)}                        *)
(* - a point strictly inside a stratum has exactly one admissible index;       *)
(* - at (within a few ulp of) the boundary of two positive strata either       *)
(*   neighbour is admissible (a set of variates of measure <= 2*MaxUlp*2^-53   *)
(*   does not change the probabilities p_i / sum(p));                          *)
(* - never an index with zero (masked) weight, never one outside the filled    *)
(*   region: at v = Total only the last positive index, at v = 0 (d > 0) only  *)
(*   the first positive one.                                                   *)
(* The variate 0 itself (d = 0 at v = 0) is outside the open interval (0,1)    *)
(* the property quantifies over: only "inside the filled region, closed        *)
(* stratum contains 0" is demanded (AdmZero).                                  *)
EXTENDS Integers, Sequences, FiniteSets, TLC, Json

CONSTANTS MaxN,      \* equal-priority vectors of every size 1..MaxN
          Sizes,     \* sizes of the unequal / masked vectors
          Units,     \* a model priority p is the real priority p / unit
          Batches,   \* batch sizes of the stratified sampler
          MaxUlp,
          EMIT

VARIABLES stage, c   \* c: the chosen vector [prio, mask, unit, cum]; cum[i] = sum of prio*mask over the first i entries
vars == <<stage, c>>

N == Len(c.prio)
W(i) == c.prio[i + 1] * c.mask[i + 1]          \* i in 0..N-1: priority * mask
Cum(i) == IF i < 0 THEN 0 ELSE c.cum[i + 1]   \* cumulative mass up to and including index i (np.cumsum)
Total == Cum(N - 1)

(* ---- priority vectors ---- *)
Ones(n) == [i \in 1..n |-> 1]
Patterns(n) == {[i \in 1..n |-> i], [i \in 1..n |-> IF i % 2 = 1 THEN 1 ELSE 3],
                [i \in 1..n |-> 1 + (i % 3)], [i \in 1..n |-> IF i = n THEN 1 ELSE 3]}
Masks(n) == {Ones(n), [i \in 1..n |-> IF i = 1 THEN 0 ELSE 1], [i \in 1..n |-> IF i = n THEN 0 ELSE 1],
             [i \in 1..n |-> i % 2], [i \in 1..n |-> IF i \in {(n + 1) \div 2, (n + 1) \div 2 + 1} THEN 0 ELSE 1]}
SumSeq(p, m) == LET RECURSIVE S(_)
                    S(k) == IF k = 0 THEN 0 ELSE S(k - 1) + p[k] * m[k]
                IN S(Len(p))
Vectors == {[prio |-> Ones(n), mask |-> Ones(n)] : n \in 1..MaxN}
           \cup {v \in UNION {{[prio |-> p, mask |-> m] : p \in Patterns(n) \cup {Ones(n)}, m \in Masks(n)} : n \in Sizes} :
                   SumSeq(v.prio, v.mask) > 0}

(* ---- admissible indices of a limit value v = <<num, den>> ---- *)
Adm(v) == {i \in 0..(N - 1) : W(i) > 0 /\ Cum(i - 1) * v[2] <= v[1] /\ v[1] <= Cum(i) * v[2]}
AdmZero == {i \in 0..(N - 1) : Cum(i - 1) = 0}
IsZero(k) == k.v[1] = 0 /\ k.d = 0
AdmOf(k) == IF IsZero(k) THEN AdmZero ELSE Adm(k.v)
Inside(v) == \E i \in 0..(N - 1) : Cum(i - 1) * v[2] < v[1] /\ v[1] < Cum(i) * v[2]
(* offsets that keep the variate inside [0, 1): not below 0, strictly below 1 *)
Offsets(lowEnd, highEnd) == {d \in (-MaxUlp)..MaxUlp : (lowEnd => d >= 0) /\ (highEnd => d <= -1)}

(* plain sampler: x = u * Total *)
PlainClasses ==
  {[j |-> 0, v |-> <<Cum(k), 1>>, d |-> d] : k \in (-1)..(N - 1), d \in (-MaxUlp)..MaxUlp}
  \cup {[j |-> 0, v |-> <<2 * t - 1, 2>>, d |-> 0] : t \in 1..Total}
ValidPlain(k) == k.d \in Offsets(k.v[1] = 0, k.v[1] = Total * k.v[2])
(* stratified sampler with batch size B: the variate u of stratum j maps to x = (j - 1 + u) * Total / B; limit      *)
(* values with denominator 2B: the ends and the centre of the stratum and the cumulative boundaries inside it      *)
StratClasses(B) ==
  UNION {LET lo == 2 * (j - 1) * Total  hi == 2 * j * Total IN
           {[j |-> j, v |-> <<lo, 2 * B>>, d |-> d] : d \in Offsets(TRUE, FALSE)}
           \cup {[j |-> j, v |-> <<hi, 2 * B>>, d |-> d] : d \in Offsets(FALSE, TRUE)}
           \cup {[j |-> j, v |-> <<lo + Total, 2 * B>>, d |-> 0]}
           \cup {[j |-> j, v |-> <<2 * B * Cum(k), 2 * B>>, d |-> d] :
                   k \in {k \in 0..(N - 1) : lo < 2 * B * Cum(k) /\ 2 * B * Cum(k) < hi}, d \in (-MaxUlp)..MaxUlp}
         : j \in 1..B}
Table(ks) == {[j |-> k.j, v |-> k.v, d |-> k.d, adm |-> AdmOf(k), zero |-> IsZero(k)] : k \in ks}

Emit(op, args, exp) == EMIT => PrintT(<<"EMIT", ToJson([op |-> op, args |-> args, exp |-> exp])>>)

CumSeq(p, m) == [i \in 1..Len(p) |-> SumSeq(SubSeq(p, 1, i), SubSeq(m, 1, i))]
Init == stage = "start" /\ c = [prio |-> <<>>, mask |-> <<>>, unit |-> 1, cum |-> <<>>]
ChooseVector == /\ stage = "start" /\ stage' = "vec"
                /\ \E v \in Vectors : \E u \in Units : c' = [prio |-> v.prio, mask |-> v.mask, unit |-> u, cum |-> CumSeq(v.prio, v.mask)]
(* PriorityBuffer.prioritized_sampling: searchsorted(cumsum(priority * mask), u * total) *)
SamplePlain == /\ stage = "vec" /\ stage' = "done" /\ c' = c
               /\ Emit("plain", [prio |-> c.prio, mask |-> c.mask, unit |-> c.unit, total |-> Total, B |-> 0],
                       Table({k \in PlainClasses : ValidPlain(k)}))
(* PrioritizedReplayBuffer.prioritized_sampling_stratified: one point per segment of [0, total) *)
SampleStratified(B) == /\ stage = "vec" /\ stage' = "done" /\ c' = c
                       /\ Emit("strat", [prio |-> c.prio, mask |-> c.mask, unit |-> c.unit, total |-> Total, B |-> B],
                               Table(StratClasses(B)))
Next == ChooseVector \/ SamplePlain \/ \E B \in Batches : SampleStratified(B)
Spec == Init /\ [][Next]_vars
----------------------------------------------------------------------------
AllClasses == {k \in PlainClasses : ValidPlain(k)} \cup UNION {StratClasses(B) : B \in Batches}
Chosen == stage = "vec"
(* never beyond the filled region, never a masked entry (for every variate of the open interval) *)
TicksInside == Chosen => \A k \in AllClasses :
  /\ AdmOf(k) # {} /\ AdmOf(k) \subseteq 0..(N - 1)
  /\ ~IsZero(k) => \A i \in AdmOf(k) : W(i) > 0
(* a point strictly inside a stratum determines the index; otherwise at most the two positive strata that meet there *)
TicksNeighbours == Chosen => \A k \in AllClasses : ~IsZero(k) =>
  /\ Inside(k.v) => Cardinality(AdmOf(k)) = 1
  /\ Cardinality(AdmOf(k)) <= 2
  /\ \A a, b \in AdmOf(k) : a < b => (Cum(a) * k.v[2] = k.v[1] /\ Cum(b - 1) = Cum(a))
(* proportionality as a counting statement over the half-integer ticks *)
TicksProportional == Chosen => \A i \in 0..(N - 1) :
  Cardinality({t \in 1..Total : Adm(<<2 * t - 1, 2>>) = {i}}) = W(i)
(* the extreme variates: the largest doubles below 1 select the last positive index, the smallest positive ones the first *)
TicksExtremes == Chosen =>
  /\ \A i \in Adm(<<Total, 1>>) : W(i) > 0 /\ \A i2 \in (i + 1)..(N - 1) : W(i2) = 0
  /\ \A i \in Adm(<<0, 1>>) : W(i) > 0 /\ \A i2 \in 0..(i - 1) : W(i2) = 0

(* canary (definition override AdmOf <- AdmOpenTop): an inverse CDF that is closed on the wrong side / compares   *)
(* with a cumulative sum that ends below the point returns N at the top - TicksInside must refute it              *)
AdmOpenTop(k) == IF k.v[1] = Total * k.v[2] THEN {N} ELSE IF IsZero(k) THEN AdmZero ELSE Adm(k.v)
=============================================================================
