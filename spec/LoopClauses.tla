------------------------ MODULE LoopClauses ------------------------
(* Clause operators of the agent-environment protocol, shared by the design  *)
(* model (Loop.tla) and the trace validator (LoopTrace.tla): one source of   *)
(* truth for what C01 / C10 / C11 demand of a single event.                  *)
EXTENDS Integers, Sequences

(* never step an environment whose episode has ended without resetting it *)
CCanStep(ph) == ph = "running"
(* one more step still fits the remaining budget *)
CWithinBudget(ex, budget, start) == ex < budget - start
(* the policy / planner is conditioned on the observation the environment returned last *)
CCondMatches(c, l) == c = l
(* the kept transition: observation before the action, the action passed, and the
   reward, successor and TERMINATION flag (not terminated-or-truncated) of that step *)
CStoreObs(rec, before) == rec.obs = before
CStoreAct(rec, act) == rec.act = act
CStoreReward(rec, r) == rec.r = r
CStoreNext(rec, nxt) == rec.next = nxt
CStoreTerm(rec, term) == rec.term = term
CStoreMatches(rec, before, act, rs) ==
  /\ CStoreObs(rec, before) /\ CStoreAct(rec, act) /\ CStoreReward(rec, rs.r)
  /\ CStoreNext(rec, rs.obs) /\ CStoreTerm(rec, rs.term)
(* no parameter update before the documented warm-up: s = index of the latest executed step *)
CMayLearn(s, warm) == s >= warm
(* reported count = starting count + executed steps *)
CReturnMatches(ret, start, ex) == ret = start + ex
(* stop once the requested number of episodes has finished *)
CMayContinue(done, limit) == limit = 0 \/ done < limit
(* C13, loop clause: `a` (1-based index) is a maximiser of the row of action values `row`
   (any totally ordered integers: small values in the design model, float32 ordinals - device D4 -
   in recorded runs).  Used for the action that is EXECUTED: the row is that of the routine's
   current estimate at the observation the environment returned last, at execution time. *)
CIsMaximiser(row, a) == a \in 1..Len(row) /\ \A j \in 1..Len(row) : row[j] <= row[a]
CMaximisers(row) == {a \in 1..Len(row) : CIsMaximiser(row, a)}
(* C10 on float32 ordinals (device D4): lo - k <= a <= hi + k in units of ulp *)
CInBounds(a, lo, hi, k) == \A d \in 1..Len(a) : lo[d] - k <= a[d] /\ a[d] <= hi[d] + k
=============================================================================
