------------------------ MODULE LoopClauses ------------------------
(* Clause operators of the agent-environment protocol, shared by the design  *)
(* model (Loop.tla) and the trace validator (LoopTrace.tla): one source of   *)
(* truth for what C01 / C10 / C11 demand of a single event.                  *)
EXTENDS Integers, Sequences

(* never step an environment whose episode has ended without resetting it *)
CCanStep(ph) == ph = "running"
(* one more step still fits the remaining budget *)
CWithinBudget(ex, budget, start) == ex < budget - start
(* the policy / planner is conditioned on the observation the environment returned last *)
CCondMatches(c, l) == c = l
(* the kept transition: observation before the action, the action passed, and the
   reward, successor and TERMINATION flag (not terminated-or-truncated) of that step *)
CStoreObs(rec, before) == rec.obs = before
CStoreAct(rec, act) == rec.act = act
CStoreReward(rec, r) == rec.r = r
CStoreNext(rec, nxt) == rec.next = nxt
CStoreTerm(rec, term) == rec.term = term
(* A step may return BOTH flags at once (a terminal state reached on the very step a time limit expires: gymnasium's
   TimeLimit sets truncated regardless of terminated).  For such a step
     - storing: the kept flag is the TERMINATION flag of that step, i.e. TRUE (CStoreTerm; neither `term \/ trunc`
       for a merely truncated step nor `term /\ ~trunc` for a step with both flags),
     - bootstrapping: a kept transition may bootstrap from its successor iff its kept flag is FALSE, so the learner
       bootstraps through a step iff the environment did not report termination (CBootstrapFaithful),
     - episode ending: the episode is over - exactly ONE episode ends, and the environment must be reset before the
       next step (CEpisodeEnds, CEpisodesEnded). *)
CEpisodeEnds(term, trunc) == term \/ trunc
CEpisodesEnded(term, trunc) == IF CEpisodeEnds(term, trunc) THEN 1 ELSE 0
CMayBootstrap(rec) == ~rec.term
CBootstrapFaithful(rec, term) == CMayBootstrap(rec) = ~term
CStoreMatches(rec, before, act, rs) ==
  /\ CStoreObs(rec, before) /\ CStoreAct(rec, act) /\ CStoreReward(rec, rs.r)
  /\ CStoreNext(rec, rs.obs) /\ CStoreTerm(rec, rs.term)
(* a row that reaches a learner (row of the batch an on-policy routine prepares from its rollout / episode record and
   hands to its policy / value update): whatever the layout of the batch, the row must be ONE real environment step -
   `p`, a transition the environment produced.  Only the fields the row carries (`has`) are compared; a produced
   action "any" stands for a call whose action the vector environment ignored (auto-reset call, NEXT_STEP mode). *)
CRowActOk(row, has, p) == "act" \in has => (p.act = "any" \/ CStoreAct(row, p.act))
CRowRewardOk(row, has, p) == "r" \in has => CStoreReward(row, p.r)
CRowNextOk(row, has, p) == "next" \in has => CStoreNext(row, p.next)
CRowTermOk(row, has, p) == "term" \in has => CStoreTerm(row, p.term)
CRowMatches(row, has, p) ==
  /\ CStoreObs(row, p.obs) /\ CRowActOk(row, has, p) /\ CRowRewardOk(row, has, p)
  /\ CRowNextOk(row, has, p) /\ CRowTermOk(row, has, p)
(* the first field that rules out every produced transition (fields in the order of the property text), "ok" if one matches *)
CRowVerdict(row, has, produced) ==
  LET c0 == {p \in produced : CStoreObs(row, p.obs)}
      c1 == {p \in c0 : CRowActOk(row, has, p)}
      c2 == {p \in c1 : CRowRewardOk(row, has, p)}
      c3 == {p \in c2 : CRowNextOk(row, has, p)}
      c4 == {p \in c3 : CRowTermOk(row, has, p)}
  IN IF c0 = {} THEN "RowObs" ELSE IF c1 = {} THEN "RowAct" ELSE IF c2 = {} THEN "RowReward"
     ELSE IF c3 = {} THEN "RowNext" ELSE IF c4 = {} THEN "RowTerm" ELSE "ok"
(* an experience record (model-based tabular learners: per (o, a, o') a transition count and the list of rewards):
   the entry of (o, a, o') speaks about exactly the steps (o, a) -> o' the environment produced so far, in order;
   `steps` = CStepsOf(history of produced transitions, o, a, o') *)
CStepsOf(hist, o, a, n) == SelectSeq(hist, LAMBDA p : p.obs = o /\ p.act = a /\ p.next = n)
CRecordProduced(steps) == Len(steps) > 0
CRecordCount(entry, steps) == entry.n = Len(steps)
CRecordRewards(entry, steps) == entry.rs = [i \in 1..Len(steps) |-> steps[i].r]
CRecordEntryMatches(entry, steps) == CRecordProduced(steps) /\ CRecordCount(entry, steps) /\ CRecordRewards(entry, steps)
(* no parameter update before the documented warm-up: s = index of the latest executed step *)
CMayLearn(s, warm) == s >= warm
(* reported count = starting count + executed steps *)
CReturnMatches(ret, start, ex) == ret = start + ex
(* stop once the requested number of episodes has finished *)
CMayContinue(done, limit) == limit = 0 \/ done < limit
(* C13, loop clause: `a` (1-based index) is a maximiser of the row of action values `row`
   (any totally ordered integers: small values in the design model, float32 ordinals - device D4 -
   in recorded runs).  Used for the action that is EXECUTED: the row is that of the routine's
   current estimate at the observation the environment returned last, at execution time. *)
CIsMaximiser(row, a) == a \in 1..Len(row) /\ \A j \in 1..Len(row) : row[j] <= row[a]
CMaximisers(row) == {a \in 1..Len(row) : CIsMaximiser(row, a)}
(* C10 on float32 ordinals (device D4): lo - k <= a <= hi + k in units of ulp *)
CInBounds(a, lo, hi, k) == \A d \in 1..Len(a) : lo[d] - k <= a[d] /\ a[d] <= hi[d] + k
(* C10, last clause: the action passed to the environment is Clip(policy action + sigma * half range * n), n standard
   Gaussian noise, sigma the CONFIGURED exploration noise level.  With sigma = 0 the perturbation vanishes whatever n
   is: the environment receives exactly the (clipped) action of the live policy at the observation it returned last.
   a, pol, lo, hi: float32 ordinals (device D4; clipping is monotone, so it commutes with the ordinal coding). *)
CClip(x, lo, hi) == IF x < lo THEN lo ELSE IF x > hi THEN hi ELSE x
CUnperturbed(a, pol, lo, hi) == Len(a) = Len(pol) /\ \A d \in 1..Len(a) : a[d] = CClip(pol[d], lo[d], hi[d])
=============================================================================
