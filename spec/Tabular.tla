--------------------------- MODULE Tabular ---------------------------
(* C14: single updates of the tabular learners.  The "state machine" is the   *)
(* staged choice of one test vector (ChooseIdx, ChooseTables, ChooseParams);  *)
(* the last stage applies the operator of TabularOps.tla that models the code *)
(* section named by ALG and records the set of admissible result tables       *)
(* (more than one only under ties of the greedy choice).  The invariants      *)
(* state the textbook law declaratively and are checked by TLC on every       *)
(* vector of the lattice; the same vectors are emitted and replayed into the  *)
(* real jitted functions.                                                     *)
(*   ALG = "QL"    q_learning._update_policy fed with greedy_policy(q, s2)    *)
(*         "SARSA" sarsa._update_policy with a supplied next action           *)
(*         "DQL"   double_q_learning._dql_update                              *)
(*         "DYNA"  dynaq.q_learning_update (no termination input)             *)
(*         "PLAN"  dynaq.planning on a single remembered pair, n iterations   *)
EXTENDS TabularOps, TLC, Json

CONSTANTS NS,    \* number of states
          NA,    \* number of actions
          ALG,   \* which code section
          LAT,   \* lattice size: 0 quick, 1 thorough
          EMIT

VARIABLES pc,    \* "idx" -> "tables" -> "params" -> "done"
          v,     \* the vector chosen so far (record)
          adm,   \* admissible result tables (set)
          dev    \* result of the named deviation (DQL only), else <<>>
vars == <<pc, v, adm, dev>>

States  == 0..(NS - 1)
Actions == 0..(NA - 1)

Vals    == {Q(-1, 1), Zero, Half, I(2)}            \* chosen table entries (ties possible)
ValsB   == IF LAT = 0 THEN {Q(-1, 1), One} ELSE {Q(-1, 1), One, Q(1, 4)}
Rewards == IF LAT = 0 THEN {Q(-1, 1), Half} ELSE {Q(-1, 1), Zero, Half}
Gammas  == {Zero, Half, One}
Lrs     == IF LAT = 0 THEN {Half, One} ELSE {Q(1, 4), Half, One}
Flips   == IF LAT = 0 \/ NS > 2 THEN {0} ELSE {0, 1}
Dists   == IF NS = 2 THEN {<<One, Zero>>, <<Half, Half>>, <<Q(1, 4), Q(3, 4)>>}
           ELSE {<<One, Zero, Zero>>, <<Half, Half, Zero>>, <<Q(1, 4), Q(1, 4), Half>>,
                 <<Zero, Half, Half>>, <<Q(1, 3), Q(1, 3), Q(1, 3)>>}
PlanVals == {Zero, I(2)}
V0s     == IF LAT = 0 THEN {Half, I(2)} ELSE Vals   \* value of the visited entry
PlanRRows == {f \in [1..NS -> {Q(-1, 1), Half}] : LAT = 1 \/ f[1] = Q(-1, 1)}
PlanNs  == {1, 2}

(* sentinel tables: every entry distinct, none in Vals; increasing or decreasing *)
Idx(s, a) == s * NA + a
BaseA(flip) == [s \in 1..NS |-> [a \in 1..NA |->
                 Q(12 + (IF flip = 0 THEN Idx(s - 1, a - 1) ELSE NS * NA - 1 - Idx(s - 1, a - 1)), 4)]]
BaseB(flip) == [s \in 1..NS |-> [a \in 1..NA |->
                 Q(0 - 9 - (IF flip = 0 THEN Idx(s - 1, a - 1) ELSE NS * NA - 1 - Idx(s - 1, a - 1)), 4)]]
SetRow(q, s, row) == [q EXCEPT ![s + 1] = row]

Emit(rec) == EMIT => PrintT(<<"EMIT", ToJson(rec)>>)

Init == /\ pc = "idx"
        /\ v = [alg |-> ALG]
        /\ adm = {} /\ dev = <<>>

ChooseIdx ==
  /\ pc = "idx"
  /\ \E s \in States, a \in Actions, s2 \in States, flip \in Flips :
     \E a2 \in (IF ALG = "SARSA" THEN Actions ELSE {0}) :
        v' = [alg |-> ALG, s |-> s, a |-> a, s2 |-> s2, a2 |-> a2, flip |-> flip]
  /\ pc' = "tables"
  /\ UNCHANGED <<adm, dev>>

ChooseTables ==
  /\ pc = "tables"
  /\ \E rowA \in [1..NA -> Vals], v0 \in (IF ALG = "PLAN" THEN PlanVals ELSE V0s) :
     \E rowB \in (IF ALG = "DQL" THEN [1..NA -> ValsB] ELSE {[b \in 1..NA |-> One]}) :
     \E trow \in (IF ALG = "PLAN" THEN Dists ELSE {<<>>}) :
     \E rrow \in (IF ALG = "PLAN" THEN PlanRRows ELSE {<<>>}) :
        v' = [alg |-> ALG, s |-> v.s, a |-> v.a, s2 |-> v.s2, a2 |-> v.a2, flip |-> v.flip,
              qA |-> Put(SetRow(BaseA(v.flip), v.s2, rowA), v.s, v.a, v0),
              qB |-> SetRow(BaseB(v.flip), v.s2, rowB),
              trow |-> trow, rrow |-> rrow]
  /\ pc' = "params"
  /\ UNCHANGED <<adm, dev>>

Full(r, term, gamma, lr, n) ==
  [alg |-> ALG, s |-> v.s, a |-> v.a, s2 |-> v.s2, a2 |-> v.a2, flip |-> v.flip,
   qA |-> v.qA, qB |-> v.qB, trow |-> v.trow, rrow |-> v.rrow,
   r |-> r, term |-> term, gamma |-> gamma, lr |-> lr, n |-> n]

Result(w) ==
  CASE ALG = "QL"    -> QLSet(w.qA, w.s, w.a, w.r, w.s2, w.gamma, w.term, w.lr)
    [] ALG = "SARSA" -> {UpdatePolicy(w.qA, w.s, w.a, w.r, w.s2, w.a2, w.gamma, w.term, w.lr)}
    [] ALG = "DQL"   -> DQLSet(w.qA, w.qB, w.s, w.a, w.r, w.s2, w.gamma, w.term, w.lr)
    [] ALG = "DYNA"  -> {DynaQ(w.qA, w.s, w.a, w.r, w.s2, w.gamma, w.lr)}
    [] ALG = "PLAN"  -> PlanFold({w.qA}, w.trow, w.rrow, w.s, w.a, w.n, w.gamma, w.lr)

Deviation(w) ==
  IF ALG = "DQL" THEN DQLGreedyAtCurrent(w.qA, w.qB, w.s, w.a, w.r, w.s2, w.gamma, w.term, w.lr)
  ELSE <<>>

ParamChoices ==
  {Full(r, term, gamma, lr, n) :
     r \in (IF ALG = "PLAN" THEN {Zero} ELSE Rewards),
     term \in (IF ALG \in {"DYNA", "PLAN"} THEN {FALSE} ELSE BOOLEAN),
     gamma \in (IF ALG = "PLAN" THEN {Half, One} ELSE Gammas),
     lr \in (IF ALG = "PLAN" THEN {Half, One} ELSE Lrs),
     n \in (IF ALG = "PLAN" THEN PlanNs ELSE {0})}

ChooseParams ==
  /\ pc = "params"
  /\ \E w \in ParamChoices :
       /\ v' = w
       /\ adm' = Result(w)
       /\ dev' = Deviation(w)
       /\ Emit([v |-> w, adm |-> adm', dev |-> dev', g2 |-> GreedySet(w.qA, w.s2)])
  /\ pc' = "done"

Next == ChooseIdx \/ ChooseTables \/ ChooseParams
Spec == Init /\ [][Next]_vars

----------------------------------------------------------------------------
(* Properties, in the declarative textbook form *)
Done == pc = "done"

(* convex form of the update: (1-lr) * old + lr * (r + gamma * mask * vnext) *)
Textbook(old, r, gamma, mask, vnext, lr) ==
  QAdd(QMul(QSub(One, lr), old), QMul(lr, QAdd(r, QMul(gamma, QMul(mask, vnext)))))

IsMaximiser(q, s, b) == \A c \in Actions : QLe(At(q, s, c), At(q, s, b))

OnlyVisitedEntryChanges ==
  Done => \A q1 \in adm : \A x \in States, b \in Actions :
            (x # v.s \/ b # v.a) => At(q1, x, b) = At(v.qA, x, b)

UpdateEquation ==
  Done =>
    /\ adm # {}
    /\ \A q1 \in adm :
       LET old == At(v.qA, v.s, v.a)
           new == At(q1, v.s, v.a)
       IN CASE ALG = "QL"    -> new = Textbook(old, v.r, v.gamma, NotTerm(v.term), QMaxSeq(Row(v.qA, v.s2)), v.lr)
            [] ALG = "SARSA" -> new = Textbook(old, v.r, v.gamma, NotTerm(v.term), At(v.qA, v.s2, v.a2), v.lr)
            [] ALG = "DQL"   -> \E b \in Actions : /\ IsMaximiser(v.qA, v.s2, b)
                                                  /\ new = Textbook(old, v.r, v.gamma, NotTerm(v.term), At(v.qB, v.s2, b), v.lr)
            [] ALG = "DYNA"  -> new = Textbook(old, v.r, v.gamma, One, QMaxSeq(Row(v.qA, v.s2)), v.lr)
            [] ALG = "PLAN"  -> v.n = 1 =>
                                  \E x \in States : /\ \A y \in States : QLe(v.trow[y + 1], v.trow[x + 1])
                                                    /\ new = Textbook(old, v.rrow[x + 1], v.gamma, One, QMaxSeq(Row(v.qA, x)), v.lr)

(* a terminal transition with learning rate 1 overwrites the entry with the reward *)
TerminalTarget ==
  (Done /\ ALG \in {"QL", "SARSA", "DQL"} /\ v.term /\ v.lr = One) =>
     \A q1 \in adm : At(q1, v.s, v.a) = v.r

(* every admissible greedy successor action maximises the updated table at s2 *)
GreedyIsMax == Done => \A b \in GreedySet(v.qA, v.s2) : IsMaximiser(v.qA, v.s2, b)

----------------------------------------------------------------------------
(* deviation canary: double Q-learning with the greedy action of the CURRENT  *)
(* state must be refuted by UpdateEquation                                     *)
ChooseParamsBad ==
  /\ pc = "params"
  /\ \E w \in ParamChoices :
       /\ v' = w
       /\ adm' = {Deviation(w)}
       /\ dev' = <<>>
  /\ pc' = "done"
NextBad == ChooseIdx \/ ChooseTables \/ ChooseParamsBad
=============================================================================
