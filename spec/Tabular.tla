--------------------------- MODULE Tabular ---------------------------
(* C14: single updates of the tabular learners.  The "state machine" is the   *)
(* staged choice of one test vector (ChooseIdx, ChooseTables, ChooseParams);  *)
(* the last stage applies the operator of TabularOps.tla that models the code *)
(* section named by ALG and records the set of admissible result tables       *)
(* (more than one only under ties of the greedy choice).  The invariants      *)
(* state the textbook law declaratively and are checked by TLC on every       *)
(* vector of the lattice; the same vectors are emitted and replayed into the  *)
(* real jitted functions.                                                     *)
(*   ALG = "QL"    q_learning._update_policy fed with greedy_policy(q, s2)    *)
(*         "SARSA" sarsa._update_policy with a supplied next action           *)
(*         "DQL"   double_q_learning._dql_update                              *)
(*         "DYNA"  dynaq.q_learning_update (no termination input)             *)
(*         "PLAN"  dynaq.planning on a single remembered pair, n iterations   *)
(*         "DQLN"  double_q_learning._dql_update on NEAR-TIES: the successor  *)
(*                 row of the updated table holds values that are equal or    *)
(*                 1 .. 6 float32 steps apart, at several magnitudes and      *)
(*                 signs, written as float32 ordinals (device D4, see         *)
(*                 TabularOps.tla); the other table values the actions        *)
(*                 differently; every vector under NKEYS random keys (the     *)
(*                 update has a key argument: its result must not depend on   *)
(*                 it beyond the choice among true maximisers)                *)
EXTENDS TabularOps, TLC, Json

CONSTANTS NS,    \* number of states
          NA,    \* number of actions
          ALG,   \* which code section
          LAT,   \* lattice size: 0 quick, 1 thorough
          NKEYS, \* "DQLN": random keys per vector
          EMIT

VARIABLES pc,    \* "idx" -> "tables" -> "params" -> "done"
          v,     \* the vector chosen so far (record)
          adm,   \* admissible result tables (set)
          dev    \* result of the named deviation (DQL only), else <<>>
vars == <<pc, v, adm, dev>>

States  == 0..(NS - 1)
Actions == 0..(NA - 1)

Vals    == {Q(-1, 1), Zero, Half, I(2)}            \* chosen table entries (ties possible)
ValsB   == IF LAT = 0 THEN {Q(-1, 1), One} ELSE {Q(-1, 1), One, Q(1, 4)}
Rewards == IF LAT = 0 THEN {Q(-1, 1), Half} ELSE {Q(-1, 1), Zero, Half}
Gammas  == {Zero, Half, One}
Lrs     == IF LAT = 0 THEN {Half, One} ELSE {Q(1, 4), Half, One}
Flips   == IF LAT = 0 \/ NS > 2 \/ ALG = "DQLN" THEN {0} ELSE {0, 1}
Dists   == IF NS = 2 THEN {<<One, Zero>>, <<Half, Half>>, <<Q(1, 4), Q(3, 4)>>}
           ELSE {<<One, Zero, Zero>>, <<Half, Half, Zero>>, <<Q(1, 4), Q(1, 4), Half>>,
                 <<Zero, Half, Half>>, <<Q(1, 3), Q(1, 3), Q(1, 3)>>}
PlanVals == {Zero, I(2)}
V0s     == IF LAT = 0 THEN {Half, I(2)} ELSE Vals   \* value of the visited entry
PlanRRows == {f \in [1..NS -> {Q(-1, 1), Half}] : LAT = 1 \/ f[1] = Q(-1, 1)}
PlanNs  == {1, 2}

(* near-tie lattice ("DQLN"): the row of the successor is sg * (ordinal of 2^e + level) *)
IsNear     == ALG = "DQLN"
NearExps   == IF LAT = 0 THEN {-10, 1, 10} ELSE {-10, 0, 1, 10}
NearSigns  == {1, -1}
NearLevels == IF LAT = 0 THEN {-2, 0, 1, 3} ELSE {-3, -1, 0, 1, 2, 3}   \* negative: below the power of two (finer spacing)
NearV0s    == {Half}
NearRowsB  == {f \in [1..NA -> ValsB] : \E b, c \in 1..NA : f[b] # f[c]}    \* the other table values the actions differently
Keys       == IF IsNear THEN 0..(NKEYS - 1) ELSE {0}
NearTol    == 64                                               \* deviation: "within 64 float32 steps is as good as equal"
RECURSIVE Pow2(_)
Pow2(k)    == IF k = 0 THEN 1 ELSE 2 * Pow2(k - 1)
Pow2Q(e, sg) == IF e >= 0 THEN I(sg * Pow2(e)) ELSE Q(sg, Pow2(0 - e))    \* the rational sg * 2^e

(* sentinel tables: every entry distinct, none in Vals; increasing or decreasing *)
Idx(s, a) == s * NA + a
BaseA(flip) == [s \in 1..NS |-> [a \in 1..NA |->
                 Q(12 + (IF flip = 0 THEN Idx(s - 1, a - 1) ELSE NS * NA - 1 - Idx(s - 1, a - 1)), 4)]]
BaseB(flip) == [s \in 1..NS |-> [a \in 1..NA |->
                 Q(0 - 9 - (IF flip = 0 THEN Idx(s - 1, a - 1) ELSE NS * NA - 1 - Idx(s - 1, a - 1)), 4)]]
SetRow(q, s, row) == [q EXCEPT ![s + 1] = row]

Emit(rec) == EMIT => PrintT(<<"EMIT", ToJson(rec)>>)

Init == /\ pc = "idx"
        /\ v = [alg |-> ALG]
        /\ adm = {} /\ dev = <<>>

ChooseIdx ==
  /\ pc = "idx"
  /\ \E s \in States, a \in Actions, s2 \in States, flip \in Flips :
     \E a2 \in (IF ALG = "SARSA" THEN Actions ELSE {0}) :
        v' = [alg |-> ALG, s |-> s, a |-> a, s2 |-> s2, a2 |-> a2, flip |-> flip]
  /\ pc' = "tables"
  /\ UNCHANGED <<adm, dev>>

ChooseTables ==
  /\ pc = "tables" /\ ~IsNear
  /\ \E rowA \in [1..NA -> Vals], v0 \in (IF ALG = "PLAN" THEN PlanVals ELSE V0s) :
     \E rowB \in (IF ALG = "DQL" THEN [1..NA -> ValsB] ELSE {[b \in 1..NA |-> One]}) :
     \E trow \in (IF ALG = "PLAN" THEN Dists ELSE {<<>>}) :
     \E rrow \in (IF ALG = "PLAN" THEN PlanRRows ELSE {<<>>}) :
        v' = [alg |-> ALG, s |-> v.s, a |-> v.a, s2 |-> v.s2, a2 |-> v.a2, flip |-> v.flip,
              qA |-> Put(SetRow(BaseA(v.flip), v.s2, rowA), v.s, v.a, v0),
              qB |-> SetRow(BaseB(v.flip), v.s2, rowB),
              trow |-> trow, rrow |-> rrow, orow |-> <<>>, base |-> <<>>]
  /\ pc' = "params"
  /\ UNCHANGED <<adm, dev>>

(* near-tie tables: row s2 of the updated table by ordinals.  When the visited *)
(* entry lies in that row (s = s2) it is the power of two itself (level 0),   *)
(* whose rational value TLC knows; the rational table qA is only read there.  *)
ChooseTablesNear ==
  /\ pc = "tables" /\ IsNear
  /\ \E e \in NearExps, sg \in NearSigns, lv \in [1..NA -> NearLevels], v0 \in NearV0s, rowB \in NearRowsB :
       /\ (v.s = v.s2) => (lv[v.a + 1] = 0 /\ v0 = CHOOSE x \in NearV0s : TRUE)
       /\ v' = [alg |-> ALG, s |-> v.s, a |-> v.a, s2 |-> v.s2, a2 |-> v.a2, flip |-> v.flip,
                qA |-> Put(BaseA(v.flip), v.s, v.a, IF v.s = v.s2 THEN Pow2Q(e, sg) ELSE v0),
                qB |-> SetRow(BaseB(v.flip), v.s2, rowB),
                trow |-> <<>>, rrow |-> <<>>,
                orow |-> [b \in 1..NA |-> sg * (OrdOf(e, 0) + lv[b])],
                base |-> [ord |-> sg * OrdOf(e, 0), val |-> Pow2Q(e, sg)]]
  /\ pc' = "params"
  /\ UNCHANGED <<adm, dev>>

Full(r, term, gamma, lr, n, key) ==
  [alg |-> ALG, s |-> v.s, a |-> v.a, s2 |-> v.s2, a2 |-> v.a2, flip |-> v.flip,
   qA |-> v.qA, qB |-> v.qB, trow |-> v.trow, rrow |-> v.rrow, orow |-> v.orow, base |-> v.base,
   r |-> r, term |-> term, gamma |-> gamma, lr |-> lr, n |-> n, key |-> key]

Result(w) ==
  CASE ALG = "QL"    -> QLSet(w.qA, w.s, w.a, w.r, w.s2, w.gamma, w.term, w.lr)
    [] ALG = "SARSA" -> {UpdatePolicy(w.qA, w.s, w.a, w.r, w.s2, w.a2, w.gamma, w.term, w.lr)}
    [] ALG = "DQL"   -> DQLSet(w.qA, w.qB, w.s, w.a, w.r, w.s2, w.gamma, w.term, w.lr)
    [] ALG = "DYNA"  -> {DynaQ(w.qA, w.s, w.a, w.r, w.s2, w.gamma, w.lr)}
    [] ALG = "PLAN"  -> PlanFold({w.qA}, w.trow, w.rrow, w.s, w.a, w.n, w.gamma, w.lr)
    [] ALG = "DQLN"  -> DQLSetOrd(w.qA, w.orow, w.qB, w.s, w.a, w.r, w.s2, w.gamma, w.term, w.lr)

(* named deviations: DQL - greedy action of the CURRENT state (one table);     *)
(* DQLN - near-ties treated as ties (the set of tables admissible then)        *)
Deviation(w) ==
  IF ALG = "DQL" THEN DQLGreedyAtCurrent(w.qA, w.qB, w.s, w.a, w.r, w.s2, w.gamma, w.term, w.lr)
  ELSE IF IsNear THEN DQLSetOrdTolerant(w.qA, w.orow, w.qB, w.s, w.a, w.r, w.s2, w.gamma, w.term, w.lr, NearTol)
  ELSE <<>>

ParamChoices ==
  {Full(r, term, gamma, lr, n, key) :
     r \in (IF ALG = "PLAN" THEN {Zero} ELSE IF IsNear THEN {Half} ELSE Rewards),
     term \in (IF ALG \in {"DYNA", "PLAN"} THEN {FALSE} ELSE BOOLEAN),
     gamma \in (IF ALG = "PLAN" THEN {Half, One} ELSE IF IsNear THEN (IF LAT = 0 THEN {Half} ELSE {Half, One}) ELSE Gammas),
     lr \in (IF ALG = "PLAN" THEN {Half, One} ELSE IF IsNear THEN (IF LAT = 0 THEN {Half} ELSE {Half, One}) ELSE Lrs),
     n \in (IF ALG = "PLAN" THEN PlanNs ELSE {0}),
     key \in Keys}

ChooseParams ==
  /\ pc = "params"
  /\ \E w \in ParamChoices :
       /\ v' = w
       /\ adm' = Result(w)
       /\ dev' = Deviation(w)
       /\ Emit([v |-> w, adm |-> adm', dev |-> dev',
                g2 |-> IF IsNear THEN OrdGreedySet(w.orow) ELSE GreedySet(w.qA, w.s2)])
  /\ pc' = "done"

Next == ChooseIdx \/ ChooseTables \/ ChooseTablesNear \/ ChooseParams
Spec == Init /\ [][Next]_vars

----------------------------------------------------------------------------
(* Properties, in the declarative textbook form *)
Done == pc = "done"

(* convex form of the update: (1-lr) * old + lr * (r + gamma * mask * vnext) *)
Textbook(old, r, gamma, mask, vnext, lr) ==
  QAdd(QMul(QSub(One, lr), old), QMul(lr, QAdd(r, QMul(gamma, QMul(mask, vnext)))))

IsMaximiser(q, s, b) == \A c \in Actions : QLe(At(q, s, c), At(q, s, b))
IsOrdMaximiser(orow, b) == \A c \in Actions : orow[c + 1] <= orow[b + 1]

OnlyVisitedEntryChanges ==
  Done => \A q1 \in adm : \A x \in States, b \in Actions :
            (x # v.s \/ b # v.a) => At(q1, x, b) = At(v.qA, x, b)

UpdateEquation ==
  Done =>
    /\ adm # {}
    /\ \A q1 \in adm :
       LET old == At(v.qA, v.s, v.a)
           new == At(q1, v.s, v.a)
       IN CASE ALG = "QL"    -> new = Textbook(old, v.r, v.gamma, NotTerm(v.term), QMaxSeq(Row(v.qA, v.s2)), v.lr)
            [] ALG = "SARSA" -> new = Textbook(old, v.r, v.gamma, NotTerm(v.term), At(v.qA, v.s2, v.a2), v.lr)
            [] ALG = "DQL"   -> \E b \in Actions : /\ IsMaximiser(v.qA, v.s2, b)
                                                  /\ new = Textbook(old, v.r, v.gamma, NotTerm(v.term), At(v.qB, v.s2, b), v.lr)
            [] ALG = "DQLN"  -> \E b \in Actions : /\ IsOrdMaximiser(v.orow, b)
                                                  /\ new = Textbook(old, v.r, v.gamma, NotTerm(v.term), At(v.qB, v.s2, b), v.lr)
            [] ALG = "DYNA"  -> new = Textbook(old, v.r, v.gamma, One, QMaxSeq(Row(v.qA, v.s2)), v.lr)
            [] ALG = "PLAN"  -> v.n = 1 =>
                                  \E x \in States : /\ \A y \in States : QLe(v.trow[y + 1], v.trow[x + 1])
                                                    /\ new = Textbook(old, v.rrow[x + 1], v.gamma, One, QMaxSeq(Row(v.qA, x)), v.lr)

(* a terminal transition with learning rate 1 overwrites the entry with the reward *)
TerminalTarget ==
  (Done /\ ALG \in {"QL", "SARSA", "DQL", "DQLN"} /\ v.term /\ v.lr = One) =>
     \A q1 \in adm : At(q1, v.s, v.a) = v.r

(* every admissible greedy successor action maximises the updated table at s2 *)
GreedyIsMax == Done => IF IsNear THEN \A b \in OrdGreedySet(v.orow) : IsOrdMaximiser(v.orow, b)
                               ELSE \A b \in GreedySet(v.qA, v.s2) : IsMaximiser(v.qA, v.s2, b)

(* a near-tie is not a tie: when the values of the successor row are pairwise *)
(* distinct floats - however close - there is exactly one admissible result,  *)
(* the same under every key                                                   *)
StrictMaximumDecides ==
  (Done /\ IsNear /\ \A b, c \in Actions : (b # c => v.orow[b + 1] # v.orow[c + 1])) =>
     Cardinality(adm) = 1

----------------------------------------------------------------------------
(* deviation canaries: double Q-learning with the greedy action of the        *)
(* CURRENT state (DQL) / with near-ties treated as ties (DQLN) must be         *)
(* refuted by UpdateEquation                                                   *)
ChooseParamsBad ==
  /\ pc = "params"
  /\ \E w \in ParamChoices :
       /\ v' = w
       /\ adm' = IF IsNear THEN Deviation(w) ELSE {Deviation(w)}
       /\ dev' = <<>>
  /\ pc' = "done"
NextBad == ChooseIdx \/ ChooseTables \/ ChooseTablesNear \/ ChooseParamsBad
=============================================================================
