--------------------------- MODULE Mpc ---------------------------
(* X01 - PE-TS receding-horizon control and model-training cadence             *)
(* (rl_blox/algorithm/pets.py: PETSMPCConfig, PETSMPCState, mpc_action,        *)
(* _pets_optimize, _pets_opt_iter, the main loop of train_pets).               *)
(*                                                                            *)
(* Three state machines over one vocabulary, one action per call / loop body  *)
(* of the code:                                                               *)
(*   level 1  (MInit / MNext)  mpc_action and the episode-end reset of the     *)
(*            stored plan: MpcAction(mask), EpisodeReset                       *)
(*   level 2  (OInit / ONext)  one planning call: OptBegin (_pets_optimize    *)
(*            prologue), OptIter (_pets_opt_iter), OptReturn                   *)
(*   level 3  (LInit / LNext)  the loop body of train_pets: TrainModel /      *)
(*            SkipTraining, ActRandom / ActPlanned, EnvStep, EpisodeEnd /      *)
(*            Continue                                                         *)
(*   level 0  (SInit / SNext)  what train_pets puts into PETSMPCConfig         *)
(* Where the code's behaviour is surprising it is modelled as it is and named  *)
(* (ShiftFillsAvgAct, IterKeyReusedEveryIteration,                             *)
(* SameRootForTrainingAndPlanning); the invariants that an idealised variant   *)
(* would satisfy (IterationKeysDistinct, PlannerAndTrainingKeysDisjoint) are   *)
(* evaluated for information only.                                            *)
(*                                                                            *)
(* Device D1: plans are sequences of TAGS.  <<c, k>> is "row k of the plan    *)
(* the optimiser returned at planner call c", A = <<0, 0>> is the row avg_act. *)
(* The abstract optimiser passes the rows in `mask` through unchanged and     *)
(* returns fresh rows elsewhere (the two extremes of what an update of the    *)
(* mean can do to a row), so "shift by one", "no row lost / duplicated" and   *)
(* "the last row is avg_act" are exact statements.  Random keys are PATHS in  *)
(* the split tree: Child(key, i) = jax.random.split(key, 2)[i].               *)
EXTENDS Integers, Sequences, FiniteSets, TLC, Json, Exact

----------------------------------------------------------------------------
(* Part 0: the vocabulary (no constants, no variables): shared by the three    *)
(* machines below and by the trace specification MpcTrace.                    *)

A == <<0, 0>>
MinI(a, b) == IF a < b THEN a ELSE b
MaxI(a, b) == IF a > b THEN a ELSE b
Const(n, x) == [k \in 1..n |-> x]
Child(key, i) == Append(key, i)

(* PETSMPCState.initial_plan: plan_horizon rows avg_act *)
InitialPlanP(h) == Const(h, A)

(* mpc_action: the plan handed to the optimiser is the stored plan, or avg_act *)
(* broadcast to the stored plan's shape when init_with_previous_plan is off    *)
OptimiserInputP(prev, withPrev) == IF withPrev THEN prev ELSE Const(Len(prev), A)

(* mpc_action: the action returned is row 0 of the optimised plan *)
ReturnedAction(out) == out[1]

(* mpc_action: the stored plan becomes rows 1.. of the optimised plan followed *)
(* by ONE row avg_act.  (The docstring of train_pets only says "previous plan  *)
(* shifted by one time step"; what fills the freed row is the code's choice.)  *)
ShiftFillsAvgAct(out) == Tail(out) \o <<A>>
(* realistic wrong variants (canaries) *)
ShiftKeepsAll(out) == out
ShiftRepeatsLastRow(out) == Tail(out) \o <<out[Len(out)]>>
ShiftByTwo(out) == IF Len(out) >= 2 THEN Tail(Tail(out)) \o <<A, A>> ELSE <<A>>

(* train_pets: the dynamics model is refined before step u iff ... *)
TrainDueP(u, ls, n) == u >= ls /\ (u - ls) % n = 0
(* ... with learning_starts_gradient_steps epochs the first time, gradient_steps afterwards *)
EpochsP(k, first, later) == IF k = 1 THEN first ELSE later
(* train_pets: random actions strictly before learning_starts, the planner from then on *)
ActsRandomlyP(u, ls) == u < ls

(* train_pets: PETSMPCConfig.avg_act / init_var from the action bounds (exact rationals, one action dimension) *)
AvgActQ(lo, hi) == QMul(Half, QAdd(hi, lo))
InitVarQ(lo, hi) == QDiv(QSq(QSub(hi, lo)), I(16))

RECURSIVE SumTo(_, _)
SumTo(f, n) == IF n = 0 THEN 0 ELSE SumTo(f, n - 1) + f[n]

----------------------------------------------------------------------------
CONSTANTS H,               \* plan_horizon
          InitWithPrev,    \* init_with_previous_plan
          Masks,           \* set of subsets of 1..H: rows the abstract optimiser passes through
          MaxCalls,        \* level 1: bound on planner calls
          NOptIters, NSamplesSet, NParticlesSet, Obs0Set, NEnsemble, ThreadIterKey,   \* level 2
          Total, LearningStarts, StepsPerIter, LSGradSteps, GradSteps, MaxEpLen, Cap, \* level 3
          Bounds,          \* setup vectors: set of integers 64*a + b: low = (a - 16)/4, high = (b - 16)/4
          Dev,             \* set of named deviations in force (canaries); {} = the code
          EMIT

VARIABLES mpc,   \* PETSMPCState + ghosts: [prevPlan, key, calls, epFirst, hist, consumed, split]
          opt,   \* one planning call (level 2)
          loop   \* train_pets loop (level 3)
vars == <<mpc, opt, loop>>

MView == [prevPlan |-> mpc.prevPlan, key |-> mpc.key, calls |-> mpc.calls, epFirst |-> mpc.epFirst]
Emit(op, args, exp, pre, post) ==
  EMIT => PrintT(<<"EMIT", ToJson([pre |-> pre, op |-> op, args |-> args, exp |-> exp, post |-> post])>>)

InitialPlan == InitialPlanP(H)
OptimiserInput(prev) == OptimiserInputP(prev, InitWithPrev)
Shift(out) == CASE "no_shift" \in Dev -> ShiftKeepsAll(out)
                [] "repeat_last" \in Dev -> ShiftRepeatsLastRow(out)
                [] "shift_two" \in Dev -> ShiftByTwo(out)
                [] OTHER -> ShiftFillsAvgAct(out)

----------------------------------------------------------------------------
(* Level 1: mpc_action *)

Mpc0 == [prevPlan |-> InitialPlan, key |-> <<>>, calls |-> 0, epFirst |-> 0, hist |-> <<>>, consumed |-> {}, split |-> {}]

(* the abstract optimiser at call c *)
Optimised(c, inp, mask) == [k \in 1..H |-> IF k \in mask THEN inp[k] ELSE <<c, k>>]

(* one call of mpc_action: split state.key once, hand (plan, second half) to the optimiser, store the shifted plan *)
MpcCall(m, mask) ==
  LET c    == m.calls + 1
      k0   == Child(m.key, 0)
      k1   == Child(m.key, 1)
      okey == IF "opt_gets_state_key" \in Dev THEN k0 ELSE k1
      inp  == IF "opt_sees_initial" \in Dev THEN InitialPlan ELSE OptimiserInput(m.prevPlan)
      out  == Optimised(c, inp, mask)
  IN [state |-> [prevPlan |-> Shift(out),
                 key      |-> IF "key_not_advanced" \in Dev THEN m.key ELSE k0,
                 calls    |-> c,
                 epFirst  |-> m.epFirst,
                 hist     |-> Append(m.hist, [before |-> m.prevPlan, in |-> inp, out |-> out, ret |-> ReturnedAction(out), key |-> okey]),
                 consumed |-> m.consumed \cup {okey},
                 split    |-> m.split \cup {m.key}],
      in |-> inp, out |-> out, ret |-> ReturnedAction(out), optkey |-> okey]

(* train_pets at an episode end: mpc_state.prev_plan = PETSMPCState.initial_plan(mpc_config); the key is NOT reset *)
ResetOf(m) == [m EXCEPT !.prevPlan = IF "keep_plan_at_episode_end" \in Dev THEN @ ELSE InitialPlan, !.epFirst = m.calls, !.hist = <<>>]

MInit == /\ mpc = Mpc0 /\ opt = 0 /\ loop = 0

MpcAction(mask) ==
  /\ mpc.calls < MaxCalls
  /\ LET r == MpcCall(mpc, mask) IN
       /\ mpc' = r.state
       /\ Emit("MpcAction", [c |-> mpc.calls + 1, mask |-> mask],
               [in |-> r.in, optkey |-> r.optkey, ret |-> r.ret, out |-> r.out], MView, MView')
  /\ UNCHANGED <<opt, loop>>

EpisodeReset ==
  /\ mpc' = ResetOf(mpc)
  /\ Emit("EpisodeReset", <<>>, <<>>, MView, MView')
  /\ UNCHANGED <<opt, loop>>

MNext == (\E mask \in Masks : MpcAction(mask)) \/ EpisodeReset

(* -- properties of the stored plan (hold in level 1 and level 3) *)
PlanLength == Len(mpc.prevPlan) = H
LastRowIsAvgAct == mpc.prevPlan[H] = A
(* every stored row is avg_act or a row the optimiser returned at an earlier call of the same episode,
   shifted by the number of calls since *)
StoredRowsShifted ==
  \A j \in 1..H : LET r == mpc.prevPlan[j] IN
     r = A \/ \E i \in 1..Len(mpc.hist) : LET d == Len(mpc.hist) - i + 1 IN j + d <= H /\ mpc.hist[i].out[j + d] = r
(* the same on the tags: a fresh row <<c, k>> of this episode now sits calls-c+1 positions further up *)
TagShift ==
  \A j \in 1..H : LET r == mpc.prevPlan[j] IN
     r # A => /\ r[1] \in (mpc.epFirst + 1)..mpc.calls
              /\ r[2] = j + (mpc.calls - r[1] + 1)
(* after an episode end the stored plan is the initial plan *)
FreshEpisodeHasInitialPlan == Len(mpc.hist) = 0 => mpc.prevPlan = InitialPlan
(* ... and it is reset nowhere else: within an episode every call starts from the shifted result of the previous one *)
ChainOfPlans == \A i \in 1..Len(mpc.hist) :
                   mpc.hist[i].before = IF i = 1 THEN InitialPlan ELSE ShiftFillsAvgAct(mpc.hist[i - 1].out)
OptimiserSeesStoredPlan == \A i \in 1..Len(mpc.hist) :
                   mpc.hist[i].in = IF InitWithPrev THEN mpc.hist[i].before ELSE InitialPlan
(* no row lost / duplicated: the optimised plan is exactly the returned action followed by the stored rows 1..H-1 *)
NoRowLostOrDuplicated ==
  Len(mpc.hist) > 0 => LET last == mpc.hist[Len(mpc.hist)] IN
                         last.out = <<last.ret>> \o SubSeq(mpc.prevPlan, 1, H - 1)
(* keys: state.key is the 0-child chain, call c consumes its 1-child; a consumed key is never split or consumed again *)
KeyDiscipline == /\ mpc.key = Const(mpc.calls, 0)
                 /\ mpc.consumed = {Append(Const(c - 1, 0), 1) : c \in 1..mpc.calls}
ConsumedKeysNeverSplitOrReused == /\ mpc.consumed \cap (mpc.split \cup {mpc.key}) = {}
                                  /\ Cardinality(mpc.consumed) = mpc.calls
MTypeOK == /\ mpc.calls \in 0..MaxI(MaxCalls, Total) /\ mpc.epFirst \in 0..mpc.calls
           /\ Len(mpc.hist) = mpc.calls - mpc.epFirst

----------------------------------------------------------------------------
(* Level 2: one planning call, _pets_optimize(config, dynamics_model, mean, key, obs).                     *)
(* Distributions are numbered: mean / var 0 = the arguments (the given plan, config.init_var), i = the      *)
(* result of the i-th update_fn call; candidate set i = the result of the i-th sample_fn call.  The key     *)
(* given to the call is the root <<>>.  Stub bindings used by the driver: candidate value                   *)
(* Val(i, s, k) in every action component, dynamics that add 1 to the first observation component per       *)
(* predicted step, reward = first action component + 4096 * first observation component.                    *)

Val(i, s, k) == 64 * i + 8 * s + k
ObsBefore(o0, k) == o0 + (k - 1)
Reward(i, s, k, o0) == Val(i, s, k) + 4096 * ObsBefore(o0, k)
Return(i, s, o0) == SumTo([k \in 1..H |-> Reward(i, s, k, o0)], H)

(* WHAT THE CODE DOES (IterKeyReusedEveryIteration): _pets_optimize passes the same `key` to every             *)
(* _pets_opt_iter, which splits it locally and does not hand the advanced key back - every iteration's       *)
(* sample_fn / particle keys are identical.  ThreadIterKey = TRUE is the variant in which the key advanced   *)
(* inside an iteration is carried to the next one.                                                          *)
IterKey(base, i) == IF ThreadIterKey THEN base \o Const(2 * (i - 1), 0) ELSE base
SamplingKey(base, i) == Child(IterKey(base, i), 1)
ParticleKey(base, i) == Child(Child(IterKey(base, i), 0), 1)

OPar == [n |-> opt.n, ns |-> opt.ns, p |-> opt.p, o0 |-> opt.o0, h |-> H]

OInit == /\ opt \in {[phase |-> "begin", n |-> n, ns |-> s, p |-> p, o0 |-> o, it |-> 0, mean |-> 0, var |-> 0,
                      key |-> <<>>, ret |-> -1, skeys |-> {}] :
                       n \in NOptIters, s \in NSamplesSet, p \in NParticlesSet, o \in Obs0Set}
         /\ mpc = 0 /\ loop = 0

(* prologue: best_plan = mean; key, bootstrap_key = split(key); model_indices = randint(bootstrap_key, (n_particles,), 0, n_ensemble); var = init_var *)
OptBegin ==
  /\ opt.phase = "begin"
  /\ opt' = [opt EXCEPT !.phase = "iter", !.key = Child(<<>>, 0)]
  /\ Emit("OptBegin", OPar, [bootstrap_key |-> Child(<<>>, 1), n_indices |-> opt.p, lo |-> 0, hi |-> NEnsemble], 0, 0)
  /\ UNCHANGED <<mpc, loop>>

(* _pets_opt_iter: sample_fn(mean, var, sampling_key) -> candidates; ts_inf + evaluate_plans -> returns; update_fn(candidates, returns, mean, var) *)
OptIter ==
  /\ opt.phase = "iter" /\ opt.it < opt.n
  /\ LET i == opt.it + 1
         rets == [s \in 1..opt.ns |-> Return(i, s, opt.o0)] IN
       /\ opt' = [opt EXCEPT !.it = i, !.mean = i, !.var = i, !.skeys = @ \cup {SamplingKey(opt.key, i)}]
       /\ Emit("OptIter", OPar,
               [i |-> i,
                sample |-> [mean |-> opt.mean, var |-> opt.var, key |-> SamplingKey(opt.key, i)],
                particle_key |-> ParticleKey(opt.key, i),
                rollout |-> [actions |-> i, obs0 |-> opt.o0],
                returns |-> rets,
                update |-> [actions |-> i, mean |-> opt.mean, var |-> opt.var]], 0, 0)
  /\ UNCHANGED <<mpc, loop>>

(* the call returns the FINAL MEAN (best_plan / best_return are tracked but never used) *)
OptReturn ==
  /\ opt.phase = "iter" /\ opt.it = opt.n
  /\ opt' = [opt EXCEPT !.phase = "done", !.ret = IF "returns_given_plan" \in Dev THEN 0 ELSE opt.mean]
  /\ Emit("OptReturn", OPar, [ret |-> opt'.ret], 0, 0)
  /\ UNCHANGED <<mpc, loop>>

ONext == OptBegin \/ OptIter \/ OptReturn

ReturnsFinalMean == opt.phase = "done" => opt.ret = opt.n /\ opt.it = opt.n
DistributionFollowsIterations == opt.mean = opt.it /\ opt.var = opt.it
(* holds only for the threaded variant; the code's key handling is refuted by it for n_opt_iter >= 2 (reported, not enforced) *)
IterationKeysDistinct == Cardinality(opt.skeys) = opt.it

----------------------------------------------------------------------------
(* Level 3: the loop body of train_pets.  loop = [t, pc, epLen, nEpochs, tkey, trains, acts, bufLen,        *)
(* executed, episodes, stopCount, stopSum, outcome]                                                          *)

TrainDue(u) == CASE "train_every_step" \in Dev -> u >= LearningStarts
                 [] "train_ignores_learning_starts" \in Dev -> u % StepsPerIter = 0
                 [] OTHER -> TrainDueP(u, LearningStarts, StepsPerIter)
ActsRandomly(u) == IF "random_inclusive" \in Dev THEN u <= LearningStarts ELSE ActsRandomlyP(u, LearningStarts)

LInit == /\ mpc = Mpc0 /\ opt = 0
         /\ loop = [t |-> 0, pc |-> "top", epLen |-> 0, nEpochs |-> LSGradSteps, tkey |-> <<>>, trains |-> <<>>, acts |-> <<>>,
                    bufLen |-> 0, executed |-> 0, episodes |-> 0, stopCount |-> 0, stopSum |-> 0, outcome |-> "none"]

(* update_dynamics_model on a batch of len(replay_buffer) rows, then n_epochs = gradient_steps; logger: loss + epoch at step t *)
TrainModel ==
  /\ loop.pc = "top" /\ loop.t < Total /\ TrainDue(loop.t)
  /\ loop' = [loop EXCEPT !.pc = "act",
                          !.trains = Append(@, [t |-> loop.t, epochs |-> loop.nEpochs, batch |-> loop.bufLen, key |-> Child(loop.tkey, 1)]),
                          !.tkey = Child(@, 0),
                          !.nEpochs = IF "epochs_never_handed_over" \in Dev THEN @ ELSE GradSteps]
  /\ UNCHANGED <<mpc, opt>>
SkipTraining ==
  /\ loop.pc = "top" /\ loop.t < Total /\ ~TrainDue(loop.t)
  /\ loop' = [loop EXCEPT !.pc = "act"]
  /\ UNCHANGED <<mpc, opt>>
(* action_space.sample() *)
ActRandom ==
  /\ loop.pc = "act" /\ ActsRandomly(loop.t)
  /\ loop' = [loop EXCEPT !.pc = "env", !.acts = Append(@, "random")]
  /\ UNCHANGED <<mpc, opt>>
(* mpc_action(mpc_config, mpc_state, mpc_optimize_fn, obs) *)
ActPlanned(mask) ==
  /\ loop.pc = "act" /\ ~ActsRandomly(loop.t)
  /\ mpc' = MpcCall(mpc, mask).state
  /\ loop' = [loop EXCEPT !.pc = "env", !.acts = Append(@, "planned")]
  /\ UNCHANGED opt
(* env.step + replay_buffer.add_sample; the environment decides how the step ends *)
EnvStep(o) ==
  /\ loop.pc = "env"
  /\ (loop.epLen + 1 >= MaxEpLen => o # "cont")
  /\ loop' = [loop EXCEPT !.pc = IF o = "cont" THEN "cont" ELSE "end", !.epLen = @ + 1, !.bufLen = MinI(@ + 1, Cap),
                          !.executed = @ + 1, !.outcome = o]
  /\ UNCHANGED <<mpc, opt>>
(* termination or truncation: logger.stop_episode(steps_per_episode), start_new_episode, env.reset, previous plan := initial plan *)
EpisodeEnd ==
  /\ loop.pc = "end"
  /\ loop' = [loop EXCEPT !.pc = "top", !.t = @ + 1, !.epLen = 0, !.episodes = @ + 1, !.stopCount = @ + 1,
                          !.stopSum = @ + (IF "stop_reports_loop_index" \in Dev THEN loop.t ELSE loop.epLen)]
  /\ mpc' = IF "reset_only_on_termination" \in Dev /\ loop.outcome = "trunc" THEN [mpc EXCEPT !.epFirst = mpc.calls, !.hist = <<>>] ELSE ResetOf(mpc)
  /\ UNCHANGED opt
Continue ==
  /\ loop.pc = "cont"
  /\ loop' = [loop EXCEPT !.pc = "top", !.t = @ + 1]
  /\ UNCHANGED <<mpc, opt>>

LNext == TrainModel \/ SkipTraining \/ ActRandom \/ (\E mask \in Masks : ActPlanned(mask))
         \/ (\E o \in {"cont", "term", "trunc"} : EnvStep(o)) \/ EpisodeEnd \/ Continue

(* steps whose loop top has been passed *)
Passed(u) == u < loop.t \/ (u = loop.t /\ loop.pc # "top")
(* trainings happen at exactly the due steps, once each, in order *)
TrainingsExactlyAtDueSteps ==
  /\ {loop.trains[i].t : i \in 1..Len(loop.trains)} = {u \in 0..(Total - 1) : TrainDueP(u, LearningStarts, StepsPerIter) /\ Passed(u)}
  /\ \A i \in 1..(Len(loop.trains) - 1) : loop.trains[i].t < loop.trains[i + 1].t
(* the hand-over from learning_starts_gradient_steps to gradient_steps happens once, after the first training *)
EpochsHandOverOnce == \A i \in 1..Len(loop.trains) : loop.trains[i].epochs = EpochsP(i, LSGradSteps, GradSteps)
(* the batch is as large as the buffer: everything stored so far, at most the capacity *)
TrainsOnWholeBuffer == \A i \in 1..Len(loop.trains) : loop.trains[i].batch = MinI(loop.trains[i].t, Cap)
TrainKeysDistinct == \A i, j \in 1..Len(loop.trains) : i # j => loop.trains[i].key # loop.trains[j].key
(* WHAT THE CODE DOES (SameRootForTrainingAndPlanning): train_pets starts both the training key chain (`key`) and the
   planner key chain (`mpc_state.key`) from jax.random.key(seed), so the i-th model training and the i-th planner call
   consume the same key.  The invariant below would hold for distinct roots; it is refuted for the code (reported, not enforced). *)
PlannerAndTrainingKeysDisjoint == {loop.trains[i].key : i \in 1..Len(loop.trains)} \cap mpc.consumed = {}
(* random actions exactly before learning_starts, the planner from then on; one planner call per planned step *)
RandomExactlyBeforeLearningStarts ==
  /\ \A u \in 1..Len(loop.acts) : loop.acts[u] = IF ActsRandomlyP(u - 1, LearningStarts) THEN "random" ELSE "planned"
  /\ mpc.calls = Cardinality({u \in 1..Len(loop.acts) : loop.acts[u] = "planned"})
(* the model the planner uses has been trained before the first planned action *)
TrainedBeforeFirstPlan == mpc.calls > 0 => Len(loop.trains) > 0 /\ loop.trains[1].t = LearningStarts
(* the episode lengths reported to the logger partition the executed steps *)
LoggerEpisodesPartitionSteps == /\ loop.stopCount = loop.episodes
                                /\ loop.stopSum + loop.epLen = loop.executed
LTypeOK == /\ loop.t \in 0..Total /\ loop.epLen \in 0..MaxEpLen /\ loop.nEpochs \in {LSGradSteps, GradSteps}
           /\ loop.executed = Len(loop.acts) - (IF loop.pc = "env" THEN 1 ELSE 0)

----------------------------------------------------------------------------
(* Level 0: what train_pets puts into PETSMPCConfig / PETSMPCState before the loop (functional, exact rationals in quarters) *)
SInit == mpc = 0 /\ opt = 0 /\ loop = 0
Setup(b) ==
  /\ loop = 0
  /\ loop' = 1
  /\ LET lo == Q((b \div 64) - 16, 4)
         hi == Q((b % 64) - 16, 4) IN
       Emit("Setup", [lo |-> lo, hi |-> hi, h |-> H], [avg_act |-> AvgActQ(lo, hi), init_var |-> InitVarQ(lo, hi), rows |-> H], 0, 0)
  /\ UNCHANGED <<mpc, opt>>
SNext == \E b \in Bounds : Setup(b)
=============================================================================
