--------------------------- MODULE NumericsBins ---------------------------
(* C18 - make_two_hot_bins(lower_exponent, upper_exponent, n_bin_edges)        *)
(* (preprocessing.py:6-38), code -> spec, device D4.                           *)
(*                                                                            *)
(* The bin VALUES (symexp of a linspace) are transcendental and not decided.  *)
(* What two_hot_encoding relies on are order predicates; they are checked     *)
(* here on the order-preserving integer image (float32 ordinals) of the bins  *)
(* the real function returned.  The harness records one case per parameter    *)
(* triple:  [lo, hi, n, ords]  with lo, hi the (integer) exponents, n the      *)
(* requested count and ords the ordinals of the returned array.               *)
EXTENDS Integers, Sequences, TLC, Json, IOUtils

Cases == JsonDeserialize(IOEnv.C18_BINS_FILE)

VARIABLE i          \* index of the case being examined (0: none yet)
Init == i = 0
Next == i < Len(Cases) /\ i' = i + 1

RECURSIVE IsPow2(_)
IsPow2(n) == n = 1 \/ (n > 1 /\ n % 2 = 0 /\ IsPow2(n \div 2))

C == Cases[i]
Symmetric == C.lo + C.hi = 0          \* lower_exponent = - upper_exponent
(* linspace with a dyadic step is exact in float32 (small integer exponents) *)
ExactSteps == C.n >= 2 /\ IsPow2(C.n - 1)

(* requested count *)
BinsCount == i > 0 => Len(C.ords) = C.n
(* strictly increasing: a value strictly between two adjacent edges exists *)
BinsStrictlyIncreasing == i > 0 => \A k \in 1..(Len(C.ords) - 1) : C.ords[k] < C.ords[k + 1]
(* the two extremes are symexp(lower), symexp(upper): mirror images *)
BinsEndpointsSymmetric == (i > 0 /\ Symmetric /\ C.n >= 2) => C.ords[1] = -C.ords[Len(C.ords)]
(* sign structure of symexp: negative exponents give negative edges *)
BinsSigns == (i > 0 /\ C.n >= 2) => /\ (C.lo < 0 => C.ords[1] < 0) /\ (C.lo > 0 => C.ords[1] > 0)
                                   /\ (C.hi > 0 => C.ords[Len(C.ords)] > 0)
(* where the linspace is exact: every edge mirrors its counterpart, the middle edge is 0 *)
BinsSymmetricWhenExact == (i > 0 /\ Symmetric /\ ExactSteps) =>
                            \A k \in 1..Len(C.ords) : C.ords[k] = -C.ords[Len(C.ords) + 1 - k]
=============================================================================
