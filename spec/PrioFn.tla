--------------------------- MODULE PrioFn ---------------------------
(* C08, order clauses decided on float32/float64 ORDINALS (device D4):        *)
(* priorities derived from TD errors are positive and non-decreasing in the   *)
(* absolute error; importance weights lie in (0,1], have maximum 1 and are     *)
(* non-increasing in priority.  The tables are recorded from the real          *)
(* functions (lap_priority, per_priority, compute_importance_ratio) on grids   *)
(* sorted by input; TLC evaluates the predicates on every table.  Where the    *)
(* function is exactly rational (alpha = 1 on dyadic inputs) the value is      *)
(* recomputed exactly.                                                         *)
EXTENDS Integers, Sequences, TLC, Json, IOUtils, Exact

Tables == JsonDeserialize(IOEnv.TRACE_FILE)
VARIABLE i
Init == i = 1
Next == i < Len(Tables) /\ i' = i + 1
T == Tables[i]

(* kind "prio": x sorted ascending (as ordinals xo), outputs yo, zero = ordinal of 0.0 *)
PrioPositive == T.kind = "prio" => \A k \in 1..Len(T.yo) : T.yo[k] > T.zero
PrioMonotone == T.kind = "prio" => \A k \in 1..(Len(T.yo) - 1) : T.xo[k] <= T.xo[k + 1] /\ T.yo[k] <= T.yo[k + 1]
(* alpha = 1: lap = max(x, pmin), per = x + eps, exactly *)
PrioExact == (T.kind = "prio" /\ T.exact) =>
   \A k \in 1..Len(T.x) :
      LET want == IF T.fn = "lap" THEN QMax(T.x[k], T.p) ELSE QAdd(T.x[k], T.p)
      IN QEq(<<T.y[k][1], T.y[k][2]>>, want)

(* kind "weights": batch priorities p (naturals, in units of 1/T.unit of the initial maximum priority: unit 8 = *)
(* every stored priority at or below 1.0), weight ordinals wo, ordinals of 0 and 1                              *)
WeightsRange == T.kind = "weights" => \A k \in 1..Len(T.wo) : T.wo[k] > T.zero /\ T.wo[k] <= T.one
WeightsMaxOne == T.kind = "weights" => \E k \in 1..Len(T.wo) : T.wo[k] = T.one
WeightsAntitone == T.kind = "weights" =>
   \A a, b \in 1..Len(T.wo) : T.p[a] <= T.p[b] => T.wo[b] <= T.wo[a]
AllSeen == TRUE
=============================================================================
