--------------------------- MODULE ReturnsOps ---------------------------
(* C07 - the recurrences of one trajectory as pure operators over exact       *)
(* rationals (spec/Exact.tla): reward to go, n-step return with its residual  *)
(* discount, generalised advantage estimation, their independently written    *)
(* closed forms and the symbolic form in G = gamma, C = gamma*lambda.         *)
(* Shared by Returns.tla (staged vectors per operation), ReturnsRollout.tla   *)
(* (PPO rollouts of a vector environment) and ReturnsDataset.tla (the         *)
(* EpisodeDataset object as a state machine).  No constants, no variables.    *)
EXTENDS Exact

RECURSIVE Pow(_, _)
Pow(q, k) == IF k = 0 THEN One ELSE QMul(q, Pow(q, k - 1))
Not(d) == I(1 - d)                       \* 1 - terminated, d \in {0,1}
HasTerm(d, t)   == \E j \in t..Len(d) : d[j] = 1
(* first terminated step at or after t, else the last step *)
FirstTerm(d, t) == IF HasTerm(d, t)
                   THEN CHOOSE j \in t..Len(d) : d[j] = 1 /\ \A i \in t..(j - 1) : d[i] = 0
                   ELSE Len(d)

(* reward to go: G_t = r_t + gamma * G_{t+1} *)
RECURSIVE RTGAt(_, _, _)
RTGAt(r, g, t) == IF t > Len(r) THEN Zero ELSE QAdd(r[t], QMul(g, RTGAt(r, g, t + 1)))
RTG(r, g) == [t \in 1..Len(r) |-> RTGAt(r, g, t)]
RTGClosed(r, g, t) == QSum([j \in 1..(Len(r) - t + 1) |-> QMul(Pow(g, j - 1), r[t + j - 1])])

(* n-step return of a window and its residual discount:                     *)
(*   R_t = r_t + gamma (1-d_t) R_{t+1},  c_t = gamma (1-d_t) c_{t+1}, c_{H+1} = 1 *)
RECURSIVE NStepRet(_, _, _, _)
NStepRet(r, d, g, t) == IF t > Len(r) THEN Zero
                        ELSE QAdd(r[t], QMul(QMul(g, Not(d[t])), NStepRet(r, d, g, t + 1)))
RECURSIVE NStepDisc(_, _, _)
NStepDisc(d, g, t) == IF t > Len(d) THEN One ELSE QMul(QMul(g, Not(d[t])), NStepDisc(d, g, t + 1))
NStepRetClosed(r, d, g) == QSum([j \in 1..FirstTerm(d, 1) |-> QMul(Pow(g, j - 1), r[j])])
NStepDiscClosed(d, g)   == IF HasTerm(d, 1) THEN Zero ELSE Pow(g, Len(d))

(* generalised advantage estimation:                                        *)
(*   delta_t = r_t + gamma nv_t (1-d_t) - v_t                               *)
(*   A_t = delta_t + gamma lambda (1-d_t) A_{t+1},  A_{T+1} = 0; ret = A + v *)
Delta(r, v, nv, d, g, t) == QSub(QAdd(r[t], QMul(QMul(g, nv[t]), Not(d[t]))), v[t])
RECURSIVE AdvAt(_, _, _, _, _, _, _)
AdvAt(r, v, nv, d, g, l, t) ==
  IF t > Len(r) THEN Zero
  ELSE QAdd(Delta(r, v, nv, d, g, t), QMul(QMul(QMul(g, l), Not(d[t])), AdvAt(r, v, nv, d, g, l, t + 1)))
GAEAt(r, v, nv, d, g, l, t) == LET a == AdvAt(r, v, nv, d, g, l, t) IN [adv |-> a, ret |-> QAdd(a, v[t])]
GAE(r, v, nv, d, g, l) == [t \in 1..Len(r) |-> GAEAt(r, v, nv, d, g, l, t)]
(* closed form, written independently: discounted sum of TD residuals up to the first termination *)
AdvClosed(r, v, nv, d, g, l, t) ==
  QSum([j \in 1..(FirstTerm(d, t) - t + 1) |-> QMul(Pow(QMul(g, l), j - 1), Delta(r, v, nv, d, g, t + j - 1))])
(* the same closed form kept symbolic in G = gamma and C = gamma*lambda (device D3):        *)
(*   A_t = SUM_j C^(j-1) (a_j + G b_j);   used where the routine fixes non-dyadic G, C      *)
AdvForm(r, v, nv, d, t) ==
  [j \in 1..(FirstTerm(d, t) - t + 1) |->
     [a |-> QSub(r[t + j - 1], v[t + j - 1]), b |-> QMul(nv[t + j - 1], Not(d[t + j - 1]))]]
EvalForm(f, G, C) == QSum([j \in 1..Len(f) |-> QMul(Pow(C, j - 1), QAdd(f[j].a, QMul(G, f[j].b)))])

(* deviation: the accumulated advantage is not cut at a terminated step *)
RECURSIVE AdvNoCut(_, _, _, _, _, _, _)
AdvNoCut(r, v, nv, d, g, l, t) ==
  IF t > Len(r) THEN Zero
  ELSE QAdd(Delta(r, v, nv, d, g, t), QMul(QMul(g, l), AdvNoCut(r, v, nv, d, g, l, t + 1)))
=============================================================================
