------------------------- MODULE EnsemblePlan -------------------------
(* Planning with the ensemble (rl_blox.algorithm.pets):                       *)
(*   TsInf   ts_inf(): trajectory sampling TS-inf - particle p of every plan  *)
(*           is propagated through ONE member model_idx[p] for the whole      *)
(*           horizon:  obs[t+1] = obs[t] + delta,  delta ~ Normal(mean,       *)
(*           diag var) of that member at hstack(obs[t], act[t]).              *)
(*   Eval    evaluate_plans(): per plan the particle average of the rewards   *)
(*           summed over the horizon; the observation after the last action   *)
(*           is not rewarded.                                                 *)
(* Two staged test-vector machines share the variables (NextEval / NextProp). *)
(* Eval is exact (D2) with a TABLE reward over tagged actions/observations    *)
(* (D1).  TsInf is specified through its noise-free mean trajectory (exact    *)
(* rationals; the members are linear maps with dyadic coefficients) and the   *)
(* SYMBOL of the noise scale of every output (as in Ensemble.tla).            *)
EXTENDS Integers, Sequences, FiniteSets, TLC, Json, Exact

CONSTANTS EMIT,
          Dev,      \* "none" | "sum_all_obs" | "mean_over_time" | "collapsed_particle_axis" | "stale_obs" | "one_member"
          Dims,     \* Eval: set of <<S, P, H>> coded as decimal digits SPH;  Prop: <<S, P, H, O>> coded SPHO (two members) or ESPHO (E members, E >= 1)
          NPat,
          RKinds,   \* Eval: reward kinds explored, subset of {"both", "act", "obs"}
          TrajPats  \* Eval: 0 = every trajectory tag assignment;  > 0 = that many patterned assignments (large shapes)

VARIABLES stage, dims, acts, traj, par,
          rk        \* Eval: kind of the reward model ("" outside Eval)
vars == <<stage, dims, acts, traj, par, rk>>

(* ------------------------------------------------------------------ Eval --- *)
ActIds == 0..1
ObsIds == 0..1
(* Reward models are TABLES over tags.  Three kinds, because a reward model is an arbitrary     *)
(* callable and evaluate_plans must not rely on its result having been broadcast by BOTH       *)
(* arguments:  "both" depends on action and observation (not additive, not symmetric),         *)
(* "act" on the action only (a pure control cost: its value carries the shape of the ACTION    *)
(* argument alone), "obs" on the observation only.                                             *)
RTab == << << Q(-3, 4), Q(1, 2) >>, << Q(1, 4), I(-2) >> >>
RAct == << Q(-1, 4), Q(-3, 2) >>
RObs == << Q(1, 2), I(-3) >>
Reward(a, o) == IF rk = "act" THEN RAct[a + 1] ELSE IF rk = "obs" THEN RObs[o + 1] ELSE RTab[a + 1][o + 1]

S == dims[1]
P == dims[2]
H == dims[3]

Return(as, tr) ==           \* one plan, one particle
  IF Dev = "sum_all_obs"
  THEN QSum([t \in 1..(H + 1) |-> Reward(as[IF t > H THEN H ELSE t], tr[t])])
  ELSE IF Dev = "mean_over_time"
  THEN QMean([t \in 1..H |-> Reward(as[t], tr[t])])
  ELSE QSum([t \in 1..H |-> Reward(as[t], tr[t])])
(* per plan: the particle AVERAGE of the per-particle returns - also when the reward ignores the *)
(* observation and all per-particle returns of a plan are identical.                           *)
(* deviation "collapsed_particle_axis": an action-only reward evaluated on actions that carry   *)
(* a particle axis of size 1 yields ONE return per plan, which is then divided by P             *)
Eval(A, T) ==
  [s \in 1..Len(A) |->
     IF Dev = "collapsed_particle_axis" /\ rk = "act"
     THEN QDiv(Return(A[s], T[s][1]), I(Len(T[s])))
     ELSE QMean([p \in 1..Len(T[s]) |-> Return(A[s], T[s][p])])]

Init == stage = 0 /\ dims = << >> /\ acts = << >> /\ traj = << >> /\ par = << >> /\ rk = ""

ChooseDims == /\ stage = 0 /\ \E c \in Dims : dims' = << c \div 100, (c \div 10) % 10, c % 10 >>
              /\ rk' \in RKinds
              /\ stage' = 1 /\ UNCHANGED <<acts, traj, par>>
ChooseActs == /\ stage = 1 /\ acts' \in [1..S -> [1..H -> ActIds]]
              /\ stage' = 2 /\ UNCHANGED <<dims, traj, par, rk>>
(* the trajectories of one more plan: every tag assignment ... *)
ChooseTraj == /\ stage = 2 /\ TrajPats = 0 /\ Len(traj) < S
              /\ \E tr \in [1..P -> [1..(H + 1) -> ObsIds]] : traj' = Append(traj, tr)
              /\ UNCHANGED <<stage, dims, acts, par, rk>>
(* ... or, for shapes too large for that, patterned assignments of all plans at once *)
ChooseTrajPattern ==
  /\ stage = 2 /\ TrajPats > 0 /\ traj = << >>
  /\ \E q \in 1..TrajPats :
       traj' = [s \in 1..S |-> [p \in 1..P |-> [t \in 1..(H + 1) |-> ((s * q + p * (q + 1) + t + (p * t) \div 2) % 2)]]]
  /\ UNCHANGED <<stage, dims, acts, par, rk>>
Evaluate == /\ stage = 2 /\ Len(traj) = S
            /\ stage' = 3 /\ UNCHANGED <<dims, acts, traj, par, rk>>
            /\ EMIT => PrintT(<<"EMIT", ToJson([dims |-> dims, rkind |-> rk, acts |-> acts, traj |-> traj,
                                              rtab |-> RTab, ract |-> RAct, robs |-> RObs, exp |-> Eval(acts, traj)])>>)
NextEval == ChooseDims \/ ChooseActs \/ ChooseTraj \/ ChooseTrajPattern \/ Evaluate

DoneEval == stage = 3
(* the observation reached after the last action is not rewarded *)
LastObsIgnored ==
  DoneEval => \A s \in 1..S, p \in 1..P, o \in ObsIds :
                Eval(acts, [traj EXCEPT ![s][p][H + 1] = o]) = Eval(acts, traj)
(* a plan's value depends on its own actions and particles only *)
PlanLocal ==
  DoneEval => \A s \in 1..S, s2 \in 1..S : s # s2 =>
                \A a \in ActIds : Eval([acts EXCEPT ![s2][1] = a], traj)[s] = Eval(acts, traj)[s]
(* particles are exchangeable *)
ParticlesExchangeable ==
  DoneEval /\ P >= 2 => \A s \in 1..S :
      Eval(acts, [traj EXCEPT ![s] = [p \in 1..P |-> traj[s][P + 1 - p]]]) = Eval(acts, traj)
(* with a single particle the value is the plain sum of the table entries along the horizon *)
UnitCase == DoneEval /\ P = 1 => \A s \in 1..S :
              Eval(acts, traj)[s] = QSum([t \in 1..H |-> Reward(acts[s][t], traj[s][1][t])])

(* with a reward that ignores the observation every particle of a plan earns the same return, and the *)
(* plan's value is that return (the average of P identical numbers) - whatever the trajectories are   *)
ActionOnlyIsPlainSum ==
  DoneEval /\ rk = "act" => \A s \in 1..S : Eval(acts, traj)[s] = QSum([t \in 1..H |-> RAct[acts[s][t] + 1]])
(* with a reward that ignores the action all plans with the same particles have the same value *)
ObservationOnlyIgnoresActions ==
  DoneEval /\ rk = "obs" => \A s \in 1..S, a \in ActIds : Eval([acts EXCEPT ![s][1] = a], traj) = Eval(acts, traj)

(* ----------------------------------------------------------------- TsInf --- *)
O  == dims[4]
E  == IF Len(dims) >= 5 THEN dims[5] ELSE 2      \* members (two unless the code names their number; one member: every particle uses it)
Lat == << Zero, One, I(-1), Q(1, 2), Q(-1, 2), I(2), Q(1, 4), Q(3, 2) >>
Pick(h) == Lat[(h % Len(Lat)) + 1]
WLat == << Zero, Q(1, 2), Q(-1, 2), One >>
PickW(h) == WLat[(h % Len(WLat)) + 1]
ActVals == << One, Q(-1, 2), I(2) >>
(* member i predicts delta[k] = b[i][k] + SUM_f Wo[i][f][k] obs[f] + Wa[i][k] act   (one action feature) *)
PParams(p) ==
  [ p  |-> p,
    b  |-> [i \in 1..E |-> [k \in 1..O |-> Pick(i * 3 + k * 5 + p)]],
    Wo |-> [i \in 1..E |-> [f \in 1..O |-> [k \in 1..O |-> PickW(i + f * 3 + k + p * 2)]]],
    Wa |-> [i \in 1..E |-> [k \in 1..O |-> Pick(i * 5 + k * 2 + p * 3 + 1)]],
    (* raw log-variance of every output: all saturating low for the mean-trajectory vectors *)
    lb |-> [i \in 1..E |-> [k \in 1..O |-> -10000]],
    obs0 |-> [k \in 1..O |-> Pick(k * 3 + p * 5 + 2)] ]

MeanDelta(Pm, i, obs, act) ==
  [k \in 1..O |-> QAdd(QAdd(Pm.b[i][k], QSum([f \in 1..O |-> QMul(Pm.Wo[i][f][k], obs[f])])), QMul(Pm.Wa[i][k], act))]
VAdd(x, y) == [k \in 1..Len(x) |-> QAdd(x[k], y[k])]

(* mean trajectory of one particle through member i (1-based) under plan as *)
RECURSIVE Roll(_, _, _, _)
Roll(Pm, i, as, t) ==           \* observations 1..t+1
  IF t = 0 THEN << Pm.obs0 >>
  ELSE LET prev == Roll(Pm, i, as, t - 1)
           cur  == IF Dev = "stale_obs" THEN Pm.obs0 ELSE prev[t]
       IN Append(prev, VAdd(prev[t], MeanDelta(Pm, i, cur, as[t])))
TsInf(Pm, midx, A) ==
  [s \in 1..Len(A) |-> [p \in 1..Len(midx) |->
     Roll(Pm, IF Dev = "one_member" THEN 1 ELSE midx[p] + 1, A[s], Len(A[s]))]]

ChooseDimsP == /\ stage = 0 /\ \E c \in Dims : dims' = << (c \div 1000) % 10, (c \div 100) % 10, (c \div 10) % 10, c % 10,
                                                          IF c >= 10000 THEN c \div 10000 ELSE 2 >>
               /\ stage' = 1 /\ UNCHANGED <<acts, traj, par, rk>>
ChooseParamsP == /\ stage = 1 /\ \E p \in 1..NPat : par' = PParams(p)
                 /\ stage' = 2 /\ UNCHANGED <<dims, acts, traj, rk>>
(* plans (action values by index into ActVals) and the member of every particle *)
ChoosePlanP == /\ stage = 2
               /\ \E ap \in 1..NPat : acts' = [s \in 1..S |-> [t \in 1..H |-> ActVals[((s * 2 + t + ap) % Len(ActVals)) + 1]]]
               /\ \E m \in [1..P -> 0..(E - 1)] : traj' = m        \* traj holds model_idx until propagated
               /\ stage' = 3 /\ UNCHANGED <<dims, par, rk>>
Propagate == /\ stage = 3
             /\ stage' = 4 /\ UNCHANGED <<dims, acts, traj, par, rk>>
             /\ EMIT => PrintT(<<"EMIT", ToJson([dims |-> dims, par |-> par, acts |-> acts, model_idx |-> traj,
                                               exp |-> TsInf(par, traj, acts)])>>)

(* noise vectors: one TS-inf step; the change of output k through member i is Normal with     *)
(* standard deviation exp(1/2 SoftClamp_k(raw[i][k])) - output k's OWN raw log-variance.       *)
(* raw values alternate between the saturating ends, so that the scale is a named constant:   *)
(* class "lo" -> exp(Lo_k / 2), class "softhi" -> exp(SoftHi_k / 2).                            *)
NoiseRaw(q, o) == [i \in 1..2 |-> [k \in 1..o |-> IF (i + k + q) % 2 = 0 THEN -10000 ELSE 10000]]
NoiseClass(raw) == IF raw = -10000 THEN "lo" ELSE "softhi"
ChooseNoise == /\ stage = 0
               /\ \E o \in 1..3, q \in 0..1 :
                    /\ par' = [nout |-> o, lb |-> NoiseRaw(q, o),
                               cls |-> [i \in 1..2 |-> [k \in 1..o |-> NoiseClass(NoiseRaw(q, o)[i][k])]]]
                    /\ EMIT => PrintT(<<"EMIT", ToJson([noise |-> par'])>>)
               /\ stage' = 5 /\ UNCHANGED <<dims, acts, traj, rk>>

NextProp == ChooseDimsP \/ ChooseParamsP \/ ChoosePlanP \/ Propagate \/ ChooseNoise

DoneProp == stage = 4
(* a particle never changes its member, and particles with the same member and plan share the mean trajectory *)
ParticleKeepsMember ==
  DoneProp => LET T == TsInf(par, traj, acts) IN
    \A s \in 1..S, p \in 1..P, q \in 1..P : traj[p] = traj[q] => T[s][p] = T[s][q]
(* every step starts from the previous observation and adds that member's predicted change *)
StepIsDelta ==
  DoneProp => LET T == TsInf(par, traj, acts) IN
    \A s \in 1..S, p \in 1..P :
      /\ T[s][p][1] = par.obs0 /\ Len(T[s][p]) = H + 1
      /\ \A t \in 1..H : T[s][p][t + 1] = VAdd(T[s][p][t], MeanDelta(par, traj[p] + 1, T[s][p][t], acts[s][t]))
(* vacuity guard: the two members do predict different changes *)
MembersDifferP == DoneProp /\ E >= 2 => MeanDelta(par, 1, par.obs0, One) # MeanDelta(par, 2, par.obs0, One)
=============================================================================
