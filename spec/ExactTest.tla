---- MODULE ExactTest ----
EXTENDS Exact, TLC
ASSUME QAdd(Q(1,2), Q(1,3)) = <<5,6>>
ASSUME QMul(Q(-1,2), Q(2,3)) = <<-1,3>>
ASSUME QDiv(I(3), Q(-3,4)) = <<-4,1>>
ASSUME QMean(<<I(1), I(2), Q(1,2)>>) = <<7,6>>
ASSUME ArgMaxSet(<<I(1), I(3), I(3)>>) = {2,3} /\ ArgMaxFirst(<<I(1), I(3), I(3)>>) = 2
ASSUME QClip(I(5), I(-1), Q(3,2)) = <<3,2>>
VARIABLE x
Init == x = 0
Next == UNCHANGED x
====
