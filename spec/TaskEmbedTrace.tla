------------------------- MODULE TaskEmbedTrace -------------------------
(* X04, code -> spec: the task switch of train_smt / train_active_mt /        *)
(* train_uts as recorded from the REAL schedulers.  A stub learner takes the  *)
(* place of train_st; at every call it records                                *)
(*   task      the task the environment it was handed is configured for       *)
(*   ids       task id held by the real MultiTaskReplayBuffer ("buffer"), by   *)
(*             the encoder of create_mt_mrq_state(...).policy_with_encoder     *)
(*             ("encoder") and by the encoder of its nnx.clone ("target")      *)
(*   used      the embedding row the forward pass of encoder / target really  *)
(*             used (found by comparing bit patterns with the forward pass    *)
(*             recomputed for every row)                                      *)
(* The file named by TRACE_FILE holds {"traces": [{id, cfg, init, events}]}.   *)
(* Every event must be a Switch step of TaskEmbed (part "switch"): the model   *)
(* follows its own successor state and prints one verdict per event.          *)
EXTENDS TaskEmbed, IOUtils

Traces == JsonDeserialize(IOEnv.TRACE_FILE).traces

VARIABLES tr,   \* index of the trace
          i     \* index of its next event
tvars == <<vars, tr, i>>

Out(rec) == PrintT(<<"EMIT", ToJson(rec)>>)
All(rec) == \A f \in DOMAIN rec : rec[f]
Ev == Traces[tr].events[i]
Cfg == Traces[tr].cfg

TraceInit ==
  /\ tr \in 1..Len(Traces) /\ i = 1
  /\ InitOther
  /\ ids = [c \in SwComps |-> Traces[tr].init[c]]
  /\ sw = [sched |-> Cfg.sched, listed |-> {c \in Listable : Cfg.listed[c]}, env |-> -1, n |-> 0]

Step ==
  /\ i <= Len(Traces[tr].events)
  /\ Switch(Ev.task)
  /\ i' = i + 1 /\ tr' = tr
  /\ LET e  == Ev
         cl == [agree  |-> \A c \in Informed(sw) : e.ids[c] = e.task,                  \* AllAgree
                keeps  |-> \A c \in SwComps \ Informed(sw) : e.ids[c] = ids[c],         \* UnlistedKeeps / UtsInformsNobody
                model  |-> \A c \in SwComps : e.ids[c] = ids'[c],
                used   |-> \A c \in Listable : e.used[c] = EffRow(e.ids[c])]            \* the forward pass reads the row of the component's own id
     IN Out([tr |-> tr, i |-> i, ok |-> All(cl), cl |-> cl, exp |-> ids'])

TraceNext == Step
TraceSpec == TraceInit /\ [][TraceNext]_tvars
=============================================================================
