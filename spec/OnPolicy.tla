--------------------------- MODULE OnPolicy ---------------------------
(* X03 - iteration structure of the on-policy learners of rl_blox             *)
(*   algorithm/ppo.py        collect_trajectories, update_ppo, train_ppo      *)
(*   algorithm/a2c.py        collect_trajectories, prepare_a2c_batch,         *)
(*                           train_policy_a2c, train_a2c                      *)
(*   algorithm/reinforce.py  EpisodeDataset, sample_trajectories,             *)
(*                           train_policy_reinforce, train_value_function,    *)
(*                           train_reinforce                                  *)
(*   algorithm/actor_critic.py  train_ac                                      *)
(*                                                                            *)
(* One iteration of every routine is                                          *)
(*   BeginCollect .. Collect      one collection call with the CURRENT nets   *)
(*   (Epoch (Minibatch (PolicyStep | ValueStep)+ )+ )+   per update phase     *)
(*   EndIteration                 the data set is discarded                   *)
(* and the routines differ only in the configuration record `cfg`:            *)
(*                                                                            *)
(*   ppo   layout envmajor : batch_size vector steps of num_envs environments *)
(*         give batch_size*num_envs rows, "the rollouts of the environments   *)
(*         one after the other"; ONE phase "ppo" of `epochs` epochs; every    *)
(*         epoch evaluates ppo_loss once and steps BOTH optimisers with the   *)
(*         gradients of that one evaluation; `iterations` iterations.         *)
(*         As the code is (named FullBatch): update_ppo has no minibatches    *)
(*         and no shuffling - mb = 0, shuffle = FALSE: every epoch is one     *)
(*         optimiser step per network on ALL rows in collection order.  The   *)
(*         general scheme (permutation cut into minibatches of size mb, last  *)
(*         one short: RemainderShort) is kept in the model and model-checked, *)
(*         so that the clauses do not depend on the batch being whole.        *)
(*   a2c   layout timemajor: steps_per_update vector steps ("Total samples    *)
(*         collected will be steps_per_update * num_envs"), flattened         *)
(*         "(Time * Num_Envs, Features)"; phase "policy" with                 *)
(*         policy_gradient_steps full-batch steps, THEN phase "value" with    *)
(*         value_gradient_steps full-batch steps; repeated while the          *)
(*         routine's own step count is below total_timesteps.                 *)
(*   pg    (REINFORCE, actor-critic) layout episodes: sample_trajectories     *)
(*         builds a fresh EpisodeDataset - "Collect a minimum of total_steps, *)
(*         but continues to the end of the episode" or exactly one episode    *)
(*         (train_after_episode) -; phase "policy" (policy_gradient_steps),   *)
(*         then phase "value" (value_gradient_steps; absent without a value   *)
(*         function); step += len(dataset) while step < total_timesteps.      *)
(*                                                                            *)
(* The same module holds the EpisodeDataset state machine (StartEpisode,      *)
(* AddSample and the queries); sample_trajectories is StartEpisode /          *)
(* AddSample under the loop's guards.  Rows and samples are identifiers       *)
(* (device D1): <<iteration, k>> in the design model, observation tags in     *)
(* validated traces (OnPolicyTrace re-uses every action below).               *)
EXTENDS Integers, Sequences, FiniteSets, TLC, Json

X == INSTANCE Exact

CONSTANTS EMIT,        \* TRUE: print one EMIT record per transition of the data-set machine
          Algos,       \* subset of {"ppo", "a2c", "pg"}: families explored by the design model
          NEnvsS, NStepsS,   \* numbers of environments / vector steps per collection
          EpochsS,     \* epochs (ppo) resp. gradient steps per phase (a2c, pg)
          MBs,         \* minibatch sizes; 0 = the whole batch (FullBatch, what update_ppo does)
          Shuffles,    \* subset of BOOLEAN
          Iterations,  \* ppo: number of iterations
          Budget,      \* a2c / pg: total_timesteps
          MinSamples,  \* pg: steps_per_update
          EpLens,      \* pg: episode lengths the environment may produce
          MaxSamples, MaxEpisodes,  \* bounds of the data-set machine
          Starts       \* action_space.start values for prepare_policy_gradient_dataset (99 = Box space)

VARIABLES cfg,       \* configuration record (never changes)
          pc,        \* "collect" | "sampling" | "epoch" | "minibatch" | "step" | "end"
          iter,      \* iterations completed
          counted,   \* the routine's own step count (sum of the sizes of all collections)
          startedAt, \* `counted` when the latest collection started
          rows,      \* the data set of this iteration: sequence of row identifiers (flattened)
          episodes,  \* EpisodeDataset.episodes: sequence of sequences of samples
          cnt,       \* data-set machine: samples added so far
          epOpen,    \* pg: the current episode has not ended yet
          ph, ep,    \* update phase (1-based) and epochs completed in it
          pos,       \* rows consumed in the current epoch
          used,      \* [row index -> times used in the current epoch]
          batch,     \* indices of the current minibatch
          due,       \* optimisers still to be stepped with the gradients of the current minibatch
          pver, vver,\* parameter versions = optimiser steps applied to policy / value function
          cver,      \* <<pver, vver>> the latest collection acted with
          gat,       \* <<pver, vver>> at which the current minibatch's loss was evaluated
          psteps, vsteps  \* optimiser steps of this iteration

dsVars == <<episodes, cnt>>
itVars == <<cfg, pc, iter, counted, startedAt, rows, epOpen, ph, ep, pos, used, batch, due, pver, vver, cver, gat, psteps, vsteps>>
vars == <<dsVars, itVars>>

Min(a, b) == IF a < b THEN a ELSE b
SetOf(s) == {s[i] : i \in 1..Len(s)}
RECURSIVE Flatten(_)
Flatten(eps) == IF Len(eps) = 0 THEN <<>> ELSE Flatten(SubSeq(eps, 1, Len(eps) - 1)) \o eps[Len(eps)]
DsLen(eps) == Len(Flatten(eps))

----------------------------------------------------------------------------
(* EpisodeDataset: one action per public call                                 *)
DsView == [episodes |-> episodes, cnt |-> cnt]
Emit(op, args, exp) ==
  EMIT => PrintT(<<"EMIT", ToJson([pre |-> DsView, op |-> op, args |-> args, exp |-> exp, post |-> [episodes |-> episodes', cnt |-> cnt']])>>)

(* start_episode: a new, empty episode becomes the last one *)
StartEpisode == episodes' = Append(episodes, <<>>)
(* add_sample: appended to the LAST episode only; `assert len(self.episodes) > 0` *)
AddSample(s) == /\ Len(episodes) > 0
                /\ episodes' = [episodes EXCEPT ![Len(episodes)] = Append(@, s)]

(* content of the sample with identifier k (the binding encodes / decodes the same way):
   observation [k, 1], next observation [k, 2], stored action 2 + k % 3, reward 2^(k-1) *)
Pow2(k) == IF k <= 0 THEN 1 ELSE 2 ^ k
Rew(k) == Pow2(k - 1)
StoredAct(k) == 2 + (k % 3)

(* _indices: the step index restarts at 0 in every episode *)
Indices(eps) == Flatten([e \in 1..Len(eps) |-> [t \in 1..Len(eps[e]) |-> t - 1]])
(* average_return: mean over ALL episodes (an empty one counts) of the undiscounted reward sum *)
RECURSIVE SumRew(_)
SumRew(s) == IF Len(s) = 0 THEN 0 ELSE Rew(s[Len(s)]) + SumRew(SubSeq(s, 1, Len(s) - 1))
AverageReturn(eps) == <<SumRew(Flatten(eps)), Len(eps)>>      \* numerator, denominator
(* discounted reward-to-go of step t of episode e (exact rational), gamma = <<n, d>> *)
RECURSIVE RTG(_, _, _)
RTG(e, t, g) == IF t > Len(e) THEN X!Zero ELSE X!QAdd(X!I(Rew(e[t])), X!QMul(g, RTG(e, t + 1, g)))
RECURSIVE QPow(_, _)
QPow(g, k) == IF k = 0 THEN X!One ELSE X!QMul(g, QPow(g, k - 1))
(* prepare_policy_gradient_dataset(action_space, gamma): the flattened arrays line up - row i of
   observations / actions / next observations / returns / gamma_discount belongs to the same sample;
   Discrete action spaces: the stored action minus action_space.start (start = BoxSpace stands for a Box) *)
BoxSpace == 99
Prepared(eps, g, start) ==
  Flatten([e \in 1..Len(eps) |->
             [t \in 1..Len(eps[e]) |->
                [id |-> eps[e][t], act |-> IF start = BoxSpace THEN StoredAct(eps[e][t]) ELSE StoredAct(eps[e][t]) - start,
                 ret |-> RTG(eps[e], t, g), disc |-> QPow(g, t - 1)]]])

Gammas == {<<0, 1>>, <<1, 2>>, <<1, 1>>}

DsStart == /\ Len(episodes) < MaxEpisodes /\ StartEpisode /\ UNCHANGED cnt
           /\ Emit("start_episode", <<>>, <<>>)
DsAdd == /\ cnt < MaxSamples /\ AddSample(cnt + 1) /\ cnt' = cnt + 1
         /\ Emit("add_sample", <<cnt + 1>>, "ok")
DsAddRejected == /\ Len(episodes) = 0 /\ cnt < MaxSamples /\ UNCHANGED dsVars
                 /\ Emit("add_sample", <<cnt + 1>>, "AssertionError")
DsLenQuery == UNCHANGED dsVars /\ Emit("len", <<>>, <<DsLen(episodes)>>)
DsIndices == UNCHANGED dsVars /\ Emit("indices", <<>>, Indices(episodes))
DsAverage == /\ Len(episodes) > 0 /\ UNCHANGED dsVars
             /\ Emit("average_return", <<>>, AverageReturn(episodes))
DsPrepare(g, start) == /\ DsLen(episodes) > 0 /\ UNCHANGED dsVars
                       /\ Emit("prepare", <<g, start>>, Prepared(episodes, g, start))

DsNext == /\ (DsStart \/ DsAdd \/ DsAddRejected \/ DsLenQuery \/ DsIndices \/ DsAverage
              \/ \E g \in Gammas, s \in Starts : DsPrepare(g, s))
          /\ UNCHANGED itVars

(* deviation: the sample goes to the FIRST episode *)
AddSampleToFirst(s) == /\ Len(episodes) > 0
                       /\ episodes' = [episodes EXCEPT ![1] = Append(@, s)]
DsNextBadAdd == /\ \/ (Len(episodes) < MaxEpisodes /\ StartEpisode /\ UNCHANGED cnt)
                   \/ (cnt < MaxSamples /\ AddSampleToFirst(cnt + 1) /\ cnt' = cnt + 1)
                /\ UNCHANGED itVars

(* properties of the data-set machine *)
DsLenIsTotal == DsLen(episodes) = cnt
DsInsertionOrder == Flatten(episodes) = [i \in 1..cnt |-> i]
DsIndicesRestart ==
  LET ix == Indices(episodes) IN
    /\ Len(ix) = cnt
    /\ \A i \in 1..cnt : (ix[i] = 0) \/ (i > 1 /\ ix[i] = ix[i - 1] + 1)
    /\ Cardinality({i \in 1..cnt : ix[i] = 0}) = Cardinality({e \in 1..Len(episodes) : Len(episodes[e]) > 0})
(* samples are appended to the last episode only: no earlier episode ever changes *)
DsOnlyLastGrows == [][\A e \in 1..(Len(episodes) - 1) : episodes'[e] = episodes[e]]_dsVars
DsPreparedAligned ==
  \A g \in Gammas :
    LET p == Prepared(episodes, g, 0) IN
      /\ Len(p) = cnt
      /\ \A i \in 1..cnt : p[i].id = i /\ p[i].act = StoredAct(i)
      /\ (g = <<0, 1>> => \A i \in 1..cnt : p[i].ret = X!I(Rew(i)))   \* gamma 0: a row's return is its own reward

----------------------------------------------------------------------------
(* Configurations *)
Phase(name, kinds, e, mb, sh) == [name |-> name, kinds |-> kinds, epochs |-> e, mb |-> mb, shuffle |-> sh]
BaseCfg == [algo |-> "", layout |-> "", nenvs |-> 1, nsteps |-> 0, minsamples |-> 0, tae |-> FALSE,
            stop |-> "budget", iterations |-> 0, budget |-> 0, phases |-> <<>>]
PpoCfgs == {[BaseCfg EXCEPT !.algo = "ppo", !.layout = "envmajor", !.nenvs = ne, !.nsteps = ns, !.stop = "iterations",
                            !.iterations = Iterations, !.phases = <<Phase("ppo", <<"policy", "value">>, e, mb, sh)>>] :
              ne \in NEnvsS, ns \in NStepsS, e \in EpochsS, mb \in MBs, sh \in Shuffles}
A2cCfgs == {[BaseCfg EXCEPT !.algo = "a2c", !.layout = "timemajor", !.nenvs = ne, !.nsteps = ns, !.budget = Budget,
                            !.phases = <<Phase("policy", <<"policy">>, pg, 0, FALSE), Phase("value", <<"value">>, vg, 0, FALSE)>>] :
              ne \in NEnvsS, ns \in NStepsS, pg \in EpochsS, vg \in EpochsS}
PgCfgs == {[BaseCfg EXCEPT !.algo = "pg", !.layout = "episodes", !.minsamples = MinSamples, !.tae = tae, !.budget = Budget,
                           !.phases = IF vg = 0 THEN <<Phase("policy", <<"policy">>, pg, 0, FALSE)>>
                                      ELSE <<Phase("policy", <<"policy">>, pg, 0, FALSE), Phase("value", <<"value">>, vg, 0, FALSE)>>] :
             tae \in BOOLEAN, pg \in EpochsS, vg \in EpochsS \cup {0}}
DesignCfgs == (IF "ppo" \in Algos THEN PpoCfgs ELSE {}) \cup (IF "a2c" \in Algos THEN A2cCfgs ELSE {})
              \cup (IF "pg" \in Algos THEN PgCfgs ELSE {})

InitWith(c) ==
  /\ cfg = c /\ pc = "collect" /\ iter = 0 /\ counted = 0 /\ startedAt = 0 /\ rows = <<>>
  /\ episodes = <<>> /\ cnt = 0 /\ epOpen = FALSE
  /\ ph = 1 /\ ep = 0 /\ pos = 0 /\ used = <<>> /\ batch = {} /\ due = {}
  /\ pver = 0 /\ vver = 0 /\ cver = <<0, 0>> /\ gat = <<0, 0>> /\ psteps = 0 /\ vsteps = 0
Init == \E c \in DesignCfgs : InitWith(c)
DsInit == InitWith(BaseCfg)

----------------------------------------------------------------------------
(* The iteration *)
N == Len(rows)
P == cfg.phases[ph]
(* minibatch size of a phase: mb = 0 is the whole batch (FullBatch) *)
BatchSize(p, n) == IF p.mb = 0 THEN n ELSE p.mb
(* RemainderShort: a remainder forms a last, shorter minibatch *)
NumMB(p, n) == (n + BatchSize(p, n) - 1) \div BatchSize(p, n)
PhaseSteps(p, kind, n) == IF kind \in SetOf(p.kinds) THEN p.epochs * NumMB(p, n) ELSE 0
RECURSIVE StepsUpTo(_, _, _)
StepsUpTo(k, kind, n) == IF k = 0 THEN 0 ELSE StepsUpTo(k - 1, kind, n) + PhaseSteps(cfg.phases[k], kind, n)
(* optimiser steps per iteration: sum over the phases of epochs * number of minibatches *)
IterSteps(kind, n) == StepsUpTo(Len(cfg.phases), kind, n)

(* train_ppo: `for iteration in range(iterations)`; the others: `while step < total_timesteps` *)
Continue == IF cfg.stop = "iterations" THEN iter < cfg.iterations ELSE counted < cfg.budget
Finished == pc = "collect" /\ ~Continue

(* the collection call is entered: it acts with the networks as they are NOW *)
BeginCollect ==
  /\ pc = "collect" /\ Continue
  /\ pc' = "sampling" /\ cver' = <<pver, vver>> /\ startedAt' = counted
  /\ episodes' = <<>> /\ epOpen' = FALSE            \* sample_trajectories: dataset = EpisodeDataset()
  /\ UNCHANGED <<cfg, iter, counted, rows, cnt, ph, ep, pos, used, batch, due, pver, vver, gat, psteps, vsteps>>

(* sample_trajectories: "Collect a minimum of total_steps, but continues to the end of the episode" *)
Enough == cfg.tae \/ DsLen(episodes) >= cfg.minsamples
SampleStart ==
  /\ pc = "sampling" /\ cfg.layout = "episodes" /\ ~epOpen /\ (Len(episodes) = 0 \/ ~Enough)
  /\ StartEpisode /\ epOpen' = TRUE
  /\ UNCHANGED <<cfg, pc, iter, counted, startedAt, rows, cnt, ph, ep, pos, used, batch, due, pver, vver, cver, gat, psteps, vsteps>>
SampleStep(s, done) ==
  /\ pc = "sampling" /\ cfg.layout = "episodes" /\ epOpen
  /\ AddSample(s) /\ epOpen' = ~done
  /\ UNCHANGED <<cfg, pc, iter, counted, startedAt, rows, cnt, ph, ep, pos, used, batch, due, pver, vver, cver, gat, psteps, vsteps>>

(* the collection call returns `newRows` (flattened as the layout says): they ARE the data set *)
CollectShape(newRows) ==
  IF cfg.layout = "episodes"
  THEN ~epOpen /\ Len(episodes) > 0 /\ Enough /\ newRows = Flatten(episodes)
  ELSE Len(newRows) = cfg.nsteps * cfg.nenvs
Collect(newRows) ==
  /\ pc = "sampling" /\ CollectShape(newRows)
  /\ rows' = newRows /\ counted' = counted + Len(newRows)
  /\ pc' = "epoch" /\ ph' = 1 /\ ep' = 0 /\ pos' = 0 /\ batch' = {} /\ due' = {}
  /\ used' = [i \in 1..Len(newRows) |-> 0]
  /\ UNCHANGED <<cfg, iter, startedAt, episodes, cnt, epOpen, pver, vver, cver, gat, psteps, vsteps>>

(* a pass over the data set begins *)
Epoch ==
  /\ pc = "epoch" /\ ep < P.epochs
  /\ pc' = "minibatch" /\ pos' = 0 /\ used' = [i \in 1..N |-> 0] /\ batch' = {}
  /\ UNCHANGED <<cfg, iter, counted, startedAt, rows, episodes, cnt, epOpen, ph, ep, due, pver, vver, cver, gat, psteps, vsteps>>

(* the loss is evaluated on the next minibatch: rows not yet used in this epoch; without shuffling
   the next rows in data-set order *)
Unused == {i \in 1..N : used[i] = 0}
K == Min(BatchSize(P, N), N - pos)
MinibatchOk(sel) == /\ sel \subseteq Unused /\ Cardinality(sel) = K
                    /\ (~P.shuffle => sel = (pos + 1)..(pos + K))
UseRows(sel) ==
  /\ batch' = sel /\ used' = [i \in 1..N |-> IF i \in sel THEN used[i] + 1 ELSE used[i]]
  /\ due' = SetOf(P.kinds) /\ gat' = <<pver, vver>> /\ pc' = "step"
  /\ UNCHANGED <<cfg, iter, counted, startedAt, rows, episodes, cnt, epOpen, ph, ep, pver, vver, cver, psteps, vsteps>>
Minibatch(sel) ==
  /\ pc = "minibatch" /\ pos < N /\ MinibatchOk(sel)
  /\ pos' = pos + K /\ UseRows(sel)

(* where the loop goes after an optimiser step *)
After(d, p) ==
  IF d # {} THEN pc' = "step" /\ UNCHANGED <<ph, ep>>
  ELSE IF p < N THEN pc' = "minibatch" /\ UNCHANGED <<ph, ep>>
  ELSE IF ep + 1 < P.epochs THEN pc' = "epoch" /\ ep' = ep + 1 /\ ph' = ph
  ELSE IF ph < Len(cfg.phases) THEN pc' = "epoch" /\ ep' = 0 /\ ph' = ph + 1
  ELSE pc' = "end" /\ ph' = ph /\ ep' = ep + 1
PolicyStep ==
  /\ pc = "step" /\ "policy" \in due
  /\ pver' = pver + 1 /\ psteps' = psteps + 1 /\ due' = due \ {"policy"} /\ After(due \ {"policy"}, pos)
  /\ UNCHANGED <<cfg, iter, counted, startedAt, rows, episodes, cnt, epOpen, pos, used, batch, vver, cver, gat, vsteps>>
ValueStep ==
  /\ pc = "step" /\ "value" \in due
  /\ vver' = vver + 1 /\ vsteps' = vsteps + 1 /\ due' = due \ {"value"} /\ After(due \ {"value"}, pos)
  /\ UNCHANGED <<cfg, iter, counted, startedAt, rows, episodes, cnt, epOpen, pos, used, batch, pver, cver, gat, psteps>>

(* the data set is discarded: the next iteration starts from nothing *)
EndIteration ==
  /\ pc = "end"
  /\ rows' = <<>> /\ used' = <<>> /\ batch' = {} /\ episodes' = <<>> /\ iter' = iter + 1 /\ pc' = "collect"
  /\ ph' = 1 /\ ep' = 0 /\ pos' = 0 /\ psteps' = 0 /\ vsteps' = 0
  /\ UNCHANGED <<cfg, counted, startedAt, cnt, epOpen, due, pver, vver, cver, gat>>

(* design model: the environment decides when an episode ends (lengths from EpLens) *)
FreshRows(n) == [i \in 1..n |-> <<iter, i>>]
MaxLen == CHOOSE m \in EpLens : \A k \in EpLens : k <= m
CurLen == IF Len(episodes) = 0 THEN 0 ELSE Len(episodes[Len(episodes)])
Next ==
  \/ BeginCollect
  \/ SampleStart
  \/ \E done \in BOOLEAN :
       /\ (done => (CurLen + 1) \in EpLens) /\ (~done => CurLen + 1 < MaxLen)
       /\ SampleStep(<<iter, DsLen(episodes) + 1>>, done)
  \/ (cfg.layout # "episodes" /\ Collect(FreshRows(cfg.nsteps * cfg.nenvs)))
  \/ (cfg.layout = "episodes" /\ Collect(Flatten(episodes)))
  \/ Epoch
  \/ (pc = "minibatch" /\ \E sel \in SUBSET Unused : Minibatch(sel))
  \/ PolicyStep \/ ValueStep
  \/ EndIteration

Spec == Init /\ [][Next]_vars

----------------------------------------------------------------------------
(* Properties of the iteration (checked by TLC on the design model, and along every validated trace) *)
EpochDone == pc \in {"epoch", "end"} /\ (ep > 0 \/ ph > 1)
(* every row is used exactly once per epoch *)
RowOncePerEpoch == /\ \A i \in 1..Len(used) : used[i] <= 1
                   /\ EpochDone => \A i \in 1..N : used[i] = 1
(* optimiser steps of an iteration = sum over phases of epochs * number of minibatches *)
StepCountFormula == pc = "end" => psteps = IterSteps("policy", N) /\ vsteps = IterSteps("value", N)
StepsSoFar(kind) == StepsUpTo(ph - 1, kind, N)
                    + (IF kind \in SetOf(P.kinds) THEN ep * NumMB(P, N) ELSE 0)
StepCountAtEpochs == EpochDone => psteps = StepsSoFar("policy") /\ vsteps = StepsSoFar("value")
(* the collection of iteration k acts with the parameters after all updates of iteration k-1 *)
CollectUsesLatest == pc \notin {"collect"} => cver = <<pver - psteps, vver - vsteps>>
(* gradients are applied to the parameters they were computed for *)
GradOnCurrent == pc = "step" => /\ ("policy" \in due => gat[1] = pver)
                                /\ ("value" \in due => gat[2] = vver)
(* nothing is collected once the budget is used; the loop stops only then *)
BudgetRule == /\ pc # "collect" => (IF cfg.stop = "iterations" THEN iter < cfg.iterations ELSE startedAt < cfg.budget)
              /\ Finished => (IF cfg.stop = "iterations" THEN iter = cfg.iterations ELSE counted >= cfg.budget)
CollectionSize == (pc \in {"epoch", "minibatch", "step", "end"} /\ cfg.layout # "episodes") => N = cfg.nsteps * cfg.nenvs
MinSamplesRule ==
  (pc \in {"epoch", "minibatch", "step", "end"} /\ cfg.layout = "episodes") =>
     /\ N = DsLen(episodes) /\ Len(episodes) > 0
     /\ IF cfg.tae THEN Len(episodes) = 1
        ELSE N >= cfg.minsamples /\ N - Len(episodes[Len(episodes)]) < cfg.minsamples
(* design model only (rows are <<iteration, k>>): the data set holds rows of THIS iteration only *)
DatasetFresh == /\ \A i \in 1..N : rows[i] = <<iter, i>>
                /\ pc \in {"collect", "sampling"} => rows = <<>>
TypeOK == /\ pc \in {"collect", "sampling", "epoch", "minibatch", "step", "end"}
          /\ due \subseteq {"policy", "value"} /\ pos \in 0..N /\ ph \in 1..Len(cfg.phases)
          /\ batch \subseteq 1..N

----------------------------------------------------------------------------
(* Deviations that TLC must refute *)
(* drop_last: a remainder smaller than the minibatch size is not used *)
MinibatchDropTail ==
  /\ pc = "minibatch" /\ pos < N /\ N - pos < BatchSize(P, N)
  /\ pos' = N /\ batch' = {} /\ due' = {} /\ After({}, N)
  /\ UNCHANGED <<cfg, iter, counted, startedAt, rows, episodes, cnt, epOpen, used, pver, vver, cver, gat, psteps, vsteps>>
NextDropTail == \/ (pc = "minibatch" /\ N - pos < BatchSize(P, N) /\ MinibatchDropTail)
                \/ (~(pc = "minibatch" /\ N - pos < BatchSize(P, N)) /\ Next)
(* the slice starts one row late: rows[start+1 : start+1+size] - the first row is never used *)
MinibatchOffByOne ==
  /\ pc = "minibatch" /\ pos < N
  /\ pos' = pos + K /\ UseRows({i \in (pos + 2)..(pos + K + 1) : i <= N})
NextOffByOne == \/ MinibatchOffByOne \/ (pc # "minibatch" /\ Next)
(* the behaviour policy is a snapshot that is never refreshed *)
CollectStale ==
  /\ pc = "collect" /\ Continue
  /\ pc' = "sampling" /\ startedAt' = counted /\ episodes' = <<>> /\ epOpen' = FALSE
  /\ UNCHANGED <<cfg, iter, counted, rows, cnt, ph, ep, pos, used, batch, due, pver, vver, cver, gat, psteps, vsteps>>
NextStale == \/ CollectStale \/ (pc # "collect" /\ Next)
(* the data set is kept and the next collection is appended to it *)
EndIterationKeep ==
  /\ pc = "end" /\ iter' = iter + 1 /\ pc' = "collect" /\ ph' = 1 /\ ep' = 0 /\ pos' = 0 /\ psteps' = 0 /\ vsteps' = 0
  /\ UNCHANGED <<cfg, counted, startedAt, rows, episodes, cnt, epOpen, used, batch, due, pver, vver, cver, gat>>
CollectIntoOld(newRows) ==
  /\ pc = "sampling" /\ Len(newRows) = cfg.nsteps * cfg.nenvs
  /\ rows' = rows \o newRows /\ counted' = counted + Len(newRows)
  /\ pc' = "epoch" /\ ph' = 1 /\ ep' = 0 /\ pos' = 0 /\ batch' = {} /\ due' = {}
  /\ used' = [i \in 1..(Len(rows) + Len(newRows)) |-> 0]
  /\ UNCHANGED <<cfg, iter, startedAt, episodes, cnt, epOpen, pver, vver, cver, gat, psteps, vsteps>>
NextKeep == \/ EndIterationKeep
            \/ (pc = "sampling" /\ CollectIntoOld(FreshRows(cfg.nsteps * cfg.nenvs)))
            \/ (pc \notin {"end", "sampling"} /\ Next)
(* one epoch too few: `range(epochs - 1)` *)
AfterShort(d) ==
  IF d # {} THEN pc' = "step" /\ UNCHANGED <<ph, ep>>
  ELSE IF pos < N THEN pc' = "minibatch" /\ UNCHANGED <<ph, ep>>
  ELSE IF ep + 2 < P.epochs THEN pc' = "epoch" /\ ep' = ep + 1 /\ ph' = ph
  ELSE IF ph < Len(cfg.phases) THEN pc' = "epoch" /\ ep' = 0 /\ ph' = ph + 1
  ELSE pc' = "end" /\ ph' = ph /\ ep' = ep + 1
PolicyStepShort ==
  /\ pc = "step" /\ "policy" \in due
  /\ pver' = pver + 1 /\ psteps' = psteps + 1 /\ due' = due \ {"policy"} /\ AfterShort(due \ {"policy"})
  /\ UNCHANGED <<cfg, iter, counted, startedAt, rows, episodes, cnt, epOpen, pos, used, batch, vver, cver, gat, vsteps>>
NextShort == \/ PolicyStepShort \/ (~(pc = "step" /\ "policy" \in due) /\ Next)
=============================================================================
