---------------------- MODULE EnsembleBootTrace ----------------------
(* Trace validation (code -> spec) for EnsembleBoot.                          *)
(* A trace is what one real train_ensemble() run exposes when `bootstrap` and *)
(* `train_epoch` are interposed:  [boot |-> matrix returned by bootstrap(),   *)
(* epochs |-> Seq of index tensors handed to train_epoch()].  It is accepted  *)
(* iff every event is consumed by the specification's own actions:            *)
(* Bootstrap for the first, EpochRel for each of the others (the ghost        *)
(* variable `used` is existentially quantified: some injective choice of      *)
(* bootstrap positions per member must explain the recorded tensor; a         *)
(* canonical candidate is constructed and checked by EpochRel itself).        *)
(* Constants (E, N, train_size, B) are fixed per TLC run; all traces of that  *)
(* configuration are validated in one run.                                    *)
EXTENDS EnsembleBoot, IOUtils

VARIABLES tid, pos
tvars == <<boot, epoch, batches, used, tid, pos>>

Traces == JsonDeserialize(IOEnv.TRACE_FILE)
T == Traces[tid]

TInit == /\ tid \in 1..Len(Traces) /\ pos = 0 /\ Init

(* event 0: the matrix returned by bootstrap() *)
TBootstrap == /\ pos = 0
              /\ boot' = T.boot
              /\ Bootstrap                        \* boot' \in [Members -> [1..NB -> 0..N-1]] is now a check
              /\ pos' = 1 /\ UNCHANGED tid
              /\ PrintT(<<"POS", tid, 1>>)

ShapeOK(rec) == /\ Len(rec) = NBatch
                /\ \A k \in 1..Len(rec) : /\ Len(rec[k]) = E
                                          /\ \A e \in 1..E : Len(rec[k][e]) = B
(* the data indices handed to member e in this epoch, in batch order *)
FlatRec(e, rec) == [t \in 1..Kept |-> rec[((t - 1) \div B) + 1][e][((t - 1) % B) + 1]]
(* Candidate witness for the ghost variable: the r-th use of data index v takes the r-th bootstrap position   *)
(* holding v (0 if member e's bootstrap sample holds v fewer than r times).  If ANY injective choice of      *)
(* positions explains the tensor, this one does (counting argument); whether it does is decided by EpochRel. *)
NthPos(e, v, r) == LET ps == {p \in 1..NB : boot[e][p] = v /\ Cardinality({q \in 1..p : boot[e][q] = v}) = r}
                   IN IF ps = {} THEN 0 ELSE CHOOSE p \in ps : TRUE
Candidate(e, rec) == LET f == FlatRec(e, rec)
                     IN [t \in 1..Kept |-> NthPos(e, f[t], Cardinality({u \in 1..t : f[u] = f[t]}))]

(* event pos >= 1: the index tensor of epoch `pos` *)
TEpoch == /\ pos >= 1 /\ pos <= Len(T.epochs)
          /\ LET rec == T.epochs[pos]
             IN IF ShapeOK(rec)                    \* (IF: evaluated as a state predicate)
                THEN /\ used' = [e \in Members |-> Candidate(e, rec)]
                     /\ batches' = rec
                ELSE FALSE
          /\ EpochRel                             \* the specification's relation: positions in range, injective, and
                                                  \* batches' = BatchesOf(boot, used')
          /\ pos' = pos + 1 /\ UNCHANGED tid
          /\ PrintT(<<"POS", tid, pos + 1>>)

TNext == TBootstrap \/ TEpoch
TSpec == TInit /\ [][TNext]_tvars

(* the specification's invariants must hold along every accepted prefix *)
TraceInv == /\ OnlyOwnBootstrap /\ EachPositionAtMostOncePerEpoch
            /\ AllMembersSameBatchCount /\ OnlyRemainderDropped
=============================================================================
