---------------------- MODULE EnsembleBootTrace ----------------------
(* Trace validation (code -> spec) for EnsembleBoot.                          *)
(* A trace is what one real train_ensemble() run exposes when `bootstrap` and *)
(* `train_epoch` are interposed:  [boot |-> matrix returned by bootstrap(),   *)
(* epochs |-> Seq of index tensors handed to train_epoch()].  It is accepted  *)
(* iff every event is consumed by the specification's own actions:            *)
(* Bootstrap for the first, EpochRel for each of the others (the ghost        *)
(* variable `used` is existentially quantified: some injective choice of      *)
(* bootstrap positions per member must explain the recorded tensor).          *)
(* Constants (E, N, train_size, B) are fixed per TLC run; all traces of that  *)
(* configuration are validated in one run.                                    *)
EXTENDS EnsembleBoot, IOUtils

VARIABLES tid, pos
tvars == <<boot, epoch, batches, used, tid, pos>>

Traces == JsonDeserialize(IOEnv.TRACE_FILE)
T == Traces[tid]

TInit == /\ tid \in 1..Len(Traces) /\ pos = 0 /\ Init

(* event 0: the matrix returned by bootstrap() *)
TBootstrap == /\ pos = 0
              /\ boot' = T.boot
              /\ Bootstrap                        \* boot' \in [Members -> [1..NB -> 0..N-1]] is now a check
              /\ pos' = 1 /\ UNCHANGED tid
              /\ PrintT(<<"POS", tid, 1>>)

ShapeOK(rec) == /\ Len(rec) = NBatch
                /\ \A k \in 1..Len(rec) : /\ Len(rec[k]) = E
                                          /\ \A e \in 1..E : Len(rec[k][e]) = B
Explains(e, s, rec) == \A k \in 1..NBatch : \A b \in 1..B : rec[k][e][b] = boot[e][s[(k - 1) * B + b]]
Explainable(rec) == ShapeOK(rec) /\ \A e \in Members : \E s \in InjSeqs(NB, Kept) : Explains(e, s, rec)

(* event pos >= 1: the index tensor of epoch `pos` *)
TEpoch == /\ pos >= 1 /\ pos <= Len(T.epochs)
          /\ LET rec == T.epochs[pos] IN
               /\ Explainable(rec)
               /\ used' = [e \in Members |-> CHOOSE s \in InjSeqs(NB, Kept) : Explains(e, s, rec)]
               /\ batches' = rec
          /\ EpochRel                             \* all primed variables are fixed: the spec's relation is checked
          /\ pos' = pos + 1 /\ UNCHANGED tid
          /\ PrintT(<<"POS", tid, pos + 1>>)

TNext == TBootstrap \/ TEpoch
TSpec == TInit /\ [][TNext]_tvars

(* the specification's invariants must hold along every accepted prefix *)
TraceInv == /\ OnlyOwnBootstrap /\ EachPositionAtMostOncePerEpoch
            /\ AllMembersSameBatchCount /\ OnlyRemainderDropped
=============================================================================
