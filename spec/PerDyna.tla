------------------------------ MODULE PerDyna ------------------------------
(* X09: run-level behaviour of train_ddqn_per (rl_blox/algorithm/per.py) and  *)
(* train_dynaq (rl_blox/algorithm/dynaq.py) AROUND the prioritized buffer     *)
(* operations (C08) and the tabular update equations / model tables (C14).    *)
(*                                                                            *)
(* Two state machines, one action per call of the loop bodies:                *)
(*                                                                            *)
(*  PER     PStore (env.step + add_sample: the new transition gets the        *)
(*          tracked maximum) -> [LearnDue] PSample (sample_batch(batch_size,  *)
(*          rng, beta[step])) -> PTrain (the jitted train step returns |td|)  *)
(*          -> PWrite (per_priority, update_priority) -> next step            *)
(*  Dyna-Q  DAct (act, env.step, the pair is appended to the bounded window)  *)
(*          -> DDirect (q_learning_update on the real transition) -> DCount   *)
(*          (counter_update) -> DModel (model_update) -> DPlan x              *)
(*          n_planning_steps (pair from the window, successor / reward from   *)
(*          the model, q_learning_update) -> DEndStep                         *)
(*                                                                            *)
(* The value operators (BetaAt, LearnDue, Window, ModeSuccessor, Support,     *)
(* MeanReward, MaxEver ...) are re-used by PerDynaTrace.tla on real runs.     *)
(*                                                                            *)
(* Named operators for what the code does where its documentation says        *)
(* something else or nothing (NOT deviations; see the X09 report):            *)
(*   BatchGate                 per.py: learning additionally needs            *)
(*                             step > batch_size (documented: learning_starts)*)
(*   PriorityFromBatchMean     ddqn_per_loss returns the MEAN |td| of the     *)
(*                             batch; every sampled slot gets the ONE         *)
(*                             priority mean|td|^alpha + eps (documented:     *)
(*                             "its TD-error is updated", per transition)     *)
(*   ResetCadenceNone          train_ddqn_per never calls reset_max_priority: *)
(*                             the tracked maximum is the maximum ever        *)
(*   ModeSuccessor             dynaq.planning takes the FIRST MOST FREQUENT   *)
(*                             successor of the pair (argmax), not a draw     *)
(*   WindowOfLastPairs         planning pairs come from the last buffer_size  *)
(*                             real steps (with multiplicity)                 *)
EXTENDS Exact, FiniteSets, TLC, Json

CONSTANTS Routine,        \* "per" | "dynaq"
          DEV,            \* "NoDev" or the name of a deviation
          EMIT,
          T, Start, Warm, Bs, Uf, Beta0,     \* PER: total_timesteps, global_step, learning_starts, batch_size, update_frequency, per_beta <<n, d>>
          Cap,                               \* PER: buffer slots; Dyna-Q: buffer_size (window of pairs)
          Tds,                               \* PER: abstract |td| values (naturals standing for float32 ordinals)
          NPlan, NS, NA                      \* Dyna-Q: n_planning_steps, states, actions

NoDev == "NoDev"
BetaConstant == "BetaConstant"
WriteBackToPreviousBatch == "WriteBackToPreviousBatch"
BufferCallBetween == "BufferCallBetween"
PlanOnUnobservedPair == "PlanOnUnobservedPair"
PlanBeforeDirect == "PlanBeforeDirect"
PlanChangesModel == "PlanChangesModel"
PlanOneTooMany == "PlanOneTooMany"

TdsSmall == {1, 2, 3}
BetaQuarter == <<1, 4>>
BetaHalf == <<1, 2>>
Max(a, b) == IF a >= b THEN a ELSE b
Min(a, b) == IF a <= b THEN a ELSE b

----------------------------------------------------------------------------
(* value operators (configuration record c: T, start, warm, bs, uf, beta0, cap, nplan, ns, na) *)

(* documented: "the same linear schedule to anneal beta from per_beta to 1.0" over total_timesteps
   (linear_schedule(total_timesteps, start=per_beta, end=1.0, fraction=1.0) = linspace over T points) *)
BetaAt(c, s) == IF c.T <= 1 THEN c.beta0
                ELSE QAdd(c.beta0, QDiv(QMul(I(s), QSub(One, c.beta0)), I(c.T - 1)))

BatchGate(c, s) == s > c.bs                              \* per.py:181, undocumented
DocumentedLearnDue(c, s) == s >= c.warm /\ s % c.uf = 0
LearnDue(c, s) == BatchGate(c, s) /\ DocumentedLearnDue(c, s)

(* PriorityFromBatchMean: one priority for the whole batch; abstractly any strictly positive monotone function *)
PrioOf(td) == td + 1
MaxEver(m, ps) == IF ps = {} THEN m ELSE Max(m, CHOOSE x \in ps : \A y \in ps : x >= y)

(* Dyna-Q: the window of the last `cap` real (state, action) pairs *)
Window(pairs, cap) == IF Len(pairs) <= cap THEN pairs ELSE SubSeq(pairs, Len(pairs) - cap + 1, Len(pairs))
PairsOf(seq) == {seq[k] : k \in 1..Len(seq)}
(* cnt: function <<s, a, n>> -> number of real transitions *)
Row(cnt, s, a, ns) == [n \in 0..ns - 1 |-> cnt[<<s, a, n>>]]
Support(cnt, s, a, ns) == {n \in 0..ns - 1 : cnt[<<s, a, n>>] > 0}
RowMax(row, ns) == CHOOSE m \in {row[n] : n \in 0..ns - 1} : \A n \in 0..ns - 1 : row[n] <= m
ModeSuccessor(row, ns) == CHOOSE n \in 0..ns - 1 : row[n] = RowMax(row, ns) /\ \A k \in 0..n - 1 : row[k] < RowMax(row, ns)
MeanReward(sum4, n) == Q(sum4, 4 * n)
Dyadic(n) == n \in {1, 2, 4, 8, 16}

----------------------------------------------------------------------------
VARIABLES cfg,
          \* PER
          pstep, ppc, prio, len, ins, maxp, cur, prev, hist, between,
          \* Dyna-Q
          dt, dpc, ds, dcur, pairs, cnt, mdl, mdl0, k, steplog, planlog

pvars == <<pstep, ppc, prio, len, ins, maxp, cur, prev, hist, between>>
dvars == <<dt, dpc, ds, dcur, pairs, cnt, mdl, mdl0, k, steplog, planlog>>
vars == <<cfg, pvars, dvars>>

DesignCfg == [T |-> T, start |-> Start, warm |-> Warm, bs |-> Bs, uf |-> Uf, beta0 |-> Beta0, cap |-> Cap, nplan |-> NPlan, ns |-> NS, na |-> NA]

NoCur == [idx |-> <<>>, beta |-> Zero, step |-> -1, td |-> 0]
Triples == (0..NS - 1) \X (0..NA - 1) \X (0..NS - 1)

Init == /\ cfg = DesignCfg
        /\ pstep = Start /\ ppc = (IF Routine = "per" /\ Start < T THEN "act" ELSE "done")
        /\ prio = [i \in 0..Cap - 1 |-> 0] /\ len = 0 /\ ins = 0 /\ maxp = 1
        /\ cur = NoCur /\ prev = NoCur /\ hist = <<>> /\ between = <<>>
        /\ dt = 0 /\ dpc = (IF Routine = "dynaq" THEN "act" ELSE "done") /\ ds = 0 /\ dcur = <<0, 0, 0>>
        /\ pairs = <<>> /\ cnt = [x \in Triples |-> 0] /\ mdl = [x \in Triples |-> 0] /\ mdl0 = [x \in Triples |-> 0]
        /\ k = 0 /\ steplog = <<>> /\ planlog = <<>>

Emit(op, args) == EMIT => PrintT(<<"EMIT", ToJson([op |-> op, args |-> args])>>)

----------------------------------------------------------------------------
(* PER *)
NextStep(s) == /\ pstep' = s + 1 /\ ppc' = (IF s + 1 < cfg.T THEN "act" ELSE "done")

(* env.step + replay_buffer.add_sample: the new transition gets the tracked maximum priority *)
PStore ==
  /\ ppc = "act"
  /\ prio' = [prio EXCEPT ![ins] = maxp]
  /\ ins' = (ins + 1) % Cap /\ len' = Min(len + 1, Cap)
  /\ IF LearnDue(cfg, pstep) THEN ppc' = "sample" /\ pstep' = pstep ELSE NextStep(pstep)
  /\ UNCHANGED <<cfg, maxp, cur, prev, hist, between, dvars>>

(* replay_buffer.sample_batch(batch_size, rng, beta[step]) *)
PSample ==
  /\ ppc = "sample"
  /\ \E idx \in [1..cfg.bs -> 0..len - 1] :
       /\ cur' = [idx |-> idx, beta |-> IF DEV = BetaConstant THEN cfg.beta0 ELSE BetaAt(cfg, pstep), step |-> pstep, td |-> 0]
       /\ prev' = cur
  /\ ppc' = "train" /\ between' = <<>>
  /\ UNCHANGED <<cfg, pstep, prio, len, ins, maxp, hist, dvars>>

(* the jitted train step returns the (mean) absolute TD error of the batch it was handed *)
PTrain ==
  /\ ppc = "train"
  /\ \E td \in Tds : cur' = [cur EXCEPT !.td = td]
  /\ ppc' = "write"
  /\ between' = IF DEV = BufferCallBetween THEN Append(between, "reset_max_priority") ELSE between
  /\ UNCHANGED <<cfg, pstep, prio, len, ins, maxp, prev, hist, dvars>>

(* priority = per_priority(abs_td_error, alpha, eps); replay_buffer.update_priority(priority) *)
PWrite ==
  /\ ppc = "write"
  /\ LET p == PrioOf(cur.td)
         widx == IF DEV = WriteBackToPreviousBatch /\ prev.idx # <<>> THEN prev.idx ELSE cur.idx
         W == {widx[j] : j \in 1..Len(widx)}
     IN /\ prio' = [i \in 0..Cap - 1 |-> IF i \in W THEN p ELSE prio[i]]
        /\ maxp' = Max(maxp, p)
        /\ hist' = Append(hist, [step |-> cur.step, beta |-> cur.beta, sidx |-> cur.idx, widx |-> widx, td |-> cur.td, p |-> p, between |-> between])
  /\ NextStep(pstep)
  /\ UNCHANGED <<cfg, len, ins, cur, prev, between, dvars>>

----------------------------------------------------------------------------
(* Dyna-Q; the scripted environment offers two successors per (state, action) pair *)
Succ(s, a) == {(s + 1) % NS, (s + 2) % NS}
DLog(kind, s, a, n) == [kind |-> kind, s |-> s, a |-> a, n |-> n]

(* act, env.step, obs_buffer.append / act_buffer.append (deque(maxlen=buffer_size)) *)
DAct ==
  /\ dpc = "act" /\ dt < T
  /\ \E a \in 0..NA - 1 : \E n \in Succ(ds, a) :
       /\ dcur' = <<ds, a, n>>
       /\ pairs' = Append(pairs, <<ds, a>>)
  /\ dpc' = IF DEV = PlanBeforeDirect THEN "plan" ELSE "direct"
  /\ k' = 0 /\ steplog' = <<>> /\ mdl0' = mdl
  /\ UNCHANGED <<cfg, pvars, dt, ds, cnt, mdl, planlog>>

(* direct RL: q_learning_update on the real transition *)
DDirect ==
  /\ dpc = "direct"
  /\ steplog' = Append(steplog, DLog("direct", dcur[1], dcur[2], dcur[3]))
  /\ dpc' = IF DEV = PlanBeforeDirect THEN "end" ELSE "count"
  /\ UNCHANGED <<cfg, pvars, dt, ds, dcur, pairs, cnt, mdl, mdl0, k, planlog>>

DCount ==
  /\ dpc = "count"
  /\ cnt' = [cnt EXCEPT ![dcur] = @ + 1]
  /\ dpc' = "model"
  /\ UNCHANGED <<cfg, pvars, dt, ds, dcur, pairs, mdl, mdl0, k, steplog, planlog>>

(* model_update: the row of the pair follows the counts *)
DModel ==
  /\ dpc = "model"
  /\ mdl' = [x \in Triples |-> IF x[1] = dcur[1] /\ x[2] = dcur[2] THEN cnt[x] ELSE mdl[x]]
  /\ mdl0' = mdl'
  /\ dpc' = "plan"
  /\ UNCHANGED <<cfg, pvars, dt, ds, dcur, pairs, cnt, k, steplog, planlog>>

(* one simulated update: pair from the window, successor / reward from the model *)
DPlan ==
  /\ dpc = "plan"
  /\ IF DEV = PlanOneTooMany THEN k <= cfg.nplan ELSE k < cfg.nplan
  /\ \E pr \in (IF DEV = PlanOnUnobservedPair THEN (0..NS - 1) \X (0..NA - 1) ELSE PairsOf(Window(pairs, cfg.cap))) :
       LET n == ModeSuccessor(Row(mdl, pr[1], pr[2], NS), NS)
       IN /\ steplog' = Append(steplog, DLog("plan", pr[1], pr[2], n))
          /\ mdl' = IF DEV = PlanChangesModel THEN [mdl EXCEPT ![<<pr[1], pr[2], n>>] = @ + 1] ELSE mdl
  /\ k' = k + 1
  /\ UNCHANGED <<cfg, pvars, dt, dpc, ds, dcur, pairs, cnt, mdl0, planlog>>

DEndPlan ==
  /\ dpc = "plan"
  /\ IF DEV = PlanOneTooMany THEN k = cfg.nplan + 1 ELSE k = cfg.nplan
  /\ dpc' = IF DEV = PlanBeforeDirect THEN "direct" ELSE "end"
  /\ UNCHANGED <<cfg, pvars, dt, ds, dcur, pairs, cnt, mdl, mdl0, k, steplog, planlog>>

DEndStep ==
  /\ dpc = "end"
  /\ planlog' = Append(planlog, [log |-> steplog, cnt |-> cnt, mdl0 |-> mdl0, mdl |-> mdl, window |-> Window(pairs, cfg.cap)])
  /\ ds' = dcur[3] /\ dt' = dt + 1
  /\ dpc' = IF dt + 1 < T THEN "act" ELSE "done"
  /\ UNCHANGED <<cfg, pvars, dcur, pairs, cnt, mdl, mdl0, k, steplog>>

Done == /\ ppc = "done" /\ dpc = "done" /\ UNCHANGED vars

Next == PStore \/ PSample \/ PTrain \/ PWrite \/ DAct \/ DDirect \/ DCount \/ DModel \/ DPlan \/ DEndPlan \/ DEndStep \/ Done
Spec == Init /\ [][Next]_vars

----------------------------------------------------------------------------
(* invariants: PER *)
TypeOK == /\ ppc \in {"act", "sample", "train", "write", "done"} /\ dpc \in {"act", "direct", "count", "model", "plan", "end", "done"}
          /\ len \in 0..Cap /\ ins \in 0..Cap - 1 /\ k \in 0..NPlan + 1

H == {hist[i] : i \in 1..Len(hist)}
BetaHandedIsSchedule == \A h \in H : QEq(h.beta, BetaAt(cfg, h.step))
BetaAnneals == /\ \A h \in H : QLe(cfg.beta0, h.beta) /\ QLe(h.beta, One) /\ (h.step = cfg.T - 1 => QEq(h.beta, One))
               /\ \A i, j \in 1..Len(hist) : i < j => QLe(hist[i].beta, hist[j].beta)
LearnExactlyWhenDue == /\ \A h \in H : LearnDue(cfg, h.step)
                       /\ Cardinality({s \in cfg.start..pstep - 1 : LearnDue(cfg, s)}) = Len(hist)
WriteBackHitsSampledBatch == \A h \in H : h.widx = h.sidx
NoBufferCallBetweenSampleAndWrite == \A h \in H : h.between = <<>>
PriorityPositive == \A h \in H : h.p > 0
PriorityOrderFollowsError == \A g, h \in H : (g.td = h.td => g.p = h.p) /\ (g.td > h.td => g.p >= h.p)
(* ResetCadenceNone: the tracked maximum is the maximum ever written, it dominates every stored priority *)
MaxIsMaxEver == /\ maxp = MaxEver(1, {h.p : h \in H})
                /\ \A i \in 0..len - 1 : prio[i] <= maxp

(* invariants: Dyna-Q (over completed steps) *)
P == {planlog[i] : i \in 1..Len(planlog)}
Plans(e) == {e.log[j] : j \in {x \in 1..Len(e.log) : e.log[x].kind = "plan"}}
ExactlyNPlanPerStep == \A e \in P : Cardinality({j \in 1..Len(e.log) : e.log[j].kind = "plan"}) = cfg.nplan
                                    /\ Cardinality({j \in 1..Len(e.log) : e.log[j].kind = "direct"}) = 1
DirectPrecedesPlanning == \A e \in P : e.log # <<>> /\ e.log[1].kind = "direct"
PlannedPairsObserved == \A e \in P : \A u \in Plans(e) : <<u.s, u.a>> \in PairsOf(e.window) /\ Support(e.cnt, u.s, u.a, NS) # {}
SuccessorInSupport == \A e \in P : \A u \in Plans(e) : u.n \in Support(e.cnt, u.s, u.a, NS)
SuccessorIsMode == \A e \in P : \A u \in Plans(e) : u.n = ModeSuccessor(Row(e.cnt, u.s, u.a, NS), NS)
PlanningKeepsModel == \A e \in P : e.mdl = e.mdl0
ModelFollowsCounts == \A e \in P : \A x \in Triples : e.mdl0[x] = e.cnt[x]
WindowIsLastPairs == \A e \in P : Len(e.window) <= cfg.cap
=============================================================================
