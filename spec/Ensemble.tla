--------------------------- MODULE Ensemble ---------------------------
(* Probabilistic ensemble of Gaussian MLPs                                     *)
(* (rl_blox.blox.probabilistic_ensemble.GaussianMLPEnsemble on top of          *)
(* rl_blox.blox.function_approximator.gaussian_mlp.GaussianMLP).               *)
(*                                                                            *)
(* ONE state - the stacked parameters of E members - and several VIEWS of it: *)
(*   Joint        __call__ on a batch (all members, same rows) and on a        *)
(*                per-member batch (member i sees rows xs[i]),                 *)
(*   Member       base_predict(x, i) / base_distribution(x, i): by definition  *)
(*                slice i of Joint, for a single vector and for a batch,       *)
(*   Aggregate    aggregate(x): moments of the uniform mixture of the members. *)
(* Means are exact rationals (device D2: dyadic parameters and inputs, ReLU    *)
(* hidden layer).  A log-variance is a SYMBOL [raw, out]: the raw head value   *)
(* `raw` soft-clamped with the bounds of output `out`; the soft clamp is an    *)
(* uninterpreted monotone map onto [Lo_out, SoftHi_out] that reaches Lo at     *)
(* raw = -10^4 and SoftHi at raw = +10^4 (devices D3/D4: the driver supplies   *)
(* the numeric value of the named constants Lo_k, SoftHi_k, V_i_k).            *)
(*                                                                            *)
(* The "state machine" is the staged choice of a test vector (BUILDING.md):   *)
(* ChooseConfig -> ChooseParams -> ChooseInput -> ChooseMember (emits).       *)
(*                                                                            *)
(* Two CLASSES of parameter states:                                           *)
(*   "generic"  members differ in every layer, outputs are O(1);              *)
(*   "agree"    members (nearly) agree on predictions FAR FROM ZERO (a large   *)
(*              common output bias, zero / tiny output weights or identical    *)
(*              copies of one member - what a converged ensemble looks like)   *)
(*              with the raw log-variance at / near the lower soft bound, and  *)
(*              the degenerate ensemble of ONE member.  Here the aggregate     *)
(*              variance is tiny compared with the squared aggregate mean, and *)
(*              it must not depend on the common offset (AggregateOffsetFree). *)
EXTENDS Integers, Sequences, FiniteSets, TLC, Json, Exact

CONSTANTS EMIT,   \* TRUE: print one EMIT record per completed test vector
          Dev,    \* "none" | named deviation (canaries): "outer_var", "vector_row0", "no_epistemic", "uncentred_epistemic"
          Es,     \* ensemble sizes explored (class "generic": >= 2, the members differ)
          Os,     \* numbers of outputs explored
          NPat,   \* parameter patterns 1..NPat
          NXPat,  \* input patterns 1..NXPat
          ACfgs,  \* class "agree": configurations coded as decimal digits EO (E >= 1: includes the ensemble of one member)
          NAgree, \* class "agree": parameter patterns 1..NAgree
          ANs     \* class "agree": batch sizes explored

VARIABLES stage, cfg, par, inp, mem
vars == <<stage, cfg, par, inp, mem>>

F  == 2    \* input features
Hd == 2    \* hidden nodes (one ReLU layer)

(* dyadic lattice for weights, biases and inputs *)
Lat == << Zero, One, I(-1), Q(1, 2), I(2), Q(-1, 4), Q(3, 2), Q(1, 4) >>
Pick(h) == Lat[(h % Len(Lat)) + 1]
(* raw log-variance head values: saturating low, moderately low, middle, moderately high, saturating high *)
Raw == << -10000, -8, 0, 2, 10000 >>
(* raw (pre-sigmoid) parameters of the learned bounds, per output *)
RawMin == << 0, -2, 1, 3, -10000, 10000 >>      \* 3: lower bound above -4, may cross the upper bound; +-10000: saturated raw bound parameters
RawMax == << 0, 1, -1, 2, 10000, -10000 >>

Members(E) == 0 .. (E - 1)

(* ---------------------------------------------------------------- state --- *)
Params(E, O, p) ==
  [ W1 |-> [i \in 1..E |-> [f \in 1..F  |-> [j \in 1..Hd |-> Pick(i * 3 + f * 5 + j * 7 + p)]]],
    b1 |-> [i \in 1..E |-> [j \in 1..Hd |-> Pick(i + j * 2 + p * 3 + 3)]],
    Wm |-> [i \in 1..E |-> [j \in 1..Hd |-> [k \in 1..O |-> Pick(i * 5 + j * 3 + k + p * 2)]]],
    bm |-> [i \in 1..E |-> [k \in 1..O |-> Pick(i * 2 + k * 3 + p + 1)]],
    lb |-> [i \in 1..E |-> [k \in 1..O |-> Raw[((i * 2 + k + p) % Len(Raw)) + 1]]],
    rmin |-> [k \in 1..O |-> RawMin[((k + p) % Len(RawMin)) + 1]],
    rmax |-> [k \in 1..O |-> RawMax[((k * 2 + p) % Len(RawMax)) + 1]],
    off  |-> [k \in 1..O |-> Zero] ]     \* common output offset of the members: none

(* class "agree": every member's mean head is  off[k] + (zero | tiny | shared) weights . hidden.        *)
(*   a % 3 = 1  "equal"   zero output weights: every member predicts exactly off[k]                     *)
(*   a % 3 = 2  "near"    output weights of the order 2^-8: the members differ in the 3rd..5th digit    *)
(*   a % 3 = 0  "copies"  every member is a copy of one member with ordinary output weights             *)
(* offsets >= 50 in magnitude, raw log-variances saturating low (odd a) or saturating low / -8 (even a) *)
OffLat == << I(50), I(-200), I(64), I(100) >>
TinyLat == << Zero, Q(1, 256), Q(-1, 256), Q(1, 128) >>
TinyPick(h) == TinyLat[(h % Len(TinyLat)) + 1]
AgreeKind(a) == IF a % 3 = 1 THEN "equal" ELSE IF a % 3 = 2 THEN "near" ELSE "copies"
AgreeParams(E, O, a) ==
  LET G   == Params(E, O, a)
      knd == AgreeKind(a)
      off == [k \in 1..O |-> OffLat[((k + a) % Len(OffLat)) + 1]]
  IN [ W1 |-> IF knd = "copies" THEN [i \in 1..E |-> G.W1[1]] ELSE G.W1,
       b1 |-> IF knd = "copies" THEN [i \in 1..E |-> G.b1[1]] ELSE G.b1,
       Wm |-> [i \in 1..E |-> [j \in 1..Hd |-> [k \in 1..O |->
                 IF knd = "equal" THEN Zero
                 ELSE IF knd = "near" THEN TinyPick(i * 5 + j * 3 + k + a * 2)
                 ELSE G.Wm[1][j][k]]]],
       bm |-> [i \in 1..E |-> off],
       lb |-> [i \in 1..E |-> [k \in 1..O |->
                 IF a % 2 = 1 \/ knd = "copies" THEN -10000
                 ELSE IF (i + k) % 2 = 0 THEN -10000 ELSE -8]],
       rmin |-> G.rmin, rmax |-> G.rmax,
       off  |-> off ]

Row(xp, r, s) == [f \in 1..F |-> Pick(xp * 3 + r * 5 + f * 2 + s * 7)]

(* 32-bit safe sums: add over the least common denominator (Exact.QAdd multiplies denominators) *)
SAdd(a, b) == LET g == GCD(a[2], b[2])
              IN Norm(a[1] * (b[2] \div g) + b[1] * (a[2] \div g), (a[2] \div g) * b[2])
SSub(a, b) == SAdd(a, QNeg(b))
RECURSIVE SSumTo(_, _)
SSumTo(s, k) == IF k = 0 THEN Zero ELSE SAdd(SSumTo(s, k - 1), s[k])
SSum(s)  == SSumTo(s, Len(s))
SMean(s) == QDiv(SSum(s), I(Len(s)))
SLe(a, b) == SSub(b, a)[1] >= 0
SMax(a, b) == IF SLe(a, b) THEN b ELSE a
RECURSIVE SMaxTo(_, _)
SMaxTo(s, k) == IF k = 1 THEN s[1] ELSE SMax(SMaxTo(s, k - 1), s[k])
SMaxSeq(s) == SMaxTo(s, Len(s))

(* ------------------------------------------------------ GaussianMLP.__call__ *)
Relu(q) == QMax(Zero, q)
Dot(n, a(_), b(_)) == SSum([t \in 1..n |-> QMul(a(t), b(t))])
Hidden(P, i, x) == [j \in 1..Hd |-> Relu(SAdd(Dot(F, LAMBDA f : x[f], LAMBDA f : P.W1[i][f][j]), P.b1[i][j]))]
MeanOf(P, i, x, O) == LET h == Hidden(P, i, x)
                      IN [k \in 1..O |-> SAdd(Dot(Hd, LAMBDA j : h[j], LAMBDA j : P.Wm[i][j][k]), P.bm[i][k])]
(* raw head value of output k soft-clamped with the bounds of output k *)
LogVarOf(P, i, O) == [k \in 1..O |-> [raw |-> P.lb[i][k], out |-> k]]

(* learned bounds: Lo_k = -20 + 20 sigmoid(rmin[k]) in (-20, 0), Hi_k = -4 + 9 sigmoid(rmax[k]) in (-4, 5); *)
(* sigmoid is uninterpreted: only its range and monotonicity are used (D4)                          *)
LoRange == << -20, 0 >>
HiRange == << -4, 5 >>
OrderOf(seq, v) == Cardinality({t \in 1..Len(seq) : seq[t] < v})   \* rank of v = number of smaller entries of seq

(* ------------------------------------------- GaussianMLPEnsemble.__call__ --- *)
(* rows : Seq of input vectors, the same for every member (x.ndim = 2)        *)
Joint(P, E, O, rows) ==
  [ mean   |-> [i \in 1..E |-> [r \in 1..Len(rows) |-> MeanOf(P, i, rows[r], O)]],
    logvar |-> [i \in 1..E |-> [r \in 1..Len(rows) |-> LogVarOf(P, i, O)]],
    shape  |-> << E, Len(rows), O >> ]
(* xs : one batch per member (x.ndim = 3), as used by train_epoch              *)
JointPerMember(P, E, O, xs) ==
  [ mean   |-> [i \in 1..E |-> [r \in 1..Len(xs[i]) |-> MeanOf(P, i, xs[i][r], O)]],
    logvar |-> [i \in 1..E |-> [r \in 1..Len(xs[i]) |-> LogVarOf(P, i, O)]],
    shape  |-> << E, Len(xs[1]), O >> ]

(* __call__ accepts a batch (rank 2) or one batch per member (rank 3); a single vector (rank 1) *)
(* is rejected loudly (ValueError) - member views of a vector are slices of the 1-row batch   *)
CallAccepts(rank) == rank \in {2, 3}

(* -------------------------------- base_predict / base_distribution (views) --- *)
BatchShape(kind, n) == IF kind = "vector" THEN << >> ELSE << n >>
(* deviation "vector_row0": on a single vector every output's bound is applied *)
(* to the raw value of output 1 (what row 0 of the (O,O) scale holds)         *)
MemberLogVar(J, i, r, kind) ==
  IF Dev = "vector_row0" /\ kind = "vector"
  THEN [k \in 1..Len(J.logvar[i][r]) |-> [raw |-> J.logvar[i][r][1].raw, out |-> k]]
  ELSE J.logvar[i][r]
Member(J, i, kind, O) ==
  LET n == J.shape[2] IN
  [ mean      |-> IF kind = "vector" THEN J.mean[i][1] ELSE J.mean[i],
    logvar    |-> IF kind = "vector" THEN MemberLogVar(J, i, 1, kind)
                  ELSE [r \in 1..n |-> MemberLogVar(J, i, r, kind)],
    meanShape |-> BatchShape(kind, n) \o << O >>,
    varShape  |-> IF Dev = "outer_var" THEN BatchShape(kind, n) \o << O, O >>
                  ELSE BatchShape(kind, n) \o << O >>,
    batchShape |-> BatchShape(kind, n),      \* of the distribution
    eventShape |-> << O >> ]

(* ------------------------------------------------------------- aggregate --- *)
QVarPop(s) == LET m == SMean(s) IN SMean([t \in 1..Len(s) |-> QSq(SSub(s[t], m))])
(* means, vs : Seq over members of rationals (one row, one output) *)
AggMean(means) == SMean(means)
(* deviation "uncentred_epistemic": the second moment of the member means instead of their variance *)
AggEpistemic(means) == IF Dev = "no_epistemic" THEN Zero
                       ELSE IF Dev = "uncentred_epistemic" THEN SMean([t \in 1..Len(means) |-> QSq(means[t])])
                       ELSE QVarPop(means)
AggVar(means, vs) == SAdd(SMean(vs), AggEpistemic(means))
(* moments of the uniform mixture of the member Gaussians (independent formulation) *)
MixtureVar(means, vs) ==
  SSub(SMean([t \in 1..Len(means) |-> SAdd(vs[t], QSq(means[t]))]), QSq(SMean(means)))

(* abstract member variance used for MODEL CHECKING only: monotone image of the raw value *)
VarAbs(raw) == CASE raw = -10000 -> Q(1, 16) [] raw = -8 -> Q(1, 4) [] raw = 0 -> One
                 [] raw = 2 -> I(2) [] OTHER -> I(4)

Aggregate(J, E, O) ==
  LET n == J.shape[2] IN
  [ mean  |-> [r \in 1..n |-> [k \in 1..O |-> AggMean([i \in 1..E |-> J.mean[i][r][k]])]],
    (* var[r][k] = vcoef * SUM_i V[i][k] + epi[r][k], V[i][k] = exp(logvar of member i, output k) *)
    epi   |-> [r \in 1..n |-> [k \in 1..O |-> AggEpistemic([i \in 1..E |-> J.mean[i][r][k]])]],
    (* conditioning of the two-term formula (for the counted rounding bound of the binding): the largest  *)
    (* member mean in magnitude and the largest distance of a member mean from the aggregate mean         *)
    maxabs |-> [r \in 1..n |-> [k \in 1..O |-> SMaxSeq([i \in 1..E |-> QAbs(J.mean[i][r][k])])]],
    dev   |-> [r \in 1..n |-> [k \in 1..O |->
                 LET ms == [i \in 1..E |-> J.mean[i][r][k]]
                 IN SMaxSeq([i \in 1..E |-> QAbs(SSub(ms[i], SMean(ms)))])]],
    vcoef |-> Q(1, E),
    shape |-> << n, O >> ]

(* --------------------------------------------------------- staged choice --- *)
Init == stage = 0 /\ cfg = << >> /\ par = << >> /\ inp = << >> /\ mem = -1

ChooseConfig == /\ stage = 0
                /\ \/ \E e \in Es, o \in Os : cfg' = [E |-> e, O |-> o, cls |-> "generic"]
                   \/ \E c \in ACfgs : cfg' = [E |-> c \div 10, O |-> c % 10, cls |-> "agree"]
                /\ stage' = 1 /\ UNCHANGED <<par, inp, mem>>

(* agree patterns are numbered 100 + a *)
ChooseParams == /\ stage = 1
                /\ IF cfg.cls = "generic"
                   THEN \E p \in 1..NPat : par' = [p |-> p] @@ Params(cfg.E, cfg.O, p)
                   ELSE \E a \in 1..NAgree : par' = [p |-> 100 + a] @@ AgreeParams(cfg.E, cfg.O, a)
                /\ stage' = 2 /\ UNCHANGED <<cfg, inp, mem>>

Kinds == {"vector", "batch", "permember"}
ChooseInput ==
  /\ stage = 2
  /\ \E kind \in Kinds, xp \in 1..NXPat :
       \E n \in (IF kind = "vector" THEN {1} ELSE IF cfg.cls = "agree" THEN ANs ELSE {1, 2, 3}) :
         inp' = [kind |-> kind, n |-> n, xp |-> xp,
                 x |-> IF kind = "permember"
                       THEN [i \in 1..cfg.E |-> [r \in 1..n |-> Row(xp, r, i)]]
                       ELSE [r \in 1..n |-> Row(xp, r, 0)]]
  /\ stage' = 3 /\ UNCHANGED <<cfg, par, mem>>

TheJoint == IF inp.kind = "permember" THEN JointPerMember(par, cfg.E, cfg.O, inp.x)
            ELSE Joint(par, cfg.E, cfg.O, inp.x)

LvClass(raw) == IF raw = -10000 THEN "lo" ELSE IF raw = 10000 THEN "softhi" ELSE "mid"
LvRank(raw) == CHOOSE t \in 1..Len(Raw) : Raw[t] = raw

Expected(i) ==
  LET J == TheJoint
      M == Member(J, i + 1, inp.kind, cfg.O)
      A == Aggregate(J, cfg.E, cfg.O)
  IN [ joint_mean |-> J.mean, joint_shape |-> J.shape,
       lvclass |-> [m \in 1..cfg.E |-> [k \in 1..cfg.O |-> LvClass(par.lb[m][k])]],
       lvrank  |-> [m \in 1..cfg.E |-> [k \in 1..cfg.O |-> LvRank(par.lb[m][k])]],
       member_mean |-> M.mean, member_mean_shape |-> M.meanShape, member_var_shape |-> M.varShape,
       dist_batch_shape |-> M.batchShape, dist_event_shape |-> M.eventShape,
       call_accepts_vector |-> CallAccepts(1),
       lo_range |-> LoRange, hi_range |-> HiRange,
       lo_order |-> [k \in 1..cfg.O |-> OrderOf(RawMin, par.rmin[k])],
       hi_order |-> [k \in 1..cfg.O |-> OrderOf(RawMax, par.rmax[k])],
       agg_mean |-> A.mean, agg_epi |-> A.epi, agg_vcoef |-> A.vcoef, agg_shape |-> A.shape,
       agg_maxabs |-> A.maxabs, agg_dev |-> A.dev ]

Emit(i) == EMIT => PrintT(<<"EMIT", ToJson([cfg |-> cfg, par |-> par, inp |-> inp, member |-> i, exp |-> Expected(i)])>>)

ChooseMember == /\ stage = 3
                /\ \E i \in Members(cfg.E) :
                     /\ (inp.kind = "permember" => i = 0)
                     /\ mem' = i
                     /\ Emit(i)
                /\ stage' = 4 /\ UNCHANGED <<cfg, par, inp>>

Next == ChooseConfig \/ ChooseParams \/ ChooseInput \/ ChooseMember
Spec == Init /\ [][Next]_vars

----------------------------------------------------------------------------
(* Properties (C17, consistency part), evaluated on completed vectors *)
Done == stage = 4

(* mean and variance have the model's shape: batch shape x outputs, one variance per output *)
ShapesOK ==
  Done /\ inp.kind # "permember" =>
    LET M == Member(TheJoint, mem + 1, inp.kind, cfg.O)
    IN /\ M.meanShape = BatchShape(inp.kind, inp.n) \o << cfg.O >>
       /\ M.varShape = M.meanShape
       /\ M.batchShape \o M.eventShape = M.meanShape

(* the member view is slice `mem` of the joint pass: same means, and output k's *)
(* log-variance is output k's raw value clamped with output k's bounds        *)
SliceConsistent ==
  Done /\ inp.kind # "permember" =>
    LET J == TheJoint
        M == Member(J, mem + 1, inp.kind, cfg.O)
    IN IF inp.kind = "vector"
       THEN M.mean = J.mean[mem + 1][1] /\ M.logvar = J.logvar[mem + 1][1]
       ELSE M.mean = J.mean[mem + 1] /\ M.logvar = J.logvar[mem + 1]

(* a per-member batch whose members all see the same rows is the plain joint pass *)
PerMemberGeneralisesJoint ==
  Done /\ inp.kind = "batch" =>
    JointPerMember(par, cfg.E, cfg.O, [i \in 1..cfg.E |-> inp.x]) = Joint(par, cfg.E, cfg.O, inp.x)

(* law of total variance: mean of variances + variance of means = variance of the mixture *)
AggregateIsMixtureMoments ==
  Done /\ inp.kind # "permember" /\ cfg.cls = "generic" =>
    LET J == TheJoint IN
    \A r \in 1..J.shape[2], k \in 1..cfg.O :
      LET ms == [i \in 1..cfg.E |-> J.mean[i][r][k]]
          vs == [i \in 1..cfg.E |-> VarAbs(par.lb[i][k])]
      IN /\ AggVar(ms, vs) = MixtureVar(ms, vs)      \* canonical forms
         /\ SLe(SMean(vs), AggVar(ms, vs))

(* the aggregate variance does not depend on a common offset of the member means: it is the same for the *)
(* means measured from the pattern's offset, where it again is the variance of the mixture.  (On the class *)
(* "generic" the offset is zero and this is AggregateIsMixtureMoments; on "agree" the squares of the        *)
(* uncentred means are never formed - they are what a one-pass second-moment formula cancels.)              *)
Shifted(ms, c) == [t \in 1..Len(ms) |-> SSub(ms[t], c)]
AggregateOffsetFree ==
  Done /\ inp.kind # "permember" =>
    LET J == TheJoint IN
    \A r \in 1..J.shape[2], k \in 1..cfg.O :
      LET ms == [i \in 1..cfg.E |-> J.mean[i][r][k]]
          vs == [i \in 1..cfg.E |-> VarAbs(par.lb[i][k])]
          cs == Shifted(ms, par.off[k])
          av == AggVar(ms, vs)
      IN /\ av = AggVar(cs, vs)
         /\ av = MixtureVar(cs, vs)
         /\ SLe(SMean(vs), av)
         /\ (cfg.E = 1 => av = vs[1])      \* one member: the aggregate is that member

(* vacuity guards: generic members really differ; agreeing members are far from zero (>= 32) and agree to 2^-10 of it *)
MembersDiffer == Done /\ cfg.cls = "generic" => \E i, j \in 1..cfg.E : par.bm[i] # par.bm[j] \/ par.Wm[i] # par.Wm[j]
MembersAgreeFarFromZero ==
  Done /\ cfg.cls = "agree" /\ inp.kind # "permember" =>
    LET J == TheJoint IN
    /\ \A r \in 1..J.shape[2], k \in 1..cfg.O :
         LET ms == [i \in 1..cfg.E |-> J.mean[i][r][k]]
             m  == QAbs(SMean(ms))
         IN /\ SLe(I(32), m)
            /\ \A i \in 1..cfg.E : SLe(QMul(I(1024), QAbs(SSub(ms[i], SMean(ms)))), m)
    /\ \A i \in 1..cfg.E, k \in 1..cfg.O : par.lb[i][k] <= -8
    /\ \E i \in 1..cfg.E, k \in 1..cfg.O : par.lb[i][k] = -10000
=============================================================================
