------------------------- MODULE EnsemblePend -------------------------
(* rl_blox.algorithm.pets_reward_models.pendulum_reward - reward model of     *)
(* Gymnasium's Pendulum-v1 from an observation (cos th, sin th, th_dot) and   *)
(* a torque u:                                                                *)
(*   reward = -( angle_normalize(th)^2 + 1/10 th_dot^2 + 1/1000 clip(u,-2,2)^2 ) *)
(* Device D3: on the lattice cos th in {1, 0, -1} the angle is 0, PI/2, PI    *)
(* and the reward is the linear form  c + pisq * PI^2  with rational c, pisq. *)
(* cos components outside [-1, 1] (a model may predict them) are clipped.     *)
EXTENDS Integers, Sequences, FiniteSets, TLC, Json, Exact

CONSTANTS EMIT,
          Dev       \* "none" | "no_clip" (canary)

VARIABLES stage, vec
vars == <<stage, vec>>

Cos  == << One, Zero, I(-1), I(2), Q(-3, 2) >>
Sin  == << Zero, One, Q(-1, 2) >>             \* never used by the model: the cost is even in th
Vel  == << Zero, Q(1, 2), I(-2), I(8) >>
Trq  == << Zero, One, Q(-3, 2), I(2), I(3), Q(-5, 2) >>
MaxTorque == I(2)

Form(c, p) == [c |-> c, pisq |-> p]
(* (theta / PI)^2 at the clipped cosine: theta = arccos(c) *)
AngleSqOverPisq(c) == LET cc == QClip(c, I(-1), One)
                      IN IF cc = One THEN Zero ELSE IF cc = Zero THEN Q(1, 4) ELSE One    \* cc = -1
ClipTorque(u) == IF Dev = "no_clip" THEN u ELSE QClip(u, QNeg(MaxTorque), MaxTorque)
Reward(c, sn, v, u) ==
  LET uc == ClipTorque(u)
  IN Form(QNeg(QAdd(QMul(Q(1, 10), QSq(v)), QMul(Q(1, 1000), QSq(uc)))), QNeg(AngleSqOverPisq(c)))

Init == stage = 0 /\ vec = << >>
ChooseObs == /\ stage = 0
             /\ \E ci \in 1..Len(Cos), si \in 1..Len(Sin), vi \in 1..Len(Vel) : vec' = [c |-> Cos[ci], s |-> Sin[si], v |-> Vel[vi]]
             /\ stage' = 1
ChooseTorque == /\ stage = 1
                /\ \E ui \in 1..Len(Trq) : vec' = vec @@ [u |-> Trq[ui]]
                /\ stage' = 2
                /\ EMIT => PrintT(<<"EMIT", ToJson([vec |-> vec', exp |-> Reward(vec'.c, vec'.s, vec'.v, vec'.u)])>>)
Next == ChooseObs \/ ChooseTorque
Spec == Init /\ [][Next]_vars

----------------------------------------------------------------------------
Done == stage = 2
R == Reward(vec.c, vec.s, vec.v, vec.u)
(* rewards are costs: never positive; zero exactly upright, at rest, without torque *)
NonPositive == Done => R.c[1] <= 0 /\ R.pisq[1] <= 0
ZeroIffUprightAtRest ==
  Done => ((R.c = Zero /\ R.pisq = Zero) <=> (QLe(One, vec.c) /\ vec.v = Zero /\ vec.u = Zero))
(* torques beyond the actuator limit cost as much as the limit *)
TorqueSaturates ==
  Done => (QLe(MaxTorque, QAbs(vec.u)) => R = Reward(vec.c, vec.s, vec.v, MaxTorque))
(* the same environment state (th, th_dot) and torque always gives the same reward *)
SinIgnored == Done => \A si \in 1..Len(Sin) : Reward(vec.c, Sin[si], vec.v, vec.u) = R
(* agreement with the environment's own formula at th = 0, PI/2, PI: th^2 = (k/2)^2 PI^2 *)
HalfTurns == Done => LET cc == QClip(vec.c, I(-1), One)
                         k == IF cc = One THEN 0 ELSE IF cc = Zero THEN 1 ELSE 2
                     IN R.pisq = QNeg(Q(k * k, 4))
=============================================================================
