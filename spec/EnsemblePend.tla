------------------------- MODULE EnsemblePend -------------------------
(* rl_blox.algorithm.pets_reward_models.pendulum_reward - reward model of     *)
(* Gymnasium's Pendulum-v1 from an observation (cos th, sin th, th_dot) and   *)
(* a torque u:                                                                *)
(*   reward = -( angle_normalize(th)^2 + 1/10 th_dot^2 + 1/1000 clip(u,-2,2)^2 ) *)
(* Device D3: on the lattice cos th in {1, 0, -1} the angle is 0, PI/2, PI    *)
(* and the reward is the linear form  c + pisq * PI^2  with rational c, pisq. *)
(* cos components outside [-1, 1] (a model may predict them) are clipped.     *)
(*                                                                            *)
(* Three staged machines share the variables:                                 *)
(*   Next       one (observation, torque) pair of the lattice,                 *)
(*   NextBatch  the VECTORISED reward model: a batch of any rank - batch shape  *)
(*              sh, actions sh x 1, observations sh x 3 - is rewarded pointwise *)
(*              and the result has exactly the batch shape sh, whichever of    *)
(*              its axes have length one (BatchReward, OutShape),              *)
(*   NextPlan   rl_blox.algorithm.pets.evaluate_plans WITH this reward model:   *)
(*              S candidate plans x P particles x horizon H; per plan the       *)
(*              particle average of the rewards summed along the imagined      *)
(*              trajectory, each plan charged its OWN torques (PlanValue).      *)
EXTENDS Integers, Sequences, FiniteSets, TLC, Json, Exact

CONSTANTS EMIT,
          Dev,      \* "none" | canaries: "no_clip", "squeeze_all" (NextBatch), "torque_axis_collapsed" (NextPlan)
          Shapes,   \* NextBatch: batch shapes coded as decimal digits (213 = <<2, 1, 3>>, 0 = a single pair), axis lengths 1..9
          Dims,     \* NextPlan: <<S, P, H>> coded as decimal digits SPH
          NPat      \* NextBatch / NextPlan: fill patterns 1..NPat

VARIABLES stage, vec
vars == <<stage, vec>>

Cos  == << One, Zero, I(-1), I(2), Q(-3, 2) >>
Sin  == << Zero, One, Q(-1, 2) >>             \* never used by the model: the cost is even in th
Vel  == << Zero, Q(1, 2), I(-2), I(8) >>
Trq  == << Zero, One, Q(-3, 2), I(2), I(3), Q(-5, 2) >>
MaxTorque == I(2)

Form(c, p) == [c |-> c, pisq |-> p]
(* (theta / PI)^2 at the clipped cosine: theta = arccos(c) *)
AngleSqOverPisq(c) == LET cc == QClip(c, I(-1), One)
                      IN IF cc = One THEN Zero ELSE IF cc = Zero THEN Q(1, 4) ELSE One    \* cc = -1
ClipTorque(u) == IF Dev = "no_clip" THEN u ELSE QClip(u, QNeg(MaxTorque), MaxTorque)
Reward(c, sn, v, u) ==
  LET uc == ClipTorque(u)
  IN Form(QNeg(QAdd(QMul(Q(1, 10), QSq(v)), QMul(Q(1, 1000), QSq(uc)))), QNeg(AngleSqOverPisq(c)))

Init == stage = 0 /\ vec = << >>
ChooseObs == /\ stage = 0
             /\ \E ci \in 1..Len(Cos), si \in 1..Len(Sin), vi \in 1..Len(Vel) : vec' = [c |-> Cos[ci], s |-> Sin[si], v |-> Vel[vi]]
             /\ stage' = 1
ChooseTorque == /\ stage = 1
                /\ \E ui \in 1..Len(Trq) : vec' = vec @@ [u |-> Trq[ui]]
                /\ stage' = 2
                /\ EMIT => PrintT(<<"EMIT", ToJson([vec |-> vec', exp |-> Reward(vec'.c, vec'.s, vec'.v, vec'.u)])>>)
Next == ChooseObs \/ ChooseTorque
Spec == Init /\ [][Next]_vars

----------------------------------------------------------------------------
Done == stage = 2
R == Reward(vec.c, vec.s, vec.v, vec.u)
(* rewards are costs: never positive; zero exactly upright, at rest, without torque *)
NonPositive == Done => R.c[1] <= 0 /\ R.pisq[1] <= 0
ZeroIffUprightAtRest ==
  Done => ((R.c = Zero /\ R.pisq = Zero) <=> (QLe(One, vec.c) /\ vec.v = Zero /\ vec.u = Zero))
(* torques beyond the actuator limit cost as much as the limit *)
TorqueSaturates ==
  Done => (QLe(MaxTorque, QAbs(vec.u)) => R = Reward(vec.c, vec.s, vec.v, MaxTorque))
(* the same environment state (th, th_dot) and torque always gives the same reward *)
SinIgnored == Done => \A si \in 1..Len(Sin) : Reward(vec.c, Sin[si], vec.v, vec.u) = R
(* agreement with the environment's own formula at th = 0, PI/2, PI: th^2 = (k/2)^2 PI^2 *)
HalfTurns == Done => LET cc == QClip(vec.c, I(-1), One)
                         k == IF cc = One THEN 0 ELSE IF cc = Zero THEN 1 ELSE 2
                     IN R.pisq = QNeg(Q(k * k, 4))
----------------------------------------------------------------------------
(* 32-bit safe sums of forms: add over the least common denominator *)
SAdd(a, b) == LET g == GCD(a[2], b[2])
              IN Norm(a[1] * (b[2] \div g) + b[1] * (a[2] \div g), (a[2] \div g) * b[2])
FAdd(f, g) == Form(SAdd(f.c, g.c), SAdd(f.pisq, g.pisq))
FZero == Form(Zero, Zero)
RECURSIVE FSumTo(_, _)
FSumTo(s, k) == IF k = 0 THEN FZero ELSE FAdd(FSumTo(s, k - 1), s[k])
FSum(s)  == FSumTo(s, Len(s))
FMean(s) == LET t == FSum(s) IN Form(QDiv(t.c, I(Len(s))), QDiv(t.pisq, I(Len(s))))

(* the lattice point number h (all four components move with h, at different speeds) *)
ObsAt(h) == [c |-> Cos[(h % Len(Cos)) + 1], s |-> Sin[((h \div 2) % Len(Sin)) + 1], v |-> Vel[((h \div 3 + h) % Len(Vel)) + 1]]
TrqAt(h) == Trq[(h % Len(Trq)) + 1]
(* upright at rest: the reward is the torque cost alone *)
Rest == [c |-> One, s |-> Zero, v |-> Zero]
RewardAt(o, u) == Reward(o.c, o.s, o.v, u)

(* ------------------------------------------------------------- NextBatch --- *)
RECURSIVE DigitsOf(_)
DigitsOf(c) == IF c = 0 THEN << >> ELSE Append(DigitsOf(c \div 10), c % 10)
RECURSIVE Prod(_, _)
Prod(sh, k) == IF k = 0 THEN 1 ELSE Prod(sh, k - 1) * sh[k]
Size(sh) == Prod(sh, Len(sh))
(* entries in row-major order; pattern q: odd q - every entry its own lattice point; even q - all at rest, torques differ *)
BatchObs(sh, q) == [j \in 1..Size(sh) |-> IF q % 2 = 0 THEN Rest ELSE ObsAt(j * 7 + q * 3)]
BatchAct(sh, q) == [j \in 1..Size(sh) |-> TrqAt(j + q)]
(* pendulum_reward(act, obs): pointwise *)
BatchReward(obs, act) == [j \in 1..Len(obs) |-> RewardAt(obs[j], act[j])]
(* shape of the result: the batch shape.  deviation "squeeze_all": every axis of length one is dropped *)
NotOne(d) == d # 1
OutShape(sh) == IF Dev = "squeeze_all" THEN SelectSeq(sh, NotOne) ELSE sh

ChooseShape == /\ stage = 0 /\ \E c \in Shapes : vec' = [shape |-> DigitsOf(c)]
               /\ stage' = 10
FillBatch == /\ stage = 10
             /\ \E q \in 1..NPat :
                  LET sh == vec.shape
                      ob == BatchObs(sh, q)
                      ac == BatchAct(sh, q)
                  IN /\ vec' = [shape |-> sh, q |-> q, obs |-> ob, act |-> ac]
                     /\ EMIT => PrintT(<<"EMIT", ToJson([batch |-> vec', out_shape |-> OutShape(sh), exp |-> BatchReward(ob, ac)])>>)
             /\ stage' = 11
NextBatch == ChooseShape \/ FillBatch

DoneBatch == stage = 11
(* one reward per (action, observation) pair, arranged as the batch: axes of length one are axes like any other *)
BatchShapeKept == DoneBatch => OutShape(vec.shape) = vec.shape /\ Len(BatchReward(vec.obs, vec.act)) = Size(vec.shape)
(* the reward of a pair does not depend on the other pairs of the batch *)
BatchPointwise ==
  DoneBatch => \A j \in 1..Len(vec.obs), j2 \in 1..Len(vec.obs) : j # j2 =>
     BatchReward(vec.obs, [vec.act EXCEPT ![j2] = Zero])[j] = BatchReward(vec.obs, vec.act)[j]

(* -------------------------------------------------------------- NextPlan --- *)
(* plan s applies torque acts[s][t] at step t in every particle; traj[s][p][t], t = 1..H+1, are the imagined observations *)
PlanActs(S, H, q) == [s \in 1..S |-> [t \in 1..H |-> TrqAt(s * 2 + t + q)]]
PlanTraj(S, P, H, q) == [s \in 1..S |-> [p \in 1..P |-> [t \in 1..(H + 1) |->
                           IF q % 3 = 0 THEN Rest ELSE ObsAt(s * 3 + p * 5 + t * 7 + q)]]]
TorqueCost(as) == FSum([t \in 1..Len(as) |-> RewardAt(Rest, as[t])])
(* deviation "torque_axis_collapsed": with ONE particle the particle axis of the broadcast actions is lost and the torque *)
(* term of every plan is charged with the average torque cost of all candidate plans                                       *)
ParticleReturn(A, T, s, p) ==
  LET H == Len(A[s]) IN
  IF Dev = "torque_axis_collapsed" /\ Len(T[s]) = 1
  THEN FAdd(FSum([t \in 1..H |-> RewardAt(T[s][p][t], Zero)]), FMean([s2 \in 1..Len(A) |-> TorqueCost(A[s2])]))
  ELSE FSum([t \in 1..H |-> RewardAt(T[s][p][t], A[s][t])])
PlanValue(A, T) == [s \in 1..Len(A) |-> FMean([p \in 1..Len(T[s]) |-> ParticleReturn(A, T, s, p)])]
CostsDiffer(A) == \E s1 \in 1..Len(A), s2 \in 1..Len(A) : TorqueCost(A[s1]) # TorqueCost(A[s2])

ChoosePlanDims == /\ stage = 0 /\ \E c \in Dims : vec' = [dims |-> << c \div 100, (c \div 10) % 10, c % 10 >>]
                  /\ stage' = 20
FillPlan == /\ stage = 20
            /\ \E q \in 1..NPat :
                 LET S == vec.dims[1]  P == vec.dims[2]  H == vec.dims[3]
                     A == PlanActs(S, H, q)
                     T == PlanTraj(S, P, H, q)
                 IN /\ vec' = [dims |-> vec.dims, q |-> q, acts |-> A, traj |-> T]
                    /\ EMIT => PrintT(<<"EMIT", ToJson([plan |-> vec', costs_differ |-> CostsDiffer(A), exp |-> PlanValue(A, T)])>>)
            /\ stage' = 21
NextPlan == ChoosePlanDims \/ FillPlan

DonePlan == stage = 21
(* a plan's value depends on its own torques only *)
PlanLocalPend ==
  DonePlan => \A s \in 1..Len(vec.acts), s2 \in 1..Len(vec.acts) : s # s2 =>
     PlanValue([vec.acts EXCEPT ![s2][1] = Zero], vec.traj)[s] = PlanValue(vec.acts, vec.traj)[s]
(* with a single particle the value is the plain sum of the rewards of the plan's own torques along its trajectory *)
SingleParticleIsPlainSum ==
  DonePlan /\ vec.dims[2] = 1 => \A s \in 1..Len(vec.acts) :
     PlanValue(vec.acts, vec.traj)[s] = FSum([t \in 1..vec.dims[3] |-> RewardAt(vec.traj[s][1][t], vec.acts[s][t])])
(* the observation reached after the last torque is not rewarded *)
LastObsIgnoredPend ==
  DonePlan => \A s \in 1..Len(vec.acts), p \in 1..vec.dims[2] :
     PlanValue(vec.acts, [vec.traj EXCEPT ![s][p][vec.dims[3] + 1] = ObsAt(1)]) = PlanValue(vec.acts, vec.traj)
(* at rest the value of a plan is its torque cost, whatever the number of particles *)
RestIsTorqueCost ==
  DonePlan /\ vec.q % 3 = 0 => \A s \in 1..Len(vec.acts) : PlanValue(vec.acts, vec.traj)[s] = TorqueCost(vec.acts[s])
=============================================================================
