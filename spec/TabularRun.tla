--------------------------- MODULE TabularRun ---------------------------
(* C14: histories.                                                            *)
(*   ALG = "MC"    monte_carlo.update applied to a sequence of episodes; the  *)
(*                 table entry of every visited pair is the running mean of   *)
(*                 its observed discounted returns (ghost `rets`).  Episodes  *)
(*                 are built step by step (MCStep, every (s, a, r)) or - long *)
(*                 ones, hundreds of steps - by a periodic pattern (MCLong):  *)
(*                 the returns-to-go cycle through a short sequence of dyadic *)
(*                 values and the rewards are derived from them, so that the  *)
(*                 exact returns stay small rationals however long the        *)
(*                 episode and whatever the discount (gamma^t itself is far   *)
(*                 below the float32 range there).                            *)
(*   ALG = "MODEL" dynaq.counter_update + dynaq.model_update after every      *)
(*                 observed transition; the learned model is the empirical    *)
(*                 successor frequency / mean reward of the history (ghost    *)
(*                 `hist`), in particular after two different successors of   *)
(*                 one (s,a).                                                 *)
(* One action per call of the implementation; every transition is emitted     *)
(* ([pre, op, args, exp, post]) and replayed into the real functions.         *)
EXTENDS TabularOps, TLC, Json

CONSTANTS NS, NA,
          ALG,
          GNUM, GDEN,  \* discount GNUM/GDEN, MC only
          MAXLEN,   \* MC: longest episode
          MAXEP,    \* MC: number of episodes;  MODEL: number of observed transitions
          N0,       \* MC: visit count the tables start with (continuing prior training)
          SRC,      \* source states 0..SRC-1 are explored
          LAT,
          LONGLENS, \* MC: lengths of the pattern episodes (MCLong); {} = none
          EMIT

VARIABLES q, n, ep, done, rets,     \* MC: table, visit counts, running episode, episodes done, ghost returns
          cnt, model, hist          \* MODEL: Counter, ForwardModel, ghost history
vars == <<q, n, ep, done, rets, cnt, model, hist>>

GAMMA   == Q(GNUM, GDEN)
States  == 0..(NS - 1)
Sources == 0..(SRC - 1)
Actions == 0..(NA - 1)
Rewards == IF LAT = 0 THEN {Q(-1, 1), Half} ELSE {Q(-1, 1), Half, I(2)}

Q0 == [s \in 1..NS |-> [a \in 1..NA |-> Q(12 + (s - 1) * NA + (a - 1), 4)]]
ZeroN == [s \in 1..NS |-> [a \in 1..NA |-> 0]]
ZeroCnt == [count |-> [s \in 1..NS |-> [a \in 1..NA |-> [x \in 1..NS |-> 0]]],
            rh    |-> [s \in 1..NS |-> [a \in 1..NA |-> [x \in 1..NS |-> <<>>]]]]
ZeroModel == [T |-> [s \in 1..NS |-> [a \in 1..NA |-> [x \in 1..NS |-> Zero]]],
              R |-> [s \in 1..NS |-> [a \in 1..NA |-> [x \in 1..NS |-> Zero]]]]

View == IF ALG = "MC" THEN [q |-> q, n |-> n, ep |-> ep, done |-> done]
        ELSE [count |-> cnt.count, rh |-> cnt.rh, T |-> model.T, R |-> model.R]

EmitX(op, args, exp) ==
  EMIT => PrintT(<<"EMIT", ToJson([pre |-> View, op |-> op, args |-> args, exp |-> exp, post |-> View'])>>)
Emit(op, args) == EmitX(op, args, <<>>)

Init == /\ q = Q0
        /\ n = [s \in 1..NS |-> [a \in 1..NA |-> N0]]
        /\ ep = <<>> /\ done = 0
        /\ rets = [s \in 1..NS |-> [a \in 1..NA |-> <<>>]]
        /\ cnt = ZeroCnt /\ model = ZeroModel /\ hist = <<>>

----------------------------------------------------------------------------
(* Monte-Carlo control *)
MCStep(s, a, r) ==
  /\ ALG = "MC" /\ done < MAXEP /\ Len(ep) < MAXLEN
  /\ ep' = Append(ep, <<s, a, r>>)
  /\ UNCHANGED <<q, n, done, rets, cnt, model, hist>>
  /\ Emit("MCStep", <<s, a, r>>)

(* a long episode by pattern: step t (1-based) visits the pair ps[t mod |ps|]   *)
(* and has the return-to-go cs[t mod |cs|]; hence the reward of step t is      *)
(* G_t - gamma G_(t+1) (G_(T+1) = 0)                                           *)
PatVals  == IF LAT = 0 THEN {Q(-1, 1), Half, I(2)} ELSE {Q(-1, 1), Zero, Half, I(2)}
PatPairs == Sources \X Actions
PatLens  == IF LAT = 0 THEN {1, 2} ELSE {1, 2, 3}
SeqsOver(S, lens) == UNION {[1..k -> S] : k \in lens}
Cyc(seq, t) == seq[((t - 1) % Len(seq)) + 1]
LongEpisodeOf(T, cs, ps) ==
  [t \in 1..T |-> <<Cyc(ps, t)[1], Cyc(ps, t)[2],
                    QSub(Cyc(cs, t), QMul(GAMMA, IF t = T THEN Zero ELSE Cyc(cs, t + 1)))>>]
MCLong(T, cs, ps) ==
  /\ ALG = "MC" /\ done < MAXEP /\ ep = <<>>
  /\ ep' = LongEpisodeOf(T, cs, ps)
  /\ UNCHANGED <<q, n, done, rets, cnt, model, hist>>
  /\ EmitX("MCLong", ep', [T |-> T, returns |-> cs, pairs |-> ps])

RECURSIVE AddReturns(_, _, _, _)
AddReturns(rs, e, R, k) ==   \* in the order the implementation visits them: backward; R = Returns(e, GAMMA)
  IF k = 0 THEN rs
  ELSE AddReturns([rs EXCEPT ![e[k][1] + 1][e[k][2] + 1] = Append(@, R[k])], e, R, k - 1)

(* facts about one episode the binding needs for its comparison: a bound on    *)
(* the magnitude of the returns, and for which entries the arithmetic of the   *)
(* update is rounding-free whatever the number of visits - the pair was never  *)
(* visited before this episode and observes one and the same return at all its *)
(* visits in it (the first visit moves the entry onto that return with step    *)
(* size 1, the others add 0)                                                   *)
EpisodeFacts(e, R) ==
  [gmax  |-> QMaxSeq([k \in 1..Len(e) |-> QAbs(R[k])]),
   exact |-> [s \in 1..NS |-> [a \in 1..NA |->
               LET V == {k \in 1..Len(e) : e[k][1] = s - 1 /\ e[k][2] = a - 1}
               IN  V # {} /\ n[s][a] = 0 /\ Cardinality({R[k] : k \in V}) = 1]]]

MCEnd ==
  /\ ALG = "MC" /\ Len(ep) > 0
  /\ LET res == MCEpisode(q, n, ep, GAMMA)
     IN  q' = res[1] /\ n' = res[2]
  /\ LET R == Returns(ep, GAMMA)
     IN  /\ rets' = AddReturns(rets, ep, R, Len(ep))
         /\ ep' = <<>> /\ done' = done + 1
         /\ UNCHANGED <<cnt, model, hist>>
         /\ EmitX("MCEnd", <<GAMMA>>, EpisodeFacts(ep, R))

(* Dyna-Q model learning *)
Observe(s, a, r, s2) ==
  /\ ALG = "MODEL" /\ Len(hist) < MAXEP
  /\ cnt' = CounterUpdate(cnt, s, a, r, s2)
  /\ model' = ModelUpdate(model, cnt', s, a, s2)
  /\ hist' = Append(hist, <<s, a, r, s2>>)
  /\ UNCHANGED <<q, n, ep, done, rets>>
  /\ Emit("Observe", <<s, a, r, s2>>)

Next == \/ \E s \in Sources, a \in Actions, r \in Rewards : MCStep(s, a, r)
        \/ \E T \in LONGLENS, cs \in SeqsOver(PatVals, PatLens), ps \in SeqsOver(PatPairs, PatLens) : MCLong(T, cs, ps)
        \/ MCEnd
        \/ \E s \in Sources, a \in Actions, r \in Rewards, s2 \in States : Observe(s, a, r, s2)
Spec == Init /\ [][Next]_vars

----------------------------------------------------------------------------
(* Properties *)

(* every entry is the mean of N0 prior observations of its initial value and  *)
(* the returns observed since; an unvisited entry is unchanged                *)
MCMean ==
  ALG = "MC" =>
    \A s \in States, a \in Actions :
      LET rs == rets[s + 1][a + 1]
          k  == Len(rs)
      IN /\ n[s + 1][a + 1] = N0 + k
         /\ IF k = 0 THEN At(q, s, a) = At(Q0, s, a)
            ELSE At(q, s, a) = QDiv(QAdd(QMul(I(N0), At(Q0, s, a)), QSum(rs)), I(N0 + k))

(* empirical frequencies and mean rewards of the ghost history *)
Occ(s, a, x) == {i \in 1..Len(hist) : hist[i][1] = s /\ hist[i][2] = a /\ hist[i][4] = x}
OccAny(s, a) == {i \in 1..Len(hist) : hist[i][1] = s /\ hist[i][2] = a}
RECURSIVE SumRewards(_)
SumRewards(is) == IF is = {} THEN Zero
                  ELSE LET i == CHOOSE j \in is : TRUE IN QAdd(hist[i][3], SumRewards(is \ {i}))
ModelIsEmpirical ==
  ALG = "MODEL" =>
    \A s \in States, a \in Actions, x \in States :
      /\ model.T[s + 1][a + 1][x + 1] =
           (IF OccAny(s, a) = {} THEN Zero ELSE Q(Cardinality(Occ(s, a, x)), Cardinality(OccAny(s, a))))
      /\ model.R[s + 1][a + 1][x + 1] =
           (IF Occ(s, a, x) = {} THEN Zero ELSE QDiv(SumRewards(Occ(s, a, x)), I(Cardinality(Occ(s, a, x)))))
(* rows of the transition model are probability vectors (or untouched) *)
RowsNormalised ==
  ALG = "MODEL" =>
    \A s \in States, a \in Actions :
      QSum(model.T[s + 1][a + 1]) = (IF OccAny(s, a) = {} THEN Zero ELSE One)

----------------------------------------------------------------------------
(* deviation canaries *)
ObserveEntryOnly(s, a, r, s2) ==      \* model_update rewrites only the (s,a,s2) entry
  /\ ALG = "MODEL" /\ Len(hist) < MAXEP
  /\ cnt' = CounterUpdate(cnt, s, a, r, s2)
  /\ model' = ModelUpdateEntryOnly(model, cnt', s, a, s2)
  /\ hist' = Append(hist, <<s, a, r, s2>>)
  /\ UNCHANGED <<q, n, ep, done, rets>>

RECURSIVE MCBackOffByOne(_, _, _, _, _, _)
MCBackOffByOne(qq, nn, G, e, k, gamma) ==    \* step size 1/(visits before this one + ... ) taken before counting
  IF k = 0 THEN <<qq, nn>>
  ELSE LET s  == e[k][1]
           a  == e[k][2]
           G2 == QAdd(e[k][3], QMul(gamma, G))
           n2 == [nn EXCEPT ![s + 1][a + 1] = @ + 1]
           q2 == Put(qq, s, a, QAdd(At(qq, s, a), QMul(QDiv(One, I(n2[s + 1][a + 1] + 1)), QSub(G2, At(qq, s, a)))))
       IN  MCBackOffByOne(q2, n2, G2, e, k - 1, gamma)
MCEndOffByOne ==
  /\ ALG = "MC" /\ Len(ep) > 0
  /\ LET res == MCBackOffByOne(q, n, Zero, ep, Len(ep), GAMMA)
     IN  q' = res[1] /\ n' = res[2]
  /\ rets' = AddReturns(rets, ep, Returns(ep, GAMMA), Len(ep))
  /\ ep' = <<>> /\ done' = done + 1
  /\ UNCHANGED <<cnt, model, hist>>

(* "returns by discounted cumulative sum": G_t = (sum_(k >= t) gamma^k r_k) / gamma^t - undefined as soon as *)
(* gamma^t = 0 (gamma = 0 beyond the first step; in float32 also when gamma^t underflows).  The model of      *)
(* this deviation leaves the return at such steps at 0 (any value but the true one refutes MCMean).           *)
RECURSIVE QPow(_, _)
QPow(x, k) == IF k = 0 THEN One ELSE QMul(x, QPow(x, k - 1))
RECURSIVE MCBackCumsum(_, _, _, _, _)
MCBackCumsum(qq, nn, acc, e, k) ==
  IF k = 0 THEN <<qq, nn>>
  ELSE LET s   == e[k][1]
           a   == e[k][2]
           d   == QPow(GAMMA, k - 1)
           ac2 == QAdd(acc, QMul(d, e[k][3]))
           G   == IF d = Zero THEN Zero ELSE QDiv(ac2, d)
           n2  == [nn EXCEPT ![s + 1][a + 1] = @ + 1]
           q2  == Put(qq, s, a, QAdd(At(qq, s, a), QMul(QDiv(One, I(n2[s + 1][a + 1])), QSub(G, At(qq, s, a)))))
       IN  MCBackCumsum(q2, n2, ac2, e, k - 1)
MCEndCumsum ==
  /\ ALG = "MC" /\ Len(ep) > 0
  /\ LET res == MCBackCumsum(q, n, Zero, ep, Len(ep))
     IN  q' = res[1] /\ n' = res[2]
  /\ rets' = AddReturns(rets, ep, Returns(ep, GAMMA), Len(ep))
  /\ ep' = <<>> /\ done' = done + 1
  /\ UNCHANGED <<cnt, model, hist>>
NextBadCumsum == \/ \E s \in Sources, a \in Actions, r \in Rewards : MCStep(s, a, r)
                 \/ MCEndCumsum

NextBad == \/ \E s \in Sources, a \in Actions, r \in Rewards : MCStep(s, a, r)
           \/ MCEndOffByOne
           \/ \E s \in Sources, a \in Actions, r \in Rewards, s2 \in States : ObserveEntryOnly(s, a, r, s2)
=============================================================================
