--------------------------- MODULE Numerics ---------------------------
(* C18 - numeric building blocks of rl_blox, transcribed on exact rationals   *)
(* (device D2, spec/Exact.tla):                                                *)
(*   blox/preprocessing.py   two_hot_encoding, two_hot_decoding,               *)
(*                           two_hot_cross_entropy_loss                        *)
(*   blox/losses.py          huber_loss, masked_mse_loss                       *)
(*   blox/function_approximator/norm.py   avg_l1_norm                          *)
(*   blox/schedules.py       linear_schedule                                   *)
(* (make_two_hot_bins: order predicates on float32 ordinals, NumericsBins.tla) *)
(*                                                                            *)
(* The "state machine" is the staged choice of one test vector per family     *)
(* (fam): Init chooses nothing, Choose... actions fill the vector in, the     *)
(* action that completes a vector emits <<inputs, expected outputs>>.  The    *)
(* clauses of C18 are invariants over the completed vectors.                  *)
EXTENDS Exact, FiniteSets, TLC, Json

CONSTANTS EMIT,     \* TRUE: print one EMIT record per completed vector
          FAMS,     \* families explored: subset of {"twohot","ce","huber","mse","avgl1","sched"}
          DEV,      \* "none", or the name of a deviation (canary) that TLC must refute
          WIDE,     \* TRUE: also bins whose range exceeds 1e8 (regression: former finite sentinel)
          IOTA,     \* set of n: also the order-isomorphic bins <<0,1,..,n-1>> (bound to make_two_hot_bins)
          MaxT,     \* linear_schedule: total_timesteps in 1..MaxT
          MaxCE,    \* cross-entropy on bins with at most MaxCE edges
          MaxSat,   \* saturated cross-entropy on bins with at most MaxSat edges
          MaxMSE,   \* masked_mse_loss: shapes (n,m) with n*m <= MaxMSE
          NPairs    \* masked_mse_loss: number of (prediction,target) pairs per entry

VARIABLES fam,      \* family of the vector under construction ("none" initially)
          stage,    \* how far it has been filled in
          p         \* the vector (record; fields depend on fam)
vars == <<fam, stage, p>>

Emit(op, args, exp) == EMIT => PrintT(<<"EMIT", ToJson([op |-> op, args |-> args, exp |-> exp])>>)

RECURSIVE IsPow2(_)
IsPow2(n) == n = 1 \/ (n > 1 /\ n % 2 = 0 /\ IsPow2(n \div 2))
Dyadic(q) == IsPow2(q[2])                       \* exactly representable (small numerators)
AllDyadic(s) == \A k \in 1..Len(s) : Dyadic(s[k])

(* balanced sum (recursion depth log n: bins of 101 edges) *)
RECURSIVE BSumRange(_, _, _)
BSumRange(s, a, b) == IF a > b THEN Zero ELSE IF a = b THEN s[a]
                      ELSE LET mid == (a + b) \div 2 IN QAdd(BSumRange(s, a, mid), BSumRange(s, mid + 1, b))
BSum(s) == BSumRange(s, 1, Len(s))

Init == fam = "none" /\ stage = 0 /\ p = <<>>

----------------------------------------------------------------------------
(* two_hot_encoding / two_hot_decoding (preprocessing.py:41-96)               *)

BIG == 100000000   \* 1e8: the finite sentinel of the former two_hot_encoding; also the scale of the default eps

(* the definition: lower edge = largest bin strictly below x, or the first bin *)
StrictlyBelow(b, x) == IF DEV = "twohot_at_or_below" THEN QLe(b, x) ELSE QLt(b, x)
(* largest index in a..b whose bin is strictly below x, 0 if none (balanced scan) *)
RECURSIVE LastBelow(_, _, _, _)
LastBelow(bins, x, a, b) ==
  IF a = b THEN (IF StrictlyBelow(bins[a], x) THEN a ELSE 0)
  ELSE LET mid == (a + b) \div 2
           r == LastBelow(bins, x, mid + 1, b)
       IN IF r # 0 THEN r ELSE LastBelow(bins, x, a, mid)
LowerIdx(bins, x) == LET k == LastBelow(bins, x, 1, Len(bins)) IN IF k = 0 THEN 1 ELSE k
UpperIdx(bins, lo) == IF lo + 1 > Len(bins) THEN Len(bins) ELSE lo + 1     \* clip(ind_lo + 1, 0, n - 1)
Weight(bins, x, lo, up) == QDiv(QSub(x, bins[lo]), QSub(bins[up], bins[lo]))
(* two .at[].set() in the order of the code: 1 - weight at ind_lo, then weight *)
(* at ind_up (the later write wins where both indices coincide)               *)
TwoHotAt(bins, x, lo, up, w) ==
  [k \in 1..Len(bins) |-> IF k = up THEN w ELSE IF k = lo THEN QSub(One, w) ELSE Zero]
TwoHot(bins, x) ==
  LET lo == LowerIdx(bins, x)
      up == UpperIdx(bins, lo)
  IN <<>> \o TwoHotAt(bins, x, lo, up, Weight(bins, x, lo, up))   \* (\o: evaluate once, as a tuple)
Decode(bins, row) == BSum([k \in 1..Len(bins) |-> QMul(row[k], bins[k])])

(* the mechanism of the code: diff = x - bins; where(diff > 0, diff, inf);      *)
(* argmin (first minimiser).  A masked difference is <<1, 0>> (infinite) or   *)
(* <<0, diff>>.                                                               *)
(* Deviation "twohot_sentinel_1e8" (the former code, known finding            *)
(* two_hot_encoding:bin_range_exceeds_1e8_sentinel): diff - 1e8*(sign(diff)-1) *)
(* with the finite sentinel BIG, kept as <<integer part, fractional part>> so *)
(* that TLC's 32-bit integers suffice; TLC refutes it on the wide bins.       *)
Penalised(d) == IF DEV = "twohot_sentinel_1e8"
                THEN LET fl == d[1] \div d[2]
                     IN <<fl - BIG * (QSign(d) - 1), <<d[1] - fl * d[2], d[2]>>>>
                ELSE IF QSign(d) > 0 THEN <<0, d>> ELSE <<1, Zero>>
PenLt(a, b) == a[1] < b[1] \/ (a[1] = b[1] /\ QLt(a[2], b[2]))
RECURSIVE ArgminFirst(_, _, _)
ArgminFirst(pen, a, b) ==
  IF a = b THEN a
  ELSE LET mid == (a + b) \div 2
           l == ArgminFirst(pen, a, mid)
           r == ArgminFirst(pen, mid + 1, b)
       IN IF PenLt(pen[r], pen[l]) THEN r ELSE l      \* ties: the first index, as jnp.argmin
MaskedArgmin(bins, x) ==
  ArgminFirst(<<>> \o [k \in 1..Len(bins) |-> Penalised(QSub(x, bins[k]))], 1, Len(bins))
Range(bins) == QSub(bins[Len(bins)], bins[1])
SentinelAdequate(bins) == QLe(Range(bins), I(BIG))   \* the bin range would fit under the former 1e8 sentinel

P26 == 67108864
P27 == 134217728
P28 == 268435456
SmallBins == { <<I(0), I(1)>>,
               <<I(-1), I(0), I(1)>>,
               <<I(-3), I(-1)>>,
               <<Q(1,4), Q(1,2), Q(3,4)>>,
               <<I(-4), I(-1), I(0), I(1), I(4)>>,
               <<I(-2), Q(-1,2), I(0), Q(1,4), I(1), I(3)>>,
               <<I(0), Q(1,2), I(1), I(2), I(4), I(8), I(16)>>,
               <<I(-8), I(-4), I(-2), I(-1), I(0), I(1), I(2), I(4), I(8)>> }
WideBins  == { <<I(-P28), I(0), I(P28)>>,
               <<I(-P27), I(P27)>>,
               <<I(0), I(P27), I(P28)>>,
               <<I(-P28), I(-P27), I(0), I(P26), I(P28)>> }
Iota(n) == [k \in 1..n |-> I(k - 1)]
IsIota(b) == b = Iota(Len(b))
TwoHotBins == SmallBins \cup (IF WIDE THEN WideBins ELSE {}) \cup {Iota(n) : n \in IOTA}
AllWeights == {Zero, Q(1,8), Q(1,4), Q(1,3), Half, Q(2,3), Q(3,4), One}
WeightsFor(b) == IF Len(b) > 9 THEN {Zero, Half, One}
                 ELSE IF ~SentinelAdequate(b) THEN {Zero, Q(1,4), Half, One}
                 ELSE AllWeights

ChooseBins(b) == /\ fam = "none" /\ "twohot" \in FAMS
                 /\ fam' = "twohot" /\ stage' = 1 /\ p' = [bins |-> b]

(* x on and between the edges, both extremes included; only float32-exact x. *)
(* (\E v \in {e} binds the evaluated e: TLC would re-evaluate a LET per use) *)
ChooseX(k, w) ==
  /\ fam = "twohot" /\ stage = 1
  /\ \E b \in {p.bins} : \E x \in {QAdd(b[k], QMul(w, QSub(b[k + 1], b[k])))} : \E row \in {TwoHot(b, x)} :
        /\ Dyadic(x)
        /\ fam' = fam /\ stage' = 2 /\ p' = [bins |-> b, x |-> x]
        /\ Emit("TwoHot",
                [bins |-> b, x |-> x, sentinel_ok |-> SentinelAdequate(b), iota |-> IsIota(b)],
                [row |-> row, dec |-> Decode(b, row), lo |-> LowerIdx(b, x) - 1,
                 support |-> {k2 - 1 : k2 \in {j \in 1..Len(b) : row[j][1] # 0}},
                 ulps |-> IF AllDyadic(row) THEN 0 ELSE 4])

TH == fam = "twohot" /\ stage >= 2
SupportOf(row) == {k \in 1..Len(row) : row[k][1] # 0}
TwoHotNonNeg == TH => \E row \in {TwoHot(p.bins, p.x)} : \A k \in 1..Len(row) : QLe(Zero, row[k]) /\ row[k][2] > 0
TwoHotSumOne == TH => \E row \in {TwoHot(p.bins, p.x)} : QEq(BSum(row), One)
TwoHotAtMostTwoAdjacent == TH => \E sup \in {SupportOf(TwoHot(p.bins, p.x))} :
                                   /\ Cardinality(sup) \in {1, 2}
                                   /\ \A i, j \in sup : Abs(i - j) <= 1
TwoHotDecodeInverts == TH => \E row \in {TwoHot(p.bins, p.x)} : QEq(Decode(p.bins, row), p.x)
TwoHotEdgeIsOneHot == TH => \E row \in {TwoHot(p.bins, p.x)} :
                             \A k \in 1..Len(row) : QEq(p.x, p.bins[k]) => (SupportOf(row) = {k} /\ row[k] = One)
TwoHotBetweenIsTwoHot == TH => \E sup \in {SupportOf(TwoHot(p.bins, p.x))} :
                                \A k \in 1..(Len(p.bins) - 1) :
                                  (QLt(p.bins[k], p.x) /\ QLt(p.x, p.bins[k + 1])) => sup = {k, k + 1}
(* the masked-argmin search of the code finds the lower edge of the definition, *)
(* for every bin range (the wide bins included)                                *)
TwoHotMechanismSound == TH => MaskedArgmin(p.bins, p.x) = LowerIdx(p.bins, p.x)

----------------------------------------------------------------------------
(* two_hot_cross_entropy_loss (preprocessing.py:99-129), device D3:           *)
(* logits z_i = c + lv_i * LN2 with lv_i in {0,1}.  Then                       *)
(*   logsumexp(z) = c + LN(S),  S = sum_i 2^lv_i,                              *)
(*   log_softmax_i = lv_i * LN2 - LN(S),                                       *)
(*   CE = - sum_i t_i * log_softmax_i = (sum_i t_i) * LN(S) - (sum_i t_i lv_i) * LN2 *)
(* The loss is a linear form <<<<S, a>>, <<2, b>>>> = a * LN(S) + b * LN(2).  *)
Offsets == {Zero, One, I(-2)}
SumExp(lv) == LET RECURSIVE Acc(_)
                  Acc(k) == IF k = 0 THEN 0 ELSE Acc(k - 1) + (IF lv[k] = 1 THEN 2 ELSE 1)
              IN Acc(Len(lv))
CrossEntropy(bins, lv, x) ==
  LET t == TwoHot(bins, x)
  IN << <<SumExp(lv), BSum(t)>>,
        <<2, QNeg(BSum([k \in 1..Len(bins) |-> QMul(t[k], I(lv[k]))]))>> >>

ChooseLogits(lv, c) ==
  /\ fam = "twohot" /\ stage = 2 /\ "ce" \in FAMS
  /\ Len(p.bins) <= MaxCE /\ SentinelAdequate(p.bins)
  /\ fam' = fam /\ stage' = 3 /\ p' = [bins |-> p.bins, x |-> p.x, lv |-> lv, c |-> c]
  /\ Emit("CrossEntropy", [bins |-> p.bins, x |-> p.x, lv |-> lv, c |-> c],
          [form |-> CrossEntropy(p.bins, lv, p.x)])

CEV == fam = "twohot" /\ stage = 3
CEForm == CrossEntropy(p.bins, p.lv, p.x)
(* uniform logits: CE = LN(n), whatever the target *)
CEUniformIsLnN == (CEV /\ \A k \in 1..Len(p.lv) : p.lv[k] = 0) => CEForm = << <<Len(p.bins), One>>, <<2, Zero>> >>
(* in general: exactly one LN(S), and between zero and one LN2 subtracted *)
CECoefficients == CEV => /\ CEForm[1][2] = One
                         /\ QLe(I(-1), CEForm[2][2]) /\ QLe(CEForm[2][2], Zero)

(* Saturated logits (D3): z_i = c - g_i with integer gaps g_i in {0, G1, G2},  *)
(* G in {16, 40, 100}, at least one g_i = 0; H = number of bins with g_i = 0.  *)
(*   logsumexp(z) = c + LN(H) + log(1 + sum_{g_i > 0} e^-g_i / H)               *)
(*   log_softmax_i = - g_i - LN(H) - (the same last term)                      *)
(* The last term lies in [0, sum_{g_i>0} EXP(-g_i) / H] (<= 9e-7, far below one  *)
(* float32 ulp of G); it is emitted as `slack` and allowed in the comparison.  *)
(*   CE = sum_i t_i g_i + (sum_i t_i) * LN(H)  (+ slack)                        *)
(* i.e. a rational plus one LN: a target on the low-probability bins costs the *)
(* full gap, however large - log-probabilities are not floored.               *)
GapSets == {<<16, 40>>, <<40, 100>>, <<100, 16>>}
SatOffsets == {Zero, I(3)}
SatLevels(n) == IF n <= 3 THEN {0, 1, 2} ELSE {0, 1}
LOGEPSCAP == 19      \* deviation "ce_log_eps": log(softmax + 1e-8) >= ln(1e-8) = -18.42 > -19
NominalGap(gp, gs, k) == IF gp[k] = 0 THEN 0 ELSE gs[gp[k]]
EffectiveGap(gp, gs, k) == IF DEV = "ce_log_eps" /\ NominalGap(gp, gs, k) > LOGEPSCAP THEN LOGEPSCAP
                           ELSE NominalGap(gp, gs, k)
HighBins(gp) == {k \in 1..Len(gp) : gp[k] = 0}
SatCrossEntropy(bins, gp, gs, x) ==
  LET t == TwoHot(bins, x)
  IN [const |-> BSum([k \in 1..Len(bins) |-> QMul(t[k], I(EffectiveGap(gp, gs, k)))]),
      ln |-> <<Cardinality(HighBins(gp)), BSum(t)>>,
      slack |-> [high |-> Cardinality(HighBins(gp)),
                 low |-> <<<<gs[1], Cardinality({k \in 1..Len(gp) : gp[k] = 1})>>,
                           <<gs[2], Cardinality({k \in 1..Len(gp) : gp[k] = 2})>>>>]]

ChooseGaps(gp, gs, c) ==
  /\ fam = "twohot" /\ stage = 2 /\ "ce" \in FAMS
  /\ Len(p.bins) <= MaxSat /\ SentinelAdequate(p.bins)
  /\ fam' = fam /\ stage' = 4 /\ p' = [bins |-> p.bins, x |-> p.x, gp |-> gp, gs |-> gs, c |-> c]
  /\ Emit("CrossEntropySat",
          [bins |-> p.bins, x |-> p.x, gaps |-> [k \in 1..Len(gp) |-> NominalGap(gp, gs, k)], c |-> c],
          SatCrossEntropy(p.bins, gp, gs, p.x))

SATV == fam = "twohot" /\ stage = 4
SatSupport == SupportOf(TwoHot(p.bins, p.x))
SatConst == SatCrossEntropy(p.bins, p.gp, p.gs, p.x).const
(* target on the high-probability bins: CE = LN(#high) *)
CESatOnHighIsLnH == (SATV /\ SatSupport \subseteq HighBins(p.gp)) =>
                      SatConst = Zero
(* target entirely on bins of one gap g: CE = g + LN(#high), whatever g *)
CESatPaysFullGap == SATV => \A k \in SatSupport :
                      (\A j \in SatSupport : NominalGap(p.gp, p.gs, j) = NominalGap(p.gp, p.gs, k))
                      => SatConst = I(NominalGap(p.gp, p.gs, k))
(* in general: between the smallest and the largest gap under the target, one LN(#high) *)
CESatBetweenGaps == SATV => /\ \E k \in SatSupport : QLe(I(NominalGap(p.gp, p.gs, k)), SatConst)
                            /\ \E k \in SatSupport : QLe(SatConst, I(NominalGap(p.gp, p.gs, k)))
                            /\ SatCrossEntropy(p.bins, p.gp, p.gs, p.x).ln[2] = One

----------------------------------------------------------------------------
(* huber_loss(abs_errors, delta) (losses.py:482-488)                           *)
Deltas == {Q(1,4), Half, One, I(2)}
ErrMags == {Zero, Q(1,8), Q(1,4), Half, One, Q(3,2), I(2), I(3), I(4)}
Errs == ErrMags \cup {QNeg(e) : e \in ErrMags}

(* the property: 0.5 e^2 within delta, delta (|e| - 0.5 delta) beyond *)
HuberPiecewise(a, d) == IF QLe(a, d) THEN QMul(Half, QSq(a))
                        ELSE QMul(d, QSub(a, QMul(Half, d)))
(* the code: quadratic = min(|e|, delta); linear = |e| - quadratic *)
HuberMinResidual(a, d) ==
  LET quad == QMin(a, d)
      lin  == QSub(a, quad)
  IN IF DEV = "huber_no_half" THEN QAdd(QSq(quad), QMul(d, lin))
     ELSE QAdd(QMul(Half, QSq(quad)), QMul(d, lin))

ChooseDelta(d) == /\ fam = "none" /\ "huber" \in FAMS
                  /\ fam' = "huber" /\ stage' = 1 /\ p' = [delta |-> d]
ChooseError(e) == /\ fam = "huber" /\ stage = 1
                  /\ fam' = fam /\ stage' = 2 /\ p' = [delta |-> p.delta, e |-> e]
                  /\ Emit("Huber", [delta |-> p.delta, e |-> e, abs_e |-> QAbs(e)],
                          [loss |-> HuberPiecewise(QAbs(e), p.delta),
                           branch |-> IF QLe(QAbs(e), p.delta) THEN "quadratic" ELSE "linear"])

HV == fam = "huber" /\ stage = 2
HuberAgree == HV => HuberMinResidual(QAbs(p.e), p.delta) = HuberPiecewise(QAbs(p.e), p.delta)
HuberNonNeg == HV => QLe(Zero, HuberMinResidual(QAbs(p.e), p.delta))
HuberBelowQuadratic == HV => QLe(HuberMinResidual(QAbs(p.e), p.delta), QMul(Half, QSq(p.e)))
HuberContinuousAtDelta == HV => HuberMinResidual(p.delta, p.delta) = QMul(Half, QSq(p.delta))
HuberLinearBeyond == (HV /\ QLt(p.delta, QAbs(p.e))) =>
                       QSub(HuberMinResidual(QAbs(p.e), p.delta), HuberMinResidual(p.delta, p.delta))
                         = QMul(p.delta, QSub(QAbs(p.e), p.delta))
HuberMonotone == HV => \A e2 \in Errs : QLe(QAbs(e2), QAbs(p.e)) =>
                         QLe(HuberMinResidual(QAbs(e2), p.delta), HuberMinResidual(QAbs(p.e), p.delta))

----------------------------------------------------------------------------
(* masked_mse_loss(predictions (n,m), targets (n,m), mask (n,)) (losses.py:11-35) *)
(* mean over all n*m entries of squared_error * mask[:, newaxis]              *)
PairList == << <<One, Zero>>, <<I(-1), Half>>, <<I(2), I(-1)>>, <<Zero, Zero>>, <<Half, Half>> >>
Pairs == {PairList[i] : i \in 1..NPairs}
Shapes == {s \in (1..6) \X (1..6) : s[1] * s[2] <= MaxMSE}

SqErrRow(r) == QSum([j \in 1..Len(r) |-> QSq(QSub(r[j][1], r[j][2]))])
MaskedMSE(rows, mask) ==
  QDiv(QSum([i \in 1..Len(rows) |-> QMul(I(mask[i]), SqErrRow(rows[i]))]),
       I(Len(rows) * Len(rows[1])))

ChooseShape(n, m) == /\ fam = "none" /\ "mse" \in FAMS
                     /\ fam' = "mse" /\ stage' = 1 /\ p' = [n |-> n, m |-> m]
ChooseMask(mk) == /\ fam = "mse" /\ stage = 1
                  /\ fam' = fam /\ stage' = 2 /\ p' = [n |-> p.n, m |-> p.m, mask |-> mk, rows |-> <<>>]
AddRow(r) ==
  /\ fam = "mse" /\ stage = 2
  /\ LET rows == Append(p.rows, r)
         done == Len(rows) = p.n
     IN /\ fam' = fam /\ stage' = (IF done THEN 3 ELSE 2)
        /\ p' = [p EXCEPT !.rows = rows]
        /\ done => Emit("MaskedMSE",
                        [pred |-> [i \in 1..p.n |-> [j \in 1..p.m |-> rows[i][j][1]]],
                         targ |-> [i \in 1..p.n |-> [j \in 1..p.m |-> rows[i][j][2]]],
                         mask |-> p.mask],
                        [loss |-> MaskedMSE(rows, p.mask),
                         ulps |-> IF IsPow2(p.n * p.m) THEN 0 ELSE 4])

MV == fam = "mse" /\ stage = 3
(* a masked row has weight zero: changing any single entry of it (prediction and  *)
(* target) leaves the loss unchanged; every row is in the lattice, so by induction *)
(* over the entries a masked row can be replaced by any other row                 *)
MSEMaskedRowsIgnored == MV => \E base \in {MaskedMSE(p.rows, p.mask)} :
                          \A i \in 1..p.n : p.mask[i] = 0 =>
                            \A j \in 1..p.m, pr \in Pairs :
                              MaskedMSE([p.rows EXCEPT ![i][j] = pr], p.mask) = base
MSEAllMaskedIsZero == (MV /\ \A i \in 1..p.n : p.mask[i] = 0) => MaskedMSE(p.rows, p.mask) = Zero
MSEFullMaskIsMean == (MV /\ \A i \in 1..p.n : p.mask[i] = 1) =>
                       MaskedMSE(p.rows, p.mask) = QDiv(QSum([i \in 1..p.n |-> SqErrRow(p.rows[i])]), I(p.n * p.m))
MSENonNeg == MV => QLe(Zero, MaskedMSE(p.rows, p.mask))
MSEUnmaskingMonotone == MV => \E base \in {MaskedMSE(p.rows, p.mask)} :
                          \A i \in 1..p.n : p.mask[i] = 0 =>
                            QLe(base, MaskedMSE(p.rows, [p.mask EXCEPT ![i] = 1]))

----------------------------------------------------------------------------
(* avg_l1_norm(x, eps) = x / max(mean|x|, eps) (norm.py:37)                    *)
(* eps "default" is the named constant EPS = 1e-8 (D3): every non-zero mean   *)
(* of the unit lattice exceeds it; in scale "tiny" the input is v * TINY with *)
(* TINY = 2^-40, whose means (<= 3 * TINY) are below EPS, so the output is     *)
(* v * (TINY / EPS).                                                          *)
Vals == {I(-2), Q(-1,2), Zero, Half, One, I(3)}
EpsTags == {"default", "1/4", "1"}
EpsOf(tag) == IF tag = "1/4" THEN Q(1,4) ELSE One
ASSUME 3 * BIG < 1024 * 1024 * 1024          \* 3 * TINY < EPS  (2^30 < 2^40)
AboveDefaultEps(m) == m[1] > 0 /\ (m[2] \div m[1]) < BIG   \* m > 1e-8 without overflow

AbsSeq(x) == [k \in 1..Len(x) |-> QAbs(x[k])]
NaN == <<1, 0>>                                 \* marker: division by zero (not finite)
DivAll(x, d) == [k \in 1..Len(x) |-> IF d[1] = 0 THEN NaN ELSE QDiv(x[k], d)]
(* result: [out, unit, clamped] *)
AvgL1(x, tag, scale) ==
  LET mean == QMean(AbsSeq(x))
  IN IF scale = "tiny" THEN [out |-> x, unit |-> "TINY/EPS", clamped |-> TRUE]
     ELSE IF tag = "default"
          THEN IF AboveDefaultEps(mean) THEN [out |-> DivAll(x, mean), unit |-> "1", clamped |-> FALSE]
               ELSE IF DEV = "avgl1_no_clamp" THEN [out |-> DivAll(x, mean), unit |-> "1", clamped |-> FALSE]
               ELSE [out |-> [k \in 1..Len(x) |-> Zero], unit |-> "1", clamped |-> TRUE]   \* 0 / EPS
          ELSE LET den == IF DEV = "avgl1_no_clamp" THEN mean ELSE QMax(mean, EpsOf(tag))
               IN [out |-> DivAll(x, den), unit |-> "1", clamped |-> QLt(mean, EpsOf(tag))]

ChooseLen(n, tag, scale) == /\ fam = "none" /\ "avgl1" \in FAMS
                            /\ scale = "tiny" => tag = "default"
                            /\ fam' = "avgl1" /\ stage' = 1
                            /\ p' = [n |-> n, eps |-> tag, scale |-> scale, x |-> <<>>]
AddElem(v) ==
  /\ fam = "avgl1" /\ stage = 1
  /\ LET x == Append(p.x, v)
         done == Len(x) = p.n
         r == AvgL1(x, p.eps, p.scale)
     IN /\ fam' = fam /\ stage' = (IF done THEN 2 ELSE 1)
        /\ p' = [p EXCEPT !.x = x]
        /\ done => Emit("AvgL1", [x |-> x, eps |-> p.eps, scale |-> p.scale],
                        [out |-> r.out, unit |-> r.unit, clamped |-> r.clamped,
                         ulps |-> IF r.unit = "1" /\ IsPow2(p.n) /\ AllDyadic(r.out) THEN 0 ELSE 4])

AV == fam = "avgl1" /\ stage = 2
Norm1 == AvgL1(p.x, p.eps, p.scale)
AvgL1Finite == AV => \A k \in 1..p.n : Norm1.out[k][2] > 0
AvgL1MeanAbsOne == (AV /\ ~Norm1.clamped) => QMean(AbsSeq(Norm1.out)) = One
AvgL1ClampedBelowOne == (AV /\ Norm1.clamped /\ Norm1.unit = "1") => QLt(QMean(AbsSeq(Norm1.out)), One)
AvgL1SignPreserved == AV => \A k \in 1..p.n : QSign(Norm1.out[k]) = QSign(p.x[k])
AvgL1ScaleInvariant == (AV /\ ~Norm1.clamped /\ p.scale = "unit") =>
                         AvgL1([k \in 1..p.n |-> QMul(I(2), p.x[k])], p.eps, p.scale).out = Norm1.out

----------------------------------------------------------------------------
(* linear_schedule(total_timesteps, start, end, fraction) (schedules.py:31-40) *)
Fracs == {Q(1,8), Q(1,4), Half, Q(3,4), One, Q(1,10)}
Ends == {<<One, Zero>>, <<One, Q(1,8)>>, <<Zero, One>>, <<I(-1), One>>, <<I(2), I(2)>>, <<One, Q(1,10)>>}

TransitionSteps(T, f) == (T * f[1]) \div f[2]            \* int(total_timesteps * fraction)
(* jnp.linspace(start, end, k): k = 0 empty, k = 1 is <<start>>, else both ends included *)
Linspace(s, e, k) ==
  IF k = 0 THEN <<>>
  ELSE IF k = 1 THEN (IF DEV = "sched_one_point_end" THEN <<e>> ELSE <<s>>)
  ELSE [i \in 1..k |-> QAdd(QMul(s, QSub(One, Q(i - 1, k - 1))), QMul(e, Q(i - 1, k - 1)))]
(* ones(T) * end, then the first k entries overwritten by the linspace *)
LinearSchedule(T, s, e, f) ==
  LET k == TransitionSteps(T, f)
      lin == Linspace(s, e, k)
  IN [i \in 1..T |-> IF i <= k THEN lin[i] ELSE e]

ChooseT(T) == /\ fam = "none" /\ "sched" \in FAMS
              /\ fam' = "sched" /\ stage' = 1 /\ p' = [T |-> T]
ChooseFraction(f) == /\ fam = "sched" /\ stage = 1
                     /\ fam' = fam /\ stage' = 2 /\ p' = [T |-> p.T, f |-> f]
ChooseEnds(se) ==
  /\ fam = "sched" /\ stage = 2
  /\ LET k == TransitionSteps(p.T, p.f)
     IN /\ fam' = fam /\ stage' = 3 /\ p' = [T |-> p.T, f |-> p.f, s |-> se[1], e |-> se[2]]
        /\ Emit("LinearSchedule", [T |-> p.T, start |-> se[1], stop |-> se[2], fraction |-> p.f],
                [sched |-> LinearSchedule(p.T, se[1], se[2], p.f), k |-> k,
                 dir |-> QSign(QSub(se[2], se[1])),
                 ulps |-> IF Dyadic(se[1]) /\ Dyadic(se[2]) /\ (k <= 2 \/ IsPow2(k - 1)) THEN 0 ELSE 4])

SV == fam = "sched" /\ stage = 3
Sched == LinearSchedule(p.T, p.s, p.e, p.f)
SK == TransitionSteps(p.T, p.f)
SchedLength == SV => Len(Sched) = p.T
SchedMonotone == SV => \A i \in 1..(p.T - 1) :
                         IF QLe(p.s, p.e) THEN QLe(Sched[i], Sched[i + 1]) ELSE QLe(Sched[i + 1], Sched[i])
SchedFirstIsStart == (SV /\ SK >= 1) => Sched[1] = p.s
SchedTailIsEnd == SV => \A i \in 1..p.T : i > SK => Sched[i] = p.e
SchedReachesEnd == (SV /\ SK >= 2) => Sched[SK] = p.e
SchedWithinEnds == SV => \A i \in 1..p.T : QLe(QMin(p.s, p.e), Sched[i]) /\ QLe(Sched[i], QMax(p.s, p.e))

----------------------------------------------------------------------------
(* domains of the parameterised actions (empty unless the action is enabled) *)
XIntervals  == IF fam = "twohot" /\ stage = 1 THEN 1..(Len(p.bins) - 1) ELSE {}
XWeights    == IF fam = "twohot" /\ stage = 1 THEN WeightsFor(p.bins) ELSE {}
LogitLevels == IF fam = "twohot" /\ stage = 2 /\ "ce" \in FAMS /\ Len(p.bins) <= MaxCE
               THEN [1..Len(p.bins) -> {0, 1}] ELSE {}
GapPatterns == IF fam = "twohot" /\ stage = 2 /\ "ce" \in FAMS /\ Len(p.bins) <= MaxSat
               THEN {gp \in [1..Len(p.bins) -> SatLevels(Len(p.bins))] : \E k \in 1..Len(p.bins) : gp[k] = 0} ELSE {}
Masks       == IF fam = "mse" /\ stage = 1 THEN [1..p.n -> {0, 1}] ELSE {}
PairRows    == IF fam = "mse" /\ stage = 2 THEN [1..p.m -> Pairs] ELSE {}

Next ==
  \/ \E b \in TwoHotBins : ChooseBins(b)
  \/ \E k \in XIntervals, w \in XWeights : ChooseX(k, w)
  \/ \E lv \in LogitLevels, c \in Offsets : ChooseLogits(lv, c)
  \/ \E gp \in GapPatterns, gs \in GapSets, c \in SatOffsets : ChooseGaps(gp, gs, c)
  \/ \E d \in Deltas : ChooseDelta(d)
  \/ \E e \in Errs : ChooseError(e)
  \/ \E s \in Shapes : ChooseShape(s[1], s[2])
  \/ \E mk \in Masks : ChooseMask(mk)
  \/ \E r \in PairRows : AddRow(r)
  \/ \E n \in 1..4, tag \in EpsTags, scale \in {"unit", "tiny"} : ChooseLen(n, tag, scale)
  \/ \E v \in Vals : AddElem(v)
  \/ \E T \in 1..MaxT : ChooseT(T)
  \/ \E f \in Fracs : ChooseFraction(f)
  \/ \E se \in Ends : ChooseEnds(se)

Spec == Init /\ [][Next]_vars
=============================================================================
