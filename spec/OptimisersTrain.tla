------------------------- MODULE OptimisersTrain -------------------------
(* train_cmaes as a user of the ask/tell machine: trace validation (code ->    *)
(* spec).  The harness interposes on the functions train_cmaes calls           *)
(* (sample_population, get_next_parameters, set_params, set_evaluation_        *)
(* feedback, is_cmaes_finished, update_search_distribution) and on the scripted *)
(* environment; every recorded event must be a step of this specification,      *)
(* which re-uses the actions of Optimisers.tla, with the logged fields equal    *)
(* to the primed variables.  A trace is accepted iff every event is consumed.   *)
(*                                                                              *)
(* What the loop must do: one episode per candidate, played with exactly that   *)
(* candidate's parameters, on an environment that was reset since the previous   *)
(* episode; feedback = the episode's return; update + fresh population exactly   *)
(* at generation boundaries unless the stopping test fires; finally the policy   *)
(* holds the distribution MEAN and the reported best fitness is the incumbent's. *)
EXTENDS Optimisers, IOUtils

Traces == JsonDeserialize(IOEnv.TRACE_FILE)    \* sequence of traces, each a sequence of events

VARIABLES tr,       \* which trace
          i,        \* events consumed
          tp,       \* "start" | "reset0" | "loop" | "asked" | "episode" | "ended" | "totell" | "check" | "update" | "resample" | "final" | "return" | "done"
          loaded,   \* id of the parameters the policy holds: -1 initial, c > 0 candidate c, 0 the mean
          fresh,    \* environment was reset and not stepped since
          epret,    \* return (class) of the running episode
          stopped   \* is_cmaes_finished fired
tvars == <<tr, i, tp, loaded, fresh, epret, stopped>>
allvars == <<vars, tvars>>

Ev == Traces[tr][i + 1]
Total == Traces[tr][1].total      \* total_episodes (field of the first event)

(* sum of reward classes: float addition on the classes *)
Add(a, b) == IF a = NAN \/ b = NAN THEN NAN
             ELSE IF (a = INF /\ b = -INF) \/ (a = -INF /\ b = INF) THEN NAN
             ELSE IF a = INF \/ b = INF THEN INF
             ELSE IF a = -INF \/ b = -INF THEN -INF
             ELSE a + b
NonFinite(v) == v \in {INF, -INF, NAN}

TInit == /\ Init /\ tr \in 1..Len(Traces) /\ i = 0 /\ tp = "start"
         /\ loaded = -1 /\ fresh = FALSE /\ epret = 0 /\ stopped = FALSE

Consume(op) == i < Len(Traces[tr]) /\ Ev.op = op /\ i' = i + 1

InitialPopulation == /\ Consume("Sample") /\ tp = "start" /\ tp' = "reset0"
                     /\ UNCHANGED <<vars, tr, loaded, fresh, epret, stopped>>

EnvReset == /\ Consume("Reset") /\ tp \in {"reset0", "ended"}
            /\ fresh' = TRUE
            /\ tp' = IF tp = "reset0" THEN "loop" ELSE "totell"
            /\ UNCHANGED <<vars, tr, loaded, epret, stopped>>

AskNext == /\ Consume("Ask") /\ tp = "loop" /\ it < Total
           /\ phase = "ask" /\ Ev.k = it % N
           /\ tp' = "asked"
           /\ UNCHANGED <<vars, tr, loaded, fresh, epret, stopped>>

LoadCandidate == /\ Consume("SetParams") /\ tp = "asked"
                 /\ Ev.id = it + 1                   \* the candidate just asked for
                 /\ loaded' = Ev.id /\ tp' = "episode" /\ epret' = 0
                 /\ UNCHANGED <<vars, tr, fresh, stopped>>

EnvStep == /\ Consume("Step") /\ tp = "episode"
           /\ (Ev.t = 0) = fresh                     \* an episode starts on a reset environment
           /\ Ev.actor = loaded /\ loaded = it + 1   \* played by the candidate under evaluation
           /\ epret' = Add(epret, Ev.r)
           /\ fresh' = FALSE
           /\ tp' = IF Ev.done THEN "ended" ELSE "episode"
           /\ UNCHANGED <<vars, tr, loaded, stopped>>

TellReturn == /\ Consume("Tell") /\ tp = "totell"
              /\ Ev.f = epret                        \* feedback is the episode return
              /\ Tell(Ev.f)
              /\ Ev.it = it' /\ Ev.bestFit = bestFit' /\ Ev.bestId = bestId' /\ Ev.ver = ver'
              /\ tp' = IF phase' = "boundary" THEN "check" ELSE IF it' = Total THEN "final" ELSE "loop"
              /\ UNCHANGED <<tr, loaded, fresh, epret, stopped>>

(* is_cmaes_finished: never in the first generation; always on non-finite fitness; *)
(* otherwise decided by variance / fitness-spread / condition tests outside the model *)
FinishedCheck == /\ Consume("Finished") /\ tp = "check"
                 /\ (it <= N => ~Ev.res)
                 /\ ((it > N /\ \E k \in Slots : NonFinite(Fit(k))) => Ev.res)
                 /\ stopped' = Ev.res
                 /\ tp' = IF Ev.res THEN "final" ELSE "update"
                 /\ UNCHANGED <<vars, tr, loaded, fresh, epret>>

UpdateDistribution == /\ Consume("Update") /\ tp = "update"
                      /\ Update
                      /\ Ev.ver = ver'
                      /\ sel' \in {Ev.matches[x] : x \in 1..Len(Ev.matches)}    \* observed mean = sum_r w_r x[sel[r]]
                      /\ tp' = "resample"
                      /\ UNCHANGED <<tr, loaded, fresh, epret, stopped>>

NewPopulation == /\ Consume("Sample") /\ tp = "resample"
                 /\ SamplePopulation
                 /\ tp' = IF it = Total THEN "final" ELSE "loop"
                 /\ UNCHANGED <<tr, loaded, fresh, epret, stopped>>

LoadMean == /\ Consume("SetParams") /\ tp = "final"
            /\ Ev.id = 0 /\ Ev.ver = ver             \* the mean of the current distribution
            /\ loaded' = 0 /\ tp' = "return"
            /\ UNCHANGED <<vars, tr, fresh, epret, stopped>>

Return == /\ Consume("Return") /\ tp = "return"
          /\ Ev.best = Neg(bestFit)                  \* maximisation: reported as a return
          /\ Ev.stopped = stopped
          /\ Ev.policyIsMean /\ loaded = 0
          /\ tp' = "done"
          /\ UNCHANGED <<vars, tr, loaded, fresh, epret, stopped>>

TNext == \/ InitialPopulation \/ EnvReset \/ AskNext \/ LoadCandidate \/ EnvStep \/ TellReturn
         \/ FinishedCheck \/ UpdateDistribution \/ NewPopulation \/ LoadMean \/ Return
TSpec == TInit /\ [][TNext]_allvars

(* acceptance: the machine never gets stuck before the end of its trace *)
Accepted == (i < Len(Traces[tr]) \/ tp # "done") => ENABLED TNext
(* and the ask/tell invariants hold along the run *)
TrainUpdateEveryN == UpdateEveryN
TrainIncumbentNeverNaN == IncumbentNeverNaN
OneEpisodePerCandidate == tp \in {"episode", "ended", "totell"} => loaded = it + 1
=============================================================================
