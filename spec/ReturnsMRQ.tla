--------------------------- MODULE ReturnsMRQ ---------------------------
(* C07 - the learning signals MR.Q computes from ITS OWN replay buffer:       *)
(*   rl_blox.algorithm.mrq.train_mrq                                          *)
(*     buffer construction  SubtrajectoryReplayBufferPER(buffer_size,         *)
(*                            horizon = max(encoder_horizon, q_horizon))  Configure *)
(*     every environment step   replay_buffer.add_sample(...)             Step *)
(*     encoder update           sample_batch(., encoder_horizon, True, .)  SampleEncoder *)
(*     critic update            sample_batch(., q_horizon, False, .) ->   SampleCritic *)
(*                              mrq_loss -> discounted_n_step_return           *)
(* The buffer guarantees only that `horizon` consecutive rows behind an        *)
(* admissible start belong to one already written episode; the routine chooses *)
(* `horizon` AND the two sampling horizons.  The composition has to yield      *)
(* windows that are runs of ONE episode of the environment up to their first   *)
(* terminated step (prefix reading as in C04: rows behind the first terminated *)
(* step are ignored by the n-step return and by the encoder mask), so that the *)
(* critic target of time t (n-step return, residual discount, bootstrap        *)
(* observation) equals the one computed from the environment's own log of THAT *)
(* episode - for every pair of horizons, q_horizon > encoder_horizon included, *)
(* and for episodes that end by truncation.                                    *)
(*                                                                            *)
(* Environment = harness/envs.ScriptEnv (device D1): the observation of step t *)
(* of episode ep is the tag <<ep, t>>, the reward of the step that reaches t   *)
(* is 16 (ep % 8) + t + 1/4, so a reward names the step it belongs to.  The    *)
(* environment's own log is `eps`: <<length so far, ending>> per episode       *)
(* ("open" = still running).  add_sample is transcribed from                   *)
(* replay_buffer.SubtrajectoryReplayBuffer (cf. spec/Subtraj.tla, C04).        *)
EXTENDS ReturnsOps, FiniteSets, TLC, Json

CONSTANTS EMIT,
          EHs, QHs,   \* encoder_horizon / q_horizon values explored
          Cap,        \* buffer_size
          MaxSteps,   \* environment steps
          Variant     \* "spec" | deviations "encoder_horizon_only" (horizon = encoder_horizon),
                      \* "q_horizon_only" (horizon = q_horizon), "min_horizon"

VARIABLES st, eh, qh,
          eps,                            \* history: the environment's own log
          slots, mask, ins, len, epT      \* the replay buffer
vars == <<st, eh, qh, eps, slots, mask, ins, len, epT>>

Emit(rec) == EMIT => PrintT(<<"EMIT", ToJson(rec)>>)
Min2(a, b) == IF a < b THEN a ELSE b
Max2(a, b) == IF a < b THEN b ELSE a

----------------------------------------------------------------------------
(* 1. The scripted environment                                              *)

Rew(ep, t) == Q(4 * (16 * (ep % 8) + t) + 1, 4)      \* reward of the step of episode ep that reaches t
(* the log: does step t (1-based: the step that reaches t) of episode ep exist, did it terminate *)
StepExists(log, ep, t) == ep >= 0 /\ ep < Len(log) /\ t >= 1 /\ t <= log[ep + 1][1]
LogTerm(log, ep, t) == IF log[ep + 1][2] = "term" /\ t = log[ep + 1][1] THEN 1 ELSE 0
(* stub target critic of the bootstrap observation: injective on the tags of a run (t < 16, ep < 8) *)
QN(tag) == Q(16 * tag[1] + tag[2], 4)

----------------------------------------------------------------------------
(* 2. Windows as the learning signals see them                              *)

(* the rows of a sampled window w (any representation with fields obs, rew, term, nobs): *)
(* first terminated row, else the last one                                               *)
FirstTermW(term) == FirstTerm(term, 1)

(* critic view (include_intermediate = False): first observation, all rewards / flags, last successor *)
(* `OwnRun`: up to its first terminated step the window consists of consecutive steps of the episode  *)
(* of its first observation - rewards and flags are those the environment logged for these steps -    *)
(* and when no step terminated, the bootstrap observation is the one reached after the last step      *)
CriticClauses(log, obs, rew, term, nobs) ==
  LET ep == obs[1]  t0 == obs[2]  h == Len(rew)  j == FirstTermW(term)
      known == StepExists(log, ep, t0 + 1)
  IN {c \in {"StartIsAStepOfTheRun", "RewardsAreTheEpisodesNextSteps", "FlagsAreTheEpisodesOwn", "BootstrapIsTheEpisodesOwnObservation"} :
        ~ (CASE c = "StartIsAStepOfTheRun" -> known
             [] c = "RewardsAreTheEpisodesNextSteps" ->
                  ~known \/ \A k \in 1..j : StepExists(log, ep, t0 + k) /\ rew[k] = Rew(ep, t0 + k)
             [] c = "FlagsAreTheEpisodesOwn" ->
                  ~known \/ \A k \in 1..j : StepExists(log, ep, t0 + k) => term[k] = LogTerm(log, ep, t0 + k)
             [] c = "BootstrapIsTheEpisodesOwnObservation" ->
                  ~known \/ term[j] = 1 \/ nobs = <<ep, t0 + h>>)}

(* the critic target (reward scales 1) of a window, and of the episode's own log *)
Target(rew, term, nobs, g) == QAdd(NStepRet(rew, term, g, 1), QMul(NStepDisc(term, g, 1), QN(nobs)))
(* the steps of episode ep behind observation t0 that the log has, at most h *)
OwnLen(log, ep, t0, h) == Min2(h, log[ep + 1][1] - t0)
OwnRew(log, ep, t0, h)  == [k \in 1..OwnLen(log, ep, t0, h) |-> Rew(ep, t0 + k)]
OwnTerm(log, ep, t0, h) == [k \in 1..OwnLen(log, ep, t0, h) |-> LogTerm(log, ep, t0 + k)]
OwnRet(log, ep, t0, h, g)  == NStepRet(OwnRew(log, ep, t0, h), OwnTerm(log, ep, t0, h), g, 1)
OwnDisc(log, ep, t0, h, g) == NStepDisc(OwnTerm(log, ep, t0, h), g, 1)
OwnTarget(log, ep, t0, h, g) ==
  QAdd(OwnRet(log, ep, t0, h, g), QMul(OwnDisc(log, ep, t0, h, g), QN(<<ep, t0 + OwnLen(log, ep, t0, h)>>)))

(* encoder view (include_intermediate = True): every row with its observation and successor *)
EncoderClauses(log, obss, rew, term, nobss) ==
  LET ep == obss[1][1]  t0 == obss[1][2]  j == FirstTermW(term)
      known == StepExists(log, ep, t0 + 1)
  IN {c \in {"StartIsAStepOfTheRun", "RowsAreTheEpisodesNextSteps", "FlagsAreTheEpisodesOwn"} :
        ~ (CASE c = "StartIsAStepOfTheRun" -> known
             [] c = "RowsAreTheEpisodesNextSteps" ->
                  ~known \/ \A k \in 1..j : /\ StepExists(log, ep, t0 + k)
                                           /\ obss[k] = <<ep, t0 + k - 1>> /\ nobss[k] = <<ep, t0 + k>>
                                           /\ rew[k] = Rew(ep, t0 + k)
             [] c = "FlagsAreTheEpisodesOwn" ->
                  ~known \/ \A k \in 1..j : StepExists(log, ep, t0 + k) => term[k] = LogTerm(log, ep, t0 + k))}

----------------------------------------------------------------------------
(* 3. train_mrq's buffer and the replay buffer's add_sample                 *)

BufferHorizon(e, q) == CASE Variant = "spec" -> Max2(e, q)
                         [] Variant = "encoder_horizon_only" -> e
                         [] Variant = "q_horizon_only" -> q
                         [] Variant = "min_horizon" -> Min2(e, q)
HB == BufferHorizon(eh, qh)

None == [kind |-> "none", obs |-> <<0, 0>>, rew |-> Zero, term |-> 0, trunc |-> 0, nobs |-> <<0, 0>>]

Init == /\ st = "init" /\ eh = 0 /\ qh = 0 /\ eps = <<>>
        /\ slots = [i \in 1..Cap |-> None] /\ mask = [i \in 1..Cap |-> 0] /\ ins = 0 /\ len = 0 /\ epT = 0

Configure ==
  /\ st = "init"
  /\ eh' \in EHs /\ qh' \in QHs
  /\ eps' = << <<0, "open">> >>            \* env.reset()
  /\ st' = "run"
  /\ UNCHANGED <<slots, mask, ins, len, epT>>

RECURSIVE StepsTo(_)
StepsTo(k) == IF k = 0 THEN 0 ELSE eps[k][1] + StepsTo(k - 1)
Steps == StepsTo(Len(eps))
CurEp == Len(eps) - 1

(* env.step + replay_buffer.add_sample(observation, action, reward, next_observation, terminated, truncated); *)
(* end = "cont" | "term" | "trunc"; after an end the environment is reset                                     *)
Step(end) ==
  /\ st = "run" /\ Steps < MaxSteps
  /\ LET ep   == CurEp
         t    == eps[Len(eps)][1]
         isT  == IF end = "term" THEN 1 ELSE 0
         isTr == IF end = "trunc" THEN 1 ELSE 0
         row  == [kind |-> "step", obs |-> <<ep, t>>, rew |-> Rew(ep, t + 1), term |-> isT, trunc |-> isTr, nobs |-> <<ep, t + 1>>]
         s1   == [slots EXCEPT ![ins + 1] = row]
         len1 == Min2(len + 1, Cap)
         epT1 == epT + 1
         m1   == [mask EXCEPT ![ins + 1] = 0]
         (* a start becomes admissible once HB further steps of its episode are stored *)
         m2   == IF epT1 > HB THEN [m1 EXCEPT ![((ins - HB) % Cap) + 1] = 1] ELSE m1
         ins1 == (ins + 1) % Cap
         (* the successor row written behind a finished episode: reward 0, observation = final observation *)
         extra == [row EXCEPT !.kind = "extra", !.obs = <<ep, t + 1>>, !.rew = Zero]
         s2   == [s1 EXCEPT ![ins1 + 1] = extra]
         m3   == [m2 EXCEPT ![ins1 + 1] = 0]
         past == {((ins1 - k - 1) % Cap) + 1 : k \in 0..(Min2(epT1, HB) - 1)}
         (* tail starts: admissible for a terminated episode, masked out for a truncated one *)
         m4   == [i \in 1..Cap |-> IF i \in past THEN (IF isTr = 1 THEN 0 ELSE 1) ELSE m3[i]]
     IN IF end = "cont"
        THEN /\ slots' = s1 /\ mask' = m2 /\ ins' = ins1 /\ len' = len1 /\ epT' = epT1
             /\ eps' = [eps EXCEPT ![Len(eps)] = <<t + 1, "open">>]
        ELSE /\ slots' = s2 /\ mask' = m4 /\ ins' = (ins1 + 1) % Cap /\ len' = Min2(len1 + 1, Cap) /\ epT' = 0
             /\ eps' = Append([eps EXCEPT ![Len(eps)] = <<t + 1, end>>], <<0, "open">>)
  /\ UNCHANGED <<st, eh, qh>>

(* sample_batch(batch_size, horizon, include_intermediate, rng): rows (start + k) % current_len *)
Starts == {s \in 0..(Cap - 1) : mask[s + 1] = 1}
Window(s, h) == [k \in 1..h |-> slots[((s + (k - 1)) % len) + 1]]
Col(w, f(_)) == [k \in 1..Len(w) |-> f(w[k])]
FObs(r) == r.obs
FRew(r) == r.rew
FTerm(r) == r.term
FNobs(r) == r.nobs
CriticBad(s)  == LET w == Window(s, qh) IN CriticClauses(eps, w[1].obs, Col(w, FRew), Col(w, FTerm), w[qh].nobs)
EncoderBad(s) == LET w == Window(s, eh) IN EncoderClauses(eps, Col(w, FObs), Col(w, FRew), Col(w, FTerm), Col(w, FNobs))

SampleCritic ==
  /\ st = "run" /\ \E s \in Starts : Emit([kind |-> "critic", eh |-> eh, qh |-> qh, s |-> s, rows |-> Window(s, qh), bad |-> CriticBad(s)])
  /\ UNCHANGED vars
SampleEncoder ==
  /\ st = "run" /\ \E s \in Starts : Emit([kind |-> "encoder", eh |-> eh, qh |-> qh, s |-> s, rows |-> Window(s, eh), bad |-> EncoderBad(s)])
  /\ UNCHANGED vars

Next == Configure \/ (\E end \in {"cont", "term", "trunc"} : Step(end)) \/ SampleCritic \/ SampleEncoder
Spec == Init /\ [][Next]_vars

----------------------------------------------------------------------------
(* 4. Properties (C07)                                                      *)

TypeOK == st \in {"init", "run"} /\ len <= Cap /\ ins < Cap

(* every window the critic update can be handed is a run of one episode up to its first termination *)
CriticWindowsOwnEpisode  == st = "run" => \A s \in Starts : CriticBad(s) = {}
EncoderWindowsOwnEpisode == st = "run" => \A s \in Starts : EncoderBad(s) = {}

(* ... so the critic target of time t is the one of the environment's own log of that episode: *)
(* it depends on no other episode and on nothing behind the first termination                  *)
G == Half
CriticTargetIsTheEpisodesOwn ==
  st = "run" => \A s \in Starts :
    LET w == Window(s, qh)
        ep == w[1].obs[1]  t0 == w[1].obs[2]
    IN /\ StepExists(eps, ep, t0 + 1)
       (* the episode has q_horizon further steps, or terminates before *)
       /\ OwnLen(eps, ep, t0, qh) = qh \/ HasTerm(OwnTerm(eps, ep, t0, qh), 1)
       /\ NStepRet(Col(w, FRew), Col(w, FTerm), G, 1) = OwnRet(eps, ep, t0, qh, G)
       /\ NStepDisc(Col(w, FTerm), G, 1) = OwnDisc(eps, ep, t0, qh, G)
       /\ Target(Col(w, FRew), Col(w, FTerm), w[qh].nobs, G) = OwnTarget(eps, ep, t0, qh, G)

(* non-vacuity: admissible starts exist for every pair of horizons (checked by a reachability canary) *)
NoStartEver == st = "run" => Starts = {}
=============================================================================
