------------------------ MODULE UpdateScheduleTrace ------------------------
(* code -> spec: validates the learning operations recorded from real runs of *)
(* train_dqn / nature_dqn / ddqn / ddqn_per / ddpg / td3 / td3_lap / sac /    *)
(* td7 / mrq (harness/extras/x08_record.py: recording buffer whose            *)
(* sample_batch numbers the batches, interposed module-level update           *)
(* functions that report the batch they were handed - by object identity -    *)
(* and the optimiser's step counter before and after the call, interposed     *)
(* soft / hard_target_net_update) against UpdateSchedule.tla.                 *)
(*                                                                            *)
(* Events: add | sample(comp, rows, bs, n, sid) | upd(comp, rows, sid, s0, s1)*)
(* | prio(rows) | tgt(comp) | end.  Every `add` opens the learning part of    *)
(* the next step: ops = StepOps(c, step); the following events are matched    *)
(* one by one against ops (order inside the block) and take the EFFECT of the *)
(* design action with the recorded values; at `end` the laws of               *)
(* UpdateSchedule are evaluated on the log of the REAL run.                   *)
EXTENDS UpdateSchedule, IOUtils, Json

Traces == JsonDeserialize(IOEnv.TRACE_FILE)

VARIABLES tid, l,
          bad,    \* the current block no longer matches StepOps (reported once)
          viol    \* set of <<position, clause>>

tvars == <<vars, tid, l, bad, viol>>

T == Traces[tid]
E == T.events[l]

TraceCfg(x) == [routine |-> x.routine, warm |-> x.warm, start |-> x.start, bs |-> x.bs, cap |-> x.cap, gs |-> x.gs, pd |-> x.pd,
                td |-> x.td, uf |-> x.uf, autotune |-> x.autotune]

TInit == /\ tid \in 1..Len(Traces) /\ l = 1
         /\ InitState(TraceCfg(Traces[tid].cfg))
         /\ bad = FALSE /\ viol = {}

Fail(clauses) == viol' = viol \cup {<<l, x>> : x \in clauses}
If(b, x) == IF b THEN {x} ELSE {}

Incomplete == ~bad /\ pc <= Len(ops)

(* replay_buffer.add_sample: the transition of the next step is stored, its learning part begins *)
EvAdd ==
  /\ E.ev = "add"
  /\ step' = step + 1 /\ StoreEff
  /\ ops' = StepOps(c, step + 1) /\ pc' = 1 /\ bad' = FALSE
  /\ Fail(If(Incomplete, "UpdateMissing"))
  /\ UNCHANGED <<c, serial, opt, log>>

Matches == ~bad /\ pc <= Len(ops) /\ Cur.op = E.ev /\ Cur.comp = E.comp
Mismatch == IF step < c.start THEN "LearningBeforeFirstStep"
            ELSE IF ~Gate(c, step) THEN "LearningOutsideGate"
            ELSE IF pc > Len(ops) THEN "ExtraOperation" ELSE "BlockOrder"
Advance == /\ pc' = IF Matches THEN pc + 1 ELSE pc
           /\ bad' = (bad \/ ~Matches)
           /\ UNCHANGED <<c, step, ops, stored>>
Pseudo == [op |-> E.ev, comp |-> E.comp]

EvSample ==
  /\ E.ev = "sample"
  /\ SampleEff(Pseudo, E.sid, E.rows, E.n)
  /\ Advance
  /\ Fail(If(~bad /\ ~Matches, Mismatch)
          \cup If(Matches /\ (E.rows # Cur.rows \/ E.bs # Cur.rows), "BatchSize")
          \cup If(E.sid # serial + 1, "BatchSerial"))

EvUpd ==
  /\ E.ev = "upd"
  /\ E.comp \in Comps
  /\ UpdateEff(Pseudo, E.sid, E.rows, E.s1)
  /\ Advance
  /\ Fail(If(~bad /\ ~Matches, Mismatch)
          \cup If(E.sid # serial, "ConsumesLatestBatch")
          \cup If(Matches /\ E.rows # Cur.rows, "BatchSize")
          \cup If(E.s0 # opt[E.comp], "OptimiserSteppedOutsideUpdates")
          \cup If(Matches /\ E.s1 - E.s0 # Cur.k, "OptimiserStepsPerUpdate"))

EvUpdUnknown ==
  /\ E.ev = "upd" /\ E.comp \notin Comps
  /\ Fail({"UnknownComponent"}) /\ bad' = TRUE
  /\ UNCHANGED vars

EvOther ==
  /\ E.ev \in {"prio", "tgt"}
  /\ OtherEff(Pseudo, E.rows)
  /\ Advance
  /\ Fail(If(~bad /\ ~Matches, Mismatch)
          \cup If(Matches /\ E.rows # Cur.rows, "BatchSize"))

FinalClauses ==
  If(~CountingLawAt(step), "Inv:CountingLaw")
  \cup If(~BatchFresh, "Inv:BatchFresh")
  \cup If(~ActorSharesCriticBatch, "Inv:ActorSharesCriticBatch")
  \cup If(~BatchRows, "Inv:BatchRows")
  \cup If(~StoredBeforeSampled, "Inv:StoredBeforeSampled")
  \cup If(~OrderInBlock, "Inv:OrderInBlock")
  \cup If(~NoLearningOutsideGate, "Inv:NoLearningOutsideGate")
  \cup If(~FirstUpdateAtDocumentedStep, "Inv:FirstUpdateAtDocumentedStep")
  \cup If(~OptimiserCounters, "Inv:OptimiserCounters")
  \cup If(~StepsPerUpdate, "Inv:StepsPerUpdate")

EvEnd ==
  /\ E.ev = "end"
  /\ Fail(If(Incomplete, "UpdateMissing") \cup FinalClauses)
  /\ pc' = Len(ops) + 1
  /\ UNCHANGED <<c, step, ops, serial, stored, opt, log, bad>>

TNext == /\ l <= Len(T.events)
         /\ (EvAdd \/ EvSample \/ EvUpd \/ EvUpdUnknown \/ EvOther \/ EvEnd)
         /\ l' = l + 1 /\ UNCHANGED tid

Upds(comp) == Count("upd", comp)
Verdict == (l = Len(T.events) + 1) =>
             PrintT(<<"VERDICT", ToJson([id |-> T.id, steps |-> step - c.start + 1, samples |-> serial, ops |-> Len(log),
                                         critic |-> Upds("critic"), actor |-> Upds("actor"), temp |-> Upds("temp"), emb |-> Upds("emb"),
                                         enc |-> Upds("enc"), first |-> FirstUpdateStep(c), viol |-> viol])>>)
=============================================================================
