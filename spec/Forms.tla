--------------------------- MODULE Forms ---------------------------
(* Device D3: exact linear forms over named transcendental constants.          *)
(*                                                                            *)
(* A form is a finite sum  SUM_a  k_a * a  of rational multiples of atoms:     *)
(*     <<"one", 0, 1>>   the number 1                                         *)
(*     <<"ln",  p, 1>>   the natural logarithm of the PRIME p                 *)
(*     <<"lnpi", 0, 1>>  ln(pi)                                               *)
(*     <<"exp", n, d>>   e^(n/d) for the non-zero rational n/d in lowest terms *)
(* represented as a function from the atoms with NON-ZERO coefficient to that *)
(* coefficient (a rational <<num, den>> of Exact.tla).  The representation is *)
(* canonical - ln(n) is stored by prime factorisation, e^0 as the number 1 -  *)
(* so two forms denote the same real number iff they are equal as TLA+        *)
(* values (the atoms are linearly independent over the rationals, by          *)
(* Lindemann-Weierstrass / Baker).  The only thing the harness contributes is *)
(* the float64 value of each atom.                                            *)
EXTENDS Exact, FiniteSets, TLC

AOne    == <<"one", 0, 1>>
ALn(p)  == <<"ln", p, 1>>
ALnPi   == <<"lnpi", 0, 1>>
AExp(q) == <<"exp", q[1], q[2]>>

FZero == [a \in {} |-> Zero]
FCoef(f, a) == IF a \in DOMAIN f THEN f[a] ELSE Zero
FTrim(f) == [a \in {x \in DOMAIN f : f[x][1] # 0} |-> f[a]]
FAtom(a, k) == IF k[1] = 0 THEN FZero ELSE [x \in {a} |-> k]

FConst(q)   == FAtom(AOne, q)
FAdd(f, g)  == FTrim([a \in (DOMAIN f) \cup (DOMAIN g) |-> QAdd(FCoef(f, a), FCoef(g, a))])
FScale(k, f) == IF k[1] = 0 THEN FZero ELSE [a \in DOMAIN f |-> QMul(k, f[a])]
FNeg(f)     == [a \in DOMAIN f |-> QNeg(f[a])]
FSub(f, g)  == FAdd(f, FNeg(g))

RECURSIVE FSumTo(_, _)
FSumTo(s, k) == IF k = 0 THEN FZero ELSE FAdd(FSumTo(s, k - 1), s[k])
FSum(s) == FSumTo(s, Len(s))          \* s: sequence of forms

(* ln of a positive integer, by prime factorisation *)
SmallestFactor(n) == CHOOSE p \in 2..n : n % p = 0 /\ \A r \in 2..(p - 1) : n % r # 0
RECURSIVE FLn(_)
FLn(n) == IF n = 1 THEN FZero
          ELSE LET p == SmallestFactor(n) IN FAdd(FAtom(ALn(p), One), FLn(n \div p))
FLnQ(q) == FSub(FLn(q[1]), FLn(q[2]))   \* ln of a positive rational
FLn2Pi  == FAdd(FLn(2), FAtom(ALnPi, One))

(* e^q *)
FExp(q) == IF q[1] = 0 THEN FConst(One) ELSE FAtom(AExp(q), One)

(* forms built from the number 1 and exponentials only can be multiplied by   *)
(* e^q (exponent shift) and, when they are monomials, squared                 *)
IsExpForm(f) == \A a \in DOMAIN f : a[1] \in {"one", "exp"}
Exponent(a)  == IF a[1] = "one" THEN Zero ELSE <<a[2], a[3]>>
ExpAtom(q)   == IF q[1] = 0 THEN AOne ELSE AExp(q)
FMulExp(f, q) ==
  LET sh(a) == ExpAtom(QAdd(Exponent(a), q))
      back(b) == ExpAtom(QSub(Exponent(b), q))
  IN [b \in {sh(a) : a \in DOMAIN f} |-> f[back(b)]]
IsMonomial(f) == IsExpForm(f) /\ Cardinality(DOMAIN f) <= 1
FSqMono(f) == IF DOMAIN f = {} THEN FZero
              ELSE LET a == CHOOSE x \in DOMAIN f : TRUE
                   IN FAtom(ExpAtom(QMul(I(2), Exponent(a))), QSq(f[a]))

FIsConst(f)  == DOMAIN f \subseteq {AOne}
FConstVal(f) == FCoef(f, AOne)

(* JSON image: a set (-> array) of [a |-> atom, k |-> coefficient] *)
FJson(f) == {[a |-> x, k |-> f[x]] : x \in DOMAIN f}
=============================================================================
