------------------------- MODULE OptimisersFacts -------------------------
(* Numeric predicates of C16 that the ask/tell machine (Optimisers.tla) cannot *)
(* compute as values: recombination weights, step-size growth, covariance      *)
(* symmetry / positive variances, bound excess of CEM samples and means.  The  *)
(* harness logs FACTS about the real objects (device D4: float32 ordinals -     *)
(* the order-preserving integer image of a float32 - and scaled integer         *)
(* excesses); this module decides every predicate on them.  One fact per step:  *)
(* either as invariants (FactsHold) or, to keep going after a failure, by       *)
(* printing the failed predicates of each fact (EMIT).                          *)
EXTENDS Integers, Sequences, FiniteSets, TLC, Json, IOUtils

CONSTANTS EMIT

Facts == JsonDeserialize(IOEnv.FACTS_FILE)      \* sequence of records, field `kind`

ORD_ONE == 1065353216     \* ordinal of 1.0f
ORD_INF == 2139095040     \* ordinal of +inf; NaNs lie above
PositiveFinite(o) == o > 0 /\ o < ORD_INF

----------------------------------------------------------------------------
(* kind = "weights": CMAESConfig.create(n_samples_per_update = n).weights      *)
(*   ords[r] ordinal of w_r; sumLo / sumHi ordinals of the exact rational sum   *)
(*   of the float32 weights rounded down / up to float32.                       *)
(* w = v / fl(sum v): every quotient is rounded once (relative 2^-24) and the   *)
(* float32 sum of mu terms is off by at most (mu - 1) * 2^-24 relative, so the  *)
(* exact sum of the weights is within (mu + 1) ordinals of 1.0                  *)
WeightsCount(f)       == f.mu = f.n \div 2 /\ Len(f.ords) = f.mu /\ f.mu >= 1
WeightsPositive(f)    == \A r \in 1..Len(f.ords) : PositiveFinite(f.ords[r])
WeightsNonIncreasing(f) == \A r \in 1..(Len(f.ords) - 1) : f.ords[r] >= f.ords[r + 1]
WeightsSumToOne(f)    == /\ ORD_ONE - (f.mu + 1) <= f.sumLo
                         /\ f.sumHi <= ORD_ONE + (f.mu + 1)

(* kind = "update": one update_search_distribution                              *)
(*   ordVarPre / ordVarPost: state.var before / after; ordBound: ordinal of     *)
(*   fl32(var_pre * e^1.2) (sigma grows by at most e^0.6, var = sigma^2).        *)
(*   exp is evaluated within 4 ulp, squaring doubles that, two more roundings   *)
(*   and one in the reference: 16 ordinals.                                      *)
StepSizeBounded(f) == /\ PositiveFinite(f.ordVarPost)
                      /\ f.ordVarPost <= f.ordBound + 16
(*   minDiagOrd: ordinal of the smallest diagonal entry of state.cov            *)
VariancesPositive(f) == PositiveFinite(f.minDiagOrd)
(*   asym: max_{i<j} |C_ij - C_ji| / (2^-24 * sqrt(C_ii C_jj)), rounded up.      *)
(*   C is symmetric up to the rounding of the rank-mu products                   *)
(*   (n^T diag(w)) n: (mu + 1) half-ulps of sqrt(R_ii R_jj) on either side per   *)
(*   generation, R_ii <= C_ii / cmu-ish; factor 4 for the active update whose    *)
(*   negative term shrinks the diagonal.                                         *)
AsymBound(f) == f.gen * 2 * (f.mu + 2) * (IF f.active THEN 4 ELSE 1)
CovSymmetric(f) == f.finite /\ f.asym <= AsymBound(f)

(* kind = "box": candidates / means of the cross-entropy method against [lb,ub] *)
(*   over / under: excess above ub / below lb in float32 ulps of the largest     *)
(*   magnitude involved, rounded up; tol: roundings between exact and computed   *)
(*   value (0 on dyadic lattices)                                                *)
(*   (one-sided / wide boxes: ulps of max(|face|, distance of the mean to that    *)
(*   face), an infinite face cannot be exceeded); nan (optional): a value is NaN  *)
WithinBox(f) == f.over <= f.tol /\ f.under <= f.tol
NoNaN(f) == ("nan" \in DOMAIN f) => ~f.nan

Failed(f) ==
  CASE f.kind = "weights" ->
         (IF WeightsCount(f) THEN {} ELSE {"WeightsCount"})
         \cup (IF WeightsPositive(f) THEN {} ELSE {"WeightsPositive"})
         \cup (IF WeightsNonIncreasing(f) THEN {} ELSE {"WeightsNonIncreasing"})
         \cup (IF WeightsSumToOne(f) THEN {} ELSE {"WeightsSumToOne"})
    [] f.kind = "update" ->
         (IF StepSizeBounded(f) THEN {} ELSE {"StepSizeBounded"})
         \cup (IF VariancesPositive(f) THEN {} ELSE {"VariancesPositive"})
         \cup (IF VariancesPositive(f) => CovSymmetric(f) THEN {} ELSE {"CovSymmetric"})
    [] f.kind = "box" -> (IF WithinBox(f) THEN {} ELSE {"WithinBox"}) \cup (IF NoNaN(f) THEN {} ELSE {"NoNaN"})
    [] OTHER -> {"UnknownKind"}

VARIABLE i
Init == i = 0
Judge == /\ i < Len(Facts)
         /\ i' = i + 1
         /\ (EMIT /\ Failed(Facts[i + 1]) # {}) =>
              PrintT(<<"EMIT", ToJson([fact |-> i + 1, failed |-> Failed(Facts[i + 1])])>>)
Next == Judge
Spec == Init /\ [][Next]_i

FactsHold == i > 0 => Failed(Facts[i]) = {}
AllJudged == <>(i = Len(Facts))
=============================================================================
