--------------------------- MODULE SchedulerOps ---------------------------
(* C11, scheduler clauses: pure operators shared by Scheduler.tla (state     *)
(* machines checked by TLC) and SchedulerTrace.tla (validation of traces      *)
(* recorded from the real train_uts / train_smt / train_active_mt).           *)
(*                                                                            *)
(*  1. task selectors  rl_blox/blox/multitask.py  TaskSelector,               *)
(*     RoundRobinSelector, DUCBGeneralized and rl_blox/blox/mapb.py DUCB      *)
(*  2. the scripted single-task learner (the `train_st` contract)             *)
(*  3. accounting of train_uts, train_active_mt, train_smt                    *)
(*                                                                            *)
(* Arms / task ids are 0-based as in the code, sequences are 1-based: the     *)
(* entry of arm a in a per-arm sequence is [a + 1].  Rewards, discount        *)
(* factors and budgets are exact rationals (Exact.tla).                       *)
EXTENDS Exact, FiniteSets

Front(s) == SubSeq(s, 1, Len(s) - 1)
RECURSIVE ISumTo(_, _)
ISumTo(s, k) == IF k = 0 THEN 0 ELSE ISumTo(s, k - 1) + s[k]
ISum(s) == ISumTo(s, Len(s))
SetMin(S) == CHOOSE x \in S : \A y \in S : x <= y
LastN(s, n) == IF Len(s) <= n THEN s ELSE SubSeq(s, Len(s) - n + 1, Len(s))
RECURSIVE QPow(_, _)
QPow(g, k) == IF g = One \/ k = 0 THEN One ELSE IF g[1] = 1 THEN <<1, g[2] ^ k>> ELSE QMul(g, QPow(g, k - 1))

----------------------------------------------------------------------------
(* 1a. Discounted UCB (mapb.DUCB).  P.gamma discount, P.W window (250 in the  *)
(* code), zeta = 0 so that the padding term vanishes and the index is the     *)
(* discounted empirical mean, an exact rational.  ch = chosen_arms, rw =      *)
(* rewards; both are read on their aligned prefix of length t.               *)
WinLo(t, W) == IF t > W THEN t - W ELSE 0
RECURSIVE DAcc(_, _, _, _, _, _, _, _)
(* sum over s in lo..hi-1 (0-based) with ch[s+1] = a of gamma^(t-1-s) * val(s); *)
(* split in halves so that the 250-step window needs no deep recursion         *)
DAcc(ch, rw, useRw, a, g, t, lo, hi) ==
  IF hi <= lo THEN Zero
  ELSE IF hi = lo + 1
    THEN IF ch[lo + 1] = a THEN QMul(QPow(g, t - 1 - lo), IF useRw THEN rw[lo + 1] ELSE One) ELSE Zero
  ELSE LET mid == (lo + hi) \div 2
       IN QAdd(DAcc(ch, rw, useRw, a, g, t, lo, mid), DAcc(ch, rw, useRw, a, g, t, mid, hi))
(* discounted_frequencies[a] as left by the last reward() call *)
DCount(P, ch, rw, a) == LET t == Len(rw) IN
                        IF P.gamma = One THEN I(Cardinality({s \in WinLo(t, P.W)..(t - 1) : ch[s + 1] = a}))
                        ELSE DAcc(ch, rw, FALSE, a, P.gamma, t, WinLo(t, P.W), t)
DSum(P, ch, rw, a)   == LET t == Len(rw) IN DAcc(ch, rw, TRUE, a, P.gamma, t, WinLo(t, P.W), t)
FreqVec(P, ch, rw)   == [k \in 1..P.nt |-> DCount(P, ch, rw, k - 1)]
(* an arm without weight in the window has no finite index: it has to be played *)
Unplayed(P, ch, rw)  == {a \in 0..(P.nt - 1) : DCount(P, ch, rw, a) = Zero}
IndexVec(P, ch, rw)  == [k \in 1..P.nt |-> QDiv(DSum(P, ch, rw, k - 1), DCount(P, ch, rw, k - 1))]

(* choose_arm: every arm in turn while fewer than 2*arms rewards are recorded, *)
(* afterwards an arm maximising the index                                      *)
InitialRounds(P, rw) == Len(rw) < 2 * P.nt
ChooseSet(P, ch, rw) ==
  IF InitialRounds(P, rw) THEN {Len(rw) % P.nt}
  ELSE IF Unplayed(P, ch, rw) # {} THEN Unplayed(P, ch, rw)
  ELSE {k - 1 : k \in ArgMaxSet(IndexVec(P, ch, rw))}
ChooseFirst(P, ch, rw) == SetMin(ChooseSet(P, ch, rw))      \* numpy argmax: first maximiser
Choices(P, ch, rw) == IF P.tie = "first" THEN {ChooseFirst(P, ch, rw)} ELSE ChooseSet(P, ch, rw)

----------------------------------------------------------------------------
(* 1b. DUCBGeneralized.feedback: baseline over the earlier raw rewards of the *)
(* arm (chronological), then the operator                                     *)
RECURSIVE DavgTo(_, _, _)
DavgTo(rev, hg, k) == IF k = 0 THEN Zero ELSE QAdd(DavgTo(rev, hg, k - 1), QMul(rev[k], QPow(hg, k)))
Reverse(s) == [k \in 1..Len(s) |-> s[Len(s) + 1 - k]]
Baseline(P, prev) ==
  CASE P.baseline = "max"  -> QMaxSeq(prev)
    [] P.baseline = "avg"  -> QMean(prev)
    [] P.baseline = "last" -> prev[Len(prev)]
    [] P.baseline = "davg" -> QMul(DavgTo(Reverse(prev), P.hg, Len(prev)), QSub(QDiv(One, P.hg), One))
    [] OTHER               -> Zero
ApplyOp(P, x) ==
  CASE P.op = "max-with-0" -> QMax(Zero, x)
    [] P.op = "abs"        -> QAbs(x)
    [] P.op = "neg"        -> QNeg(x)
    [] OTHER               -> x
Intrinsic(P, prev, r) == ApplyOp(P, QSub(r, Baseline(P, prev)))

----------------------------------------------------------------------------
(* 1c. selector objects.  kind: "base" TaskSelector, "rr" RoundRobinSelector, *)
(* "gen" DUCBGeneralized, "ducb" the bare bandit (choose_arm / reward; it has *)
(* no flag, `waiting` is then the caller's phase).                            *)
SelInit(P) == [kind |-> P.kind, waiting |-> FALSE, i |-> 0, chosen |-> <<>>, rewards |-> <<>>,
               last |-> [k \in 1..P.nt |-> <<>>], arm |-> -1]

(* select(): set of <<state', selected id>>; empty = rejected (AssertionError) *)
SelSelectSet(P, s) ==
  IF s.waiting THEN {}
  ELSE CASE s.kind = "base" -> {<<[s EXCEPT !.waiting = TRUE], 0>>}
         [] s.kind = "rr"   -> {<<[s EXCEPT !.waiting = TRUE, !.i = s.i + 1], (s.i + 1) % P.nt>>}
         [] OTHER           -> {<<[s EXCEPT !.waiting = TRUE, !.arm = a, !.chosen = Append(s.chosen, a)], a>>
                                 : a \in Choices(P, s.chosen, s.rewards)}

(* feedback(r), enabled iff s.waiting.  gen: the FIRST feedback of an arm only *)
(* provides the baseline - the bandit forgets that it chose the arm            *)
SelFeedback(P, s, r) ==
  CASE s.kind = "gen" ->
         LET prev == s.last[s.arm + 1]
         IN [s EXCEPT !.waiting = FALSE,
                      !.last[s.arm + 1] = Append(prev, r),
                      !.chosen  = IF prev = <<>> THEN Front(s.chosen) ELSE s.chosen,
                      !.rewards = IF prev = <<>> THEN s.rewards ELSE Append(s.rewards, Intrinsic(P, prev, r))]
    [] s.kind = "ducb" -> [s EXCEPT !.waiting = FALSE, !.rewards = Append(s.rewards, r)]
    [] OTHER -> [s EXCEPT !.waiting = FALSE]

(* what the harness can see of a selector *)
SelView(P, s) == [kind |-> s.kind, waiting |-> s.waiting, i |-> s.i, chosen |-> s.chosen,
                  rewards |-> s.rewards, last |-> s.last, arm |-> s.arm,
                  freq |-> FreqVec(P, s.chosen, s.rewards)]

----------------------------------------------------------------------------
(* 2. The single-task learner behind `train_st(env, total_timesteps=T,        *)
(* total_episodes=E, global_step=g, ...)`: it steps the environment from      *)
(* counter g until E episodes have ended or the counter reaches T, whichever  *)
(* comes first.  lens[j] = length the j-th episode would have, Len(lens) >= E.*)
(* Contract: reported = g + executed.  mode "short" is the deviation of loops *)
(* that leave on the episode limit before advancing the counter.              *)
Prefix(lens, k) == ISumTo(lens, k)
EpisodesDone(lens, E, avail) == CHOOSE k \in 0..E : /\ Prefix(lens, k) <= avail
                                                     /\ \A j \in (k + 1)..E : Prefix(lens, j) > avail
Run(g, T, E, lens, mode) ==
  LET avail == T - g
      d     == EpisodesDone(lens, E, avail)
      ex    == IF d = E THEN Prefix(lens, E) ELSE avail
  IN [done |-> d, executed |-> ex, logged |-> Prefix(lens, d),
      reported |-> g + ex - (IF mode = "short" /\ d = E THEN 1 ELSE 0)]

----------------------------------------------------------------------------
(* 3a. train_uts: no bookkeeping of its own - the learner's count IS the      *)
(* scheduler's counter                                                        *)
(* Warm-up hand-over: the learner compares `learning_starts` with its ABSOLUTE *)
(* step counter - at counter value c (c = g, g+1, ..) it acts randomly and     *)
(* performs no update while c < ls.  EarlyUpdate: some update of this call     *)
(* happens when fewer than `expl` environment steps have been executed in all. *)
EarlyUpdate(g, executed, ls, execBefore, expl) ==
  \E c \in g..(g + executed - 1) : c >= ls /\ execBefore + (c - g) < expl
UtsInit == [gs |-> 0, exec |-> 0, calls |-> 0, early |-> FALSE]
(* one call: given counter g, learning_starts ls; expl = exploring_starts of train_uts *)
UtsAfter(u, g, run, ls, expl) ==
  [gs |-> run.reported, exec |-> u.exec + run.executed, calls |-> u.calls + 1,
   early |-> u.early \/ EarlyUpdate(g, run.executed, ls, u.exec, expl)]
(* what train_uts hands to every call: the absolute threshold, unchanged *)
UtsWarmup(expl, gs) == expl
(* deviation: the part of the warm-up that is "left", relative to the round *)
UtsWarmupRelative(expl, gs) == IF expl > gs THEN expl - gs ELSE 0

(* 3b. train_active_mt: steps are read from the episode statistics of the     *)
(* wrapped environment; a call that did not finish E episodes hit the budget  *)
AmtInit(nt) == [gs |-> 0, ts |-> [k \in 1..nt |-> 0], exec |-> [k \in 1..nt |-> 0], over |-> FALSE]
AmtAfter(a, T, E, task, run) ==
  IF run.done # E
    THEN [a EXCEPT !.ts[task + 1] = @ + (T - a.gs), !.exec[task + 1] = @ + run.executed, !.over = TRUE]
    ELSE [a EXCEPT !.ts[task + 1] = @ + run.logged, !.exec[task + 1] = @ + run.executed, !.gs = @ + run.logged]

(* 3c. train_smt.  C = [nt, b1, b2, K, kappa, E, nav, solvedT, unsolvT].       *)
(* Pools: upd = the training pool (updated_training_pool), main, solved,      *)
(* unsolv; round = the pool snapshot the current sweep iterates over, todo =  *)
(* its tasks not yet visited; s2 = pool of stage 2.                           *)
(* avg[k] = [m, v]: "unmeasured" (never trained), "none" (trained, no episode *)
(* finished yet), "val" with value v.                                         *)
Unmeasured == [m |-> "unmeasured", v |-> Zero]
NoValue    == [m |-> "none", v |-> Zero]
Val(x)     == [m |-> "val", v |-> x]
BTotal(C)  == C.b1 + C.b2
SmtStart(C, pool) ==
  [stage |-> "s1", gs |-> 0, ts |-> [k \in 1..C.nt |-> 0], exec |-> [k \in 1..C.nt |-> 0],
   round |-> pool, todo |-> pool, upd |-> pool, main |-> (0..(C.nt - 1)) \ pool,
   solved |-> {}, unsolv |-> {}, s2 |-> {},
   budgets |-> [k \in 1..C.nt |-> QMul(C.kappa, I(BTotal(C)))],
   perf |-> [k \in 1..C.nt |-> <<>>], avg |-> [k \in 1..C.nt |-> Unmeasured]]
SmtInitialPools(C) == {p \in SUBSET (0..(C.nt - 1)) : Cardinality(p) = C.K}

StageLimit(C, m) == IF m.stage = "s1" THEN C.b1 ELSE BTotal(C)

(* one train_st call on `task` and the bookkeeping after it *)
SmtAfterCall(C, m, task, run, rets) ==
  LET lim   == StageLimit(C, m)
      gs1   == m.gs + run.logged
      gs2   == IF run.done # C.E THEN lim ELSE gs1
      ts2   == m.ts[task + 1] + run.logged + (IF run.done # C.E THEN lim - gs1 ELSE 0)
      pf    == LastN(m.perf[task + 1] \o SubSeq(rets, 1, run.done), C.nav)
      av    == IF pf = <<>> THEN NoValue ELSE Val(QMean(pf))
      isSolved  == av.m = "val" /\ QLe(C.solvedT, av.v)
      spent     == QLe(m.budgets[task + 1], I(ts2))
      isUnsolv  == av.m = "val" /\ QLe(av.v, C.unsolvT)
      base  == [m EXCEPT !.gs = gs2, !.ts[task + 1] = ts2, !.exec[task + 1] = @ + run.executed,
                         !.todo = IF gs2 >= lim THEN {} ELSE m.todo \ {task}]
  IN IF m.stage = "s2" THEN base
     ELSE LET b2 == [base EXCEPT !.perf[task + 1] = pf, !.avg[task + 1] = av]
          IN IF isSolved THEN [b2 EXCEPT !.solved = @ \cup {task}, !.upd = @ \ {task}]
             ELSE IF spent /\ isUnsolv THEN [b2 EXCEPT !.unsolv = @ \cup {task}, !.upd = @ \ {task}]
             ELSE IF spent THEN [b2 EXCEPT !.main = @ \cup {task}, !.upd = @ \ {task}]
             ELSE b2

(* lowest performance in the main pool; a task without a measured value counts *)
(* as lowest                                                                   *)
NoPerf(av) == av.m # "val"
WorstSet(m) == {w \in m.main : \/ NoPerf(m.avg[w + 1])
                               \/ \A x \in m.main : ~NoPerf(m.avg[x + 1]) /\ QLe(m.avg[w + 1].v, m.avg[x + 1].v)}
RECURSIVE SmtRefill(_, _)
(* refill the training pool up to K from the main pool: set of [m, early] *)
SmtRefill(C, m) ==
  IF Cardinality(m.upd) >= C.K THEN {[m |-> m, early |-> FALSE]}
  ELSE IF m.main = {} THEN {[m |-> m, early |-> (m.upd = {})]}
  ELSE UNION {SmtRefill(C, [m EXCEPT !.upd = @ \cup {w}, !.main = @ \ {w},
                                     !.budgets[w + 1] = QMul(C.kappa, I(BTotal(C) - m.gs))])
              : w \in WorstSet(m)}
(* end of stage 1: stage 2 sweeps the unsolvable pool, or - when it is empty - *)
(* the main pool; without such a pool (or budget) there is no stage 2          *)
SmtEndStage1(C, m) ==
  LET p == IF m.unsolv = {} /\ m.main # {} THEN m.main ELSE m.unsolv
  IN IF p = {} \/ m.gs >= BTotal(C) THEN [m EXCEPT !.stage = "end", !.todo = {}, !.round = {}]
     ELSE [m EXCEPT !.stage = "s2", !.s2 = p, !.round = p, !.todo = p]
(* what follows a finished sweep (todo = {}) *)
SmtAfterSweep(C, m) ==
  IF m.stage = "s1"
    THEN {IF r.early \/ r.m.gs >= C.b1 THEN SmtEndStage1(C, r.m)
          ELSE [r.m EXCEPT !.round = r.m.upd, !.todo = r.m.upd] : r \in SmtRefill(C, m)}
  ELSE IF m.stage = "s2"
    THEN {IF m.gs >= BTotal(C) THEN [m EXCEPT !.stage = "end", !.round = {}] ELSE [m EXCEPT !.todo = m.s2]}
  ELSE {m}

PoolOf(m, t) == IF t \in m.upd THEN "training" ELSE IF t \in m.main THEN "main"
                ELSE IF t \in m.solved THEN "solved" ELSE IF t \in m.unsolv THEN "unsolvable" ELSE "nowhere"
PoolMoves == {<<"training", "solved">>, <<"training", "unsolvable">>, <<"training", "main">>, <<"main", "training">>}
SmtPartition(C, m) ==
  /\ m.upd \cup m.main \cup m.solved \cup m.unsolv = 0..(C.nt - 1)
  /\ Cardinality(m.upd) + Cardinality(m.main) + Cardinality(m.solved) + Cardinality(m.unsolv) = C.nt
=============================================================================
