--------------------------- MODULE Losses ---------------------------
(* C03 - critic and representation losses of rl_blox, transcribed from their  *)
(* DOCUMENTED targets on exact rationals (device D2, Exact.tla).              *)
(*                                                                            *)
(* A "behaviour" is the staged choice of one test vector:                     *)
(*   ChooseKind (which loss, batch size) -> ChooseParams (gamma, alpha, ...)  *)
(*   -> per batch row: ChooseBoot (everything the bootstrap is computed from: *)
(*      network outputs at the successor observation) then ChooseRest (the    *)
(*      transition itself and the online predictions)  -> Finish (emit).      *)
(* The numbers chosen are NETWORK OUTPUTS; the driver realises them with      *)
(* table-lookup stub networks and runs the real loss code.                    *)
(*                                                                            *)
(* One operator per code section: Boots (bootstrap rule per algorithm), Y     *)
(* (target), NStep (MR.Q n-step return), Reg (regression per sample), Loss    *)
(* (batch reduction as documented), Grad (d loss / d online prediction),      *)
(* SaleEval (TD7 embedding loss), EncEval (MR.Q unrolled encoder loss),       *)
(* Deps (which parameter groups the loss depends on differentiably).          *)
(*                                                                            *)
(* kinds: dqn nature ddqn per | ddpg td3 lap sac td7 mrq | sale enc           *)
(*                                                                            *)
(* Update routines (the USE of a loss by the routine that differentiates it,  *)
(* applies the gradient with the caller's optimiser and returns the loss):    *)
(*   encupd   update_model_based_encoder: scan over target_delay mini-batches *)
(*            of batch_size rows, per mini-batch the documented weighted sum  *)
(*            dw*L_dyn + rw*L_reward + tw*L_done is differentiated and        *)
(*            applied, the routine returns the mean over the mini-batches of  *)
(*            (total, dynamics, reward, done, reward mse)                     *)
(*   saleupd  update_sale: one step on state_action_embedding_loss            *)
(*   mrqupd   update_critic_and_policy: one step of the critic on mrq_loss    *)
(*            (gamma, reward_scale, target_reward_scale passed positionally)  *)
(* (td7_update_critic is itself such a routine: kind td7.)  Operators         *)
(* MiniBatch (the scan's schedule), InnerPar (the hyper-parameters as the     *)
(* inner call receives them), SgdStep (old - new parameter for plain SGD),    *)
(* EncGrads / EncUpdate / SaleUpdate / CriticUpdate.                          *)
(*                                                                            *)
(* Configuration of the MR.Q encoder (ModelBasedEncoder) and of its loss: the *)
(* documented switches are TLC-chosen parameters of the kinds enc / encupd /  *)
(* mrq / mrqupd:  actlast = encoder_activation_in_last_layer, normtgt =       *)
(* normalize_targets, envterm = environment_terminates, the three weights,    *)
(* the horizon.  The encoder's maps are named stages applied to the RAW       *)
(* output of its `zs` sub-network in the documented order:                    *)
(*   encode_zs(o)   = [activation if actlast] o zs_layer_norm o zs (o)        *)
(*   dynamics target_t = stop_gradient(encoder_target.encode_zs(o'_t)) if     *)
(*                    normalize_targets else stop_gradient(encoder_target.zs) *)
(* (Stage, ApplyStages, EncodeZsStages, DynTargetStages).  The binding builds *)
(* the REAL ModelBasedEncoder (real constructor, real encode_zs / encode_zsa  *)
(* / model_head) with activation act in {"relu", "hard_tanh"} (exact on       *)
(* dyadics; the activation is a constructor argument of the encoder) and a    *)
(* zs_layer_norm with the exact affine map LNorm below (it does not commute   *)
(* with the activation, so order and presence of every stage are visible).    *)
EXTENDS Exact, FiniteSets, TLC, Json

CONSTANTS EMIT,    \* TRUE: print one EMIT record per finished vector
          Kinds,   \* set of loss kinds explored
          NSet,    \* set of batch sizes
          NA,      \* number of discrete actions (dqn family)
          H,       \* horizon (mrq n-step, enc unroll)
          LAT,     \* "full" | "small": value lattice
          DEV      \* "" or the name of a deviation (canaries): "noterm" "broadcast" "nosg" "encbroadcast" "updswap" "tgtnoact"

VARIABLES stage,   \* "kind" | "par" | "rows" | "done"
          kind, n, par,
          pend,    \* <<>> or <<boot part of the row being chosen>>
          rows     \* sequence of [b |-> boot part, x |-> rest]

vars == <<stage, kind, n, par, pend, rows>>

Disc  == {"dqn", "nature", "ddqn", "per"}
Cont  == {"ddpg", "td3", "lap", "sac", "td7"}
Two   == {"td3", "lap", "sac", "td7", "mrq"}      \* two online critics
Hub   == {"lap", "td7", "mrq"}                    \* Huber regression
Upd   == {"encupd", "saleupd", "mrqupd"}          \* update routines around a loss
Base(k) == CASE k = "encupd" -> "enc" [] k = "saleupd" -> "sale" [] k = "mrqupd" -> "mrq" [] OTHER -> k

----------------------------------------------------------------------------
(* value lattices (dyadic) *)
Full == LAT = "full"
RV   == IF Full THEN {I(-1), I(0), I(2)} ELSE {I(-1), I(2)}           \* rewards
QV   == IF Full THEN {I(-2), I(0), Half, I(3)} ELSE {I(0), I(3)}      \* online predictions
BV   == IF Full THEN {I(-2), I(0), Half, I(3)} ELSE {I(-2), Half}     \* successor values
GV   == IF Full THEN {Zero, Half, One} ELSE {Half, One}               \* discount
WV   == IF Full THEN {Half, One, I(2)} ELSE {Half, I(2)}              \* importance ratios
AV   == {Zero, Half}                                                  \* entropy coefficient
LPV  == IF Full THEN {I(-1), I(0), I(2)} ELSE {I(-1), I(2)}           \* log pi(a'|o')
DV   == {Half, One}                                                   \* Huber delta (min_priority)
ClipV == IF Full THEN {<<I(-1), I(2)>>, <<Zero, Half>>, <<I(-4), I(4)>>} ELSE {<<I(-1), Zero>>, <<I(-4), I(4)>>}
SV   == IF Full THEN {Half, One, I(2)} ELSE {Half, I(2)}              \* reward scales (powers of two)
TSeqs == [1..H -> {0, 1}]                                             \* termination patterns over the horizon
(* latent vectors (dimension 2); ZRaw: un-normalised embeddings whose mean |.| is a power of two *)
ZV   == IF Full \/ Base(kind) = "sale" THEN {<<Zero, Zero>>, <<One, I(-1)>>, <<Half, I(2)>>} ELSE {<<Zero, Zero>>, <<One, I(-1)>>}
(* ZT: sale - targets; enc - RAW outputs of the target encoder's zs network at o' (small: both signs after the layer norm) *)
ZT   == IF Full \/ Base(kind) = "sale" THEN {<<Zero, Zero>>, <<One, One>>, <<I(-2), Half>>} ELSE {<<I(-2), Half>>}
ZRaw == {<<One, One>>, <<I(2), Zero>>, <<I(3), I(-1)>>, <<Half, Q(-3, 2)>>, <<Q(-1, 2), Half>>}
PDV  == IF Full THEN {Zero, Half, I(2)} ELSE {Zero, Half}             \* predicted done flag
WgtV == IF Full THEN {Zero, One, I(2)} ELSE {One, I(2)}               \* loss weights
BinsQ == <<I(-2), I(0), I(2), I(4)>>                                  \* two-hot bin edges used by the binding
RBar == QMean(BinsQ)                                                  \* decoded reward of uniform logits (mean of the bins) = 1
LrV  == {Half, One}                                                   \* SGD learning rates of the update routines

DefPar == [gamma |-> One, delta |-> One, alpha |-> Zero, lo |-> I(-4), hi |-> I(4), rs |-> One, trs |-> One,
           dw |-> One, rw |-> Zero, tw |-> One, envterm |-> TRUE, normtgt |-> TRUE,
           actlast |-> FALSE,         \* ModelBasedEncoder(encoder_activation_in_last_layer=...) of BOTH encoders (enc, mrq and their routines)
           act |-> "relu",            \* ModelBasedEncoder(activation=...): name of a flax.nnx function that is exact on dyadic rationals
           lr |-> One, td |-> 1]      \* update routines only: SGD learning rate, target_delay (number of mini-batches of the scan)

(* update routines: curated hyper-parameters, PAIRWISE DISTINCT and non-default wherever two scalars are neighbours in a      *)
(* positional call (each set is a separate jit specialisation of the routine, so the sets are few)                            *)
(* (the encoder's activation switch rides on the existing sets: all four (normalize_targets, activation-in-last-layer) pairs)   *)
EncW(d, r, t, e, m, l, c, a) == [DefPar EXCEPT !.dw = d, !.rw = r, !.tw = t, !.envterm = e, !.normtgt = m, !.lr = l, !.td = c, !.actlast = a]
UpdEncSmall == {[EncW(I(2), One,  Half, TRUE,  TRUE,  Half, 2, TRUE) EXCEPT !.act = "hard_tanh"],   \* all three weights distinct, two mini-batches
                EncW(Half, I(2), One,  TRUE,  FALSE, One,  1, FALSE),    \* one mini-batch (unrolled chain intact), raw targets
                EncW(One,  Zero, I(2), TRUE,  TRUE,  One,  2, FALSE),    \* no reward term: the total is an exact rational
                EncW(I(2), Half, One,  FALSE, TRUE,  Half, 1, TRUE)}     \* environment never terminates: done term dropped
UpdEncMore  == {EncW(One,  One,  One,  TRUE,  TRUE,  Half, 2, FALSE),    \* equal weights (the defaults' class)
                EncW(One,  Half, I(2), TRUE,  FALSE, Half, 2, TRUE),
                EncW(Half, One,  I(2), FALSE, FALSE, One,  2, FALSE),
                [EncW(I(2), One,  Zero, TRUE,  TRUE,  One,  1, TRUE) EXCEPT !.act = "hard_tanh"]}
UpdMrqSmall == {[DefPar EXCEPT !.gamma = Half, !.rs = I(2), !.trs = One,  !.lr = Half, !.actlast = TRUE],
                [DefPar EXCEPT !.gamma = One,  !.rs = Half, !.trs = I(2), !.lr = One]}
(* <<normalize_targets, activation in last layer, activation>>: every configuration is a separate compilation of the loss, so  *)
(* the full lattice takes curated triples (the small lattice adds <<FALSE, TRUE, "relu">>: raw targets stay un-activated);    *)
(* without the switch the activation reaches the action code only (identity there)                                            *)
EncCfgV == {<<TRUE, FALSE, "relu">>, <<FALSE, FALSE, "relu">>, <<TRUE, TRUE, "relu">>, <<TRUE, TRUE, "hard_tanh">>}
MrqCfgV == {<<FALSE, "relu">>, <<TRUE, "hard_tanh">>}
ParSetFull(k) ==
  CASE k \in Disc \cup {"ddpg", "td3"} -> {[DefPar EXCEPT !.gamma = g] : g \in GV}
    [] k = "lap"  -> {[DefPar EXCEPT !.gamma = g, !.delta = d] : g \in GV, d \in DV}
    [] k = "sac"  -> {[DefPar EXCEPT !.gamma = g, !.alpha = a] : g \in GV, a \in AV}
    [] k = "td7"  -> {[DefPar EXCEPT !.gamma = g, !.delta = d, !.lo = c[1], !.hi = c[2]] : g \in GV, d \in DV, c \in ClipV}
    [] k = "mrq"  -> {[DefPar EXCEPT !.gamma = g, !.rs = s, !.trs = t, !.actlast = a[1], !.act = a[2]] : g \in GV, s \in SV, t \in SV, a \in MrqCfgV}
    [] k = "sale" -> {DefPar}
    [] k = "enc"  -> {[DefPar EXCEPT !.dw = d, !.rw = r, !.tw = t, !.envterm = e, !.normtgt = a[1], !.actlast = a[2], !.act = a[3]] :
                        d \in WgtV, r \in {Zero, One}, t \in WgtV, e \in BOOLEAN, a \in EncCfgV}
    [] k = "encupd"  -> UpdEncSmall \cup UpdEncMore
    [] k = "saleupd" -> {[DefPar EXCEPT !.lr = l] : l \in LrV}
    [] k = "mrqupd"  -> UpdMrqSmall \cup {[DefPar EXCEPT !.gamma = Half, !.rs = One, !.trs = I(2), !.lr = One],
                                          [DefPar EXCEPT !.gamma = One, !.rs = I(2), !.trs = Half, !.lr = Half, !.actlast = TRUE]}
(* small lattice: curated combinations instead of products *)
ParSetSmall(k) ==
  CASE k = "td7"  -> {[DefPar EXCEPT !.gamma = Half, !.delta = Half, !.lo = I(-1), !.hi = Zero],
                      [DefPar EXCEPT !.gamma = One, !.delta = One],
                      [DefPar EXCEPT !.gamma = One, !.delta = Half, !.lo = I(-1), !.hi = Zero],   \* gamma, min_priority, q_min, q_max pairwise distinct
                      [DefPar EXCEPT !.gamma = Half, !.delta = One, !.lo = I(-1), !.hi = Zero]}
    [] k = "mrq"  -> {[DefPar EXCEPT !.gamma = Half, !.rs = I(2), !.trs = Half, !.actlast = TRUE],
                      [DefPar EXCEPT !.gamma = One, !.rs = Half, !.trs = I(2)]}
    [] k = "enc"  -> {DefPar,                                                          \* (normalize_targets, activation in last layer) =
                      [DefPar EXCEPT !.dw = I(2), !.rw = One, !.normtgt = FALSE],        \* (F, F)
                      [DefPar EXCEPT !.tw = I(2), !.envterm = FALSE, !.actlast = TRUE],  \* (T, T)
                      [DefPar EXCEPT !.rw = One, !.tw = I(2), !.actlast = TRUE, !.act = "hard_tanh"],   \* (T, T), another activation
                      [DefPar EXCEPT !.dw = I(2), !.normtgt = FALSE, !.actlast = TRUE]}  \* (F, T): raw targets stay un-activated
    [] k = "encupd"  -> UpdEncSmall
    [] k = "mrqupd"  -> UpdMrqSmall
    [] OTHER      -> ParSetFull(k)
ParSet(k) == IF Full THEN ParSetFull(k) ELSE ParSetSmall(k)

ZeroSeq == [j \in 1..NA |-> Zero]
(* scenario pairs for the small lattice: online/target argmax differ, ties *)
SmallScen == {<<[j \in 1..NA |-> IF j = 1 THEN I(-2) ELSE Half], [j \in 1..NA |-> IF j = 1 THEN I(3) ELSE Zero]>>,
              <<[j \in 1..NA |-> Half],                          [j \in 1..NA |-> IF j = NA THEN I(3) ELSE I(-2)]>>,
              <<[j \in 1..NA |-> IF j = 1 THEN I(3) ELSE I(-2)], [j \in 1..NA |-> IF j = 1 THEN Half ELSE I(3)]>>}
QSeqs == [1..NA -> BV]

BootSetFull(k) ==
  CASE k = "dqn"    -> {[Qn |-> a, Qt |-> ZeroSeq] : a \in QSeqs}
    [] k = "nature" -> {[Qn |-> ZeroSeq, Qt |-> a] : a \in QSeqs}
    [] k \in {"ddqn", "per"} -> [Qn : QSeqs, Qt : QSeqs]
    [] k = "ddpg"   -> [Q1t : BV, Q2t : {Zero}, logp : {Zero}]
    [] k \in {"td3", "lap", "td7", "mrq"} -> [Q1t : BV, Q2t : BV, logp : {Zero}]
    [] k = "sac"    -> [Q1t : BV, Q2t : BV, logp : LPV]
    [] k = "sale"   -> [en : ZRaw]
    [] k = "enc"    -> [tz : [1..H -> ZT]]
BootSetSmall(k) ==
  CASE k = "dqn"    -> {[Qn |-> s[1], Qt |-> ZeroSeq] : s \in SmallScen}
    [] k = "nature" -> {[Qn |-> ZeroSeq, Qt |-> s[2]] : s \in SmallScen}
    [] k \in {"ddqn", "per"} -> {[Qn |-> s[1], Qt |-> s[2]] : s \in SmallScen}
    [] k \in Cont \cup {"mrq"} -> {[Q1t |-> b, Q2t |-> Zero, logp |-> IF k # "sac" THEN Zero ELSE IF b = Half THEN I(2) ELSE I(-1)] : b \in BV}
    [] OTHER        -> BootSetFull(k)
BootSet(k) == IF Full THEN BootSetFull(Base(k)) ELSE BootSetSmall(Base(k))

RestSetFull(k) ==
  CASE k \in Disc \ {"per"} -> [a : 1..NA, r : RV, term : {0, 1}, q : QV, w : {One}]
    [] k = "per"    -> [a : 1..NA, r : RV, term : {0, 1}, q : QV, w : WV]
    [] k = "ddpg"   -> [r : RV, term : {0, 1}, q1 : QV, q2 : {Zero}]
    [] k \in {"td3", "lap", "sac", "td7"} -> [r : RV, term : {0, 1}, q1 : QV, q2 : QV]
    [] k = "mrq"    -> [rs : [1..H -> RV], ts : TSeqs, q1 : QV, q2 : QV]
    [] k = "sale"   -> [zsa : ZV \cup ZT]
    [] k = "enc"    -> [pz : [1..H -> ZV], pd : [1..H -> PDV], r : [1..H -> {I(-1), I(2)}], ts : TSeqs]
RestSetSmall(k) ==
  CASE k \in Disc   -> {[a |-> IF q = Zero THEN 1 ELSE NA, r |-> r, term |-> t, q |-> q,
                         w |-> IF k # "per" THEN One ELSE IF r = I(2) THEN I(2) ELSE Half] : r \in RV, t \in {0, 1}, q \in QV}
    [] k = "ddpg"   -> [r : RV, term : {0, 1}, q1 : QV, q2 : {Zero}]
    [] k \in {"td3", "lap", "sac", "td7"} -> [r : RV, term : {0, 1}, q1 : QV, q2 : {Half}]
    [] k = "mrq"    -> {[rs |-> [t \in 1..H |-> IF t = 1 THEN r ELSE I(2)], ts |-> s, q1 |-> q, q2 |-> Half] : r \in RV, s \in TSeqs, q \in QV}
    [] k = "enc"    -> {[pz |-> z, pd |-> [t \in 1..H |-> IF z[t] = <<Zero, Zero>> THEN Half ELSE Zero],
                         r |-> [t \in 1..H |-> I(-1)], ts |-> s] : z \in [1..H -> ZV], s \in TSeqs}
    [] OTHER        -> RestSetFull(k)
RestSet(k) == IF Full THEN RestSetFull(Base(k)) ELSE RestSetSmall(Base(k))

----------------------------------------------------------------------------
(* the documented target *)
Y(r, term, gamma, B) ==
  IF DEV = "noterm" THEN QAdd(r, QMul(gamma, B))                      \* deviation: (1 - terminated) dropped
  ELSE QAdd(r, QMul(QMul(QSub(One, I(term)), gamma), B))

(* bootstrap rule per algorithm: the SET of admissible values (ties of the online argmax) *)
Boots(k, p, b) ==
  CASE k = "dqn"    -> {QMaxSeq(b.Qn)}                                \* max_a' Q(o', a')
    [] k = "nature" -> {QMaxSeq(b.Qt)}                                \* max_a' Q'(o', a')
    [] k \in {"ddqn", "per"} -> {b.Qt[j] : j \in ArgMaxSet(b.Qn)}     \* Q'(o', argmax_a' Q(o', a'))
    [] k = "ddpg"   -> {b.Q1t}                                        \* Q'(o', pi'(o'))
    [] k \in {"td3", "lap", "mrq"} -> {QMin(b.Q1t, b.Q2t)}            \* clipped double Q
    [] k = "sac"    -> {QSub(QMin(b.Q1t, b.Q2t), QMul(p.alpha, b.logp))}
    [] k = "td7"    -> {QClip(QMin(b.Q1t, b.Q2t), p.lo, p.hi)}

(* MR.Q: n-step return truncated at the first termination, and the remaining discount *)
RECURSIVE NStep(_, _, _, _)
NStep(rs, ts, gamma, t) ==          \* <<return, discount>> after t steps
  IF t = 0 THEN <<Zero, One>>
  ELSE LET prev == NStep(rs, ts, gamma, t - 1)
       IN <<QAdd(prev[1], QMul(prev[2], rs[t])),
            QMul(prev[2], QMul(gamma, IF DEV = "noterm" THEN One ELSE QSub(One, I(ts[t]))))>>

Target(k, p, rw, B) ==
  IF k = "mrq"
  THEN LET ns == NStep(rw.x.rs, rw.x.ts, p.gamma, H)
       IN QDiv(QAdd(ns[1], QMul(QMul(ns[2], B), p.trs)), p.rs)
  ELSE Y(rw.x.r, rw.x.term, p.gamma, B)

Q1(k, rw) == IF k \in Disc THEN rw.x.q ELSE rw.x.q1
Q2(k, rw) == rw.x.q2
Delta(k, p) == IF k = "mrq" THEN One ELSE p.delta
Huber(e, d) == IF QLe(QAbs(e), d) THEN QMul(Half, QSq(e)) ELSE QMul(d, QSub(QAbs(e), QMul(Half, d)))

(* regression of critic c (1 or 2) for one sample, and its derivative w.r.t. the prediction *)
RegC(k, p, rw, y, c) ==
  LET e == QSub(IF c = 1 THEN Q1(k, rw) ELSE Q2(k, rw), y)
  IN CASE k \in Hub  -> Huber(e, Delta(k, p))
       [] k = "per"  -> QMul(rw.x.w, QSq(e))
       [] OTHER      -> QSq(e)
DRegC(k, p, rw, y, c) ==
  LET e == QSub(IF c = 1 THEN Q1(k, rw) ELSE Q2(k, rw), y)
  IN CASE k \in Hub  -> QClip(e, QNeg(Delta(k, p)), Delta(k, p))
       [] k = "per"  -> QMul(I(2), QMul(rw.x.w, e))
       [] OTHER      -> QMul(I(2), e)
Reg(k, p, rw, y) == IF k \in Two THEN QAdd(RegC(k, p, rw, y, 1), RegC(k, p, rw, y, 2)) ELSE RegC(k, p, rw, y, 1)

Idx(rws) == 1..Len(rws)
(* TLC evaluates [i \in S |-> e] lazily on every application; SubSeq forces it into a tuple once *)
Force(f, len) == SubSeq(f, 1, len)
(* batch reduction as documented: mean over the batch, summed over the critics *)
Loss(k, p, rws, ys) ==
  IF DEV = "broadcast"        \* deviation: (N,1) x (N,) broadcast, every prediction against every target
  THEN QMean([m \in 1..(Len(rws) * Len(rws)) |->
                LET i == ((m - 1) \div Len(rws)) + 1  j == ((m - 1) % Len(rws)) + 1
                IN Reg(k, p, rws[i], ys[j])])
  ELSE IF k \in Two
       THEN QAdd(QMean([i \in Idx(rws) |-> RegC(k, p, rws[i], ys[i], 1)]),
                 QMean([i \in Idx(rws) |-> RegC(k, p, rws[i], ys[i], 2)]))
       ELSE QMean([i \in Idx(rws) |-> RegC(k, p, rws[i], ys[i], 1)])

TdAbs(k, rw, y, c) == QAbs(QSub(IF c = 1 THEN Q1(k, rw) ELSE Q2(k, rw), y))

(* everything the implementation returns, for one admissible choice of bootstrap values *)
Eval(k, p, rws, ch) ==
  LET N  == Len(rws)
      ys == Force([i \in Idx(rws) |-> Target(k, p, rws[i], ch[i])], N)
  IN [loss  |-> Loss(k, p, rws, ys),
      qmean |-> QMean([i \in Idx(rws) |-> IF k \in Two THEN QMin(Q1(k, rws[i]), Q2(k, rws[i])) ELSE Q1(k, rws[i])]),
      mtd   |-> QMean([i \in Idx(rws) |-> TdAbs(k, rws[i], ys[i], 1)]),          \* per: mean |TD error|
      ptd   |-> [i \in Idx(rws) |-> IF k \in Two THEN QMax(TdAbs(k, rws[i], ys[i], 1), TdAbs(k, rws[i], ys[i], 2))
                                                 ELSE TdAbs(k, rws[i], ys[i], 1)],
      y     |-> ys,
      g1    |-> [i \in Idx(rws) |-> QDiv(DRegC(k, p, rws[i], ys[i], 1), I(N))],  \* d loss / d Q1(o_i, a_i)
      g2    |-> [i \in Idx(rws) |-> IF k \in Two THEN QDiv(DRegC(k, p, rws[i], ys[i], 2), I(N)) ELSE Zero]]

RECURSIVE ChoiceSeqs(_, _, _, _)
ChoiceSeqs(k, p, rws, i) ==
  IF i = 0 THEN {<<>>}
  ELSE {Append(c, v) : c \in ChoiceSeqs(k, p, rws, i - 1), v \in Boots(k, p, rws[i].b)}

----------------------------------------------------------------------------
(* TD7 state-action embedding loss: mean over batch and features of (zsa - sg(AvgL1Norm(f(o'))))^2 *)
VIdx == 1..2
AvgL1(v) == LET m == QMean([d \in VIdx |-> QAbs(v[d])]) IN [d \in VIdx |-> QDiv(v[d], m)]
SaleEval(rws) ==
  LET N == Len(rws)
      t == Force([i \in Idx(rws) |-> Force(AvgL1(rws[i].b.en), 2)], N)
      cell(m) == LET i == ((m - 1) \div 2) + 1  d == ((m - 1) % 2) + 1 IN QSq(QSub(rws[i].x.zsa[d], t[i][d]))
  IN [loss |-> QMean([m \in 1..(2 * N) |-> cell(m)]),
      tgt  |-> t,
      g    |-> [i \in Idx(rws) |-> [d \in VIdx |-> QDiv(QMul(I(2), QSub(rws[i].x.zsa[d], t[i][d])), I(2 * N))]]]

(* ModelBasedEncoder: the stages between the raw output of the `zs` sub-network and a latent state.                        *)
(* LNorm: the layer normalisation as realised by the binding (exact affine map, gain 2 and bias -1/4: no fixed point on the   *)
(* lattices, both signs in its range, does not commute with Act); Act: the encoder's activation function (a constructor    *)
(* argument: relu or hard_tanh = clip to [-1, 1]).                                                                            *)
LnGain == I(2)
LnBias == Q(-1, 4)
LNorm(v) == [d \in VIdx |-> QAdd(QMul(LnGain, v[d]), LnBias)]
ActFn(a, x) == CASE a = "relu" -> QMax(Zero, x) [] a = "hard_tanh" -> QClip(x, I(-1), One)
Act(a, v)   == [d \in VIdx |-> ActFn(a, v[d])]
InActRange(a, x) == CASE a = "relu" -> QLe(Zero, x) [] a = "hard_tanh" -> QLe(I(-1), x) /\ QLe(x, One)
Stage(a, nm, v) == CASE nm = "zs_layer_norm" -> LNorm(v) [] nm = "activation" -> Act(a, v)
RECURSIVE ApplyStages(_, _, _)
ApplyStages(a, st, v) == IF Len(st) = 0 THEN Force(v, 2) ELSE ApplyStages(a, Tail(st), Force(Stage(a, Head(st), v), 2))
(* encode_zs: layer norm, then the activation iff the encoder was built with encoder_activation_in_last_layer *)
EncodeZsStages(p) == IF p.actlast THEN <<"zs_layer_norm", "activation">> ELSE <<"zs_layer_norm">>
EncodeZs(p, raw)  == ApplyStages(p.act, EncodeZsStages(p), raw)
(* dynamics target of the encoder loss: the TARGET encoder's encode_zs of the observed next state if normalize_targets,       *)
(* else the raw output of its zs network; gradient-stopped either way                                                        *)
DynTargetStagesDoc(p) == IF p.normtgt THEN EncodeZsStages(p) ELSE <<>>
(* named deviation "tgtnoact": encode_zs re-implemented by hand (zs, then zs_layer_norm), the activation forgotten *)
NoActStages(p)        == IF p.normtgt THEN <<"zs_layer_norm">> ELSE <<>>
DynTargetStages(p)    == IF DEV = "tgtnoact" THEN NoActStages(p) ELSE DynTargetStagesDoc(p)
DynTarget(p, raw)     == ApplyStages(p.act, DynTargetStages(p), raw)
(* what the binding needs to build the two encoders and to realise TLC's numbers: configuration, stage lists, constants *)
EncCfg(p) == [activation |-> p.act, ln_gain |-> LnGain, ln_bias |-> LnBias, actlast |-> p.actlast,
              encode_zs |-> EncodeZsStages(p), dyn_target |-> DynTargetStagesDoc(p), dyn_target_noact |-> NoActStages(p),
              dyn_target_encoder |-> "encoder_target"]

(* MR.Q encoder loss: unrolled over H steps; a step counts for a row while no termination happened BEFORE it *)
RECURSIVE Mask(_, _)
Mask(ts, t) == IF t = 1 THEN 1 ELSE Mask(ts, t - 1) * (1 - ts[t - 1])           \* prev_not_done at step t
MeanOver(rws, f(_)) == QMean([i \in Idx(rws) |-> f(i)])
SqDist(u, v) == QAdd(QSq(QSub(u[1], v[1])), QSq(QSub(u[2], v[2])))
(* targets of all row-steps for a given list of stages (b.tz = raw outputs of the target encoder's zs network at o'_t) *)
TgtTable(a, rws, st) == Force([i \in Idx(rws) |-> Force([t \in 1..H |-> ApplyStages(a, st, rws[i].b.tz[t])], H)], Len(rws))
(* the dynamics loss alone, for a given list of target stages *)
DynOf(a, rws, st) ==
  LET tg == TgtTable(a, rws, st)
      dz(i, t) == QMul(I(Mask(rws[i].x.ts, t)), QMul(Half, SqDist(rws[i].x.pz[t], tg[i][t])))
  IN QSum([t \in 1..H |-> QMean([i \in Idx(rws) |-> dz(i, t)])])
EncStep(p, rws, tg, t) ==
  LET mk(i) == I(Mask(rws[i].x.ts, t))
      se(i) == QSq(QSub(rws[i].x.pd[t], I(rws[i].x.ts[t])))
      re(i) == QSq(QSub(RBar, rws[i].x.r[t]))
      bc(f(_)) == QMul(MeanOver(rws, f), MeanOver(rws, mk))      \* deviation: mean(se) * mean(mask)
      mm(f(_)) == LET g(i) == QMul(mk(i), f(i)) IN MeanOver(rws, g)
      dz(i) == QMul(mk(i), QMul(Half, SqDist(rws[i].x.pz[t], tg[i][t])))         \* mean over the 2 features
  IN [dyn  |-> MeanOver(rws, dz),
      done |-> IF ~p.envterm THEN Zero ELSE IF DEV = "encbroadcast" THEN bc(se) ELSE mm(se),
      rmse |-> IF DEV = "encbroadcast" THEN bc(re) ELSE mm(re),
      doneb |-> IF ~p.envterm THEN Zero ELSE bc(se),     \* what the named deviation would return (classification only)
      rmseb |-> bc(re),
      cr   |-> MeanOver(rws, mk)]
EncEval(p, rws) ==
  LET N == Len(rws)
      tg == TgtTable(p.act, rws, DynTargetStages(p))
      st == Force([t \in 1..H |-> EncStep(p, rws, tg, t)], H)
      dyn  == QSum([t \in 1..H |-> st[t].dyn])
      done == QSum([t \in 1..H |-> st[t].done])
  IN [dyn |-> dyn, done |-> done, tgt |-> tg,
      rmse |-> QSum([t \in 1..H |-> st[t].rmse]),
      cr   |-> QSum([t \in 1..H |-> st[t].cr]),          \* reward CE loss = cr * ln(#bins) for uniform logits
      exact |-> QAdd(QMul(p.dw, dyn), QMul(p.tw, done)), \* total loss minus rw * reward loss
      done_bc |-> QSum([t \in 1..H |-> st[t].doneb]),
      rmse_bc |-> QSum([t \in 1..H |-> st[t].rmseb]),
      exact_bc |-> QAdd(QMul(p.dw, dyn), QMul(p.tw, QSum([t \in 1..H |-> st[t].doneb]))),
      mask |-> [i \in Idx(rws) |-> [t \in 1..H |-> Mask(rws[i].x.ts, t)]],
      \* d total / d predicted done flag (i, t)
      gd |-> [i \in Idx(rws) |-> [t \in 1..H |->
                IF ~p.envterm THEN Zero
                ELSE QDiv(QMul(QMul(p.tw, I(2 * Mask(rws[i].x.ts, t))), QSub(rws[i].x.pd[t], I(rws[i].x.ts[t]))), I(N))]],
      gd_bc |-> [i \in Idx(rws) |-> [t \in 1..H |->    \* the same under the named deviation (classification only)
                IF ~p.envterm THEN Zero
                ELSE QDiv(QMul(QMul(QMul(p.tw, I(2)), st[t].cr), QSub(rws[i].x.pd[t], I(rws[i].x.ts[t]))), I(N))]],
      \* d total / d predicted latent state of the LAST step (no downstream use)
      gz |-> [i \in Idx(rws) |-> [d \in VIdx |->
                QDiv(QMul(QMul(p.dw, I(Mask(rws[i].x.ts, H))), QSub(rws[i].x.pz[H][d], tg[i][H][d])), I(N))]]]
(* classification only: the dynamics loss the named deviation "tgtnoact" would return *)
EncDevs(p, rws) == [dyn_noact |-> DynOf(p.act, rws, NoActStages(p))]

----------------------------------------------------------------------------
(* Update routines.  The routine receives hyper-parameters p; InnerPar is what its inner (positional) call of the loss    *)
(* passes on - documented: the same values in the same roles.  Deviation "updswap": two neighbouring scalars exchanged.   *)
InnerPar(p) == IF DEV = "updswap" THEN [p EXCEPT !.rw = p.tw, !.tw = p.rw, !.rs = p.trs, !.trs = p.rs] ELSE p
(* plain SGD: old - new parameter = learning rate * gradient *)
SgdStep(lr, g) == QMul(lr, g)
(* the scan's schedule: the batch of td * nn rows is reshaped to (td, nn, ...), mini-batch m = rows (m-1)*nn+1 .. m*nn *)
MiniBatch(rws, nn, m) == SubSeq(rws, (m - 1) * nn + 1, m * nn)

(* two-hot encoding of a reward on BinsQ and the gradient of the encoder loss w.r.t. every prediction of a row-step when   *)
(* predictions do not feed forward (table-lookup model head): done flag, latent state (every step), reward logits          *)
(* (uniform logits: softmax = 1/#bins)                                                                                      *)
NB == Len(BinsQ)
TwoHot(r) == [k \in 1..NB |->
                IF k < NB /\ QLe(BinsQ[k], r) /\ QLt(r, BinsQ[k + 1]) THEN QDiv(QSub(BinsQ[k + 1], r), QSub(BinsQ[k + 1], BinsQ[k]))
                ELSE IF k > 1 /\ QLt(BinsQ[k - 1], r) /\ QLe(r, BinsQ[k]) THEN QDiv(QSub(r, BinsQ[k - 1]), QSub(BinsQ[k], BinsQ[k - 1]))
                ELSE IF k = 1 /\ QLe(r, BinsQ[1]) THEN One ELSE IF k = NB /\ QLe(BinsQ[NB], r) THEN One ELSE Zero]
EncGrads(p, rws) ==
  LET N == Len(rws)
      mk(i, t) == I(Mask(rws[i].x.ts, t))
      tg == TgtTable(p.act, rws, DynTargetStages(p))
  IN [gd |-> [i \in Idx(rws) |-> [t \in 1..H |->
                IF ~p.envterm THEN Zero
                ELSE QDiv(QMul(QMul(p.tw, QMul(I(2), mk(i, t))), QSub(rws[i].x.pd[t], I(rws[i].x.ts[t]))), I(N))]],
      gz |-> [i \in Idx(rws) |-> [t \in 1..H |-> [d \in VIdx |->
                QDiv(QMul(QMul(p.dw, mk(i, t)), QSub(rws[i].x.pz[t][d], tg[i][t][d])), I(N))]]],
      gr |-> [i \in Idx(rws) |-> [t \in 1..H |-> LET th == TwoHot(rws[i].x.r[t]) IN [k \in 1..NB |->
                QDiv(QMul(QMul(p.rw, mk(i, t)), QSub(Q(1, NB), th[k])), I(N))]]]]

(* update_model_based_encoder: mini-batches on disjoint table rows do not interact; the routine differentiates and applies *)
(* the weighted sum per mini-batch and returns the mean over the mini-batches of the total and of its components          *)
EncUpdate(p, rws) ==
  LET nn == Len(rws) \div p.td
      q  == InnerPar(p)
      mb(m) == MiniBatch(rws, nn, m)
      ev == Force([m \in 1..p.td |-> EncEval(q, mb(m))], p.td)
      gr == Force([m \in 1..p.td |-> EncGrads(q, mb(m))], p.td)
      mean(f(_)) == QMean([m \in 1..p.td |-> f(m)])
      mOf(i) == ((i - 1) \div nn) + 1
      lOf(i) == ((i - 1) % nn) + 1
      exact(m) == ev[m].exact     dyn(m) == ev[m].dyn     done(m) == ev[m].done     rmse(m) == ev[m].rmse    cr(m) == ev[m].cr
      wcr(m) == QMul(q.rw, ev[m].cr)
      ebc(m) == ev[m].exact_bc    dbc(m) == ev[m].done_bc    rbc(m) == ev[m].rmse_bc
      dna(m) == DynOf(q.act, mb(m), NoActStages(q))
  IN [exact |-> mean(exact), dyn |-> mean(dyn), done |-> mean(done), rmse |-> mean(rmse),
      dyn_noact |-> mean(dna),     \* classification only
      tgt |-> [i \in Idx(rws) |-> ev[mOf(i)].tgt[lOf(i)]],
      cr  |-> mean(cr),            \* returned reward loss = cr * ln(#bins)
      wcr |-> mean(wcr),           \* returned total = exact + wcr * ln(#bins)
      exact_bc |-> mean(ebc), done_bc |-> mean(dbc), rmse_bc |-> mean(rbc),
      bins |-> BinsQ,
      \* per row of the whole batch (first-order quantities of the row's own mini-batch): gradients and SGD steps
      gd |-> [i \in Idx(rws) |-> ev[mOf(i)].gd[lOf(i)]],
      gd_bc |-> [i \in Idx(rws) |-> ev[mOf(i)].gd_bc[lOf(i)]],
      gz |-> [i \in Idx(rws) |-> ev[mOf(i)].gz[lOf(i)]],
      sd |-> [i \in Idx(rws) |-> [t \in 1..H |-> SgdStep(p.lr, gr[mOf(i)].gd[lOf(i)][t])]],
      sz |-> [i \in Idx(rws) |-> [t \in 1..H |-> [d \in VIdx |-> SgdStep(p.lr, gr[mOf(i)].gz[lOf(i)][t][d])]]],
      sr |-> [i \in Idx(rws) |-> [t \in 1..H |-> [k \in 1..NB |-> SgdStep(p.lr, gr[mOf(i)].gr[lOf(i)][t][k])]]]]

(* update_sale: returns the embedding loss, moves the embedding by one optimiser step along its gradient *)
SaleUpdate(p, rws) ==
  LET e == SaleEval(rws)
  IN [loss |-> e.loss, tgt |-> e.tgt, g |-> e.g,
      s |-> [i \in Idx(rws) |-> [d \in VIdx |-> SgdStep(p.lr, e.g[i][d])]]]

(* update_critic_and_policy (MR.Q): returns mrq_loss and its auxiliaries, moves the critic by one step along its gradient *)
CriticUpdate(p, e) ==
  [loss |-> e.loss, qmean |-> e.qmean, mtd |-> e.mtd, ptd |-> e.ptd, y |-> e.y, g1 |-> e.g1, g2 |-> e.g2,
   s1 |-> [i \in DOMAIN e.g1 |-> SgdStep(p.lr, e.g1[i])], s2 |-> [i \in DOMAIN e.g2 |-> SgdStep(p.lr, e.g2[i])]]

(* set of admissible complete results *)
Alts(k, p, rws) ==
  CASE k = "sale" -> {SaleEval(rws)}
    [] k = "enc"  -> {EncEval(p, rws) @@ EncDevs(p, rws)}
    [] k = "encupd"  -> {EncUpdate(p, rws)}
    [] k = "saleupd" -> {SaleUpdate(p, rws)}
    [] k = "mrqupd"  -> {CriticUpdate(p, Eval("mrq", InnerPar(p), rws, ch)) : ch \in ChoiceSeqs("mrq", p, rws, Len(rws))}
    [] OTHER      -> {Eval(k, p, rws, ch) : ch \in ChoiceSeqs(k, p, rws, Len(rws))}

----------------------------------------------------------------------------
(* differentiable dependencies: parameter / input groups; stop_gradient empties the set *)
SG(s) == IF DEV = "nosg" THEN s ELSE {}
PredDeps(k) ==
  CASE k = "sale" -> {"embedding@obs", "sa_embedding"}
    [] k = "enc"  -> {"encoder@obs", "encoder_model"}
    [] k = "td7"  -> {"online@obs"} \cup SG({"fixed_embedding"})
    [] k = "mrq"  -> {"online@obs"} \cup SG({"encoder"})
    [] OTHER      -> {"online@obs"}
TargetDeps(k) ==
  CASE k = "dqn"    -> {"online@next", "next_obs"}
    [] k = "nature" -> {"target@next", "next_obs"}
    [] k \in {"ddqn", "per"} -> {"online@next", "target@next", "next_obs"}
    [] k = "ddpg"   -> {"target@next", "target_policy", "next_obs"}
    [] k \in {"td3", "lap"} -> {"target@next", "next_action", "next_obs"}
    [] k = "sac"    -> {"target@next", "policy", "next_obs"}
    [] k = "td7"    -> {"target@next", "fixed_embedding_target", "next_action", "next_obs"}
    [] k = "mrq"    -> {"target@next", "encoder_target", "next_action", "next_obs"}
    [] k = "sale"   -> {"embedding@next", "next_obs"}
    [] k = "enc"    -> {"encoder_target", "next_obs"}
Deps(k) == PredDeps(k) \cup SG(TargetDeps(k))
Trainable(k) ==
  CASE k = "sale" -> {"embedding@obs", "sa_embedding"}
    [] k = "enc"  -> {"encoder@obs", "encoder_model"}
    [] OTHER      -> {"online@obs"}
ZeroGroups(k) == (TargetDeps(k) \cup (IF k = "td7" THEN {"fixed_embedding"} ELSE IF k = "mrq" THEN {"encoder"} ELSE {})) \ Deps(k)

----------------------------------------------------------------------------
Terminated(k, rw) == IF Base(k) = "mrq" THEN \E t \in 1..H : rw.x.ts[t] = 1 ELSE rw.x.term = 1
(* irrelevant cells of a vector: rows whose whole bootstrap part must not matter (TerminatedNoBootstrap); *)
(* for the encoder loss the (row, step) pairs after the first termination (AfterTermIgnored)             *)
Irrelevant(k, rws) ==
  CASE Base(k) = "enc"  -> {c \in Idx(rws) \X (1..H) : Mask(rws[c[1]].x.ts, c[2]) = 0}
    [] Base(k) = "sale" -> {}
    [] OTHER      -> {i \in Idx(rws) : Terminated(k, rws[i])}

Emit(alts) ==
  EMIT => PrintT(<<"EMIT", ToJson([kind |-> kind, n |-> n, par |-> par, rows |-> rows, alts |-> alts,
                                    zero |-> ZeroGroups(Base(kind)), support |-> Deps(Base(kind)), irr |-> Irrelevant(kind, rows),
                                    enc |-> IF Base(kind) \in {"enc", "mrq"} THEN EncCfg(par) ELSE <<>>])>>)

Init == stage = "kind" /\ kind = "" /\ n = 0 /\ par = <<>> /\ pend = <<>> /\ rows = <<>>

ChooseKind(k, nn) == /\ stage = "kind"
                     /\ kind' = k /\ n' = nn /\ stage' = "par"
                     /\ UNCHANGED <<par, pend, rows>>
ChooseParams(p) == /\ stage = "par"
                   /\ par' = p /\ stage' = "rows"
                   /\ UNCHANGED <<kind, n, pend, rows>>
NRows == n * par.td      \* the update routine of the encoder receives target_delay * batch_size rows
ChooseBoot(b) == /\ stage = "rows" /\ Len(rows) < NRows /\ pend = <<>>
                 /\ pend' = <<b>>
                 /\ UNCHANGED <<stage, kind, n, par, rows>>
ChooseRest(x) == /\ stage = "rows" /\ pend # <<>>
                 /\ rows' = Append(rows, [b |-> pend[1], x |-> x]) /\ pend' = <<>>
                 /\ UNCHANGED <<stage, kind, n, par>>
Finish == /\ stage = "rows" /\ Len(rows) = NRows /\ pend = <<>>
          /\ stage' = "done"
          /\ UNCHANGED <<kind, n, par, pend, rows>>
          /\ Emit(Alts(kind, par, rows))

Next == \/ \E k \in Kinds, nn \in NSet : ChooseKind(k, nn)
        \/ (stage = "par" /\ \E p \in ParSet(kind) : ChooseParams(p))
        \/ (stage = "rows" /\ pend = <<>> /\ Len(rows) < NRows /\ \E b \in BootSet(kind) : ChooseBoot(b))
        \/ (stage = "rows" /\ pend # <<>> /\ \E x \in RestSet(kind) : ChooseRest(x))
        \/ Finish

Spec == Init /\ [][Next]_vars

----------------------------------------------------------------------------
(* Properties (C03), evaluated on finished vectors *)
Done == stage = "done"

(* a terminated transition contributes no bootstrap: replacing everything the bootstrap is computed *)
(* from leaves every output (loss, auxiliaries, gradients) unchanged                                *)
AltBoots(k) ==
  CASE k \in Disc -> {[Qn |-> [j \in 1..NA |-> I(3)], Qt |-> [j \in 1..NA |-> I(-2)]],
                      [Qn |-> [j \in 1..NA |-> IF j = 1 THEN Zero ELSE I(3)], Qt |-> [j \in 1..NA |-> IF j = 1 THEN I(3) ELSE Half]]}
    [] k \in Cont \cup {"mrq"} -> {[Q1t |-> I(3), Q2t |-> I(3), logp |-> I(2)], [Q1t |-> I(-2), Q2t |-> Half, logp |-> I(-1)]}
    [] OTHER -> {}
TerminatedNoBootstrap ==
  (Done /\ kind \in Disc \cup Cont \cup {"mrq"}) =>
    LET base == Alts(kind, par, rows)
    IN \A i \in Irrelevant(kind, rows) :
         \A b \in AltBoots(kind) : Alts(kind, par, [rows EXCEPT ![i].b = b]) = base

(* MR.Q encoder: steps after the first termination of a row are ignored whatever is predicted / observed there *)
AfterTermIgnored ==
  (Done /\ kind = "enc") =>
    LET o == EncEval(par, rows)
    IN \A c \in Irrelevant(kind, rows) :
         LET i == c[1]  t == c[2]
             alt == [rows EXCEPT ![i].x.pd[t] = I(3), ![i].x.pz[t] = <<I(3), I(-2)>>, ![i].b.tz[t] = <<I(-2), Half>>,
                                 ![i].x.r[t] = I(0), ![i].x.ts[t] = 1 - rows[i].x.ts[t]]
             a == EncEval(par, alt)
         IN <<a.dyn, a.done, a.rmse, a.cr, a.exact>> = <<o.dyn, o.done, o.rmse, o.cr, o.exact>>

(* MR.Q encoder configuration: the dynamics targets are the raw zs outputs when normalize_targets is off, and the very map   *)
(* the predictions' f(o_0) goes through (encode_zs: layer norm, activation iff activation-in-last-layer) when it is on - in    *)
(* particular targets live in the activation's range then; the dynamics loss is the masked MSE against exactly these targets  *)
EncoderConfigLaw ==
  (Done /\ Base(kind) = "enc") =>
    /\ \A i \in Idx(rows) : \A t \in 1..H :
         LET raw == rows[i].b.tz[t]
             tg  == DynTarget(par, raw)
         IN /\ (~par.normtgt => tg = raw)
            /\ (par.normtgt => tg = EncodeZs(par, raw))
            /\ (par.normtgt /\ par.actlast => \A d \in VIdx : InActRange(par.act, tg[d]))
    /\ EncEval(par, rows).dyn = DynOf(par.act, rows, DynTargetStagesDoc(par))
    /\ EncEval(par, rows).tgt = TgtTable(par.act, rows, DynTargetStagesDoc(par))

(* order of the batch is irrelevant; per-sample outputs move with their rows *)
Swap(s) == [i \in Idx(s) |-> IF i = 1 THEN s[2] ELSE IF i = 2 THEN s[1] ELSE s[i]]
Rot(s)  == [i \in Idx(s) |-> s[(i % Len(s)) + 1]]
UnSwap(s) == Swap(s)
UnRot(s) == [i \in Idx(s) |-> s[((i + Len(s) - 2) % Len(s)) + 1]]
ProjC(r, un(_)) == <<r.loss, r.qmean, r.mtd, un(r.ptd), un(r.y), un(r.g1), un(r.g2)>>
Id(s) == s
PermutationInvariant ==
  (Done /\ n >= 2 /\ kind \notin Upd) =>
    CASE kind = "sale" ->
           LET o == SaleEval(rows)  a == SaleEval(Swap(rows))
           IN /\ a.loss = o.loss /\ UnSwap(a.g) = o.g
              /\ SaleEval(Rot(rows)).loss = o.loss
      [] kind = "enc" ->
           LET pr(e) == <<e.dyn, e.done, e.rmse, e.cr, e.exact>>
               o == EncEval(par, rows)  a == EncEval(par, Rot(rows))
           IN /\ pr(EncEval(par, Swap(rows))) = pr(o)
              /\ pr(a) = pr(o)
              /\ UnRot(a.gd) = o.gd
      [] OTHER ->
           LET base == {ProjC(r, Id) : r \in Alts(kind, par, rows)}
           IN /\ {ProjC(r, UnSwap) : r \in Alts(kind, par, Swap(rows))} = base
              /\ (n > 2 => {ProjC(r, UnRot) : r \in Alts(kind, par, Rot(rows))} = base)

(* the loss is the mean of per-sample terms (no cross terms between rows) *)
PerSample ==
  (Done /\ kind \notin Upd) =>
    CASE kind = "sale" ->
           SaleEval(rows).loss = QMean([i \in Idx(rows) |-> SaleEval(<<rows[i]>>).loss])
      [] kind = "enc" ->
           LET e == EncEval(par, rows)
               s == Force([i \in Idx(rows) |-> EncEval(par, <<rows[i]>>)], n)
           IN /\ e.dyn = QMean([i \in Idx(rows) |-> s[i].dyn]) /\ e.done = QMean([i \in Idx(rows) |-> s[i].done])
              /\ e.rmse = QMean([i \in Idx(rows) |-> s[i].rmse]) /\ e.cr = QMean([i \in Idx(rows) |-> s[i].cr])
      [] OTHER ->
           \A ch \in ChoiceSeqs(kind, par, rows, n) :
             LET e == Eval(kind, par, rows, ch)
                 s == Force([i \in Idx(rows) |-> Eval(kind, par, <<rows[i]>>, <<ch[i]>>)], n)
             IN /\ e.loss = QMean([i \in Idx(rows) |-> s[i].loss])
                /\ e.loss = QMean([i \in Idx(rows) |-> Reg(kind, par, rows[i], e.y[i])])
                /\ e.qmean = QMean([i \in Idx(rows) |-> s[i].qmean])
                /\ e.mtd = QMean([i \in Idx(rows) |-> s[i].mtd])
                /\ \A i \in Idx(rows) : /\ e.y[i] = s[i].y[1] /\ e.ptd[i] = s[i].ptd[1]
                                        /\ QMul(I(n), e.g1[i]) = s[i].g1[1] /\ QMul(I(n), e.g2[i]) = s[i].g2[1]

(* gradients reach only the trainable online parameters *)
GradSupport == stage = "kind" \/ Deps(Base(kind)) \subseteq Trainable(Base(kind))

(* Update routines: every hyper-parameter acts in its documented role on what the routine returns and applies.             *)
(* Encoder: raising one weight by 1 adds exactly that weight's own (returned) component to the returned total and moves     *)
(* only that component's predictions further (done flag <- done weight, latent state <- dynamics weight, reward logits <-   *)
(* reward weight); the returned components themselves do not depend on the weights; equally sized mini-batches on disjoint  *)
(* rows return the means over the whole batch.                                                                              *)
Bump(p, f) == [p EXCEPT ![f] = QAdd(@, One)]
UpdEachWeightItsOwnTerm ==
  (Done /\ kind = "encupd") =>
    LET u == EncUpdate(par, rows)
        comp(v) == <<v.dyn, v.cr, v.done, v.rmse>>
        ud == EncUpdate(Bump(par, "dw"), rows)   ur == EncUpdate(Bump(par, "rw"), rows)   ut == EncUpdate(Bump(par, "tw"), rows)
        whole == EncEval(par, rows)
    IN /\ comp(ud) = comp(u) /\ comp(ur) = comp(u) /\ comp(ut) = comp(u)
       /\ QSub(ud.exact, u.exact) = u.dyn /\ ud.wcr = u.wcr /\ ud.sd = u.sd /\ ud.sr = u.sr
       /\ QSub(ur.wcr, u.wcr) = u.cr /\ ur.exact = u.exact /\ ur.sd = u.sd /\ ur.sz = u.sz
       /\ QSub(ut.exact, u.exact) = u.done /\ ut.wcr = u.wcr /\ ut.sz = u.sz /\ ut.sr = u.sr
       /\ <<u.dyn, u.cr, u.done, u.rmse>> = <<whole.dyn, whole.cr, whole.done, whole.rmse>>
       /\ u.exact = QAdd(QMul(par.dw, u.dyn), QMul(par.tw, u.done)) /\ u.wcr = QMul(par.rw, u.cr)
(* MR.Q critic: reward_scale divides the whole target, target_reward_scale multiplies the bootstrap only - the target of a  *)
(* terminated row does not depend on it; the step is the learning rate times the gradient of the returned loss              *)
UpdScalesInRole ==
  (Done /\ kind = "mrqupd") =>
    LET alts(p) == Alts(kind, p, rows)
        ys(p)   == {a.y : a \in alts(p)}
        p2      == [par EXCEPT !.trs = QMul(@, I(2))]
        p3      == [par EXCEPT !.rs = QMul(@, I(2))]
    IN /\ \A a \in alts(par) : \A b \in alts(p2) : \A i \in Irrelevant(kind, rows) : a.y[i] = b.y[i]
       /\ ys(p3) = {[i \in Idx(rows) |-> QMul(Half, y[i])] : y \in ys(par)}
       /\ \A a \in alts(par) : \A i \in Idx(rows) : a.s1[i] = QMul(par.lr, a.g1[i]) /\ a.s2[i] = QMul(par.lr, a.g2[i])


(* sanity of the lattice: the Huber kink, clipping and ties are actually exercised (checked by the driver from the emitted data) *)
TypeOK == /\ stage \in {"kind", "par", "rows", "done"}
          /\ (stage \in {"kind", "par"} => rows = <<>>)
          /\ (stage \in {"rows", "done"} => Len(rows) <= NRows)
=============================================================================
