--------------------------- MODULE SchedulerTrace ---------------------------
(* C11, code -> spec: validation of the call traces recorded while the REAL   *)
(* train_uts / train_active_mt / train_smt drove a scripted single-task       *)
(* learner over counting environments.  The file named by the environment     *)
(* variable TRACE_FILE holds {"traces": [ {id, kind, cfg, events} ]}.  Each    *)
(* trace is followed with the operators of SchedulerOps.tla (the same ones    *)
(* the state machines of Scheduler.tla are built from); per event one record  *)
(* is printed: the clause verdicts and the model's expectation.  A step whose *)
(* observation matches none of the model's successor states prints the        *)
(* successor states ("stuck") and the trace ends there.                       *)
(*                                                                            *)
(* events:                                                                    *)
(*  call     one train_st call: task, g/T/E = global_step / total_timesteps / *)
(*           total_episodes it was given, lens/rets = lengths and returns of  *)
(*           the episodes of the environment, done/executed/reported = what   *)
(*           the learner did, obs = scheduler variables at call entry, rb/mix *)
(*           = task the replay buffer / the task selectables were told, ls =  *)
(*           the learning_starts argument (train_uts: exploring_starts; the   *)
(*           other two pass their learning_starts through unchanged)          *)
(*  select / feedback / rejected   calls on the task selector (amt)           *)
(*  end      the scheduler returned: obs = returned values                    *)
EXTENDS SchedulerOps, TLC, Json, IOUtils

Traces == JsonDeserialize(IOEnv.TRACE_FILE).traces

VARIABLES tr,   \* index of the trace
          i,    \* index of its next event
          m     \* model state of the scheduler
vars == <<tr, i, m>>

Out(rec) == PrintT(<<"EMIT", ToJson(rec)>>)
Range(s) == {s[k] : k \in 1..Len(s)}
All(rec) == \A f \in DOMAIN rec : rec[f]

Cfg   == Traces[tr].cfg
Ev    == Traces[tr].events[i]
Kind  == Traces[tr].kind
Tasks == 0..(Cfg.nt - 1)

(* what the learner did, as the scheduler can see it through the statistics   *)
(* wrapper (done, logged) and the ghost count of environment steps (executed) *)
Seen(e) == [done |-> e.done, executed |-> e.executed, logged |-> Prefix(e.lens, e.done), reported |-> e.reported]
(* the train_st contract for this call *)
LearnerOK(e) == LET r == Run(e.g, e.T, e.E, e.lens, "exact") IN e.done = r.done /\ e.executed = r.executed
ContractOK(e) == e.reported = e.g + e.executed

Init == /\ tr \in 1..Len(Traces) /\ i = 1
        /\ m = [stage |-> "init"]

----------------------------------------------------------------------------
(* train_uts *)
UtsM == IF m.stage = "init" THEN UtsInit ELSE m.u
UtsStep ==
  LET e == Ev  u == UtsM IN
  IF e.k = "call" THEN
    LET u2 == UtsAfter(u, e.g, Seen(e), e.ls, Cfg.expl)
        cl == [guard    |-> u.gs < Cfg.T,
               counter  |-> e.g = u.gs,
               limit    |-> e.T = Cfg.T,
               episodes |-> e.E = Cfg.E,
               task     |-> e.task \in Tasks,
               warmup   |-> e.ls = UtsWarmup(Cfg.expl, u.gs),
               noearly  |-> ~u2.early,
               budget   |-> u2.exec <= Cfg.T,
               exact    |-> u2.gs = u2.exec]
    IN /\ m' = [stage |-> "uts", u |-> u2]
       /\ Out([tr |-> tr, i |-> i, k |-> "call", ok |-> All(cl), cl |-> cl,
               learner |-> LearnerOK(e), contract |-> ContractOK(e),
               exp |-> [gs |-> u.gs], post |-> u2])
  ELSE
    LET cl == [finished |-> u.gs >= Cfg.T, returned |-> e.obs.gs = u.gs,
               budget |-> u.exec <= Cfg.T, exact |-> u.gs = u.exec]
    IN /\ m' = [stage |-> "end", u |-> u]
       /\ Out([tr |-> tr, i |-> i, k |-> "end", ok |-> All(cl), cl |-> cl, exp |-> u])

----------------------------------------------------------------------------
(* train_active_mt *)
AmtM == IF m.stage = "init"
          THEN [stage |-> "amt", a |-> AmtInit(Cfg.nt), sel |-> SelInit(Cfg.sel), phase |-> "idle", cur |-> -1,
                run |-> [done |-> 0, executed |-> 0, logged |-> 0, reported |-> 0], rets |-> <<>>]
          ELSE m
AmtView(x) == [gs |-> x.a.gs, ts |-> x.a.ts, exec |-> x.a.exec, over |-> x.a.over, phase |-> x.phase, cur |-> x.cur,
               sel |-> SelView(Cfg.sel, x.sel)]
AmtStep ==
  LET e == Ev  x == AmtM  P == Cfg.sel IN
  CASE e.k = "select" ->
         LET S  == SelSelectSet(P, x.sel)
             ok == {pr \in S : pr[2] = e.id}
             cl == [guard |-> x.a.gs < Cfg.T /\ ~x.a.over, phase |-> x.phase = "idle", valid |-> e.id \in Tasks]
         IN /\ Out([tr |-> tr, i |-> i, k |-> "expect", adm |-> {pr[2] : pr \in S}, pre |-> AmtView(x)])
            /\ \E pr \in ok :
                 /\ m' = [x EXCEPT !.sel = pr[1], !.cur = e.id, !.phase = "selected"]
                 /\ Out([tr |-> tr, i |-> i, k |-> "select", ok |-> All(cl), cl |-> cl, exp |-> AmtView(m')])
    [] e.k = "rejected" ->
         (* the selector raised: specified exactly when the protocol is broken *)
         LET cl == [specified |-> IF e.op = "select" THEN x.sel.waiting ELSE ~x.sel.waiting] IN
         /\ m' = x
         /\ Out([tr |-> tr, i |-> i, k |-> "rejected", ok |-> All(cl), cl |-> cl, exp |-> AmtView(x)])
    [] e.k = "call" ->
         LET cl == [phase |-> x.phase = "selected", task |-> e.task = x.cur,
                    counter |-> e.g = x.a.gs, limit |-> e.T = Cfg.T, episodes |-> e.E = Cfg.E,
                    ts |-> e.obs.ts = x.a.ts, gs |-> e.obs.gs = x.a.gs,
                    informed |-> e.rb = e.task /\ e.mix = e.task,
                    warmup |-> e.ls = Cfg.ls]
         IN /\ m' = [x EXCEPT !.phase = "trained", !.run = Seen(e), !.rets = e.rets]
            /\ Out([tr |-> tr, i |-> i, k |-> "call", ok |-> All(cl), cl |-> cl,
                    learner |-> LearnerOK(e), contract |-> ContractOK(e), exp |-> AmtView(x)])
    [] e.k = "feedback" ->
         LET full == x.run.done = Cfg.E
             a2 == AmtAfter(x.a, Cfg.T, Cfg.E, x.cur, x.run)
             cl == [phase |-> x.phase = "trained", episodes |-> full,
                    value |-> full => e.r = QMean(SubSeq(x.rets, 1, Cfg.E)),
                    waiting |-> x.sel.waiting]
         IN /\ m' = [x EXCEPT !.phase = "idle", !.a = a2, !.sel = IF x.sel.waiting THEN SelFeedback(P, x.sel, e.r) ELSE x.sel]
            /\ Out([tr |-> tr, i |-> i, k |-> "feedback", ok |-> All(cl), cl |-> cl, exp |-> AmtView(m')])
    [] OTHER ->  \* end
         LET a2 == IF x.phase = "trained" THEN AmtAfter(x.a, Cfg.T, Cfg.E, x.cur, x.run) ELSE x.a
             cl == [left    |-> IF x.phase = "trained" THEN x.run.done # Cfg.E ELSE x.phase = "idle" /\ a2.gs >= Cfg.T,
                    ts      |-> e.obs.ts = a2.ts,
                    pertask |-> a2.ts = a2.exec,
                    budget  |-> ISum(a2.exec) <= Cfg.T]
         IN /\ m' = [x EXCEPT !.stage = "end", !.a = a2]
            /\ Out([tr |-> tr, i |-> i, k |-> "end", ok |-> All(cl), cl |-> cl, exp |-> AmtView(m')])

----------------------------------------------------------------------------
(* train_smt *)
C == Cfg
SmtPre == IF m.stage = "init" THEN {SmtStart(C, p) : p \in SmtInitialPools(C)}
          ELSE IF m.stage \in {"s1", "s2"} /\ m.todo = {} THEN SmtAfterSweep(C, m)
          ELSE {m}
SmtView(x) == [stage |-> x.stage, gs |-> x.gs, ts |-> x.ts, exec |-> x.exec, round |-> x.round, todo |-> x.todo,
               upd |-> x.upd, main |-> x.main, solved |-> x.solved, unsolv |-> x.unsolv, s2 |-> x.s2,
               budgets |-> x.budgets, avg |-> x.avg]
ObsMatch(x, o) ==
  /\ o.stage = x.stage /\ o.ts = x.ts /\ (o.stage # "end" => o.gs = x.gs)
  /\ IF o.stage = "s1"
       THEN /\ Range(o.round) = x.round /\ Range(o.upd) = x.upd /\ Range(o.main) = x.main
            /\ Range(o.solved) = x.solved /\ Range(o.unsolv) = x.unsolv
            /\ o.budgets = x.budgets /\ o.avg = x.avg
       ELSE IF o.stage = "s2" THEN Range(o.s2) = x.s2
       ELSE o.avg = x.avg
SmtStep ==
  LET e == Ev  M0 == SmtPre IN
  /\ Out([tr |-> tr, i |-> i, k |-> "expect", cands |-> {SmtView(x) : x \in M0}])
  /\ \E x \in M0 :
       /\ ObsMatch(x, e.obs)
       /\ IF e.k = "call"
            THEN LET cl == [task |-> e.task \in x.todo, counter |-> e.g = x.gs, limit |-> e.T = StageLimit(C, x),
                            episodes |-> e.E = C.E, partition |-> SmtPartition(C, x),
                            pertask |-> x.ts = x.exec, total |-> ISum(x.ts) = x.gs /\ x.gs < StageLimit(C, x),
                            poolsize |-> Cardinality(x.upd) <= C.K,
                            informed |-> e.rb = e.task /\ e.mix = e.task,
                            warmup |-> e.ls = C.ls]
                 IN /\ m' = SmtAfterCall(C, x, e.task, Seen(e), e.rets)
                    /\ Out([tr |-> tr, i |-> i, k |-> "call", ok |-> All(cl), cl |-> cl,
                            learner |-> LearnerOK(e), contract |-> ContractOK(e), exp |-> SmtView(x)])
            ELSE LET cl == [partition |-> SmtPartition(C, x), pertask |-> x.ts = x.exec,
                            total |-> ISum(x.ts) = x.gs, budget |-> ISum(x.exec) <= BTotal(C)]
                 IN /\ m' = x
                    /\ Out([tr |-> tr, i |-> i, k |-> "end", ok |-> All(cl), cl |-> cl, exp |-> SmtView(x)])

Step == /\ i <= Len(Traces[tr].events)
        /\ i' = i + 1 /\ tr' = tr
        /\ CASE Kind = "uts" -> UtsStep
             [] Kind = "amt" -> AmtStep
             [] OTHER        -> SmtStep
Next == Step
Spec == Init /\ [][Next]_vars
=============================================================================
