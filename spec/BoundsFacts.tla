--------------------------- MODULE BoundsFacts ---------------------------
(* C10, order clauses decided on float32 ORDINALS (device D4): tables of    *)
(* values recorded from the real functions (tanh head on a sweep of          *)
(* pre-activations and on boxes whose scale / bias are rounded; samplers     *)
(* with default, non-dyadic noise levels and arbitrary keys; cem_sample,     *)
(* optimize_cem and the PETS planner functions) are checked against the      *)
(* ordinals of the bounds.  The order-preserving integer image of a float32  *)
(* makes "inside the box" an integer comparison; NaN maps above +infinity.   *)
(*                                                                           *)
(*   kind "box":  lo, hi = ordinals of the bounds (for the tanh head widened *)
(*                by k ulp of the larger bound: "up to rounding of the bound *)
(*                itself"; k = 0 for everything that is clipped), v = values *)
(*   kind "mono": v = outputs for increasing inputs, must not decrease       *)
EXTENDS Integers, Sequences, TLC, Json, IOUtils

Tables == JsonDeserialize(IOEnv.C10_FACTS)
VARIABLE i
Init == i \in 1..Len(Tables)      \* every table is an initial state: a counterexample is the table itself
Next == UNCHANGED i
T == Tables[i]

InBoxOrd  == T.kind = "box" => \A k \in 1..Len(T.v) : T.lo <= T.v[k] /\ T.v[k] <= T.hi
Monotone  == T.kind = "mono" => \A k \in 1..(Len(T.v) - 1) : T.v[k] <= T.v[k + 1]
WellFormed == T.kind \in {"box", "mono"} /\ Len(T.v) >= 1 /\ (T.kind = "box" => T.lo <= T.hi)
=============================================================================
