------------------------- MODULE LogProtocolTrace -------------------------
(* code -> spec for X05: validates the event streams recorded from REAL runs  *)
(* of the training routines (harness/sweep.py: every enabled routine on the    *)
(* scripted environments, recording logger / buffer / component versions)     *)
(* against the OBSERVER half of LogProtocol.tla.  Every event is one call of   *)
(* Observe(cfg.log, s, event): the clauses it violates are collected with the  *)
(* position, the abstract state follows the logged facts (re-synchronisation), *)
(* so the rest of the trace is still judged.  One TLC run validates the whole  *)
(* batch; one VERDICT line per trace.                                         *)
(*                                                                            *)
(* A trace is [id, error, cfg |-> [nenvs, start, eplimit, log |-> <cfg of      *)
(* x05_cfg.py>], events, twin].  Events carry op (reset / step / log_start /   *)
(* log_stop / log_stat / log_epoch / sample / inner_call / ...), env, r4,       *)
(* ended, n, key, v4 (4 * value when the recorded float64 is a multiple of 1/4 *)
(* in range, else -1), ival, step, episode, comp / fresh (component an epoch   *)
(* record speaks about), changed (components seen changed at this event) and  *)
(* proj (digest of the event's protocol content, "" for logger events).       *)
(*                                                                            *)
(* twin: the same routine on the same scenario run with logger=None            *)
(* (projection digests of all its events): a routine given no logger must      *)
(* behave identically otherwise - the non-logger events of the logged run     *)
(* must be exactly the events of the twin (clause TwinDiverges).              *)
EXTENDS LogProtocol

VARIABLES tid, l, k      \* trace, next event, next twin event (0: no twin / comparison given up)
tvars == <<tid, l, k>>

Traces == JsonDeserialize(IOEnv.TRACE_FILE)
T == Traces[tid]
E == T.events[l]
L == T.cfg.log

TInit == /\ tid \in 1..Len(Traces) /\ l = 1
         /\ k = IF Len(Traces[tid].twin) > 0 THEN 1 ELSE 0
         /\ s = ObsInit(Traces[tid].cfg.log, Traces[tid].cfg.nenvs, Traces[tid].cfg.start, Traces[tid].cfg.eplimit)
         /\ viol = {}
         /\ cid = 0 /\ pc = "trace" /\ p = 0 /\ envs = 0 /\ todo = <<>>

(* lock-step comparison with the run without logger; logger events (and, for routines whose configuration says
   twin = "env_only", everything but the environment calls) carry no protocol content: proj = "" *)
Twin == IF k = 0 \/ E.proj = "" THEN [k |-> k, bad |-> {}]
        ELSE IF k > Len(T.twin) \/ T.twin[k] # E.proj THEN [k |-> 0, bad |-> {"TwinDiverges"}]
        ELSE [k |-> k + 1, bad |-> {}]

TNext == /\ l <= Len(T.events)
         /\ LET o == Observe(L, s, E)
                tw == Twin
            IN /\ s' = o.s
               /\ k' = tw.k
               /\ viol' = viol \cup {<<l, c>> : c \in o.bad \cup tw.bad}
         /\ l' = l + 1
         /\ UNCHANGED <<tid, cid, pc, p, envs, todo>>

(* end of the trace: obligations still open, accounting of steps and episodes, twin fully consumed *)
AtEnd == (IF T.error THEN {} ELSE Final(L, s))
         \cup (IF k # 0 /\ k # Len(T.twin) + 1 THEN {"TwinDiverges"} ELSE {})

Verdict == (l = Len(T.events) + 1) =>
             PrintT(<<"VERDICT", ToJson([id |-> T.id, executed |-> s.executed, episodes |-> s.finished, starts |-> s.starts, stops |-> s.stops,
                                         returns |-> s.returns, twin |-> IF k = 0 THEN 0 ELSE k - 1,
                                         viol |-> viol \cup {<<l, c>> : c \in AtEnd}])>>)
=============================================================================
