------------------------- MODULE ReturnsDataset -------------------------
(* C07 - reward-to-go estimates of ONE live rl_blox.algorithm.reinforce       *)
(* .EpisodeDataset object (REINFORCE / actor-critic keep one per collection    *)
(* call; nothing forbids preparing it more than once).                         *)
(*                                                                            *)
(* The data set is a state machine:                                           *)
(*   StartEpisode              start_episode()                                *)
(*   AddSample(r)              add_sample(obs, action, next_obs, r)           *)
(*   Prepare(g)                prepare_policy_gradient_dataset(space, g)      *)
(*   Length, AverageReturn     len(ds), ds.average_return()                   *)
(* Prepare, Length and AverageReturn are OBSERVERS: they leave the content    *)
(* alone and their result is a function of the content and of THEIR OWN       *)
(* argument only - whatever was asked before (PrepareAnswersItsGamma).        *)
(* `last` is a history variable: the discount factor of the most recent       *)
(* Prepare since the last mutation (<<>> = none).  It does not influence any  *)
(* result; it only makes "asked g1, now asked g2 on the same content" a       *)
(* transition of its own, so that transition coverage of the state graph      *)
(* tests every such pair on one live object, and random walks through the     *)
(* graph interleave observers and mutators.                                   *)
(*                                                                            *)
(* Rewards are kept as integers r4 = 4 * reward (lattice -1, 2, 1/4).         *)
EXTENDS ReturnsOps, FiniteSets, TLC, Json

CONSTANTS EMIT,        \* TRUE: print one EMIT record per transition [pre, op, args, exp, post]
          MaxEps,      \* bound on the number of episodes
          MaxSamples,  \* bound on the number of samples
          NRew,        \* size of the reward lattice (prefix of <<-1, 2, 1/4>>)
          Quarter      \* TRUE: 1/4 joins the discount lattice {0, 1/2, 1}

VARIABLES eps,   \* sequence of episodes, each a sequence of r4
          last,  \* discount factor of the most recent Prepare since the last mutation, <<>> if none
          out,   \* result of that Prepare, NoOut if none
          memo   \* used by the deviation PrepareMemo only
vars == <<eps, last, out, memo>>

R4Seq == <<-4, 8, 1>>
R4s   == {R4Seq[i] : i \in 1..NRew}
Gs    == {Zero, Half, One} \cup (IF Quarter THEN {Q(1, 4)} ELSE {})
None  == <<>>
NoOut == [ret |-> <<>>, disc |-> <<>>, order |-> <<>>]

View == [eps |-> eps, last |-> last]
Emit(op, args, exp) ==
  EMIT => PrintT(<<"EMIT", ToJson([pre |-> View, op |-> op, args |-> args, exp |-> exp, post |-> View'])>>)

----------------------------------------------------------------------------
(* what the observers return                                                *)

RECURSIVE Total(_)
Total(es) == IF es = <<>> THEN 0 ELSE Len(es[1]) + Total(Tail(es))
Rewards(ep) == [t \in 1..Len(ep) |-> Q(ep[t], 4)]
RECURSIVE Stack(_, _)
Stack(rows, n) == IF n = 0 THEN <<>> ELSE Stack(rows, n - 1) \o rows[n]

(* prepare_policy_gradient_dataset: per-episode reward to go G_t = r_t + g G_{t+1}, which starts *)
(* from 0 behind the last sample of EVERY episode, stacked in episode order; g^t with t counted   *)
(* from the start of the sample's episode; the samples in the order they were added               *)
Returns(es, g)  == Stack([i \in 1..Len(es) |-> RTG(Rewards(es[i]), g)], Len(es))
Discount(es, g) == Stack([i \in 1..Len(es) |-> [t \in 1..Len(es[i]) |-> Pow(g, t - 1)]], Len(es))
PolicyGradientDataset(es, g) ==
  [ret |-> Returns(es, g), disc |-> Discount(es, g), order |-> [i \in 1..Total(es) |-> i - 1]]

(* the same, written independently as discounted sums *)
ReturnsClosed(es, g) ==
  Stack([i \in 1..Len(es) |-> [t \in 1..Len(es[i]) |-> RTGClosed(Rewards(es[i]), g, t)]], Len(es))

AvgReturn(es) == QDiv(QSum(Stack([i \in 1..Len(es) |-> Rewards(es[i])], Len(es))), I(Len(es)))

----------------------------------------------------------------------------
(* the operations                                                           *)

Init == eps = <<>> /\ last = None /\ out = NoOut /\ memo = <<>>

StartEpisode ==
  /\ Len(eps) < MaxEps
  /\ eps' = Append(eps, <<>>)
  /\ last' = None /\ out' = NoOut
  /\ UNCHANGED memo
  /\ Emit("StartEpisode", <<>>, <<>>)

AddSample(r) ==
  /\ Len(eps) > 0                      \* add_sample asserts that an episode was started
  /\ Total(eps) < MaxSamples
  /\ eps' = [eps EXCEPT ![Len(eps)] = Append(@, r)]
  /\ last' = None /\ out' = NoOut
  /\ UNCHANGED memo
  /\ Emit("AddSample", <<r>>, <<>>)

Prepare(g) ==
  /\ Total(eps) > 0                    \* no result is specified for a data set without samples
  /\ out' = PolicyGradientDataset(eps, g)
  /\ last' = g
  /\ UNCHANGED <<eps, memo>>
  /\ Emit("Prepare", <<g>>, out')

Length ==
  /\ UNCHANGED vars
  /\ Emit("Length", <<>>, <<Total(eps)>>)

AverageReturn ==
  /\ Len(eps) > 0
  /\ UNCHANGED vars
  /\ Emit("AverageReturn", <<>>, <<AvgReturn(eps)>>)

Next == \/ StartEpisode \/ (\E r \in R4s : AddSample(r)) \/ (\E g \in Gs : Prepare(g))
        \/ Length \/ AverageReturn
Spec == Init /\ [][Next]_vars

----------------------------------------------------------------------------
(* properties (C07)                                                         *)

TypeOK == /\ Len(eps) <= MaxEps /\ Total(eps) <= MaxSamples
          /\ last \in Gs \cup {None}
          /\ (last = None) = (out = NoOut)

(* the estimates a Prepare hands out are the reward to go for the discount factor it was *)
(* called with, on the current content - whatever was asked or added before              *)
PrepareAnswersItsGamma == last # None => out = PolicyGradientDataset(eps, last)

(* the recurrence equals the discounted sums; in particular G_t = r_t + g G_{t+1} inside an *)
(* episode and G_t = r_t at its last sample                                                *)
ReturnsObeyRecurrence ==
  last # None =>
    /\ out.ret = ReturnsClosed(eps, last)
    /\ \A i \in 1..Len(eps) : \A t \in 1..Len(eps[i]) :
         LET G == RTG(Rewards(eps[i]), last)
         IN G[t] = QAdd(Q(eps[i][t], 4), IF t < Len(eps[i]) THEN QMul(last, G[t + 1]) ELSE Zero)

(* non-interference: the estimates of an episode are those of a data set that holds this *)
(* episode alone - the episodes stacked alongside it do not matter                        *)
Offset(es, i) == Total(SubSeq(es, 1, i - 1))
EpisodesIndependent ==
  last # None =>
    \A i \in 1..Len(eps) :
      /\ SubSeq(out.ret, Offset(eps, i) + 1, Offset(eps, i) + Len(eps[i])) = Returns(<<eps[i]>>, last)
      /\ SubSeq(out.disc, Offset(eps, i) + 1, Offset(eps, i) + Len(eps[i])) = Discount(<<eps[i]>>, last)

----------------------------------------------------------------------------
(* deviation (canary): the reward to go of completed episodes (all but the last) is computed *)
(* once and remembered per episode position - not per discount factor.  TLC must refute      *)
(* PrepareAnswersItsGamma on NextMemo.                                                        *)
PrepareMemo(g) ==
  /\ Total(eps) > 0
  /\ LET done == Len(eps) - 1
         m2   == memo \o [i \in 1..(done - Len(memo)) |-> RTG(Rewards(eps[Len(memo) + i]), g)]
         rows == m2 \o <<RTG(Rewards(eps[Len(eps)]), g)>>
     IN /\ memo' = m2
        /\ out' = [ret |-> Stack(rows, Len(rows)), disc |-> Discount(eps, g), order |-> [i \in 1..Total(eps) |-> i - 1]]
  /\ last' = g
  /\ UNCHANGED eps
NextMemo == \/ StartEpisode \/ (\E r \in R4s : AddSample(r)) \/ (\E g \in Gs : PrepareMemo(g))
=============================================================================
