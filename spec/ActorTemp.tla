--------------------------- MODULE ActorTemp ---------------------------
(* C12 - the USE of the temperature loss on ONE live temperature parameter over a short history of updates *)
(* (rl_blox.algorithm.sac._update_entropy_coefficient / EntropyControl.update), as a state machine.        *)
(*                                                                                                         *)
(*   ChooseParams   mode, start value of log_alpha, step size, history length                              *)
(*                    "sgd"      one live EntropyCoefficient created at log_alpha = la0 (any value of       *)
(*                               Actor.tla's parameter lattice) and one live plain-SGD optimiser with the   *)
(*                               step size 2^(LrExp(la0) - 3), driven through _update_entropy_coefficient   *)
(*                    "control"  one live EntropyControl (its own Adam optimiser, learning rate 2^lre, its  *)
(*                               own start value log_alpha = 0), driven through EntropyControl.update       *)
(*   Update(tgt) x H  one update with the target entropy tgt; the policy's sampled entropy estimate is      *)
(*                    fixed (Est), so the choice of tgt decides "estimate below / at / above target"        *)
(*   Finish         emit the history with the expected direction of every update                           *)
(*                                                                                                         *)
(* The objective is Actor.tla's (EvalTempLa): loss and gradient of update t are the linear forms            *)
(* c_t * Exp(log_alpha_t) and gc_t * Exp(log_alpha_t) (device D3: Exp at the parameter value the update     *)
(* finds is the named constant; c_t, gc_t exact).  The specification does not need the VALUE of             *)
(* log_alpha_t to decide the direction of an update - that is the clause: at every parameter value the      *)
(* temperature loss raises alpha exactly when the estimate is below the target.                            *)
(*   plain SGD:  log_alpha moves against the sign of gc_t; not at all iff gc_t = 0.                         *)
(*   Adam:       log_alpha moves against the sign of the first moment m_t = b1 m_(t-1) + (1 - b1) g_t,      *)
(*               which is the common sign of the gradients seen so far as long as they agree (zero          *)
(*               gradients keep it); after gradients of both signs the model does not decide ("any").       *)
(* alpha = Exp(log_alpha) is strictly increasing, so alpha moves like log_alpha (AlphaFollows).             *)
(* With the step sizes of the lattice every decided step is far above the float32 spacing of log_alpha:    *)
(* |c_t| >= 1/2, sgd: 2^(LrExp(la0) - 3) alpha_0 >= 1/8 and |log_alpha_t - la0| < 2 over <= 4 updates;     *)
(* Adam: the normalised step is >= 1/4 of the learning rate over <= 6 updates.                             *)
EXTENDS Exact, FiniteSets, TLC, Json

CONSTANTS EMIT,    \* TRUE: print one EMIT record per finished history
          LAT,     \* "full" | "small": Actor.tla's parameter lattice for the start value
          HSet,    \* history lengths
          Modes,   \* subset of {"sgd", "control"}
          DEV      \* "" | "tempclip" | "tempsign" (Actor.tla's deviations)

VARIABLES stage,   \* "par" | "upd" | "done"
          par,
          hist,    \* one record per update done
          msign    \* sign of Adam's first moment: -1, 0, 1, or 2 = not decided (gradients of both signs seen)

vars == <<stage, par, hist, msign>>

(* the objective: Actor.tla (its variables are not used by the operators referenced here) *)
A == INSTANCE Actor WITH EMIT <- FALSE, Kinds <- {"templa"}, NSet <- {}, LAT <- LAT, DEV <- DEV,
                         stage <- "done", kind <- "templa", n <- 0, par <- <<>>, rows <- <<>>

(* the batch: two samples with log pi = -1 and 0, sampled entropy estimate 1/2 *)
Rows == <<[lp |-> I(-1)], [lp |-> Zero]>>
Est == A!EntropyEstimate(Rows)
(* targets: estimate above (gradient coefficient +1, +1/2), at (0), below (-1/2, -1) the target *)
TgtH == IF LAT = "full" THEN {Q(-1, 2), Zero, Half, One, Q(3, 2)} ELSE {Q(-1, 2), Half, Q(3, 2)}
LreC == {1, 3}                                   \* EntropyControl: learning rate 2 and 8: log_alpha leaves [-20, 2] within a few updates
ParSet == {[mode |-> "sgd", la0 |-> x, lre |-> A!LrExp(x) - 3, H |-> h] : x \in A!LaV, h \in HSet}
            \cup {[mode |-> "control", la0 |-> A!La(Zero, 0), lre |-> e, H |-> h] : e \in LreC, h \in HSet}

Init == stage = "par" /\ par = <<>> /\ hist = <<>> /\ msign = 0

ChooseParams(p) == /\ stage = "par" /\ p.mode \in Modes
                   /\ par' = p /\ stage' = "upd"
                   /\ UNCHANGED <<hist, msign>>

(* Adam's first moment after one more gradient of sign g *)
Comb(m, g) == IF m = 2 THEN 2 ELSE IF g = 0 THEN m ELSE IF m = 0 \/ m = g THEN g ELSE 2
SignDir(s) == IF s = 2 THEN "any" ELSE IF s < 0 THEN "up" ELSE IF s > 0 THEN "down" ELSE "stay"

(* one update.  Under the named deviations the derivative factor of the parametrisation depends on the parameter value, which the *)
(* model knows for the first update only (la0): deviations are explored with histories of length 1.                               *)
UpdateRec(tgt) ==
  LET e  == A!EvalTempLa([la |-> par.la0, tgt |-> tgt], Rows)
      gs == QSign(e.galpha)
      ms == Comb(msign, gs)
  IN [tgt |-> tgt, c |-> e.loss, gc |-> e.galpha, cmp |-> e.cmp, gsign |-> gs, msign |-> ms, mag |-> e.mag, expulp |-> e.expulp,
      dir |-> IF par.mode = "sgd" THEN e.dir ELSE SignDir(ms)]
Update(tgt) == /\ stage = "upd" /\ Len(hist) < par.H
               /\ LET h == UpdateRec(tgt)
                  IN hist' = Append(hist, h) /\ msign' = h.msign
               /\ UNCHANGED <<stage, par>>

Emit == EMIT => PrintT(<<"EMIT", ToJson([kind |-> "temphist", par |-> par, rows |-> Rows, est |-> Est, hist |-> hist])>>)
Finish == /\ stage = "upd" /\ Len(hist) = par.H
          /\ stage' = "done"
          /\ UNCHANGED <<par, hist, msign>>
          /\ Emit

Next == \/ (stage = "par" /\ \E p \in ParSet : ChooseParams(p))
        \/ (stage = "upd" /\ Len(hist) < par.H /\ \E t \in TgtH : Update(t))
        \/ Finish

Spec == Init /\ [][Next]_vars

----------------------------------------------------------------------------
(* Properties *)
HIdx == 1..Len(hist)
HTypeOK == /\ stage \in {"par", "upd", "done"}
           /\ msign \in {-1, 0, 1, 2}
           /\ (stage # "par" => Len(hist) <= par.H)
(* the listed clause, for every update of the history and whatever the parameter has become: gradient descent raises alpha      *)
(* exactly when the estimate is below the target                                                                                *)
HistDirection ==
  \A j \in HIdx :
    /\ (hist[j].gsign < 0 <=> QLt(Est, hist[j].tgt))
    /\ (hist[j].gsign = 0 <=> Est = hist[j].tgt)
    /\ hist[j].cmp = 0 - hist[j].gsign
    /\ (par.mode = "sgd" => /\ (hist[j].dir = "up" <=> hist[j].cmp = 1)
                            /\ (hist[j].dir = "down" <=> hist[j].cmp = -1)
                            /\ (hist[j].dir = "stay" <=> hist[j].cmp = 0))
(* Adam: as long as all gradients seen agree in sign, every update (also one with gradient 0 after them) moves alpha that way *)
HistMomentum ==
  (stage # "par" /\ par.mode = "control") =>
    \A j \in HIdx :
      LET seen == {hist[i].gsign : i \in 1..j} \ {0}
      IN /\ (seen = {} => hist[j].dir = "stay")
         /\ (seen = {-1} => hist[j].dir = "up")
         /\ (seen = {1} => hist[j].dir = "down")
         /\ (seen = {-1, 1} => hist[j].dir = "any")
(* alpha follows log_alpha: the parametrisation is strictly increasing at the start value (Actor.tla's AlphaMonotone lifts it to the lattice) *)
AlphaFollows == stage # "par" => \A x \in A!LaV : (A!LaLt(x, par.la0) => A!AlphaLt(x, par.la0)) /\ (A!LaLt(par.la0, x) => A!AlphaLt(par.la0, x))
=============================================================================
