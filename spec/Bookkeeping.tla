--------------------------- MODULE Bookkeeping ---------------------------
(* X02 - run-level bookkeeping of the LAP / TD7 / MR.Q training loops         *)
(*   rl_blox.algorithm.td7      ValueClippingState, _train_step, train_td7    *)
(*   rl_blox.algorithm.mrq      train_mrq (reward-scale hand-over, encoder    *)
(*                              block after a target update)                  *)
(*   rl_blox.algorithm.td3_lap  train_td3_lap (maximum-priority reset)        *)
(*   rl_blox.blox.replay_buffer PriorityBuffer (tracked maximum priority),    *)
(*                              SubtrajectoryReplayBuffer.reward_scale        *)
(*                                                                            *)
(* One action per call / section of the loop bodies; `pc` is the program      *)
(* counter of the body of `while step < total_timesteps`.  Every action is    *)
(* split into an EFFECT (XxxEff: the assignment to one group of variables,    *)
(* parameterised by the value the call produces) and the sequencing (pc);     *)
(* BookkeepingTrace.tla re-uses the effects and the value operators           *)
(* (RangeAfter, TargetAfter, ClipBounds, RewardScale, MaxAfterReset ...) to   *)
(* validate recorded runs of the real routines.                               *)
(*                                                                            *)
(* Values.  TD7's range values and the priorities are float32 numbers; only   *)
(* their ORDER matters (min / max / equality), so they are integers here      *)
(* (design model: small integers; traces: float32 ordinals, device D4).       *)
(* cfg.big stands for the sentinel 1e8, cfg.one for the priority 1.0.         *)
(* Rewards are kept in quarter units (r4 = 4 * reward), reward scales are     *)
(* exact rationals (Exact.tla).                                               *)
(*                                                                            *)
(* What the documentation says (and the code does):                           *)
(*  td7  "min_value - minimum value of Q observed so far", "min_target_value  *)
(*       - less frequently updated target value"; "we track the range of      *)
(*       values in the dataset and then clip the target values"; targets are  *)
(*       updated "every target_delay steps" (epoch % target_delay = 0).       *)
(*  mrq  "reward scale - mean absolute reward in replay buffer".              *)
(* What only the code says (modelled as it is, named):                        *)
(*  LoggedTargetRangeLags   the metrics dict is filled right after            *)
(*       update_range, i.e. BEFORE update_target_range of the same iteration: *)
(*       at an update point the logger is handed the previous target range.   *)
(*  ZeroRewardSlots         SubtrajectoryReplayBuffer stores an extra slot    *)
(*       with reward 0 at every episode end; reward_scale averages over it.   *)
(*  GridDue                 train_td3_lap resets the maximum priority when    *)
(*       step % 250 = 0 (hard-coded, absolute step index, also during         *)
(*       warm-up) - NOT at its target-update points.                          *)
EXTENDS Integers, Sequences, FiniteSets, TLC, Json, Exact

CONSTANTS Routine,   \* "td7" | "mrq" | "td3_lap"
          Delay,     \* target_delay
          Grid,      \* period of the TD3+LAP reset grid (250 in the code)
          Warm,      \* learning_starts
          Start,     \* global_step at entry
          Steps,     \* environment steps of the run
          Cap,       \* buffer_size (>= 2)
          Subtraj,   \* TRUE: SubtrajectoryReplayBufferPER (MR.Q), FALSE: LAP
          Prefill,   \* slots that may be filled before the routine is entered
          Vals,      \* target-value ordinals a critic batch may attain
          Rewards,   \* rewards (quarter units)
          Prios,     \* priorities update_priority may write
          DEV,       \* set of named deviations (canaries)
          EMIT

VARIABLES cfg, pc, step, epoch, ncopy,                              \* control
          vc, used, obs, seen, hist, usedHist,                      \* TD7 value clipping
          snap, logged, loggedRs, nlog,                             \* metrics handed to the logger
          prio, maxp, ins, len, rew, nres, resetsAt,                \* replay buffer: priorities, rewards
          rs, trs, pair, scales, pairHist, rs0, trs0, enc           \* MR.Q reward scales, encoder updates

ctl  == <<cfg, pc, step, epoch, ncopy>>
vcg  == <<vc, used, obs, seen, hist, usedHist>>
logg == <<snap, logged, loggedRs, nlog>>
bufg == <<prio, maxp, ins, len, rew, nres, resetsAt>>
rsg  == <<rs, trs, pair, scales, pairHist, rs0, trs0, enc>>
vars == <<ctl, vcg, logg, bufg, rsg>>

MinI(a, b) == IF a < b THEN a ELSE b
MaxI(a, b) == IF a > b THEN a ELSE b
MinSet(S) == CHOOSE m \in S : \A x \in S : m <= x
MaxSet(S) == CHOOSE m \in S : \A x \in S : x <= m
Range(s) == {s[i] : i \in 1..Len(s)}

(* named value sets for the configuration files (cfg files cannot hold negative numbers) *)
ValsSmall == {-1, 0, 2}
ValsOne == {0}
RewardsSigned == {5, -9, 13}
RewardsOne == {5}
PriosSmall == {1, 2, 3}
PriosOne == {1}
NoDev == {}
DevTargetBeforeRange == {"target_before_range"}
DevClipRunning == {"clip_running"}
DevResetEveryStep == {"reset_every_step"}
DevHandoverSwapped == {"handover_swapped"}
DevLogCurrent == {"log_current"}

----------------------------------------------------------------------------
(* value operators: what each call computes                                   *)

(* epoch = max(0, global_step - learning_starts)   (td7.py, mrq.py) *)
Epoch0(c) == IF c.start > c.warm THEN c.start - c.warm ELSE 0
(* target-update point: epoch % target_delay == 0 *)
Due(c, e) == e % c.delay = 0
(* train_td3_lap: `if step % 250 == 0:  # hardcoded` *)
GridDue(c, s) == s % c.grid = 0

(* ValueClippingState() *)
Vc0(c) == [minV |-> c.big, maxV |-> -c.big, minT |-> 0, maxT |-> 0]
(* ValueClippingState.update_range(q_target): running minimum / maximum of every target batch *)
RangeAfter(v, o) == [v EXCEPT !.minV = MinI(@, o[1]), !.maxV = MaxI(@, o[2])]
(* ValueClippingState.update_target_range() *)
TargetAfter(v) == [v EXCEPT !.minT = v.minV, !.maxT = v.maxV]
(* q_min, q_max handed to td7_update_critic: the TARGET range *)
ClipBounds(v) == <<v.minT, v.maxT>>
RunningBounds(v) == <<v.minV, v.maxV>>

(* slots written by add_sample: the subtrajectory buffer stores a second slot (reward 0) when the episode ends *)
Slots(c, i, ends) == IF c.subtraj /\ ends THEN <<i, (i + 1) % c.cap>> ELSE <<i>>
RECURSIVE AssignSeq(_, _, _, _)
AssignSeq(f, idx, val, k) == IF k > Len(idx) THEN f ELSE AssignSeq([f EXCEPT ![idx[k]] = val[k]], idx, val, k + 1)
(* PriorityBuffer.update_priority: max(np.max(priority), self.max_priority) *)
MaxAfterUpdate(m, p) == MaxSet({m} \cup Range(p))
(* PriorityBuffer.reset_max_priority(current_len): "Recalculate the maximum priority" *)
MaxStored(p, n) == MaxSet({p[i] : i \in 0..(n - 1)})
MaxAfterReset(p, n, m) == IF n > 0 THEN MaxStored(p, n) ELSE m

(* SubtrajectoryReplayBuffer.reward_scale(eps=1e-8): max(mean |reward| over the stored slots, eps).  Rewards are    *)
(* multiples of 1/4 and there are few slots, so the mean is either 0 or far above eps.                              *)
RECURSIVE SumAbs(_, _)
SumAbs(f, n) == IF n = 0 THEN 0 ELSE Abs(f[n - 1]) + SumAbs(f, n - 1)
Eps == <<1, 100000000>>
RewardScale(f, n) == IF SumAbs(f, n) = 0 THEN Eps ELSE Q(SumAbs(f, n), 4 * n)
(* train_mrq: reward_scale = 1, target_reward_scale = 0; both replay_buffer.reward_scale() if the buffer holds data *)
InitialScales(f, n) == IF n > 0 THEN <<RewardScale(f, n), RewardScale(f, n)>> ELSE <<One, Zero>>

----------------------------------------------------------------------------
(* effects: each assigns exactly one group of variables                       *)

StoreEff(r, ends) ==
  LET s == Slots(cfg, ins, ends) IN
  /\ rew' = IF Len(s) = 2 THEN [rew EXCEPT ![s[1]] = r, ![s[2]] = 0] ELSE [rew EXCEPT ![s[1]] = r]
  /\ prio' = AssignSeq(prio, s, [k \in 1..Len(s) |-> maxp], 1)      \* initialize_priority: the tracked maximum
  /\ ins' = (ins + Len(s)) % cfg.cap
  /\ len' = MinI(len + Len(s), cfg.cap)
  /\ UNCHANGED <<maxp, nres, resetsAt>>

UpdatePriorityEff(idx, p, newmax) ==
  /\ prio' = AssignSeq(prio, idx, p, 1)
  /\ maxp' = newmax
  /\ UNCHANGED <<ins, len, rew, nres, resetsAt>>

ResetEff(newmax, at) ==
  /\ maxp' = newmax
  /\ nres' = nres + 1
  /\ resetsAt' = Append(resetsAt, at)
  /\ UNCHANGED <<prio, ins, len, rew>>

CriticEff(bounds, o) ==
  /\ used' = bounds /\ obs' = o
  /\ seen' = Append(seen, o) /\ usedHist' = Append(usedHist, bounds)
  /\ UNCHANGED <<vc, hist>>

UpdateRangeEff(after) ==
  /\ vc' = after
  /\ hist' = Append(hist, <<after.minV, after.maxV>>)
  /\ UNCHANGED <<used, obs, seen, usedHist>>

UpdateTargetRangeEff(after) == vc' = after /\ UNCHANGED <<used, obs, seen, hist, usedHist>>

SnapshotEff(s) == snap' = s /\ UNCHANGED <<logged, loggedRs, nlog>>
LogMetricsEff(m, k) == logged' = m /\ nlog' = nlog + k /\ UNCHANGED <<snap, loggedRs>>
LogRewardScaleEff(x) == loggedRs' = x /\ nlog' = nlog + 1 /\ UNCHANGED <<snap, logged>>

EnterRoutineEff(r, t) == rs' = r /\ trs' = t /\ rs0' = r /\ trs0' = t /\ UNCHANGED <<pair, scales, pairHist, enc>>
HandOverEff(newrs, newtrs) ==
  /\ rs' = newrs /\ trs' = newtrs /\ scales' = Append(scales, newrs)
  /\ UNCHANGED <<pair, pairHist, rs0, trs0, enc>>
ScaleCriticEff(p) == pair' = p /\ pairHist' = Append(pairHist, p) /\ UNCHANGED <<rs, trs, scales, rs0, trs0, enc>>
EncoderEff(k) == enc' = enc + k /\ UNCHANGED <<rs, trs, pair, scales, pairHist, rs0, trs0>>

----------------------------------------------------------------------------
DesignCfg == [routine |-> Routine, delay |-> Delay, grid |-> Grid, warm |-> Warm, start |-> Start, cap |-> Cap,
              subtraj |-> Subtraj, big |-> 9, one |-> 1, ncopies |-> IF Routine = "td7" THEN 4 ELSE 2,
              bs |-> 2, eh |-> 2, qh |-> 2]

EView == [pc |-> pc, step |-> step, epoch |-> epoch, vc |-> vc, used |-> used, maxp |-> maxp, rs |-> rs, trs |-> trs]
Emit(op, args, exp) ==
  EMIT => PrintT(<<"EMIT", ToJson([pre |-> EView, op |-> op, args |-> args, exp |-> exp, post |-> EView'])>>)

InitState(c) ==
  /\ cfg = c /\ pc = "prefill" /\ step = c.start - 1 /\ epoch = Epoch0(c) /\ ncopy = 0
  /\ vc = Vc0(c) /\ used = <<0, 0>> /\ obs = <<0, 0>> /\ seen = <<>> /\ hist = <<>> /\ usedHist = <<>>
  /\ snap = Vc0(c) /\ logged = Vc0(c) /\ loggedRs = Zero /\ nlog = 0
  /\ prio = [i \in 0..(c.cap - 1) |-> 0] /\ maxp = c.one /\ ins = 0 /\ len = 0
  /\ rew = [i \in 0..(c.cap - 1) |-> 0] /\ nres = 0 /\ resetsAt = <<>>
  /\ rs = One /\ trs = Zero /\ pair = <<One, Zero>> /\ scales = <<>> /\ pairHist = <<>> /\ rs0 = One /\ trs0 = Zero /\ enc = 0

Init == InitState(DesignCfg)

Goto(p) == pc' = p /\ UNCHANGED <<cfg, step, epoch, ncopy>>
DueNow == Due(cfg, epoch)
DueReset == DueNow \/ "reset_every_step" \in DEV

(* data stored before the routine is entered (continued training) *)
StoreBefore(r, ends) ==
  /\ pc = "prefill" /\ len < Prefill
  /\ StoreEff(r, ends)
  /\ UNCHANGED <<ctl, vcg, logg, rsg>>

(* train_td7 / train_mrq / train_td3_lap up to the loop *)
EnterRoutine ==
  /\ pc = "prefill"
  /\ LET i == InitialScales(rew, len) IN EnterRoutineEff(i[1], i[2])
  /\ Goto("act")
  /\ UNCHANGED <<vcg, logg, bufg>>
  /\ Emit("EnterRoutine", <<>>, <<>>)

(* env.step + replay_buffer.add_sample *)
EnvStepAndStore(r, ends) ==
  /\ pc = "act" /\ step + 1 < cfg.start + Steps
  /\ step' = step + 1
  /\ StoreEff(r, ends)
  /\ pc' = IF step + 1 >= cfg.warm THEN "learn" ELSE "tail"
  /\ UNCHANGED <<cfg, epoch, ncopy, vcg, logg, rsg>>

(* epoch += 1 *)
BeginIteration ==
  /\ pc = "learn"
  /\ epoch' = epoch + 1
  /\ pc' = IF cfg.routine = "mrq"
           THEN (IF Due(cfg, epoch + 1) THEN "targets" ELSE IF "reset_every_step" \in DEV THEN "reset" ELSE "critic")
           ELSE "critic"
  /\ UNCHANGED <<cfg, step, ncopy, vcg, logg, bufg, rsg>>

(* td7_update_critic(..., q_min, q_max) -> q_target   /   update_critic_and_policy(..., reward_scale, target_reward_scale) *)
CriticUpdate(qmin, qmax) ==
  /\ pc = "critic" /\ qmin <= qmax
  /\ CriticEff(IF "clip_running" \in DEV THEN RunningBounds(vc) ELSE ClipBounds(vc), <<qmin, qmax>>)
  /\ ScaleCriticEff(<<rs, trs>>)
  /\ Goto(IF cfg.routine = "td7" THEN "range" ELSE "prio")
  /\ UNCHANGED <<logg, bufg>>
  /\ Emit("CriticUpdate", <<qmin, qmax>>, used')

(* value_clipping_state.update_range(q_target) *)
UpdateRange ==
  /\ pc = "range"
  /\ LET pre == IF "target_before_range" \in DEV /\ DueNow THEN TargetAfter(vc) ELSE vc
     IN UpdateRangeEff(RangeAfter(pre, obs))
  /\ Goto("metrics")
  /\ UNCHANGED <<logg, bufg, rsg>>

(* metrics.update(value_clipping_state.__dict__) *)
SnapshotMetrics ==
  /\ pc = "metrics"
  /\ SnapshotEff(vc)
  /\ Goto("prio")
  /\ UNCHANGED <<vcg, bufg, rsg>>

(* replay_buffer.update_priority(lap_priority(...)) *)
UpdatePriority(i, p) ==
  /\ pc = "prio" /\ i \in 0..(len - 1)
  /\ UpdatePriorityEff(<<i>>, <<p>>, MaxAfterUpdate(maxp, <<p>>))
  /\ Goto(CASE cfg.routine = "td7" -> (IF DueNow THEN "targets" ELSE IF DueReset THEN "reset" ELSE "log")
            [] OTHER -> "tail")
  /\ UNCHANGED <<vcg, logg, rsg>>

(* hard_target_net_update x ncopies *)
CopyTargets ==
  /\ pc = "targets"
  /\ ncopy' = ncopy + cfg.ncopies
  /\ pc' = IF cfg.routine = "mrq" THEN "handover" ELSE "reset"
  /\ UNCHANGED <<cfg, step, epoch, vcg, logg, bufg, rsg>>

(* target_reward_scale = reward_scale; reward_scale = replay_buffer.reward_scale() *)
HandOver ==
  /\ pc = "handover"
  /\ LET s == RewardScale(rew, len) IN HandOverEff(s, IF "handover_swapped" \in DEV THEN s ELSE rs)
  /\ Goto("reset")
  /\ UNCHANGED <<vcg, logg, bufg>>
  /\ Emit("HandOver", <<>>, <<rs', trs'>>)

(* replay_buffer.reset_max_priority() *)
ResetMaxPriority ==
  /\ pc = "reset"
  /\ ResetEff(MaxAfterReset(prio, len, maxp), epoch)
  /\ Goto(CASE cfg.routine = "mrq" -> (IF DueNow THEN "encoder" ELSE "critic")
            [] OTHER -> (IF DueNow THEN "trange" ELSE "log"))
  /\ UNCHANGED <<vcg, logg, rsg>>

(* batches = sample_batch(batch_size * target_delay, encoder_horizon, True); update_model_based_encoder: target_delay mini-batches *)
TrainEncoderBlock ==
  /\ pc = "encoder"
  /\ EncoderEff(cfg.delay)
  /\ Goto("logscale")
  /\ UNCHANGED <<vcg, logg, bufg>>

(* logger.record_stat("reward scale", reward_scale) *)
LogRewardScale ==
  /\ pc = "logscale"
  /\ LogRewardScaleEff(rs)
  /\ Goto("critic")
  /\ UNCHANGED <<vcg, bufg, rsg>>

(* value_clipping_state.update_target_range() *)
UpdateTargetRange ==
  /\ pc = "trange"
  /\ UpdateTargetRangeEff(IF "target_before_range" \in DEV THEN vc ELSE TargetAfter(vc))
  /\ Goto("log")
  /\ UNCHANGED <<logg, bufg, rsg>>

(* for k, v in metrics.items(): logger.record_stat(k, v)   - the snapshot (LoggedTargetRangeLags) *)
LogMetrics ==
  /\ pc = "log"
  /\ LogMetricsEff(IF "log_current" \in DEV THEN vc ELSE snap, 4)
  /\ Goto("tail")
  /\ UNCHANGED <<vcg, bufg, rsg>>

(* rest of the loop body; train_td3_lap: `if step % 250 == 0: replay_buffer.reset_max_priority()` *)
EndOfStep ==
  /\ pc = "tail"
  /\ IF cfg.routine = "td3_lap" /\ GridDue(cfg, step)
     THEN ResetEff(MaxAfterReset(prio, len, maxp), step)
     ELSE UNCHANGED bufg
  /\ Goto("act")
  /\ UNCHANGED <<vcg, logg, rsg>>

Next ==
  \/ \E r \in Rewards, e \in BOOLEAN : StoreBefore(r, e) \/ EnvStepAndStore(r, e)
  \/ EnterRoutine \/ BeginIteration
  \/ \E a \in Vals, b \in Vals : CriticUpdate(a, b)
  \/ UpdateRange \/ SnapshotMetrics
  \/ \E i \in 0..(Cap - 1), p \in Prios : UpdatePriority(i, p)
  \/ CopyTargets \/ HandOver \/ ResetMaxPriority \/ TrainEncoderBlock \/ LogRewardScale
  \/ UpdateTargetRange \/ LogMetrics \/ EndOfStep

----------------------------------------------------------------------------
(* run-level properties, stated over the ghost histories                      *)

E0 == Epoch0(cfg)
DuePoints(e) == {k \in (E0 + 1)..e : Due(cfg, k)}                       \* target-update points of this run up to epoch e
LastDue(e) == IF DuePoints(e) = {} THEN 0 ELSE MaxSet(DuePoints(e))
HistAt(e) == hist[e - E0]                                               \* running range at the end of epoch e
TargetRangeAfter(e) == IF LastDue(e) = 0 THEN <<0, 0>> ELSE HistAt(LastDue(e))
GridPoints(s) == {k \in cfg.start..s : GridDue(cfg, k)}
Ascending(seq, S) == /\ Len(seq) = Cardinality(S) /\ Range(seq) = S
                     /\ \A i \in 1..Len(seq), j \in 1..Len(seq) : i < j => seq[i] < seq[j]
Quiet == pc = "act"                                                     \* between two passes of the loop body
Td7 == cfg.routine = "td7"
Mrq == cfg.routine = "mrq"

(* 1a. min_value / max_value are the running minimum / maximum of every critic target batch seen so far *)
RunningRangeIsExtremeOfSeen ==
  Len(hist) = Len(seen) =>
    /\ vc.minV = MinSet({cfg.big} \cup {seen[i][1] : i \in 1..Len(seen)})
    /\ vc.maxV = MaxSet({-cfg.big} \cup {seen[i][2] : i \in 1..Len(seen)})
    /\ \A i \in 1..Len(seen) : vc.minV <= seen[i][1] /\ seen[i][2] <= vc.maxV
(* 1b. the target range changes only at update points and then is the running range of that moment *)
TargetRangeIsRunningAtLastUpdatePoint ==
  (Td7 /\ Quiet) => ClipBounds(vc) = TargetRangeAfter(epoch)
(* 1c. the bounds of iteration k are the target range as it was before k's own update *)
ClipBoundsAreTargetRangeBeforeStep ==
  Td7 => \A i \in 1..Len(usedHist) : usedHist[i] = TargetRangeAfter(E0 + i - 1)
(* 2. reset_max_priority exactly at the update points (TD7, MR.Q) / on the 250-grid (TD3+LAP) *)
ResetCadence ==
  Quiet => IF cfg.routine = "td3_lap" THEN Ascending(resetsAt, GridPoints(step)) ELSE Ascending(resetsAt, DuePoints(epoch))
TargetCopiesAtUpdatePoints ==
  (Quiet /\ cfg.routine # "td3_lap") => ncopy = cfg.ncopies * Cardinality(DuePoints(epoch))
(*    the tracked maximum dominates every stored priority; between two resets it never decreases *)
MaxPriorityDominates == \A i \in 0..(len - 1) : prio[i] <= maxp
MonotoneBetweenResets == [][nres' = nres => maxp' >= maxp]_vars
(* 3. reward-scale hand-over *)
PairAfter(n) == <<IF n = 0 THEN rs0 ELSE scales[n], IF n = 0 THEN trs0 ELSE IF n = 1 THEN rs0 ELSE scales[n - 1]>>
ScalesHandedOver ==
  (Mrq /\ Quiet) => /\ Len(scales) = Cardinality(DuePoints(epoch))
                    /\ <<rs, trs>> = PairAfter(Len(scales))
CriticGetsPairInForce ==
  Mrq => \A i \in 1..Len(pairHist) : pairHist[i] = PairAfter(Cardinality(DuePoints(E0 + i)))
EncoderBlocksAtUpdatePoints ==
  (Mrq /\ Quiet) => enc = cfg.delay * Cardinality(DuePoints(epoch))
(* 4. what the logger is handed *)
LoggedTargetRangeLags ==
  (Td7 /\ Quiet /\ Len(hist) > 0) =>
    logged = [minV |-> HistAt(epoch)[1], maxV |-> HistAt(epoch)[2],
              minT |-> TargetRangeAfter(epoch - 1)[1], maxT |-> TargetRangeAfter(epoch - 1)[2]]
LoggedRewardScaleIsCurrent ==
  (Mrq /\ Quiet /\ Len(scales) > 0) => loggedRs = rs

TypeOK == /\ pc \in {"prefill", "act", "learn", "critic", "range", "metrics", "prio", "targets", "handover", "reset",
                     "encoder", "logscale", "trange", "log", "tail"}
          /\ len \in 0..cfg.cap /\ ins \in 0..(cfg.cap - 1)
          /\ vc.minT <= vc.maxT
=============================================================================
