--------------------------- MODULE Heads ---------------------------
(* C13 (function level): policy heads and greedy / epsilon-greedy selection.    *)
(*                                                                            *)
(*   rl_blox.blox.function_approximator.policy_head                           *)
(*        GaussianPolicy, GaussianTanhPolicy, SoftmaxPolicy,                  *)
(*        DeterministicTanhPolicy : __call__, logits, sample,                 *)
(*        log_probability, entropy                                            *)
(*   rl_blox.blox.value_policy  greedy_policy, epsilon_greedy_policy (tables) *)
(*   rl_blox.blox.q_policy      greedy_policy (Q-network)                     *)
(*                                                                            *)
(* The greedy selectors are specified on two lattices of Q rows: head "Q" -    *)
(* rationals that are exactly tied or well separated - and head "QOrd" -       *)
(* NEAR-TIES: float32 values zero to three ulps apart at several magnitudes    *)
(* and signs, written as float32 ORDINALS (device D4), on which TLC decides    *)
(* the maximiser set exactly.                                                  *)
(*                                                                            *)
(* The specification is functional: a behaviour is a staged choice of a test  *)
(* vector (head -> shape -> lattice index) followed by one action per public  *)
(* method, which states the result the method must return: its SHAPE and, per *)
(* element, its value as an exact rational (device D2) or as an exact linear  *)
(* form over named constants ln 2, ln 3, .., ln pi, e^q (device D3,           *)
(* Forms.tla).  The network under a head is a pass-through stub, so that the  *)
(* "network output" (mean, log-variance) / logits / Q-values are the chosen   *)
(* lattice values.  Every method is specified as DEFINED for an un-batched    *)
(* observation (batch code 0) and for every batch size.                       *)
EXTENDS Forms, Json

CONSTANTS EMIT,       \* TRUE: print one EMIT record per method evaluation
          Batches,    \* batch codes: 0 = one un-batched observation, b >= 1 = b rows
          Dims,       \* action dimensions (continuous heads)
          Actions,    \* numbers of discrete actions (softmax head, Q rows)
          States,     \* numbers of table rows (greedy policies)
          Step,       \* lattice base indices are the multiples of Step
          EpsStep,    \* the same for the (slow, un-jitted) epsilon-greedy policy
          NKeys,      \* random keys 0..NKeys-1 per sampling case
          EpsKeys,    \* random keys per epsilon-greedy case
          FreqN,      \* rows of the sampling-frequency / noise-moment cases
          FreqStep,   \* sampling-frequency cases at the multiples of FreqStep
          OrdStep,    \* near-tie rows (head "QOrd") at the multiples of OrdStep
          OrdKeys,    \* random keys per near-tie epsilon-greedy case
          Deviation   \* "none", or the name of a deviation definition (canary)

VARIABLES stage,      \* "start" -> "head" -> "shape" -> "case"
          head, bat, dim, idx
vars == <<stage, head, bat, dim, idx>>

GaussHeads == {"GaussianPolicy", "GaussianTanhPolicy"}
QHeads     == {"Q", "QOrd"}                 \* Q rows: rationals / float32 ordinals (near-ties)
AllHeads   == GaussHeads \cup {"SoftmaxPolicy", "DeterministicTanhPolicy"} \cup QHeads

RECURSIVE Pow(_, _)
Pow(b, e) == IF e = 0 THEN 1 ELSE b * Pow(b, e - 1)
Digit(j, k, base) == (j \div Pow(base, k - 1)) % base       \* k-th digit, k >= 1

Rows(b)   == IF b = 0 THEN 1 ELSE b
BShape(b) == IF b = 0 THEN <<>> ELSE <<b>>
RowStride == 7

----------------------------------------------------------------------------
(* Continuous heads: network output y (pre-activation mean) and log-variance *)

LvSeq == <<I(-50), I(-4), I(0), I(1), I(10)>>      \* beyond both clip bounds, inside
DlSeq == <<I(0), I(-1), Q(1, 2), I(2)>>            \* action - mean (log_probability)
YSeq(h) == IF h = "GaussianPolicy" THEN <<I(0), I(-1), Q(3, 2)>>
                                    ELSE <<I(0), I(-40), I(40)>>   \* tanh exact: 0, -1, +1
NPoints == 60                                       \* lcm(3, 5, 4): residues cover the product

(* action space of the tanh heads, per dimension *)
Low  == <<I(-1), I(0), I(-4)>>
High == <<I(3), I(4), I(4)>>
ActionScale(k) == QDiv(QSub(High[k], Low[k]), I(2))
ActionBias(k)  == QDiv(QAdd(High[k], Low[k]), I(2))

(* tanh on the lattice: exact at 0, saturated (in float32) from |y| >= 40 *)
TanhSat(y) == IF y[1] = 0 THEN Zero
              ELSE IF QLe(I(40), y) THEN One
              ELSE IF QLe(y, I(-40)) THEN I(-1)
              ELSE Assert(FALSE, <<"tanh is not exact at", y>>)
(* scale_output of DeterministicTanhPolicy, mean of GaussianTanhPolicy *)
TanhScale(y, k) == QAdd(QMul(TanhSat(y), ActionScale(k)), ActionBias(k))

Elem(h, i0, r, k) ==               \* row r >= 0, dimension k >= 1
  LET i == i0 + RowStride * r + (k - 1)
  IN [y  |-> YSeq(h)[(i % 3) + 1],
      lv |-> LvSeq[(i % 5) + 1],
      dl |-> DlSeq[(i % 4) + 1]]

Mean(h, y, k) == IF h = "GaussianPolicy" THEN y ELSE TanhScale(y, k)

(* log_std = clip(0.5 * log_var, -20, 2) *)
LogStdSpec(lv)    == QClip(QMul(Half, lv), I(-20), I(2))
LogStdDevNoHalf(lv) == QClip(lv, I(-20), I(2))                 \* deviation: forgets the 1/2
LogStd(lv) == IF Deviation = "no_half" THEN LogStdDevNoHalf(lv) ELSE LogStdSpec(lv)
Std(lv)    == FExp(LogStd(lv))                                 \* std = exp(log_std)

(* sample = mean + std * n, n the key-determined standard-normal noise *)
SampleForm(m, lv, n) == FAdd(FConst(m), FScale(n, Std(lv)))
(* (a - mean) / std *)
Standardise(a, m, lv) == FMulExp(FSub(a, FConst(m)), QNeg(LogStd(lv)))
(* log N(a | mean, std^2) of one dimension = -log_std - 1/2 ln(2 pi) - 1/2 z^2 *)
LogProbOfZ2(lv, z2) ==
  FSub(FSub(FConst(QNeg(LogStd(lv))), FScale(Half, FLn2Pi)), FScale(Half, z2))
LogProbElem(a, m, lv) == LogProbOfZ2(lv, FSqMono(Standardise(a, m, lv)))
(* differential entropy of one dimension = 1/2 + 1/2 ln(2 pi) + log_std *)
EntropyElem(lv) == FAdd(FConst(QAdd(Half, LogStd(lv))), FScale(Half, FLn2Pi))

NetRow(h, n, i0, r) ==             \* what the network returns: (y_1..y_n, lv_1..lv_n)
  [j \in 1..(2 * n) |-> IF j <= n THEN Elem(h, i0, r, j).y ELSE Elem(h, i0, r, j - n).lv]
NetRows(h, b, n, i0) == [r \in 1..Rows(b) |-> NetRow(h, n, i0, r - 1)]
MeanRows(h, b, n, i0) ==
  [r \in 1..Rows(b) |-> [k \in 1..n |-> Mean(h, Elem(h, i0, r - 1, k).y, k)]]
RefRows(b, n)     == [r \in 1..Rows(b) |-> [j \in 1..(2 * n) |-> Zero]]   \* y = 0, log_var = 0
RefMeanRows(h, b, n) == [r \in 1..Rows(b) |-> [k \in 1..n |-> Mean(h, Zero, k)]]
Space(h, n) == IF h = "GaussianPolicy" THEN [low |-> <<>>, high |-> <<>>]
               ELSE [low |-> [k \in 1..n |-> Low[k]], high |-> [k \in 1..n |-> High[k]]]

(* result shape / definedness.  The deviation is what GaussianPolicy.entropy   *)
(* would be if it unpacked the mean returned by __call__ into (mean, log_var): *)
(* defined only when the leading axis has length 2.                            *)
LeadingAxis(b, n) == IF b = 0 THEN n ELSE b
Defined(h, method, b, n) ==
  IF Deviation = "entropy_unpacks_call" /\ h = "GaussianPolicy" /\ method = "entropy"
  THEN LeadingAxis(b, n) = 2 ELSE TRUE
ContinuousMethods == {"call", "sample", "log_probability", "entropy"}

----------------------------------------------------------------------------
(* Softmax head: logits on levels OFF (= shift - Big), shift + j * ln 2        *)

Big == 10000
NSoft(n) == Pow(4, n) + Pow(2, n)
(* row index j -> digit per action: 0 = OFF, d >= 1 = level (d-1) ln 2; the    *)
(* indices from 4^n on are the OFF/0 rows shifted by Big (extreme logits)      *)
SoftRow(n, j0) ==
  LET j  == j0 % NSoft(n)
      hi == j >= Pow(4, n)
      raw == [k \in 1..n |-> IF hi THEN Digit(j - Pow(4, n), k, 2) ELSE Digit(j, k, 4)]
      lev == IF \A k \in 1..n : raw[k] = 0 THEN [raw EXCEPT ![1] = 1] ELSE raw
  IN [lev |-> lev, shift |-> IF hi THEN Big ELSE 0]

Weight(d) == IF d = 0 THEN 0 ELSE Pow(2, d - 1)
RECURSIVE SumTo(_, _)
SumTo(s, k) == IF k = 0 THEN 0 ELSE SumTo(s, k - 1) + s[k]
TotalWeight(row) == SumTo([k \in 1..Len(row.lev) |-> Weight(row.lev[k])], Len(row.lev))

Logit(row, k) == IF row.lev[k] = 0 THEN FConst(I(row.shift - Big))
                 ELSE FAdd(FConst(I(row.shift)), FScale(I(row.lev[k] - 1), FLn(2)))
(* softmax; an OFF logit is 10^4 below the others: its probability (< 1e-4342, *)
(* zero in float32 and float64) is modelled as 0                               *)
Prob(row, k) == Q(Weight(row.lev[k]), TotalWeight(row))
Probs(row)   == [k \in 1..Len(row.lev) |-> Prob(row, k)]
LogSumExp(row) == FAdd(FConst(I(row.shift)), FLn(TotalWeight(row)))
LogProbSpec(row, k) == FSub(Logit(row, k), LogSumExp(row))
LogProbDevUnnormalised(row, k) == FSub(Logit(row, k), FConst(I(row.shift)))  \* deviation
SoftLogProb(row, k) == IF Deviation = "logprob_unnormalised" THEN LogProbDevUnnormalised(row, k)
                       ELSE LogProbSpec(row, k)
SoftEntropy(row) ==
  FNeg(FSum([k \in 1..Len(row.lev) |-> FScale(Prob(row, k), SoftLogProb(row, k))]))
Support(row) == {k \in 1..Len(row.lev) : row.lev[k] # 0}

SoftRows(b, n, i0) == [r \in 1..Rows(b) |-> SoftRow(n, i0 + RowStride * (r - 1))]
LogitRows(b, n, i0) ==
  LET rs == SoftRows(b, n, i0) IN [r \in 1..Rows(b) |-> [k \in 1..n |-> FJson(Logit(rs[r], k))]]
ActionOf(n, i0, r) == (i0 + r) % n                  \* 0-based action evaluated in row r >= 1

----------------------------------------------------------------------------
(* Greedy / epsilon-greedy on tabular Q rows                                   *)

QVal == <<I(-1), I(0), Q(1, 2), I(2)>>
QRow(n, j)  == [k \in 1..n |-> QVal[Digit(j % Pow(4, n), k, 4) + 1]]
QTable(s, n, i0) == [t \in 1..s |-> QRow(n, i0 + 37 * (t - 1))]
AltTable(s, n, i0) == [t \in 1..s |-> QRow(n, i0 + 37 * (t - 1) + 1 + 4 * t)]  \* other values
Greedy(row) == ArgMaxFirst(row) - 1                 \* 0-based; any member of ArgMaxSet is correct
RollSet == {Zero, Q(1, 4), Q(3, 4)}                 \* roll is uniform on [0, 1)
Explore(roll, eps) == IF Deviation = "eps_le" THEN QLe(roll, eps) ELSE QLt(roll, eps)
EpsGreedy(row, eps, roll, rand) == IF Explore(roll, eps) THEN rand ELSE Greedy(row)
ZeroBased(S) == {k - 1 : k \in S}

----------------------------------------------------------------------------
(* Near-ties: Q rows on float32 ordinals (device D4)                           *)
(*                                                                            *)
(* The normal float32 number 2^e (1 + m / 2^23), -126 <= e <= 127,             *)
(* 0 <= m < 2^23, has ordinal (e + 127) 2^23 + m; its negative has the         *)
(* negated ordinal; 0 has ordinal 0.  The map is strictly monotone, so order   *)
(* and equality of ordinals ARE order and equality of the floats, and          *)
(* "ordinal + 1" is "the next float32" (one ulp up), also across a binade.     *)
(* Ordinals of magnitude 1 .. 2^23 - 1 are the subnormal numbers; they are not *)
(* used (XLA on CPU computes with subnormals flushed to zero).                 *)
TwoP23 == 8388608
OrdOf(e, m) == (e + 127) * TwoP23 + m
MinNormal == OrdOf(-126, 0)                         \* 2^-126
OrdInf    == OrdOf(128, 0)                          \* first ordinal that is not a finite number
(* magnitudes of the near-tie rows: 2^-40 (9.1e-13), 2^-23 (1.2e-7), 1/2,      *)
(* 1 - 2^-23 (two floats below 1: the row crosses the binade), 1, 1000         *)
OrdMagn == << [e |-> -40, m |-> 0], [e |-> -23, m |-> 0], [e |-> -1, m |-> 0],
              [e |-> -1, m |-> TwoP23 - 2], [e |-> 0, m |-> 0], [e |-> 9, m |-> 7995392] >>
NMagn == Len(OrdMagn)
NOrdBases == 2 * NMagn + 1
(* the four levels of base k, increasing: four consecutive floats upwards from *)
(* the magnitude, their mirror images below zero, and the floats next to zero  *)
OrdLevels(k) ==
  IF k <= NMagn THEN LET B == OrdOf(OrdMagn[k].e, OrdMagn[k].m) IN <<B, B + 1, B + 2, B + 3>>
  ELSE IF k <= 2 * NMagn
       THEN LET B == OrdOf(OrdMagn[k - NMagn].e, OrdMagn[k - NMagn].m) IN <<-(B + 3), -(B + 2), -(B + 1), -B>>
  ELSE <<-MinNormal, 0, MinNormal, MinNormal + 1>>
ASSUME \A k \in 1..NOrdBases :
         /\ \A d \in 1..3 : OrdLevels(k)[d] < OrdLevels(k)[d + 1]
         /\ \A d \in 1..4 : LET o == OrdLevels(k)[d]
                            IN o = 0 \/ (MinNormal <= o /\ o < OrdInf) \/ (MinNormal <= -o /\ -o < OrdInf)

OrdPoints(n) == NOrdBases * Pow(4, n)
ORow(n, j0) == LET j  == j0 % OrdPoints(n)
                   lv == OrdLevels((j \div Pow(4, n)) + 1)
               IN [k \in 1..n |-> lv[Digit(j % Pow(4, n), k, 4) + 1]]
(* the rows of one table lie at different magnitudes *)
OTable(s, n, i0) == [t \in 1..s |-> ORow(n, i0 + (Pow(4, n) + 37) * (t - 1))]

(* maximisers of a row of ordinals *)
OrdArgMaxSet(row) == {i \in 1..Len(row) : \A j \in 1..Len(row) : row[j] <= row[i]}
OrdArgMaxFirst(row) == CHOOSE i \in OrdArgMaxSet(row) : \A j \in OrdArgMaxSet(row) : i <= j
(* distance (in float32 steps) between the best and the second-best value; 0 = all tied *)
OrdGap(row) == LET S == OrdArgMaxSet(row)
                   R == (1..Len(row)) \ S
               IN IF R = {} THEN 0
                  ELSE LET j == CHOOSE j \in R : \A l \in R : row[l] <= row[j]
                       IN row[OrdArgMaxFirst(row)] - row[j]
(* the selectors on a row of ordinals.  Deviation "tie_jitter": the non-       *)
(* exploring branch breaks ties "at random" by adding a key-dependent jitter   *)
(* of fixed size before the arg-max; the jitter is modelled as 0 or 2 float32  *)
(* steps per action.                                                           *)
GreedyOrd(row) == OrdArgMaxFirst(row) - 1
NoJitter(n) == [k \in 1..n |-> 0]
Jitters(n) == IF Deviation = "tie_jitter" THEN [1..n -> {0, 2}] ELSE {NoJitter(n)}
GreedyOrdJittered(row, jit) == OrdArgMaxFirst([k \in 1..Len(row) |-> row[k] + jit[k]]) - 1
EpsGreedyOrd(row, eps, roll, rand, jit) ==
  IF Explore(roll, eps) THEN rand
  ELSE IF Deviation = "tie_jitter" THEN GreedyOrdJittered(row, jit) ELSE GreedyOrd(row)

----------------------------------------------------------------------------
Emit(op, args, exp) ==
  EMIT => PrintT(<<"EMIT", ToJson([op |-> op, head |-> head, b |-> bat, n |-> dim, i |-> idx,
                                   args |-> args, exp |-> exp])>>)

Init == stage = "start" /\ head = "" /\ bat = 0 /\ dim = 0 /\ idx = 0

ChooseHead(h) == /\ stage = "start"
                 /\ head' = h /\ stage' = "head"
                 /\ UNCHANGED <<bat, dim, idx>>

WidthsOf(h)  == IF h \in GaussHeads \cup {"DeterministicTanhPolicy"} THEN Dims ELSE Actions
BatchesOf(h) == IF h \in QHeads THEN States ELSE Batches
ChooseShape(b, n) == /\ stage = "head"
                     /\ b \in BatchesOf(head) /\ n \in WidthsOf(head)
                     /\ bat' = b /\ dim' = n /\ stage' = "shape"
                     /\ UNCHANGED <<head, idx>>

PointsOf(h, n) == IF h \in GaussHeads THEN 0..(NPoints - 1)
                  ELSE IF h = "DeterministicTanhPolicy" THEN 0..2
                  ELSE IF h = "SoftmaxPolicy" THEN 0..(NSoft(n) - 1)
                  ELSE IF h = "QOrd" THEN 0..(OrdPoints(n) - 1)
                  ELSE 0..(Pow(4, n) - 1)
StepOf(h) == IF h = "DeterministicTanhPolicy" THEN 1 ELSE IF h = "QOrd" THEN OrdStep ELSE Step
ChoosePoint(i) == /\ stage = "shape"
                  /\ i \in PointsOf(head, dim) /\ i % StepOf(head) = 0
                  /\ idx' = i /\ stage' = "case"
                  /\ UNCHANGED <<head, bat, dim>>

Case(h) == stage = "case" /\ head = h /\ UNCHANGED vars

(* ---- GaussianPolicy / GaussianTanhPolicy ---- *)
(* __call__: GaussianPolicy returns the mean, GaussianTanhPolicy (mean, std) *)
GaussianCall(h) ==
  /\ Case(h) /\ h \in GaussHeads
  /\ Emit(h \o ".call",
          [net |-> NetRows(h, bat, dim, idx), space |-> Space(h, dim)],
          [shape |-> BShape(bat) \o <<dim>>,
           mean |-> MeanRows(h, bat, dim, idx),
           std |-> [r \in 1..Rows(bat) |-> [k \in 1..dim |-> FJson(Std(Elem(h, idx, r - 1, k).lv))]]])

GaussianSample(h, key) ==
  /\ Case(h) /\ h \in GaussHeads
  /\ Emit(h \o ".sample",
          [net |-> NetRows(h, bat, dim, idx), space |-> Space(h, dim), key |-> key,
           refnet |-> RefRows(bat, dim)],
          [shape |-> BShape(bat) \o <<dim>>,
           law |-> "sample = mean + std * noise, noise = refsample - refmean (same key, same shape)",
           mean |-> MeanRows(h, bat, dim, idx),
           std |-> [r \in 1..Rows(bat) |-> [k \in 1..dim |-> FJson(Std(Elem(h, idx, r - 1, k).lv))]],
           refmean |-> RefMeanRows(h, bat, dim)])

GaussianLogProbability(h) ==
  /\ Case(h) /\ h \in GaussHeads
  /\ LET act(r, k) == LET e == Elem(h, idx, r - 1, k) IN QAdd(Mean(h, e.y, k), e.dl)
         lp(r) == FSum([k \in 1..dim |->
                          LET e == Elem(h, idx, r - 1, k)
                          IN LogProbElem(FConst(act(r, k)), Mean(h, e.y, k), e.lv)])
     IN Emit(h \o ".log_probability",
             [net |-> NetRows(h, bat, dim, idx), space |-> Space(h, dim),
              action |-> [r \in 1..Rows(bat) |-> [k \in 1..dim |-> act(r, k)]]],
             [shape |-> BShape(bat), val |-> [r \in 1..Rows(bat) |-> FJson(lp(r))]])

GaussianEntropy(h) ==
  /\ Case(h) /\ h \in GaussHeads
  /\ Emit(h \o ".entropy",
          [net |-> NetRows(h, bat, dim, idx), space |-> Space(h, dim)],
          [shape |-> BShape(bat) \o <<dim>>,
           val |-> [r \in 1..Rows(bat) |-> [k \in 1..dim |-> FJson(EntropyElem(Elem(h, idx, r - 1, k).lv))]]])

(* the noise is standard normal: FreqN x dim draws at the reference point *)
GaussianSampleMoments(h, key) ==
  /\ Case(h) /\ h \in GaussHeads /\ bat = 0 /\ idx = 0
  /\ Emit(h \o ".sample_moments",
          [rows |-> FreqN, space |-> Space(h, dim), key |-> key],
          [refmean |-> RefMeanRows(h, 1, dim)[1], mean |-> Zero, var |-> One])

(* ---- DeterministicTanhPolicy ---- *)
DeterministicCall ==
  /\ Case("DeterministicTanhPolicy")
  /\ LET y(r, k) == YSeq("tanh")[((idx + r + k) % 3) + 1]
     IN Emit("DeterministicTanhPolicy.call",
             [net |-> [r \in 1..Rows(bat) |-> [k \in 1..dim |-> y(r, k)]], space |-> Space("tanh", dim)],
             [shape |-> BShape(bat) \o <<dim>>,
              val |-> [r \in 1..Rows(bat) |-> [k \in 1..dim |-> TanhScale(y(r, k), k)]]])

(* ---- SoftmaxPolicy ---- *)
SoftmaxCall ==          \* __call__: action probabilities
  /\ Case("SoftmaxPolicy")
  /\ LET rs == SoftRows(bat, dim, idx)
     IN Emit("SoftmaxPolicy.call", [logits |-> LogitRows(bat, dim, idx)],
             [shape |-> BShape(bat) \o <<dim>>,
              val |-> [r \in 1..Rows(bat) |-> Probs(rs[r])],
              dyadic |-> [r \in 1..Rows(bat) |-> rs[r].lev \in [1..dim -> {0, 1}]
                                                 /\ TotalWeight(rs[r]) \in {1, 2, 4}]])

SoftmaxLogits ==
  /\ Case("SoftmaxPolicy")
  /\ Emit("SoftmaxPolicy.logits", [logits |-> LogitRows(bat, dim, idx)],
          [shape |-> BShape(bat) \o <<dim>>, val |-> LogitRows(bat, dim, idx)])

SoftmaxSample(key) ==
  /\ Case("SoftmaxPolicy")
  /\ LET rs == SoftRows(bat, dim, idx)
     IN Emit("SoftmaxPolicy.sample", [logits |-> LogitRows(bat, dim, idx), key |-> key],
             [shape |-> BShape(bat),
              support |-> [r \in 1..Rows(bat) |-> ZeroBased(Support(rs[r]))]])

SoftmaxSampleFrequency(key) ==
  /\ Case("SoftmaxPolicy") /\ bat = 0 /\ idx % FreqStep = 0
  /\ LET row == SoftRow(dim, idx)
     IN Emit("SoftmaxPolicy.sample_frequency",
             [logits |-> [k \in 1..dim |-> FJson(Logit(row, k))], rows |-> FreqN, key |-> key],
             [probs |-> Probs(row)])

SoftmaxLogProbability ==
  /\ Case("SoftmaxPolicy")
  /\ LET rs == SoftRows(bat, dim, idx)
     IN Emit("SoftmaxPolicy.log_probability",
             [logits |-> LogitRows(bat, dim, idx),
              action |-> [r \in 1..Rows(bat) |-> ActionOf(dim, idx, r)]],
             [shape |-> BShape(bat),
              val |-> [r \in 1..Rows(bat) |-> FJson(SoftLogProb(rs[r], ActionOf(dim, idx, r) + 1))]])

SoftmaxEntropy ==
  /\ Case("SoftmaxPolicy")
  /\ LET rs == SoftRows(bat, dim, idx)
     IN Emit("SoftmaxPolicy.entropy", [logits |-> LogitRows(bat, dim, idx)],
             [shape |-> BShape(bat), val |-> [r \in 1..Rows(bat) |-> FJson(SoftEntropy(rs[r]))]])

(* ---- greedy policies; bat = number of table rows (states), dim = actions ---- *)
TableGreedy(s) ==       \* value_policy.greedy_policy(q_table, observation)
  /\ Case("Q") /\ s \in 0..(bat - 1)
  /\ LET row == QTable(bat, dim, idx)[s + 1]
     IN Emit("value_policy.greedy_policy", [table |-> QTable(bat, dim, idx), obs |-> s],
             [argmax |-> ZeroBased(ArgMaxSet(row)), first |-> Greedy(row)])

NetGreedy(s) ==         \* q_policy.greedy_policy(q_net, obs), obs = one-hot(s)
  /\ Case("Q") /\ s \in 0..(bat - 1)
  /\ LET row == QTable(bat, dim, idx)[s + 1]
     IN Emit("q_policy.greedy_policy", [table |-> QTable(bat, dim, idx), obs |-> s],
             [argmax |-> ZeroBased(ArgMaxSet(row)), first |-> Greedy(row)])

TableEpsilonGreedy(s, eps, key) ==   \* value_policy.epsilon_greedy_policy
  /\ Case("Q") /\ s \in 0..(bat - 1) /\ idx % EpsStep = 0
  /\ LET row == QTable(bat, dim, idx)[s + 1]
     IN Emit("value_policy.epsilon_greedy_policy",
             [table |-> QTable(bat, dim, idx), alt |-> AltTable(bat, dim, idx), obs |-> s,
              eps |-> eps, key |-> key],
             [argmax |-> ZeroBased(ArgMaxSet(row)),
              law |-> IF eps = 0 THEN "greedy" ELSE "same action for table and alt (same key)",
              range |-> dim])

(* ---- the same three selectors on near-tie rows (float32 ordinals) ---- *)
(* what the ordinals of the lattice mean, for the binding to cross-check its  *)
(* ordinal -> float32 conversion                                              *)
OrdinalLayout ==
  /\ Case("QOrd") /\ idx = 0
  /\ Emit("D4.ordinal_layout",
          [magnitudes |-> [k \in 1..NMagn |-> [e |-> OrdMagn[k].e, m |-> OrdMagn[k].m,
                                               ord |-> OrdOf(OrdMagn[k].e, OrdMagn[k].m)]]
                          \o <<[e |-> -126, m |-> 0, ord |-> MinNormal]>>],
          [law |-> "float32(2^e (1 + m / 2^23)) has ordinal ord"])

TableGreedyNearTie(s) ==       \* value_policy.greedy_policy(q_table, observation)
  /\ Case("QOrd") /\ s \in 0..(bat - 1)
  /\ LET row == OTable(bat, dim, idx)[s + 1]
     IN Emit("value_policy.greedy_policy@near_tie", [otable |-> OTable(bat, dim, idx), obs |-> s],
             [argmax |-> ZeroBased(OrdArgMaxSet(row)), first |-> GreedyOrd(row), gap |-> OrdGap(row)])

NetGreedyNearTie(s) ==         \* q_policy.greedy_policy(q_net, obs), obs = one-hot(s)
  /\ Case("QOrd") /\ s \in 0..(bat - 1)
  /\ LET row == OTable(bat, dim, idx)[s + 1]
     IN Emit("q_policy.greedy_policy@near_tie", [otable |-> OTable(bat, dim, idx), obs |-> s],
             [argmax |-> ZeroBased(OrdArgMaxSet(row)), first |-> GreedyOrd(row), gap |-> OrdGap(row)])

TableEpsilonGreedyNearTie(s, key) ==   \* value_policy.epsilon_greedy_policy, epsilon = 0, any key
  /\ Case("QOrd") /\ s \in 0..(bat - 1)
  /\ LET row == OTable(bat, dim, idx)[s + 1]
     IN Emit("value_policy.epsilon_greedy_policy@near_tie",
             [otable |-> OTable(bat, dim, idx), obs |-> s, eps |-> 0, key |-> key],
             [argmax |-> ZeroBased(OrdArgMaxSet(row)), law |-> "greedy", gap |-> OrdGap(row)])

Keys == 0..(NKeys - 1)
Next == \/ \E h \in AllHeads : ChooseHead(h)
        \/ \E b \in Batches \cup States, n \in Dims \cup Actions : ChooseShape(b, n)
        \/ stage = "shape" /\ \E i \in PointsOf(head, dim) : ChoosePoint(i)
        \/ \E h \in GaussHeads : \/ GaussianCall(h) \/ GaussianLogProbability(h) \/ GaussianEntropy(h)
                                 \/ \E key \in Keys : GaussianSample(h, key) \/ GaussianSampleMoments(h, key)
        \/ DeterministicCall
        \/ SoftmaxCall \/ SoftmaxLogits \/ SoftmaxLogProbability \/ SoftmaxEntropy
        \/ \E key \in Keys : SoftmaxSample(key) \/ SoftmaxSampleFrequency(key)
        \/ \E s \in 0..2 : \/ TableGreedy(s) \/ NetGreedy(s)
                           \/ \E eps \in {0, 1}, key \in 0..(EpsKeys - 1) : TableEpsilonGreedy(s, eps, key)
                           \/ TableGreedyNearTie(s) \/ NetGreedyNearTie(s)
                           \/ \E key \in 0..(OrdKeys - 1) : TableEpsilonGreedyNearTie(s, key)
        \/ OrdinalLayout

Spec == Init /\ [][Next]_vars

----------------------------------------------------------------------------
(* Properties (C13, function level), checked by TLC on every chosen vector.   *)
(* The element / row of batch row r at base index i is the element / row of   *)
(* the un-batched case at base index i + RowStride * r, so the per-element    *)
(* laws are evaluated on the un-batched cases (one table row for Q) only.     *)
InCase(h) == stage = "case" /\ head = h
InRowCase(h) == InCase(h) /\ bat = (IF h \in QHeads THEN 1 ELSE 0)
Elems(h) == {Elem(h, idx, r, k) : r \in 0..(Rows(bat) - 1), k \in 1..dim}
NoiseSet == {I(-2), Q(-1, 2), Zero, One, Q(3, 2)}

TypeOK == /\ stage \in {"start", "head", "shape", "case"}
          /\ head \in AllHeads \cup {""}
          /\ bat \in Batches \cup States \cup {0} /\ dim \in Dims \cup Actions \cup {0}

(* every method is defined for every batch code and action dimension *)
Totality == \A h \in GaussHeads : InCase(h) => \A m \in ContinuousMethods : Defined(h, m, bat, dim)

(* the standard deviation is the square root of the variance, clipped in the log *)
LogStdIsHalfLogVar ==
  \A h \in GaussHeads : InRowCase(h) => \A e \in Elems(h) :
     LET L == LogStd(e.lv)
     IN /\ QLe(I(-20), L) /\ QLe(L, I(2))
        /\ (QLe(I(-40), e.lv) /\ QLe(e.lv, I(4)) => QEq(QMul(I(2), L), e.lv))
        /\ (QLt(e.lv, I(-40)) => QEq(L, I(-20)))
        /\ (QLt(I(4), e.lv) => QEq(L, I(2)))

(* sampling, log-probability and entropy describe ONE distribution:            *)
(*  - standardised-noise invariance: (sample - mean)/std is the noise,         *)
(*    whatever mean and log-variance;                                          *)
(*  - the log-density at a sample depends on the noise only through -n^2/2;    *)
(*  - the entropy is the expectation of -log-density (E n^2 = 1).              *)
GaussOneDistribution ==
  \A h \in GaussHeads : InRowCase(h) => \A r \in 0..(Rows(bat) - 1), k \in 1..dim :
     LET e == Elem(h, idx, r, k)
         m == Mean(h, e.y, k)
     IN /\ \A n \in NoiseSet :
             /\ Standardise(SampleForm(m, e.lv, n), m, e.lv) = FConst(n)
             /\ LogProbElem(SampleForm(m, e.lv, n), m, e.lv) = LogProbOfZ2(e.lv, FConst(QSq(n)))
        /\ EntropyElem(e.lv) = FNeg(LogProbOfZ2(e.lv, FConst(One)))

(* the tanh heads stay inside the action space *)
TanhInBounds ==
  \A h \in {"GaussianTanhPolicy", "DeterministicTanhPolicy"} : InCase(h) =>
     \A k \in 1..dim, y \in {YSeq("tanh")[j] : j \in 1..3} :
        QLe(Low[k], TanhScale(y, k)) /\ QLe(TanhScale(y, k), High[k])

(* softmax probabilities are non-negative and sum to one *)
SoftmaxNormalised ==
  InRowCase("SoftmaxPolicy") => \A r \in 1..Rows(bat) :
     LET row == SoftRows(bat, dim, idx)[r]
     IN (\A k \in 1..dim : QLe(Zero, Prob(row, k))) /\ QSum(Probs(row)) = One

(* the log-probability is the log of the selected entry *)
SoftmaxLogProbIsLogOfEntry ==
  InRowCase("SoftmaxPolicy") => \A r \in 1..Rows(bat), k \in 1..dim :
     LET row == SoftRows(bat, dim, idx)[r]
     IN IF k \in Support(row) THEN SoftLogProb(row, k) = FLnQ(Prob(row, k))
        ELSE SoftLogProb(row, k) = FSub(FConst(I(-Big)), FLn(TotalWeight(row)))

(* entropy closed form: ln W - (SUM w_k j_k / W) ln 2 for weights w_k = 2^(j_k) *)
SoftmaxEntropyClosedForm ==
  InRowCase("SoftmaxPolicy") => \A r \in 1..Rows(bat) :
     LET row == SoftRows(bat, dim, idx)[r]
         W == TotalWeight(row)
         wj == SumTo([k \in 1..dim |-> Weight(row.lev[k]) * (IF row.lev[k] = 0 THEN 0 ELSE row.lev[k] - 1)], dim)
     IN SoftEntropy(row) = FSub(FLn(W), FScale(Q(wj, W), FLn(2)))

(* greedy selection returns a maximiser *)
GreedyIsMaximiser ==
  InCase("Q") => \A t \in 1..bat : Greedy(QTable(bat, dim, idx)[t]) + 1 \in ArgMaxSet(QTable(bat, dim, idx)[t])

(* epsilon = 0 is greedy; epsilon = 1 does not depend on the values *)
EpsZeroIsGreedy ==
  InRowCase("Q") => \A t \in 1..bat, roll \in RollSet, rand \in 0..(dim - 1) :
     EpsGreedy(QTable(bat, dim, idx)[t], Zero, roll, rand) + 1 \in ArgMaxSet(QTable(bat, dim, idx)[t])
EpsOneIgnoresValues ==
  InRowCase("Q") => \A roll \in RollSet, rand \in 0..(dim - 1), j \in 0..(Pow(4, dim) - 1) :
     EpsGreedy(QTable(bat, dim, idx)[1], One, roll, rand) = EpsGreedy(QRow(dim, j), One, roll, rand)

(* the same on near-ties.  On ordinals the maximiser set is decided exactly:   *)
(* its members are equal floats, every other entry is a strictly smaller one,  *)
(* and a row of pairwise different floats has exactly one maximiser            *)
NearTieArgMaxExact ==
  InCase("QOrd") => \A t \in 1..bat :
     LET row == OTable(bat, dim, idx)[t]
         S == OrdArgMaxSet(row)
     IN /\ S # {} /\ \A i \in S, j \in S : row[i] = row[j]
        /\ \A i \in S, j \in (1..dim) \ S : row[j] < row[i]
        /\ ((\A i, j \in 1..dim : i # j => row[i] # row[j]) => Cardinality(S) = 1)
        /\ (OrdGap(row) = 0) = (S = 1..dim)
NearTieGreedyIsMaximiser ==
  InCase("QOrd") => \A t \in 1..bat :
     GreedyOrd(OTable(bat, dim, idx)[t]) + 1 \in OrdArgMaxSet(OTable(bat, dim, idx)[t])
(* epsilon = 0 is greedy however small the differences and whatever the key   *)
NearTieEpsZeroIsGreedy ==
  InRowCase("QOrd") => \A roll \in RollSet, rand \in 0..(dim - 1), jit \in Jitters(dim) :
     EpsGreedyOrd(OTable(bat, dim, idx)[1], Zero, roll, rand, jit) + 1 \in OrdArgMaxSet(OTable(bat, dim, idx)[1])
=============================================================================
