--------------------------- MODULE TabularOps ---------------------------
(* Pure operators of the tabular learners of rl_blox (C14), on exact          *)
(* rationals (Exact.tla).  One operator per code section:                     *)
(*   util/error_functions.td_error            -> TdError                      *)
(*   blox/value_policy.greedy_policy          -> Greedy / GreedySet           *)
(*   algorithm/q_learning._update_policy      -> UpdatePolicy, QL             *)
(*   algorithm/sarsa._update_policy           -> UpdatePolicy (= SARSA)       *)
(*   algorithm/double_q_learning._dql_update  -> DQLWith / DQLSet / DQLSetOrd *)
(*   algorithm/monte_carlo.update             -> MCVisit (loop body), MCEpisode *)
(*   algorithm/dynaq.q_learning_update        -> DynaQ                        *)
(*   algorithm/dynaq.counter_update           -> CounterUpdate                *)
(*   algorithm/dynaq.model_update             -> ModelUpdate                  *)
(*   algorithm/dynaq.planning (one iteration) -> PlanSuccessors / PlanStep    *)
(* States and actions are 0-based as in the code; a table is a sequence of    *)
(* rows, q[s+1][a+1].                                                         *)
EXTENDS Exact, Integers, Sequences, FiniteSets

At(q, s, a)     == q[s + 1][a + 1]
Row(q, s)       == q[s + 1]
Put(q, s, a, v) == [q EXCEPT ![s + 1][a + 1] = v]

(* greedy_policy: jnp.argmax(q_table[observation]) - the first maximiser.     *)
(* The textbook leaves the choice among maximisers open: GreedySet.           *)
Greedy(q, s)    == ArgMaxFirst(Row(q, s)) - 1
GreedySet(q, s) == {i - 1 : i \in ArgMaxSet(Row(q, s))}

NotTerm(term) == IF term THEN Zero ELSE One

(* td_error(reward, gamma, value, next_value) *)
TdError(r, gamma, val, nextVal) == QSub(QAdd(r, QMul(gamma, nextVal)), val)

(* _update_policy of q_learning.py and sarsa.py (same body): the next action  *)
(* is an argument; the bootstrap is masked by (1 - terminated).               *)
UpdatePolicy(q, s, a, r, s2, a2, gamma, term, lr) ==
  LET val     == At(q, s, a)
      nextVal == QMul(NotTerm(term), At(q, s2, a2))
      err     == TdError(r, gamma, val, nextVal)
  IN  Put(q, s, a, QAdd(val, QMul(lr, err)))

(* train_q_learning: next_action = greedy_policy(q_table, next_observation)   *)
QL(q, s, a, r, s2, gamma, term, lr) ==
  UpdatePolicy(q, s, a, r, s2, Greedy(q, s2), gamma, term, lr)
QLSet(q, s, a, r, s2, gamma, term, lr) ==
  {UpdatePolicy(q, s, a, r, s2, b, gamma, term, lr) : b \in GreedySet(q, s2)}

(* _dql_update(qA updated, qB evaluates): a* greedy w.r.t. qA at the          *)
(* SUCCESSOR, value taken from qB.                                            *)
DQLWith(qA, qB, s, a, r, s2, astar, gamma, term, lr) ==
  LET val     == At(qA, s, a)
      nextVal == QMul(NotTerm(term), At(qB, s2, astar))
      err     == TdError(r, gamma, val, nextVal)
  IN  Put(qA, s, a, QAdd(val, QMul(lr, err)))
DQLSet(qA, qB, s, a, r, s2, gamma, term, lr) ==
  {DQLWith(qA, qB, s, a, r, s2, b, gamma, term, lr) : b \in GreedySet(qA, s2)}
(* named deviation: greedy action taken at the CURRENT state *)
DQLGreedyAtCurrent(qA, qB, s, a, r, s2, gamma, term, lr) ==
  DQLWith(qA, qB, s, a, r, s2, Greedy(qA, s), gamma, term, lr)

(* Near-ties (device D4).  A successor row of the updated table may be given  *)
(* as float32 ORDINALS: the positive normal float32 2^e (1 + m / 2^23),       *)
(* 0 <= m < 2^23, has ordinal (e + 127) 2^23 + m, its negative the negated    *)
(* ordinal, 0 the ordinal 0.  The map is strictly monotone, so order and      *)
(* equality of ordinals ARE order and equality of the floats and "ordinal +   *)
(* 1" is the next float32 (one ulp up, also across a binade).  The greedy     *)
(* action is decided on the ordinals: values 1, 2, 3 ulp below the maximum    *)
(* are NOT maximisers.                                                        *)
TwoP23 == 8388608
OrdOf(e, m) == (e + 127) * TwoP23 + m
OrdMaxIdx(orow)    == {i \in 1..Len(orow) : \A j \in 1..Len(orow) : orow[j] <= orow[i]}
OrdGreedySet(orow) == {i - 1 : i \in OrdMaxIdx(orow)}
OrdGreedy(orow)    == (CHOOSE i \in OrdMaxIdx(orow) : \A j \in OrdMaxIdx(orow) : i <= j) - 1
(* _dql_update when the successor row of qA is known by its ordinals `orow`   *)
(* (the rational table qA is read at the visited entry only)                  *)
DQLSetOrd(qA, orow, qB, s, a, r, s2, gamma, term, lr) ==
  {DQLWith(qA, qB, s, a, r, s2, b, gamma, term, lr) : b \in OrdGreedySet(orow)}
(* named deviation: "greedy up to a tolerance" - every action whose value is  *)
(* within tol float32 steps of the maximum counts as a maximiser              *)
OrdCloseSet(orow, tol) ==
  {i - 1 : i \in {i \in 1..Len(orow) : \E m \in OrdMaxIdx(orow) : orow[m] - orow[i] <= tol}}
DQLSetOrdTolerant(qA, orow, qB, s, a, r, s2, gamma, term, lr, tol) ==
  {DQLWith(qA, qB, s, a, r, s2, b, gamma, term, lr) : b \in OrdCloseSet(orow, tol)}

(* monte_carlo.update: backward over the episode, every visit; ep is a        *)
(* sequence of <<s, a, r>>; n the table of visit counts (integers).           *)
(* MCVisit is the body of the fori_loop: st = <<q, n, G>> the carried state,  *)
(* step = <<s, a, r>>; MCEpisode folds it from the last step to the first     *)
(* (FoldRight is evaluated iteratively: episodes of hundreds of steps).       *)
LOCAL INSTANCE SequencesExt
MCVisit(st, step, gamma) ==
  LET q  == st[1]
      n  == st[2]
      s  == step[1]
      a  == step[2]
      G2 == QAdd(step[3], QMul(gamma, st[3]))
      n2 == [n EXCEPT ![s + 1][a + 1] = @ + 1]
      pe == QSub(G2, At(q, s, a))
      q2 == Put(q, s, a, QAdd(At(q, s, a), QMul(QDiv(One, I(n2[s + 1][a + 1])), pe)))
  IN  <<q2, n2, G2>>
MCEpisode(q, n, ep, gamma) ==
  LET res == FoldRight(LAMBDA step, st : MCVisit(st, step, gamma), ep, <<q, n, Zero>>)
  IN  <<res[1], res[2]>>

(* discounted return from step k of an episode (for the ghost of returns) *)
RECURSIVE ReturnFrom(_, _, _)
ReturnFrom(ep, k, gamma) ==
  IF k > Len(ep) THEN Zero ELSE QAdd(ep[k][3], QMul(gamma, ReturnFrom(ep, k + 1, gamma)))
(* all returns-to-go of an episode at once: Returns(ep, gamma)[k] = ReturnFrom(ep, k, gamma);  *)
(* linear in the episode length (long episodes)                               *)
Returns(ep, gamma) ==
  FoldRight(LAMBDA step, acc : <<QAdd(step[3], QMul(gamma, IF acc = <<>> THEN Zero ELSE acc[1]))>> \o acc, ep, <<>>)

(* dynaq.q_learning_update: greedy successor value, NO termination input *)
DynaQ(q, s, a, r, s2, gamma, lr) ==
  LET a2     == Greedy(q, s2)
      target == QSub(QAdd(r, QMul(gamma, At(q, s2, a2))), At(q, s, a))
  IN  Put(q, s, a, QAdd(At(q, s, a), QMul(lr, target)))

(* dynaq.Counter: count[s][a][x] integers, rh[s][a][x] list of rewards *)
CounterUpdate(cnt, s, a, r, s2) ==
  [count |-> [cnt.count EXCEPT ![s + 1][a + 1][s2 + 1] = @ + 1],
   rh    |-> [cnt.rh EXCEPT ![s + 1][a + 1][s2 + 1] = Append(@, r)]]

RECURSIVE SumTo(_, _)
SumTo(row, k) == IF k = 0 THEN 0 ELSE SumTo(row, k - 1) + row[k]
RowTotal(cnt, s, a) == SumTo(cnt.count[s + 1][a + 1], Len(cnt.count[s + 1][a + 1]))

(* dynaq.model_update (as the property demands it): the transition model of   *)
(* (s,a) is the vector of empirical successor frequencies - for ALL           *)
(* successors -, the reward of (s,a,s2) the mean of the observed rewards.     *)
ModelUpdate(model, cnt, s, a, s2) ==
  [T |-> [model.T EXCEPT ![s + 1][a + 1] =
            [x \in 1..Len(@) |-> Q(cnt.count[s + 1][a + 1][x], RowTotal(cnt, s, a))]],
   R |-> [model.R EXCEPT ![s + 1][a + 1][s2 + 1] = QMean(cnt.rh[s + 1][a + 1][s2 + 1])]]
(* named deviation: only the (s,a,s2) entry is rewritten, siblings go stale *)
ModelUpdateEntryOnly(model, cnt, s, a, s2) ==
  [T |-> [model.T EXCEPT ![s + 1][a + 1][s2 + 1] =
            Q(cnt.count[s + 1][a + 1][s2 + 1], RowTotal(cnt, s, a))],
   R |-> [model.R EXCEPT ![s + 1][a + 1][s2 + 1] = QMean(cnt.rh[s + 1][a + 1][s2 + 1])]]

(* dynaq.planning, one iteration for a remembered pair (s,a): the successor   *)
(* is a most likely one under the model row, the reward the model's reward.   *)
PlanSuccessors(trow)  == {i - 1 : i \in ArgMaxSet(trow)}
PlanStep(q, trow, rrow, s, a, x, gamma, lr) == DynaQ(q, s, a, rrow[x + 1], x, gamma, lr)
RECURSIVE PlanFold(_, _, _, _, _, _, _, _)
(* all admissible tables after n iterations on the single remembered pair *)
PlanFold(qs, trow, rrow, s, a, n, gamma, lr) ==
  IF n = 0 THEN qs
  ELSE PlanFold({PlanStep(q, trow, rrow, s, a, x, gamma, lr) : q \in qs, x \in PlanSuccessors(trow)},
                trow, rrow, s, a, n - 1, gamma, lr)
=============================================================================
