------------------------- MODULE Determinism -------------------------
(* C09: training is a deterministic function of seed, initial state and        *)
(* environment.  Determinism is a 2-safety property; it is expressed by        *)
(* self-composition: two recorded executions A and B of the same routine (same *)
(* seed, identically initialised approximators, identically seeded environment *)
(* and action space; run in separate processes with different PYTHONHASHSEED,  *)
(* different global numpy / random states, shifted wall clock) are advanced in *)
(* lock-step; a step requires the two events to be EQUAL records (environment  *)
(* interaction, stored experience, content digest of every watched component,  *)
(* logged statistics, returned counters, final parameter digests).  A pair is  *)
(* accepted iff both traces are consumed entirely.  Pairs with a different     *)
(* seed must NOT be accepted (non-vacuity).                                    *)
EXTENDS Integers, Sequences, TLC, Json, IOUtils

Pairs == JsonDeserialize(IOEnv.TRACE_FILE)
VARIABLES tid, l
vars == <<tid, l>>
P == Pairs[tid]

Init == tid \in 1..Len(Pairs) /\ l = 1
CanStep == l <= Len(P.a) /\ l <= Len(P.b) /\ P.a[l] = P.b[l]
Next == CanStep /\ l' = l + 1 /\ UNCHANGED tid

Accepted == l = Len(P.a) + 1 /\ l = Len(P.b) + 1
(* no draw from unseeded global generators: their state is the same before and after the run *)
GlobalRngUntouched == P.ga /\ P.gb

Verdict == ~CanStep =>
  PrintT(<<"VERDICT", ToJson([id |-> P.id, pos |-> l, lena |-> Len(P.a), lenb |-> Len(P.b),
                              accepted |-> Accepted, rng |-> GlobalRngUntouched])>>)
=============================================================================
