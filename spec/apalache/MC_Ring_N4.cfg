CONSTANT CAP = 4
INIT Init
NEXT Next
