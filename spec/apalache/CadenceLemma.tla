---------------------------- MODULE CadenceLemma ----------------------------
(* TLAPS: the cadence lemma of spec/Logger.tla (C20) for ALL naturals - an independent second *)
(* proof of what MC_Cadence.tla establishes with Apalache/Z3.                                 *)
EXTENDS Integers, TLAPS

Crossing(last, step, I) == (step \div I) > (last \div I)
ImplWrapOrGap(last, step, I) == ((last % I) > (step % I)) \/ ((step - last) >= I)

THEOREM Cadence ==
  ASSUME NEW last \in Nat, NEW step \in Nat, NEW I \in Nat, I >= 1, last <= step
  PROVE  ImplWrapOrGap(last, step, I) <=> Crossing(last, step, I)
<1> DEFINE q1 == last \div I  r1 == last % I  q2 == step \div I  r2 == step % I
<1>0. /\ Crossing(last, step, I) <=> q2 > q1
      /\ ImplWrapOrGap(last, step, I) <=> (r1 > r2 \/ step - last >= I)
  BY DEF Crossing, ImplWrapOrGap
<1>1. /\ q1 \in Int /\ r1 \in Int /\ 0 <= r1 /\ r1 < I /\ last = I * q1 + r1
      /\ q2 \in Int /\ r2 \in Int /\ 0 <= r2 /\ r2 < I /\ step = I * q2 + r2
  BY Z3
<1>9. /\ q1 \in Int /\ r1 \in Int /\ 0 <= r1 /\ r1 < I
      /\ q2 \in Int /\ r2 \in Int /\ 0 <= r2 /\ r2 < I
  BY <1>1
<1> HIDE DEF q1, r1, q2, r2
<1>2. CASE q2 = q1
  <2>1. step - last = r2 - r1 BY <1>1, <1>2
  <2>2. r2 - r1 >= 0 BY <2>1, <1>1
  <2>3. ~(r1 > r2) BY <2>2, <1>9
  <2>4. ~(step - last >= I) BY <2>1, <1>9
  <2>5. ~(q2 > q1) BY <1>2, <1>9
  <2> QED BY <1>0, <2>3, <2>4, <2>5
<1>3. CASE q2 > q1
  <2>1. q2 - q1 \in Nat /\ q2 - q1 >= 1 BY <1>1, <1>3
  <2>2. I * (q2 - q1) >= I BY <2>1
  <2>3. I * (q2 - q1) = I * q2 - I * q1 BY <1>1
  <2> QED BY <1>0, <1>1, <1>3, <2>2, <2>3
<1>4. CASE q2 < q1
  <2>1. q1 - q2 \in Nat /\ q1 - q2 >= 1 BY <1>1, <1>4
  <2>2. I * (q1 - q2) >= I BY <2>1
  <2>3. I * (q1 - q2) = I * q1 - I * q2 BY <1>1
  <2>4. last - step >= I - r2 + r1 BY <1>1, <2>2, <2>3
  <2> QED BY <1>0, <1>1, <1>4, <2>4
<1> QED BY <1>1, <1>2, <1>3, <1>4
=============================================================================
