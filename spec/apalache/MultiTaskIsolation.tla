------------------------- MODULE MultiTaskIsolation -------------------------
(* TLAPS proof (not Apalache: the ghost hist[t] is a sequence of unbounded length, which *)
(* Apalache's fixed-capacity sequences cannot represent) of C02's task isolation of       *)
(* spec/MultiTask.tla, through the derived copy MultiTask_apa.tla, for ALL K, N, MaxAdds, *)
(* MaxBatch and histories of any length:                                                  *)
(*   Spec => []DomInv   and   DomInv /\ [Next]_vars => additions go only to the selected task *)
EXTENDS MultiTask_apa, TLAPS

DomInv == /\ DOMAIN bufs = Tasks /\ DOMAIN hist = Tasks /\ sel \in Tasks

IsolationStep == \A t \in Tasks : t # sel => bufs'[t] = bufs[t] /\ hist'[t] = hist[t]

ASSUME KPos == K \in Nat /\ K >= 1      \* at least one task (sel = 0 initially)

LEMMA InitDom == Init => DomInv
  BY KPos DEF Init, DomInv, Tasks

LEMMA StepDom == DomInv /\ [Next]_vars => DomInv'
  BY DEF DomInv, Next, vars, Select, SelectInvalid, Add, Route, Sample, LenQuery, Tasks

THEOREM DomInvariant == Spec => []DomInv
  BY InitDom, StepDom, PTL DEF Spec

THEOREM Isolation == DomInv /\ [Next]_vars => IsolationStep
  BY DEF DomInv, IsolationStep, Next, vars, Select, SelectInvalid, Add, Route, Sample, LenQuery, Tasks

(* the temporal form of MultiTask.tla *)
THEOREM Spec => TaskIsolation
  BY DomInvariant, Isolation, PTL DEF Spec, TaskIsolation, IsolationStep

(* non-vacuity: the same claim for the SELECTED task is not provable (checked by the runner: *)
(* tlapm must fail on MultiTaskIsolationBad.tla)                                            *)
=============================================================================
