---------------------------- MODULE MC_RingPrio ----------------------------
(* Apalache wrapper for RingPrioAbs.tla (the restatement of spec/RingPrio.tla, C08):    *)
(* the tracked maximum priority dominates every stored priority after ANY history of    *)
(* Select / Add / Sample / UpdatePriority / ResetMax (no bound on cnt).                  *)
(* K = 2 tasks, capacity N = 3, priorities written by update_priority from {1,2,3},     *)
(* batches of 1..2 rows.                                                                *)
EXTENDS Integers, Sequences, FiniteSets, Apalache

VARIABLES
  \* @type: Int -> {store: Int -> Int, prio: Int -> Int, ins: Int, len: Int, maxPrio: Int, sampled: Seq(Int)};
  bufs,
  \* @type: Int;
  sel,
  \* @type: Set(Int);
  active,
  \* @type: Int;
  sampledTask,
  \* @type: Int;
  cnt,
  \* @type: Str;
  last

CK == 2
CN == 3
CPrioVals == {1, 2, 3}
CMaxBatch == 2

A == INSTANCE RingPrioAbs WITH K <- CK, N <- CN, PrioVals <- CPrioVals, MaxBatch <- CMaxBatch

Init == A!Init
Next == A!Next
IndInv == A!IndInv

(* IndInv as an initial-state predicate: Gen(3) is an arbitrary value of the type of bufs with     *)
(* collections of at most 3 elements (2 tasks, 3 slots, batches of <= 2 rows all fit), then IndInv. *)
IndInit ==
  /\ bufs = Gen(3)
  /\ sel \in A!Tasks /\ active \in SUBSET A!Tasks /\ sampledTask \in A!Tasks \cup {-1}
  /\ cnt \in Nat /\ last \in A!LastNames
  /\ A!IndInv

MaxDominates == A!MaxDominates
Positive == A!Positive
ResetExact == A!ResetExact
NewGetsMaxStep == A!NewGetsMaxStep
UpdateFrameStep == A!UpdateFrameStep

(* non-vacuity *)
NextBadAdd == A!NextBadAdd          \* new transition gets priority 1: NewGetsMaxStep refuted
NextBadUpdate == A!NextBadUpdate    \* update_priority does not raise the maximum: IndInv / MaxDominates not preserved
(* MaxDominates alone is not inductive (a recorded batch index beyond len, unconstrained ins ...) *)
TypeOnly ==
  /\ DOMAIN bufs = A!Tasks
  /\ \A t \in A!Tasks :
       LET b == bufs[t] IN
         /\ DOMAIN b.store = 1..CN /\ DOMAIN b.prio = 1..CN /\ b.ins \in 0..(CN - 1) /\ b.len \in 0..CN
         /\ Len(b.sampled) <= CMaxBatch
         /\ \A j \in DOMAIN b.sampled : 0 <= b.sampled[j] /\ b.sampled[j] < CN
MaxDominatesOnlyInit ==
  /\ bufs = Gen(3)
  /\ sel \in A!Tasks /\ active \in SUBSET A!Tasks /\ sampledTask \in A!Tasks \cup {-1}
  /\ cnt \in Nat /\ last \in A!LastNames
  /\ TypeOnly
  /\ \A t \in A!Tasks : \A i \in 1..CN : i <= bufs[t].len => bufs[t].prio[i] <= bufs[t].maxPrio   \* = A!MaxDominates
=============================================================================
