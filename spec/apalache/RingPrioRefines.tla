-------------------------- MODULE RingPrioRefines --------------------------
(* TLC binding of the Apalache model RingPrioAbs.tla to the original spec/RingPrio.tla:  *)
(* on the bounded state graph of RingPrio (its own Init / Next, constants from the .cfg)  *)
(*   AbsSpec     every initial state of RingPrio is an initial state of RingPrioAbs and   *)
(*               every step of RingPrio is a step of RingPrioAbs (or stutters);           *)
(*   PropsAgree  the properties restated in RingPrioAbs (no recursive SeqMax) have the     *)
(*               truth value of the original ones in every reachable state.               *)
(* So the properties Apalache proves for every behaviour of RingPrioAbs hold for every    *)
(* behaviour of RingPrio (as far as TLC can see: bounded), and mean the same.             *)
(* Run by tools/apalache_check.py (obligation RingPrio tlc-refines) with TLC.             *)
EXTENDS RingPrio

A == INSTANCE RingPrioAbs

AbsSpec == A!Init /\ [][A!Next]_vars
PropsAgree == /\ MaxDominates <=> A!MaxDominates
              /\ Positive <=> A!Positive
              /\ ResetExact <=> A!ResetExact
AbsIndInv == A!IndInv
(* canary of the binding: the deviation AddBad of RingPrio is NOT a step of RingPrioAbs *)
SpecBad == Init /\ [][NextBad]_vars
=============================================================================
