CONSTANT CAP = 3
INIT Init
NEXT Next
