------------------------------ MODULE MC_Ring ------------------------------
(* Apalache wrapper for spec/Ring.tla (through the derived copy Ring_apa.tla):      *)
(* C02 for a fixed capacity N and ANY number of additions.                          *)
(*                                                                                  *)
(* The bound of the TLC model is lifted by leaving the constant MaxAdds             *)
(* UNCONSTRAINED (ConstInit: any natural number): the original action               *)
(* `Add == cnt < MaxAdds /\ ...` is used verbatim and every obligation is           *)
(* discharged for all values of MaxAdds at once, i.e. for histories of any length.  *)
(* cnt (the id of the newest transition) is an unbounded Int.                       *)
(*                                                                                  *)
(* The capacity CAP is fixed by the configuration files MC_Ring_N1.cfg .. N4.cfg     *)
(* (Apalache inlines `CONSTANT CAP = 3` as a definition); MAXADDS is left to        *)
(* --cinit=ConstInit.                                                               *)
EXTENDS Integers

CONSTANTS
  \* @type: Int;
  CAP,
  \* @type: Int;
  MAXADDS

VARIABLES
  \* @type: Int -> Int;
  store,
  \* @type: Int;
  ins,
  \* @type: Int;
  len,
  \* @type: Int;
  cnt

R == INSTANCE Ring_apa WITH N <- CAP, MaxAdds <- MAXADDS, MaxBatch <- 2, EMIT <- FALSE

ConstInit == MAXADDS \in Nat

Init == R!Init

(* Next of Ring.tla.  Its Sample ranges over UNION {[1..b -> 0..(len-1)] : b \in 1..MaxBatch}, a   *)
(* union of function sets that Apalache cannot expand; batches of size 1 and 2 are spelled out.     *)
(* (Sample, LenQuery and Reweigh leave the state unchanged - SampleSound below is the state-level   *)
(* statement about every row a Sample can return.)                                                  *)
Slots == {i \in 0..(CAP - 1) : i < len}
Next == \/ R!Add
        \/ \E i \in Slots : R!Sample([k \in 1..1 |-> i])
        \/ \E i, j \in Slots : R!Sample([k \in 1..2 |-> IF k = 1 THEN i ELSE j])
        \/ R!LenQuery
        \/ \E w \in R!Weights : R!Reweigh(w)

----------------------------------------------------------------------------
(* The inductive invariant: the slot that was written a additions ago (its "age",   *)
(* the distance behind the write position, modulo N) holds id cnt - a if that many  *)
(* additions happened, else it was never written.                                   *)
Age(i) == (ins - 1 - i) % CAP          \* i = 0-based slot

IndInv ==
  /\ store \in [1..CAP -> Nat]
  /\ ins \in 0..(CAP - 1) /\ len \in 0..CAP /\ cnt \in Nat /\ cnt <= MAXADDS
  /\ ins = cnt % CAP
  /\ len = IF cnt < CAP THEN cnt ELSE CAP
  /\ \A i \in 0..(CAP - 1) : store[i + 1] = IF cnt - Age(i) > 0 THEN cnt - Age(i) ELSE 0

(* the properties of Ring.tla, verbatim *)
(* Fifo of Ring.tla is `len = Min(cnt, N) /\ {store[i] : i \in 1..len} = (cnt - len + 1)..cnt`; Apalache  *)
(* rejects the two integer ranges with non-constant bounds, so the set equality is stated as its two   *)
(* inclusions, the range written as {cnt - d : d \in 0..(len - 1)} (len <= CAP by IndInv).             *)
(* RingFifoLemma.tla proves with TLAPS that FifoIncl is equivalent to R!Fifo for len \in 0..CAP.       *)
FifoIncl ==
  /\ len = R!Min(cnt, CAP)
  /\ \A i \in 1..CAP : i <= len => (cnt - len + 1 <= store[i] /\ store[i] <= cnt)
  /\ \A d \in 0..(CAP - 1) : d < len => \E i \in 1..CAP : i <= len /\ store[i] = cnt - d
Positional == R!Positional
NeverUnwritten == R!NeverUnwritten
SampleSound == R!SampleSound
TypeOK == R!TypeOK

----------------------------------------------------------------------------
(* non-vacuity *)
(* the off-by-one wrap of Ring.tla (NextBad) does not preserve the invariant ... *)
NextBad == R!NextBad
(* ... a candidate invariant without the slot contents is not inductive relative to Fifo ... *)
WeakInv ==
  /\ store \in [1..CAP -> Nat]
  /\ ins \in 0..(CAP - 1) /\ len \in 0..CAP /\ cnt \in Nat /\ cnt <= MAXADDS
  /\ ins = cnt % CAP
  /\ len = IF cnt < CAP THEN cnt ELSE CAP
(* ... and a wrong property (the oldest stored id is cnt - len, off by one) is refuted *)
FifoOffByOne == len > 0 => \E i \in 1..CAP : i <= len /\ store[i] = cnt - len
=============================================================================
