---------------------------- MODULE RingPrioAbs ----------------------------
(* Apalache-friendly restatement of the priority book-keeping of spec/RingPrio.tla      *)
(* (C08): same variables, same state representation, same action names, NO bound on     *)
(* the number of additions.  RingPrio.tla itself cannot be given to Apalache (recursive  *)
(* operators Cum / SeqMax / SeqMin, CHOOSE over tick sets, rationals as untyped pairs).  *)
(* Differences, all over-approximations or re-phrasings:                                *)
(*   Add            verbatim, without the guard cnt < MaxAdds;                          *)
(*   Sample(t, idx) the batch is ANY index vector below len (RingPrio: the indices      *)
(*                  Pick(b, tick) selected by the ticks - each is < len);               *)
(*   UpdatePriority verbatim; the recursive SeqMax(vals, Len(vals)) is MaxOf(vals);     *)
(*   ResetMax       verbatim; SeqMax over the filled prefix is MaxOf of that prefix.    *)
(* The binding to the original module is checked by TLC (RingPrioRefines.tla): on the   *)
(* bounded state graph of RingPrio every initial state / step of RingPrio is an initial *)
(* state / step of this module and the restated properties agree with the original      *)
(* ones.  Apalache (MC_RingPrio.tla) then proves the properties of THIS module for      *)
(* histories of any length.  Pure TLA+ (no Apalache operators) so that TLC can read it. *)
EXTENDS Integers, Sequences, FiniteSets

CONSTANTS
  \* @type: Int;
  K,
  \* @type: Int;
  N,
  \* @type: Set(Int);
  PrioVals,
  \* @type: Int;
  MaxBatch       \* <= 3 (batches are spelled out)

VARIABLES
  \* @type: Int -> $buf;
  bufs,
  \* @type: Int;
  sel,
  \* @type: Set(Int);
  active,
  \* @type: Int;
  sampledTask,
  \* @type: Int;
  cnt,
  \* @type: Str;
  last

\* @typeAlias: buf = {store: Int -> Int, prio: Int -> Int, ins: Int, len: Int, maxPrio: Int, sampled: Seq(Int)};
RingPrioAbs_aliases == TRUE

vars == <<bufs, sel, active, sampledTask, cnt, last>>
Tasks == 0..(K - 1)

Min(a, b) == IF a < b THEN a ELSE b
Max(a, b) == IF a < b THEN b ELSE a

\* @type: $buf;
Empty == [store |-> [i \in 1..N |-> 0], prio |-> [i \in 1..N |-> 0], ins |-> 0, len |-> 0,
          maxPrio |-> 1, sampled |-> <<>>]
Init == /\ bufs = [t \in Tasks |-> Empty] /\ sel = 0 /\ active = {} /\ sampledTask = -1 /\ cnt = 0 /\ last = "init"

Select(k) == /\ K > 1 /\ k \in Tasks /\ sel' = k /\ last' = "select"
             /\ UNCHANGED <<bufs, active, sampledTask, cnt>>

(* add_sample: the new transition gets the buffer's current maximum priority *)
Add == /\ LET b == bufs[sel] IN
            bufs' = [bufs EXCEPT ![sel] =
                      [b EXCEPT !.store = [b.store EXCEPT ![b.ins + 1] = cnt + 1],
                                !.prio  = [b.prio EXCEPT ![b.ins + 1] = b.maxPrio],
                                !.ins = (b.ins + 1) % N, !.len = Min(b.len + 1, N)]]
       /\ active' = active \cup {sel} /\ cnt' = cnt + 1 /\ last' = "add"
       /\ UNCHANGED <<sel, sampledTask>>

(* sequences of length 1 .. MaxBatch over a set *)
\* @type: (Int) => Seq(Int);
S1(a) == <<a>>
\* @type: (Int, Int) => Seq(Int);
S2(a, b) == <<a, b>>
\* @type: (Int, Int, Int) => Seq(Int);
S3(a, b, c) == <<a, b, c>>
Batches(S) == {S1(a) : a \in S}
              \cup (IF MaxBatch >= 2 THEN {S2(a, b) : a \in S, b \in S} ELSE {})
              \cup (IF MaxBatch >= 3 THEN {S3(a, b, c) : a \in S, b \in S, c \in S} ELSE {})

(* sample_batch: records the indices of the batch; every index is below len *)
Sample(t, idx) ==
  /\ t \in active /\ bufs[t].len > 0
  /\ \A j \in DOMAIN idx : idx[j] < bufs[t].len
  /\ bufs' = [bufs EXCEPT ![t].sampled = idx]
  /\ sampledTask' = t /\ last' = "sample"
  /\ UNCHANGED <<sel, active, cnt>>

(* maximum of a non-empty sequence / set of naturals *)
MaxOfSet(S) == CHOOSE x \in S : \A y \in S : y <= x
\* @type: (Seq(Int)) => Int;
MaxOf(s) == MaxOfSet({s[j] : j \in DOMAIN s})

(* update_priority: exactly the rows of the most recent batch (of the task it came from) *)
UpdatePriority(vals) ==
  /\ sampledTask \in Tasks
  /\ LET b == bufs[sampledTask] IN
       /\ Len(b.sampled) > 0 /\ Len(vals) = Len(b.sampled)
       /\ bufs' = [bufs EXCEPT ![sampledTask] =
            [b EXCEPT !.prio = [i \in 1..N |->
                 IF \E j \in DOMAIN b.sampled : b.sampled[j] + 1 = i
                 THEN vals[CHOOSE j \in DOMAIN b.sampled :
                            b.sampled[j] + 1 = i /\ \A j2 \in DOMAIN b.sampled : b.sampled[j2] + 1 = i => j2 <= j]
                 ELSE b.prio[i]],
               !.maxPrio = Max(b.maxPrio, MaxOf(vals))]]
  /\ UNCHANGED <<sel, active, sampledTask, cnt>> /\ last' = "update"

(* reset_max_priority: every task's tracked maximum becomes its true maximum *)
\* @type: ($buf) => Set(Int);
Filled(b) == {i \in 1..N : i <= b.len}
\* @type: ($buf) => Int;
TrueMax(b) == MaxOfSet({b.prio[i] : i \in Filled(b)})
ResetMax ==
  /\ bufs' = [t \in Tasks |->
       [bufs[t] EXCEPT !.maxPrio = IF bufs[t].len > 0 THEN TrueMax(bufs[t]) ELSE bufs[t].maxPrio]]
  /\ UNCHANGED <<sel, active, sampledTask, cnt>> /\ last' = "reset"

Slots == 0..(N - 1)
Next == \/ \E k \in Tasks : Select(k)
        \/ Add
        \/ \E t \in active : \E idx \in Batches(Slots) : Sample(t, idx)
        \/ \E v \in Batches(PrioVals) : UpdatePriority(v)
        \/ ResetMax
Spec == Init /\ [][Next]_vars

----------------------------------------------------------------------------
(* C08 (the clauses about the tracked maximum), as in RingPrio.tla *)
MaxDominates == \A t \in Tasks : \A i \in 1..bufs[t].len : bufs[t].prio[i] <= bufs[t].maxPrio
Positive == \A t \in Tasks : \A i \in 1..bufs[t].len : bufs[t].prio[i] >= 1
(* after a reset the tracked maximum is the true maximum (RingPrio: SeqMax of the filled prefix) *)
ResetExact == last = "reset" => \A t \in Tasks : bufs[t].len > 0 => bufs[t].maxPrio = TrueMax(bufs[t])
(* a new transition gets the current maximum (action property; RingPrio: [][...]_vars) *)
NewGetsMaxStep == \A t \in Tasks : (cnt' = cnt + 1 /\ bufs'[t] # bufs[t])
                    => bufs'[t].prio[bufs[t].ins + 1] = bufs[t].maxPrio
(* an update touches only the last batch's rows of the task the batch came from *)
UpdateFrameStep == \A t \in Tasks : \A i \in 1..N :
                     (bufs'[t].prio[i] # bufs[t].prio[i] /\ last' = "update")
                       => (t = sampledTask /\ \E j \in DOMAIN bufs[t].sampled : bufs[t].sampled[j] + 1 = i)

----------------------------------------------------------------------------
(* The inductive invariant *)
LastNames == {"init", "select", "add", "sample", "update", "reset"}
\* @type: ($buf) => Bool;
BufOK(b) ==
  /\ DOMAIN b.store = 1..N /\ DOMAIN b.prio = 1..N
  /\ b.ins \in 0..(N - 1) /\ b.len \in 0..N
  /\ b.len < N => b.ins = b.len                      \* while filling, the write position is the length
  /\ b.maxPrio >= 1
  /\ \A i \in 1..N : /\ i <= b.len => (1 <= b.prio[i] /\ b.prio[i] <= b.maxPrio)
                     /\ i > b.len => b.prio[i] = 0   \* never-written slots carry no priority
  /\ Len(b.sampled) <= MaxBatch
  /\ \A j \in DOMAIN b.sampled : 0 <= b.sampled[j] /\ b.sampled[j] < b.len   \* a recorded batch stays inside the filled region
IndInv ==
  /\ DOMAIN bufs = Tasks
  /\ sel \in Tasks /\ active \subseteq Tasks /\ sampledTask \in Tasks \cup {-1}
  /\ cnt \in Nat /\ last \in LastNames
  /\ \A t \in Tasks : BufOK(bufs[t])
  /\ \A t \in Tasks : t \in active <=> bufs[t].len > 0
  /\ ResetExact

----------------------------------------------------------------------------
(* deviations (non-vacuity) *)
(* a new transition gets priority 1 instead of the current maximum - as AddBad of RingPrio.tla *)
AddBad == /\ LET b == bufs[sel] IN
               bufs' = [bufs EXCEPT ![sel] =
                         [b EXCEPT !.store = [b.store EXCEPT ![b.ins + 1] = cnt + 1],
                                   !.prio  = [b.prio EXCEPT ![b.ins + 1] = 1],
                                   !.ins = (b.ins + 1) % N, !.len = Min(b.len + 1, N)]]
          /\ active' = active \cup {sel} /\ cnt' = cnt + 1 /\ last' = "add"
          /\ UNCHANGED <<sel, sampledTask>>
(* update_priority that forgets to raise the tracked maximum *)
UpdateNoRaise(vals) ==
  /\ sampledTask \in Tasks
  /\ LET b == bufs[sampledTask] IN
       /\ Len(b.sampled) > 0 /\ Len(vals) = Len(b.sampled)
       /\ bufs' = [bufs EXCEPT ![sampledTask] =
            [b EXCEPT !.prio = [i \in 1..N |->
                 IF \E j \in DOMAIN b.sampled : b.sampled[j] + 1 = i
                 THEN vals[CHOOSE j \in DOMAIN b.sampled :
                            b.sampled[j] + 1 = i /\ \A j2 \in DOMAIN b.sampled : b.sampled[j2] + 1 = i => j2 <= j]
                 ELSE b.prio[i]]]]
  /\ UNCHANGED <<sel, active, sampledTask, cnt>> /\ last' = "update"
NextBadAdd == AddBad
NextBadUpdate == \E v \in Batches(PrioVals) : UpdateNoRaise(v)
(* the invariant without "a recorded batch stays inside the filled region" is too weak to be inductive? *)
(* (it is not needed for MaxDominates alone but for `i > len => prio[i] = 0`, hence for ResetExact)     *)
=============================================================================
