---------------------------- MODULE Exact_apa ----------------------------
(* Typed stand-in for spec/Exact.tla (exact rationals <<num, den>>) for Apalache: only the     *)
(* operators RingPrio.tla uses (in Weights1 / WeightsOK, which are NOT part of the obligations  *)
(* discharged with Apalache).  Q does not normalise here.                                       *)
EXTENDS Integers
\* @type: (Int, Int) => <<Int, Int>>;
Q(n, d) == <<n, d>>
\* @type: <<Int, Int>>;
Zero == <<0, 1>>
\* @type: <<Int, Int>>;
One == <<1, 1>>
\* @type: (<<Int, Int>>, <<Int, Int>>) => Bool;
QLt(a, b) == a[1] * b[2] < b[1] * a[2]
\* @type: (<<Int, Int>>, <<Int, Int>>) => Bool;
QLe(a, b) == a[1] * b[2] <= b[1] * a[2]
\* @type: (<<Int, Int>>, <<Int, Int>>) => Bool;
QEq(a, b) == a[1] * b[2] = b[1] * a[2]
=============================================================================
