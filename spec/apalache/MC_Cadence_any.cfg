CONSTANT IFIX = 0
INIT Init
NEXT Next
