CONSTANTS K = 2  N = 2  MaxAdds = 3  PrioVals = {1, 3}  MaxBatch = 2  STRAT = FALSE  EMIT = FALSE
SPECIFICATION SpecBad
PROPERTY AbsSpec
