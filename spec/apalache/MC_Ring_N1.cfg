CONSTANT CAP = 1
INIT Init
NEXT Next
