------------------------- MODULE MC_Checkpointing -------------------------
(* Apalache wrapper for spec/Checkpointing.tla (through the derived copy                *)
(* Checkpointing_apa.tla): TD7 deferred training (C15) for ANY number of episodes.      *)
(*                                                                                      *)
(* The TLC bound MaxHist on the number of episodes is left UNCONSTRAINED (ConstInit:    *)
(* any natural), the original actions Configure / EpisodeEnd / Release are used          *)
(* verbatim.  collected, released, epoch, n, ts are unbounded integers.  The other       *)
(* constants are the sets of the quick tier of c15.py.                                   *)
EXTENDS Integers, Sequences, FiniteSets, Apalache

CONSTANT
  \* @type: Int;
  MAXHIST

VARIABLES
  \* @type: {maxEps: Int, thresh: Int, rw2: Int, epoch0: Int};
  cfg,
  \* @type: Str;
  pc,
  \* @type: Int;
  eps,
  \* @type: Int;
  ts,
  \* @type: Int;
  maxEps,
  \* @type: Int;
  minRet,
  \* @type: Int;
  bestMin,
  \* @type: Int;
  epoch,
  \* @type: {upd: Bool, train: Int};
  out,
  \* @type: Int;
  collected,
  \* @type: Int;
  released,
  \* @type: Seq(Int);
  window,
  \* @type: Int;
  switches,
  \* @type: Int;
  n

CLens == {1, 2, 3}
CRets == {-2, 0, 1, 3}
CMaxEpsSet == {1, 2, 3}
CThreshSet == {0, 1, 2, 3, 4, 5, 6}
CRW2Set == {1, 2}
CEpoch0Set == {0, 2}

C == INSTANCE Checkpointing_apa WITH
       Lens <- CLens, Rets <- CRets, MaxEpsSet <- CMaxEpsSet, ThreshSet <- CThreshSet,
       RW2Set <- CRW2Set, Epoch0Set <- CEpoch0Set, MaxHist <- MAXHIST, EMIT <- FALSE

ConstInit == MAXHIST \in Nat

Init == C!Init
Next == C!Next

----------------------------------------------------------------------------
(* The inductive invariant *)
WindowOpen == pc = "collect" \/ (pc = "release" /\ out.train = 0)    \* the current window goes on
IndInv ==
  /\ pc \in {"config", "collect", "release"}
  /\ eps \in Nat /\ ts \in Nat /\ maxEps \in CMaxEpsSet \cup {1}
  /\ epoch \in Nat /\ out.train \in Nat
  /\ collected \in Nat /\ released \in Nat /\ switches \in Nat /\ n \in Nat /\ n <= MAXHIST
  /\ cfg.maxEps \in CMaxEpsSet \cup {0}
  /\ pc = "config" => /\ collected = 0 /\ released = 0 /\ ts = 0 /\ eps = 0 /\ window = <<>>
                      /\ minRet = C!Big /\ maxEps = 1
  /\ pc # "config" => cfg.maxEps \in CMaxEpsSet /\ maxEps \in {1, cfg.maxEps}   \* the window size never shrinks
  /\ pc # "release" => out = C!NoOut
  /\ C!Conservation
  /\ Len(window) <= maxEps
  (* while the window is open the counters describe it ... *)
  /\ WindowOpen => /\ eps = Len(window) /\ eps < maxEps
                   /\ minRet = IF window = <<>> THEN C!Big ELSE C!WMin(window)
                   /\ (window = <<>>) = (ts = 0)
  (* ... after the call that closed it they are already reset and everything waits in out.train *)
  /\ (pc = "release" /\ out.train > 0) => eps = 0 /\ ts = 0 /\ minRet = C!Big
  /\ \A i \in DOMAIN window : window[i] <= C!Big

(* IndInv as an initial-state predicate; windows hold at most max(MaxEpsSet) = 3 returns *)
IndInit ==
  /\ cfg = Gen(1) /\ out = Gen(1) /\ window = Gen(3)
  /\ pc \in {"config", "collect", "release"}
  /\ eps \in Nat /\ ts \in Nat /\ maxEps \in Nat /\ minRet \in Int /\ bestMin \in Int /\ epoch \in Nat
  /\ collected \in Nat /\ released \in Nat /\ switches \in Nat /\ n \in Nat
  /\ IndInv

----------------------------------------------------------------------------
(* Properties of Checkpointing.tla; the action properties [][A]_vars are checked as action invariants A *)
Conservation == C!Conservation
WindowConsistent == C!WindowConsistent
TrainAllOrNothingStep == C!IsEpisodeEnd => out'.train \in {0, ts + C!LastLen}
ResetAfterReleaseStep ==
  C!IsEpisodeEnd =>
       IF out'.train > 0
         THEN eps' = 0 /\ ts' = 0 /\ minRet' = C!Big
         ELSE eps' = eps + 1 /\ ts' = ts + C!LastLen /\ minRet' = C!WMin(window')
(* the target statement in one formula: what a Release executes is exactly what was collected since *)
(* the previous non-empty release, and the ghost window is emptied by it                            *)
ReleaseExactStep ==
  (pc = "release" /\ pc' = "collect" /\ out.train > 0) =>
     /\ released' = collected /\ released' - released = out.train
     /\ eps' = 0 /\ ts' = 0 /\ minRet' = C!Big /\ window' = <<>>

----------------------------------------------------------------------------
(* non-vacuity: the deviation "counters not reset after a release" of Checkpointing.tla *)
NextNoReset == C!NextNoReset
(* Conservation alone is not inductive (Configure sets the epoch: needs released = 0 in "config") *)
ConservationOnlyInit ==
  /\ cfg = Gen(1) /\ out = Gen(1) /\ window = Gen(3)
  /\ pc \in {"config", "collect", "release"}
  /\ eps \in Nat /\ ts \in Nat /\ maxEps \in Nat /\ minRet \in Int /\ bestMin \in Int /\ epoch \in Nat
  /\ collected \in Nat /\ released \in Nat /\ switches \in Nat /\ n \in Nat
  /\ out.train \in Nat /\ n <= MAXHIST
  /\ C!Conservation
=============================================================================
