---------------------------- MODULE MC_Cadence ----------------------------
(* C20 cadence lemma of spec/Logger.tla as a validity over ALL naturals              *)
(* (the driver c20.py checks it with TLC on I <= 12, steps <= 60 only):              *)
(*                                                                                   *)
(*   \A last, step \in Nat, I \in Nat \ {0} : last <= step =>                        *)
(*        /\ ImplWrapOrGap(last, step, I) <=> Crossing(last, step, I)                *)
(*        /\ Crossing(last, step, I) <=> PassedMultiple(last, step, I)               *)
(*                                                                                   *)
(* One-step specification: Init picks arbitrary integers (no bound), the invariants   *)
(* are the lemma, the bounded checker with --length=0 asks Z3 for a counterexample    *)
(* among ALL initial states.  IFIX = 0: the interval is arbitrary (non-linear         *)
(* div/mod); IFIX = k > 0: the interval is k (linear arithmetic; fallback).           *)
(*                                                                                   *)
(* The five test definitions below are the lines of Logger.tla, verbatim (the runner  *)
(* compares them textually: obligation `defs-in-sync`).                               *)
EXTENDS Integers

CONSTANT
  \* @type: Int;
  IFIX

VARIABLES
  \* @type: Int;
  vlast,
  \* @type: Int;
  vstep,
  \* @type: Int;
  vI,
  \* @type: Int;
  vq        \* an arbitrary candidate multiplier (the bound variable q of PassedMultiple)

Crossing(last, step, I) == (step \div I) > (last \div I)
ImplWrapOrGap(last, step, I) == ((last % I) > (step % I)) \/ ((step - last) >= I)
PassedMultiple(last, step, I) == \E q \in 1..(step \div I) : last < q * I /\ q * I <= step
ModuloOnly(last, step, I) == step % I = 0
ImplGapStrict(last, step, I) == ((last % I) > (step % I)) \/ ((step - last) > I)

Init == /\ vlast \in Nat /\ vstep \in Nat /\ vI \in Nat /\ vq \in Int
        /\ vlast <= vstep /\ vI >= 1
        /\ IFIX > 0 => vI = IFIX
Next == UNCHANGED <<vlast, vstep, vI, vq>>

(* the implementation's wrap-around-or-gap test decides like the floor-crossing test *)
Equiv == ImplWrapOrGap(vlast, vstep, vI) <=> Crossing(vlast, vstep, vI)

(* Crossing <=> PassedMultiple.  Apalache cannot expand 1..(step \div I); the existential is split:   *)
(*  (=>) the witness q = step \div I works;                                                            *)
(*  (<=) for EVERY integer q (vq is arbitrary) in 1..(step \div I) with last < q*I <= step, Crossing.  *)
PassedWitness ==
  Crossing(vlast, vstep, vI) =>
    LET q == vstep \div vI IN q \in 1..(vstep \div vI) /\ vlast < q * vI /\ q * vI <= vstep
PassedOnlyIfCrossing ==
  (vq \in 1..(vstep \div vI) /\ vlast < vq * vI /\ vq * vI <= vstep) => Crossing(vlast, vstep, vI)

(* non-vacuity: the deviations of Logger.tla are NOT equivalent *)
EquivStrictBad == ImplGapStrict(vlast, vstep, vI) <=> Crossing(vlast, vstep, vI)
EquivModuloBad == ModuloOnly(vlast, vstep, vI) <=> Crossing(vlast, vstep, vI)
(* ... and the lemma needs last <= step *)
InitAnyOrder == /\ vlast \in Nat /\ vstep \in Nat /\ vI \in Nat /\ vq \in Int /\ vI >= 1
                /\ IFIX > 0 => vI = IFIX
=============================================================================
