----------------------- MODULE MultiTaskIsolationBad -----------------------
(* Non-vacuity of MultiTaskIsolation.tla: the frame claim WITHOUT `t # sel` (no buffer ever *)
(* changes) is false - Add changes the selected task - and tlapm must fail to prove it.     *)
EXTENDS MultiTask_apa, TLAPS
DomInv == /\ DOMAIN bufs = Tasks /\ DOMAIN hist = Tasks /\ sel \in Tasks
THEOREM DomInv /\ [Next]_vars => \A t \in Tasks : bufs'[t] = bufs[t] /\ hist'[t] = hist[t]
  BY DEF DomInv, Next, vars, Select, SelectInvalid, Add, Route, Sample, LenQuery, Tasks
=============================================================================
