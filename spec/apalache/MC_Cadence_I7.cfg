CONSTANT IFIX = 7
INIT Init
NEXT Next
