CONSTANT CAP = 2
INIT Init
NEXT Next
