--------------------------- MODULE RingFifoLemma ---------------------------
(* TLAPS: the form FifoIncl of MC_Ring.tla (two inclusions, constant quantifier ranges - what *)
(* Apalache can check) is equivalent to Fifo of spec/Ring.tla (set equality over 1..len and   *)
(* (cnt-len+1)..cnt) whenever len \in 0..N, for every N and every store / cnt.                 *)
EXTENDS Ring_apa, TLAPS

FifoIncl ==
  /\ len = Min(cnt, N)
  /\ \A i \in 1..N : i <= len => (cnt - len + 1 <= store[i] /\ store[i] <= cnt)
  /\ \A d \in 0..(N - 1) : d < len => \E i \in 1..N : i <= len /\ store[i] = cnt - d

THEOREM FifoForms ==
  ASSUME N \in Nat, len \in 0..N, cnt \in Int, \A i \in 1..N : store[i] \in Int
  PROVE  FifoIncl <=> Fifo
<1>1. ASSUME FifoIncl PROVE Fifo
  <2>1. len = Min(cnt, N) BY <1>1 DEF FifoIncl
  <2>2. ASSUME NEW i \in 1..len PROVE store[i] \in (cnt - len + 1)..cnt
    <3>1. i \in 1..N /\ i <= len OBVIOUS
    <3>2. cnt - len + 1 <= store[i] /\ store[i] <= cnt BY <1>1, <3>1 DEF FifoIncl
    <3>3. store[i] \in Int BY <3>1
    <3> QED BY <3>2, <3>3
  <2>3. ASSUME NEW k \in (cnt - len + 1)..cnt PROVE \E i \in 1..len : store[i] = k
    <3>2. cnt - k \in 0..(N - 1) /\ cnt - k < len OBVIOUS
    <3>3. PICK i \in 1..N : i <= len /\ store[i] = cnt - (cnt - k) BY <1>1, <3>2 DEF FifoIncl
    <3>4. i \in 1..len BY <3>3
    <3>5. cnt - (cnt - k) = k OBVIOUS
    <3> QED BY <3>3, <3>4, <3>5
  <2>4. {store[i] : i \in 1..len} = (cnt - len + 1)..cnt BY <2>2, <2>3
  <2> QED BY <2>1, <2>4 DEF Fifo
<1>2. ASSUME Fifo PROVE FifoIncl
  <2>1. len = Min(cnt, N) BY <1>2 DEF Fifo
  <2>2. {store[i] : i \in 1..len} = (cnt - len + 1)..cnt BY <1>2 DEF Fifo
  <2>3. ASSUME NEW i \in 1..N, i <= len PROVE cnt - len + 1 <= store[i] /\ store[i] <= cnt
    <3>1. i \in 1..len BY <2>3
    <3>2. store[i] \in (cnt - len + 1)..cnt BY <3>1, <2>2
    <3> QED BY <3>2
  <2>4. ASSUME NEW d \in 0..(N - 1), d < len PROVE \E i \in 1..N : i <= len /\ store[i] = cnt - d
    <3>1. cnt - d \in (cnt - len + 1)..cnt BY <2>4
    <3>2. PICK i \in 1..len : store[i] = cnt - d BY <3>1, <2>2
    <3>3. i \in 1..N /\ i <= len OBVIOUS
    <3> QED BY <3>2, <3>3
  <2> QED BY <2>1, <2>3, <2>4 DEF FifoIncl
<1> QED BY <1>1, <1>2
=============================================================================
