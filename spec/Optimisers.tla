--------------------------- MODULE Optimisers ---------------------------
(* CMA-ES ask/tell state machine of rl_blox.algorithm.cmaes                     *)
(*                                                                              *)
(*   sample_population + Population.create  -> SamplePopulation                 *)
(*   get_next_parameters                    -> Ask                              *)
(*   set_evaluation_feedback                -> Tell(f)                          *)
(*   update_search_distribution             -> Update                           *)
(*                                                                              *)
(* driven with the protocol of train_cmaes (one Tell per Ask, Update followed   *)
(* by a fresh population exactly when it % N = 0).  Fitness values are RANK     *)
(* classes: small integers, +-INF for +-infinity, NAN for not-a-number.         *)
(* Candidates carry identifiers (device D1): the candidate evaluated by the     *)
(* t-th Tell (t = 1, 2, ...) has id t; id 0 is the initial mean.  The search    *)
(* distribution is abstracted to its version `ver` (number of updates) and,     *)
(* right after an update, to the ORDERED selection `sel` of population slots     *)
(* whose weighted sum  sum_r w_r * x[sel[r]]  is the new mean (`neg`: the       *)
(* slots of the negative rank-mu update of active CMA-ES).  The covariance /    *)
(* eigen-decomposition arithmetic is outside the model (OptimisersFacts.tla     *)
(* judges logged predicates about it).                                          *)
EXTENDS Integers, Sequences, FiniteSets, TLC, Json

CONSTANTS N,         \* n_samples_per_update (population size)
          MaxGen,    \* generations explored
          Feed,      \* feedback classes offered to Tell
          Maximize,  \* config.maximize: fitness = -feedback
          Active,    \* config.active: negative update from the Mu worst
          HIST,      \* TRUE: keep the ghost history (property runs)
          EMIT       \* TRUE: print one EMIT record per transition

INF  == 7                        \* +infinity; -INF is -infinity
NAN  == 99                       \* not-a-number: unordered
Mu   == N \div 2                 \* int(n_samples_per_update / 2.0)
Vals == ((-INF)..INF) \cup {NAN}
Slots == 0..(N - 1)

(* feedback class sets (cfg files cannot hold negative numbers) *)
FeedAll    == {-INF, -1, 0, 1, INF, NAN}
FeedMid    == {-INF, 0, 1, INF, NAN}
FeedSmall  == {-INF, 0, 1, NAN}
FeedInfNan == {0, INF, NAN}
FeedFinite == {-1, 0, 1}
FeedTies   == {0, 1}

ASSUME N >= 2 /\ MaxGen >= 1 /\ Feed \subseteq Vals

VARIABLES it,       \* state.it: number of evaluations so far
          fit,      \* population.fitness, fit[k+1] = fitness of slot k
          bestFit,  \* state.best_fitness
          bestId,   \* id of state.best_params (0 = initial mean)
          ver,      \* number of distribution updates (version of mean/cov/var/paths)
          sel,      \* after Update: slots (0-based) of the Mu best in rank order; <<>> otherwise
          neg,      \* after an active Update: slots of the Mu worst, worst first
          phase,    \* "ask" | "boundary" | "resample"
          hist      \* ghost: fitness of candidate id i (only if HIST)

vars == <<it, fit, bestFit, bestId, ver, sel, neg, phase, hist>>
View == [it |-> it, fit |-> fit, bestFit |-> bestFit, bestId |-> bestId,
         ver |-> ver, sel |-> sel, neg |-> neg, phase |-> phase]

Emit(op, args, exp) ==
  EMIT => PrintT(<<"EMIT", ToJson([pre |-> View, op |-> op, args |-> args, exp |-> exp, post |-> View'])>>)

----------------------------------------------------------------------------
(* IEEE order on classes *)
Neg(v)   == IF v = NAN THEN NAN ELSE -v
Le(a, b) == a # NAN /\ b # NAN /\ a <= b       \* float <= : false if either is NaN
Lt(a, b) == a # NAN /\ b # NAN /\ a < b
Key(v)   == IF v = NAN THEN INF + 1 ELSE v     \* sort order of argsort: NaN last

Fit(k) == fit[k + 1]
(* number of slots sorted strictly before slot k by a STABLE ascending sort *)
Before(k) == Cardinality({j \in Slots : \/ Key(Fit(j)) < Key(Fit(k))
                                        \/ (Key(Fit(j)) = Key(Fit(k)) /\ j < k)})
Ranking == [r \in 1..N |-> CHOOSE k \in Slots : Before(k) = r - 1]   \* jnp.argsort(fitness)
BestMu  == [r \in 1..Mu |-> Ranking[r]]                               \* ranking[:mu]
WorstMu == [r \in 1..Mu |-> Ranking[N + 1 - r]]                       \* ranking[::-1][:mu]
FreshFitness == [k \in 1..N |-> INF]                                  \* Population.create

Init == /\ it = 0 /\ fit = FreshFitness
        /\ bestFit = INF /\ bestId = 0
        /\ ver = 0 /\ sel = <<>> /\ neg = <<>>
        /\ phase = "ask" /\ hist = <<>>

(* get_next_parameters: the sample in slot it % N, no state change *)
Ask == /\ phase = "ask"
       /\ UNCHANGED vars
       /\ Emit("Ask", <<>>, [k |-> it % N, id |-> it + 1])

(* set_evaluation_feedback; Accept(v, best) is the incumbent test *)
TellWith(f, Accept(_, _)) ==
  LET k == it % N
      v == IF Maximize THEN Neg(f) ELSE f
  IN /\ phase = "ask" /\ it < N * MaxGen
     /\ fit' = [fit EXCEPT ![k + 1] = v]
     /\ IF Accept(v, bestFit)
          THEN bestFit' = v /\ bestId' = it + 1
          ELSE UNCHANGED <<bestFit, bestId>>
     /\ it' = it + 1
     /\ phase' = IF (it + 1) % N = 0 THEN "boundary" ELSE "ask"
     /\ sel' = <<>> /\ neg' = <<>>
     /\ hist' = IF HIST THEN Append(hist, v) ELSE hist
     /\ UNCHANGED ver
     /\ Emit("Tell", <<f>>, [k |-> k, fitness |-> v])

Tell(f) == TellWith(f, Le)                     \* `if fitness_k <= state.best_fitness`

(* update_search_distribution: rank the evaluated population, recombine *)
UpdateWith(best, worst) ==
  /\ phase = "boundary"
  /\ sel' = best
  /\ neg' = IF Active THEN worst ELSE <<>>
  /\ ver' = ver + 1
  /\ phase' = "resample"
  /\ UNCHANGED <<it, fit, bestFit, bestId, hist>>
  /\ Emit("Update", <<>>, [sel |-> best, neg |-> IF Active THEN worst ELSE <<>>, gen |-> ver + 1])

Update == UpdateWith(BestMu, WorstMu)

(* population = Population.create(sample_population(...)): fresh fitness list *)
SamplePopulation ==
  /\ phase = "resample"
  /\ fit' = FreshFitness
  /\ phase' = "ask"
  /\ UNCHANGED <<it, bestFit, bestId, ver, sel, neg, hist>>
  /\ Emit("Sample", <<>>, [firstId |-> it + 1])

Next == Ask \/ (\E f \in Feed : Tell(f)) \/ Update \/ SamplePopulation
Spec == Init /\ [][Next]_vars

----------------------------------------------------------------------------
(* Properties (C16) *)
TypeOK == /\ it \in 0..(N * MaxGen) /\ fit \in [1..N -> Vals]
          /\ bestFit \in Vals /\ bestId \in 0..(N * MaxGen)
          /\ ver \in 0..MaxGen /\ phase \in {"ask", "boundary", "resample"}

Evaluated == {i \in 1..Len(hist) : hist[i] # NAN}     \* comparable candidates so far

(* the incumbent is an evaluated candidate whose fitness no other evaluated   *)
(* candidate beats; before anything comparable was evaluated it is the        *)
(* initial mean with fitness +inf (needs HIST = TRUE)                          *)
IncumbentIsBestSoFar ==
  IF Evaluated = {} THEN bestFit = INF /\ bestId = 0
  ELSE /\ bestId \in Evaluated /\ hist[bestId] = bestFit
       /\ \A i \in Evaluated : bestFit <= hist[i]
IncumbentNeverNaN == bestFit # NAN
(* `<=`: among equally good candidates the most recent one is reported *)
IncumbentLatestOnTies == \A i \in Evaluated : hist[i] = bestFit => i <= bestId
(* the incumbent never gets worse *)
IncumbentMonotone == [][bestFit' <= bestFit]_vars

(* one update per N evaluations, exactly at the generation boundary *)
UpdateEveryN == /\ ver = (IF phase = "boundary" THEN (it \div N) - 1 ELSE it \div N)
                /\ (phase # "ask" => it % N = 0 /\ it > 0)

Range(s) == {s[r] : r \in 1..Len(s)}
(* the new mean recombines exactly the Mu best-ranked slots, best first (the   *)
(* weights are non-increasing, OptimisersFacts!WeightsOK), NaN ranked worst    *)
MeanIsWeightedBestMu ==
  phase = "resample" =>
    /\ Len(sel) = Mu /\ Cardinality(Range(sel)) = Mu /\ Range(sel) \subseteq Slots
    /\ \A r, s \in 1..Mu : r < s => Key(Fit(sel[r])) <= Key(Fit(sel[s]))
    /\ \A j \in Slots \ Range(sel) : \A r \in 1..Mu : Key(Fit(sel[r])) <= Key(Fit(j))
NegativeUpdateFromWorstMu ==
  (phase = "resample" /\ Active) =>
    /\ Len(neg) = Mu /\ Cardinality(Range(neg)) = Mu /\ Range(neg) \subseteq Slots
    /\ \A r, s \in 1..Mu : r < s => Key(Fit(neg[r])) >= Key(Fit(neg[s]))
    /\ \A j \in Slots \ Range(neg) : \A r \in 1..Mu : Key(Fit(j)) <= Key(Fit(neg[r]))
    /\ Range(neg) \cap Range(sel) = {}
(* a fresh population has no evaluated member *)
FreshPopulationUnevaluated == (phase = "ask" /\ it % N = 0) => fit = FreshFitness

----------------------------------------------------------------------------
(* deviation canaries: realistic wrong variants TLC must refute *)
TellStrict(f)  == TellWith(f, Lt)                         \* `<`: +inf candidates / ties ignored
NanWins(v, b)  == ~(v # NAN /\ b # NAN /\ v > b)          \* `not fitness_k > best`
TellNanWins(f) == TellWith(f, NanWins)
UpdateWorst    == UpdateWith(WorstMu, BestMu)             \* descending sort
TellNoBoundary(f) ==                                      \* boundary tested on it instead of it+1
  LET k == it % N
      v == IF Maximize THEN Neg(f) ELSE f
  IN /\ phase = "ask" /\ it < N * MaxGen
     /\ fit' = [fit EXCEPT ![k + 1] = v]
     /\ IF Le(v, bestFit) THEN bestFit' = v /\ bestId' = it + 1 ELSE UNCHANGED <<bestFit, bestId>>
     /\ it' = it + 1
     /\ phase' = IF it % N = 0 /\ it > 0 THEN "boundary" ELSE "ask"
     /\ sel' = <<>> /\ neg' = <<>>
     /\ hist' = IF HIST THEN Append(hist, v) ELSE hist
     /\ UNCHANGED ver
NextBadStrict   == Ask \/ (\E f \in Feed : TellStrict(f)) \/ Update \/ SamplePopulation
NextBadNan      == Ask \/ (\E f \in Feed : TellNanWins(f)) \/ Update \/ SamplePopulation
NextBadSelect   == Ask \/ (\E f \in Feed : Tell(f)) \/ UpdateWorst \/ SamplePopulation
NextBadBoundary == Ask \/ (\E f \in Feed : TellNoBoundary(f)) \/ Update \/ SamplePopulation
=============================================================================
